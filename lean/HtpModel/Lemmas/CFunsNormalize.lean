/- htp_normalize_uri_path_inplace (the in-place dot-segment remover, RFC 3986 5.2.4 as libhtp does it) as translated from the current
   source (HtpModel/Gen/CFuns.lean) = the functional model `Htp.Decode.normalizePath` for all inputs below 2^63 bytes.

   Representation invariant of the main loop (`Rep` + `Inv`): the write cursor never overtakes the read cursor
   (`wpos + pending ≤ rpos ≤ len`), so the unread part `mem.drop rpos` is still the suffix of the ORIGINAL input (= the model's `rest`),
   and `mem.take wpos` is the model's reversed output; `c = -1` iff the model has no pending character.
   Progress measure: `2 * rest.length + pending` strictly decreases on every turn of the main loop (C and model alike). -/
import HtpModel.Lemmas.CFunsBase
import HtpModel.Lemmas.Normalize
namespace Htp.CFuns.Norm
open Htp Htp.CSem Htp.Gen.C Htp.Gen Htp.Decode
set_option linter.unusedSimpArgs false
set_option linter.unusedVariables false

abbrev St := St_htp_normalize_uri_path_inplace

/-- a state with natural-number cursors -/
abbrev NS (sl : Int) (L r w : Nat) (c : Int) (mem : List Int) : St :=
  { s__len := sl, len := L, rpos := r, wpos := w, c := c, s__mem := mem }

/-! ## 0. general facts: control flow, memory -/

theorem seqS_cont {σ : Type} {a b : Stmt σ} {s s1 : σ} (h : a s = some (.cont s1)) : seqS a b s = some (.cont s1) := by
  unfold seqS; rw [h]

/-- one turn of a loop without increment whose body ends normally or in `continue` -/
theorem whileF_nc {σ : Type} {c : σ → Option Bool} {body : Stmt σ} {s s1 : σ} (n : Nat) (hc : c s = some true)
    (hb : body s = some (.next s1) ∨ body s = some (.cont s1)) :
    whileF c body skipS (n + 1) s = whileF c body skipS n s1 := by
  rcases hb with hb | hb
  · exact whileF_next n hc hb rfl
  · exact whileF_cont n hc hb rfl

theorem byte_eq_iff (a k : UInt8) : ((a.toNat : Int) = (k.toNat : Int)) ↔ a = k := by
  constructor
  · intro h; apply UInt8.toNat_inj.mp; omega
  · intro h; rw [h]

theorem byte_ne_neg1 (a : UInt8) : ¬ ((a.toNat : Int) = -1) := by omega

theorem byte_u8 (a : UInt8) : u8 (a.toNat : Int) = (a.toNat : Int) := by
  have := a.toNat_lt
  rw [u8_id] <;> omega

theorem memOf_length (b : Bytes) : (memOf b).length = b.length := by simp [memOf]

theorem memOf_cons (x : UInt8) (t : Bytes) : memOf (x :: t) = (x.toNat : Int) :: memOf t := rfl

theorem memOf_append (a b : Bytes) : memOf (a ++ b) = memOf a ++ memOf b := by simp [memOf]

theorem rdM_nat (m : List Int) (i : Nat) : rdM m (i : Int) = m[i]? := by
  have : ¬ ((i : Int) < 0) := by omega
  simp [rdM, this]

/-- reading `k` places after the read cursor -/
theorem rdM_drop {m : List Int} {r : Nat} {rest : Bytes} (h : m.drop r = memOf rest) (k : Nat) :
    rdM m ((r + k : Nat) : Int) = (memOf rest)[k]? := by
  rw [rdM_nat, ← h, List.getElem?_drop]

theorem wrM_nat (m : List Int) (i : Nat) (v : Int) (h : i < m.length) : wrM m (i : Int) v = some (m.set i v) := by
  have : ¬ ((i : Int) < 0) := by omega
  simp [wrM, this, h]

/-- the representation: `mem` has the length of the buffer, the unread part is the model's `rest`, the written part its reversed output -/
structure Rep (L : Nat) (mem : List Int) (r w : Nat) (rest out : Bytes) : Prop where
  hlen : mem.length = L
  hr : r ≤ L
  hdrop : mem.drop r = memOf rest
  htake : mem.take w = memOf out.reverse

theorem Rep.rest_len {L : Nat} {mem : List Int} {r w : Nat} {rest out : Bytes} (h : Rep L mem r w rest out) : r + rest.length = L := by
  have := congrArg List.length h.hdrop
  rw [List.length_drop, memOf_length, h.hlen] at this
  have := h.hr
  omega

theorem Rep.out_len {L : Nat} {mem : List Int} {r w : Nat} {rest out : Bytes} (h : Rep L mem r w rest out) (hw : w ≤ L) : out.length = w := by
  have := congrArg List.length h.htake
  rw [List.length_take, memOf_length, h.hlen, List.length_reverse] at this
  omega

/-- moving the read cursor forward -/
theorem Rep.skip {L : Nat} {mem : List Int} {r w : Nat} {rest out : Bytes} (h : Rep L mem r w rest out) (k : Nat) (hk : k ≤ rest.length) :
    Rep L mem (r + k) w (rest.drop k) out := by
  have hl := h.rest_len
  refine ⟨h.hlen, by omega, ?_, h.htake⟩
  have : mem.drop (r + k) = (mem.drop r).drop k := by rw [List.drop_drop]
  rw [this, h.hdrop]; simp [memOf, List.map_drop]

/-- writing one byte at the write cursor (strictly below the read cursor) -/
theorem Rep.write {L : Nat} {mem : List Int} {r w : Nat} {rest out : Bytes} (h : Rep L mem r w rest out) (hw : w < r) (x : UInt8) :
    Rep L (mem.set w (x.toNat : Int)) r (w + 1) rest (x :: out) := by
  have hr := h.hr
  refine ⟨by rw [List.length_set]; exact h.hlen, h.hr, ?_, ?_⟩
  · rw [List.drop_set_of_lt hw]; exact h.hdrop
  · have hwl : w < (mem.set w (x.toNat : Int)).length := by rw [List.length_set, h.hlen]; omega
    rw [List.take_succ_eq_append_getElem hwl, List.take_set_of_le (Nat.le_refl _), h.htake]
    simp [memOf]

/-- the byte just below the write cursor is the head of the reversed output -/
theorem Rep.top {L : Nat} {mem : List Int} {r w : Nat} {rest : Bytes} {x : UInt8} {t : Bytes}
    (h : Rep L mem r (w + 1) rest (x :: t)) (hw : w + 1 ≤ L) :
    mem[w]? = some (x.toNat : Int) ∧ Rep L mem r w rest t := by
  have hwl : w < mem.length := by rw [h.hlen]; omega
  have ht := h.htake
  rw [List.take_succ_eq_append_getElem hwl, List.reverse_cons, memOf_append] at ht
  have hl : [mem[w]].length = (memOf [x]).length := rfl
  obtain ⟨h1, h2⟩ := List.append_inj' ht hl
  refine ⟨?_, h.hlen, h.hr, h.hdrop, h1⟩
  rw [List.getElem?_eq_getElem hwl]
  simp [memOf] at h2
  rw [h2]

/-! ## 1. the inner loops -/

theorem u64_nat (k : Nat) (h : k < 18446744073709551616) : u64 (k : Int) = (k : Int) := by
  rw [u64_id] <;> omega

/-- loop 1 (`while (rpos < len && data[rpos] != '/' && wpos < len) data[wpos++] = data[rpos++]`) is the model's `copySegment`; the
    third condition never decides because the write cursor is not ahead of the read cursor -/
theorem loop1_while (F L : Nat) (hL : L < 9223372036854775808) (sl cI : Int) :
    ∀ (rest out : Bytes) (mem : List Int) (r w n : Nat), Rep L mem r w rest out → w ≤ r → rest.length < n →
      ∃ r' w' mem', whileF (htp_normalize_uri_path_inplace_cond1 F) (htp_normalize_uri_path_inplace_body1 F)
            (htp_normalize_uri_path_inplace_incr1 F) n (NS sl L r w cI mem) = some (.next (NS sl L r' w' cI mem'))
        ∧ Rep L mem' r' w' (copySegment rest out).1 (copySegment rest out).2 ∧ w' ≤ r' := by
  intro rest
  induction rest with
  | nil =>
    intro out mem r w n h hw hn
    obtain ⟨m, rfl⟩ : ∃ m, n = m + 1 := ⟨n - 1, by omega⟩
    have hl := h.rest_len
    have hc : htp_normalize_uri_path_inplace_cond1 F (NS sl L r w cI mem) = some false := by
      have : ¬ ((r : Int) < L) := by simp at hl; omega
      simp [htp_normalize_uri_path_inplace_cond1, andL, this]
    exact ⟨r, w, mem, whileF_exit m hc, by simpa [copySegment] using h, hw⟩
  | cons x t ih =>
    intro out mem r w n h hw hn
    obtain ⟨m, rfl⟩ : ∃ m, n = m + 1 := ⟨n - 1, by omega⟩
    have hl := h.rest_len
    simp only [List.length_cons] at hl hn
    have c1 : ((r : Int) < L) := by omega
    have c3 : ((w : Int) < L) := by omega
    have r0 : rdM mem (r : Int) = some (x.toNat : Int) := by
      have := rdM_drop h.hdrop 0
      simpa [memOf] using this
    have e47 := byte_eq_iff x 0x2f
    simp only [UInt8.toNat_ofNat] at e47
    by_cases hx : x = 0x2f
    · have v : (x.toNat : Int) = 47 := e47.mpr hx
      have hc : htp_normalize_uri_path_inplace_cond1 F (NS sl L r w cI mem) = some false := by
        simp [htp_normalize_uri_path_inplace_cond1, andL, c1, r0, v]
      refine ⟨r, w, mem, whileF_exit m hc, ?_, hw⟩
      simpa [copySegment, hx] using h
    · have v : ¬ ((x.toNat : Int) = 47) := fun e => hx (e47.mp e)
      have hc : htp_normalize_uri_path_inplace_cond1 F (NS sl L r w cI mem) = some true := by
        simp [htp_normalize_uri_path_inplace_cond1, andL, c1, c3, r0, v]
      have hwl : w < mem.length := by rw [h.hlen]; omega
      have hu1 : u64 ((r : Int) + 1) = ((r + 1 : Nat) : Int) := by rw [u64_id] <;> omega
      have hu2 : u64 ((w : Int) + 1) = ((w + 1 : Nat) : Int) := by rw [u64_id] <;> omega
      have hb : htp_normalize_uri_path_inplace_body1 F (NS sl L r w cI mem)
          = some (.next (NS sl L (r + 1) (w + 1) cI (mem.set w (x.toNat : Int)))) := by
        simp only [htp_normalize_uri_path_inplace_body1, assignS, r0, Option.bind_some, wrM_nat mem w _ hwl, Option.map_some, hu1, hu2]
      have hi : htp_normalize_uri_path_inplace_incr1 F (NS sl L (r + 1) (w + 1) cI (mem.set w (x.toNat : Int)))
          = some (.next (NS sl L (r + 1) (w + 1) cI (mem.set w (x.toNat : Int)))) := rfl
      rw [whileF_next m hc hb hi]
      have h1 : Rep L mem (r + 1) w t out := by simpa using h.skip 1 (by simp)
      have h2 := h1.write (by omega) x
      obtain ⟨r', w', mem', hw', hrep, hle⟩ := ih (x :: out) _ (r + 1) (w + 1) m h2 (by omega) (by omega)
      refine ⟨r', w', mem', hw', ?_, hle⟩
      have hx' : (x == 0x2f) = false := by simpa using hx
      simpa [copySegment, hx'] using hrep

/-- loops 2 and 3 (`while (wpos > 0 && data[wpos - 1] != '/') wpos--`) drop the slash-free end of the output -/
theorem loop2_while (F L : Nat) (hL : L < 9223372036854775808) (sl cI : Int) (rest : Bytes) (mem : List Int) (r : Nat) :
    ∀ (out : Bytes) (w n : Nat), Rep L mem r w rest out → w ≤ L → out.length < n →
      ∃ w', whileF (htp_normalize_uri_path_inplace_cond2 F) (htp_normalize_uri_path_inplace_body2 F)
            (htp_normalize_uri_path_inplace_incr2 F) n (NS sl L r w cI mem) = some (.next (NS sl L r w' cI mem))
        ∧ Rep L mem r w' rest (out.dropWhile (· != 0x2f)) ∧ w' ≤ w := by
  intro out
  induction out with
  | nil =>
    intro w n h hw hn
    obtain ⟨m, rfl⟩ : ∃ m, n = m + 1 := ⟨n - 1, by omega⟩
    have hl := h.out_len hw
    simp at hl; subst hl
    have hc : htp_normalize_uri_path_inplace_cond2 F (NS sl L r 0 cI mem) = some false := by
      simp [htp_normalize_uri_path_inplace_cond2, andL]
    exact ⟨0, whileF_exit m hc, by simpa using h, Nat.le_refl _⟩
  | cons x t ih =>
    intro w n h hw hn
    obtain ⟨m, rfl⟩ : ∃ m, n = m + 1 := ⟨n - 1, by omega⟩
    have hl := h.out_len hw
    simp only [List.length_cons] at hl hn
    obtain ⟨w0, rfl⟩ : ∃ w0, w = w0 + 1 := ⟨w - 1, by omega⟩
    obtain ⟨htop, h0⟩ := h.top hw
    have c1 : (((w0 + 1 : Nat) : Int) > 0) := by omega
    have hu : u64 (((w0 + 1 : Nat) : Int) - 1) = (w0 : Int) := by rw [u64_id] <;> omega
    have r0 : rdM mem (w0 : Int) = some (x.toNat : Int) := by rw [rdM_nat]; exact htop
    have e47 := byte_eq_iff x 0x2f
    simp only [UInt8.toNat_ofNat] at e47
    by_cases hx : x = 0x2f
    · have v : (x.toNat : Int) = 47 := e47.mpr hx
      have hc : htp_normalize_uri_path_inplace_cond2 F (NS sl L r (w0 + 1) cI mem) = some false := by
        simp only [htp_normalize_uri_path_inplace_cond2, andL, c1, decide_true, hu, r0, v, Option.bind_some]
        rfl
      refine ⟨w0 + 1, whileF_exit m hc, ?_, Nat.le_refl _⟩
      simpa [List.dropWhile, hx] using h
    · have v : ¬ ((x.toNat : Int) = 47) := fun e => hx (e47.mp e)
      have hc : htp_normalize_uri_path_inplace_cond2 F (NS sl L r (w0 + 1) cI mem) = some true := by
        simp only [htp_normalize_uri_path_inplace_cond2, andL, c1, decide_true, hu, r0, Option.bind_some]
        simp [v]
      have hb : htp_normalize_uri_path_inplace_body2 F (NS sl L r (w0 + 1) cI mem) = some (.next (NS sl L r w0 cI mem)) := by
        simp only [htp_normalize_uri_path_inplace_body2, assignS, hu, Option.map_some]
      have hi : htp_normalize_uri_path_inplace_incr2 F (NS sl L r w0 cI mem) = some (.next (NS sl L r w0 cI mem)) := rfl
      rw [whileF_next m hc hb hi]
      obtain ⟨w', hw', hrep, hle⟩ := ih w0 m h0 (by omega) (by omega)
      refine ⟨w', hw', ?_, by omega⟩
      have hx' : (x != 0x2f) = true := by simpa using hx
      simpa [List.dropWhile, hx'] using hrep

/-- loop 2 with the statements after it (`if (wpos > 0) wpos--; continue`): the model's `dropLastSegment` -/
theorem loop2_eq (F L : Nat) (hL : L < 9223372036854775808) (sl cI : Int) (rest out : Bytes) (mem : List Int) (r w : Nat)
    (h : Rep L mem r w rest out) (hw : w ≤ L) (hF : L < F) :
    ∃ w', htp_normalize_uri_path_inplace_loop2 F (NS sl L r w cI mem) = some (.cont (NS sl L r w' cI mem))
      ∧ Rep L mem r w' rest (dropLastSegment out) ∧ w' ≤ w := by
  have hol := h.out_len hw
  obtain ⟨w1, hw1, hrep, hle⟩ := loop2_while F L hL sl cI rest mem r out w F h hw (by omega)
  unfold htp_normalize_uri_path_inplace_loop2
  rw [seqS_next hw1]
  unfold dropLastSegment
  cases hd : out.dropWhile (· != 0x2f) with
  | nil =>
    rw [hd] at hrep
    have := hrep.out_len (by omega)
    simp at this; subst this
    refine ⟨0, ?_, by simpa using hrep, by omega⟩
    simp [htp_normalize_uri_path_inplace_rest2, seqS, iteS, skipS, contS]
  | cons y t =>
    rw [hd] at hrep
    have := hrep.out_len (by omega)
    simp only [List.length_cons] at this
    obtain ⟨w0, rfl⟩ : ∃ w0, w1 = w0 + 1 := ⟨w1 - 1, by omega⟩
    obtain ⟨_, h0⟩ := hrep.top (by omega)
    have c1 : (((w0 + 1 : Nat) : Int) > 0) := by omega
    have hu : u64 (((w0 + 1 : Nat) : Int) - 1) = (w0 : Int) := by rw [u64_id] <;> omega
    refine ⟨w0, ?_, h0, by omega⟩
    simp only [htp_normalize_uri_path_inplace_rest2, seqS, iteS, skipS, contS, assignS, c1, decide_true, hu, Option.map_some]

theorem loop3_eq_loop2 (F : Nat) : htp_normalize_uri_path_inplace_loop3 F = htp_normalize_uri_path_inplace_loop2 F := rfl

/-! ## 2. the body of the main loop, cut into named pieces (`body4_eq` is `rfl`: the pieces are the translated text) -/

/-- `rpos + 1 < len && data[rpos] == '.' && data[rpos + 1] == '/'` -/
def cDS : St → Option Bool :=
  fun s => (andL ((andL (some (decide ((u64 (s.rpos + 1)) < s.len))) ((rdM s.s__mem s.rpos).bind fun v27 => some (decide (v27 = 46)))).bind fun v28 => some v28) ((rdM s.s__mem (u64 (s.rpos + 1))).bind fun v29 => some (decide (v29 = 47)))).bind fun v30 => some v30
/-- `rpos < len && data[rpos] == '/'` -/
def cS : St → Option Bool :=
  fun s => (andL (some (decide (s.rpos < s.len))) ((rdM s.s__mem s.rpos).bind fun v31 => some (decide (v31 = 47)))).bind fun v32 => some v32
/-- `rpos + 1 == len && data[rpos] == '.'` -/
def cD1 : St → Option Bool :=
  fun s => (andL (some (decide ((u64 (s.rpos + 1)) = s.len))) ((rdM s.s__mem s.rpos).bind fun v25 => some (decide (v25 = 46)))).bind fun v26 => some v26
/-- `rpos + 2 < len && data[rpos] == '.' && data[rpos + 1] == '.' && data[rpos + 2] == '/'` -/
def cDDS : St → Option Bool :=
  fun s => (andL ((andL ((andL (some (decide ((u64 (s.rpos + 2)) < s.len))) ((rdM s.s__mem s.rpos).bind fun v7 => some (decide (v7 = 46)))).bind fun v8 => some v8) ((rdM s.s__mem (u64 (s.rpos + 1))).bind fun v9 => some (decide (v9 = 46)))).bind fun v10 => some v10) ((rdM s.s__mem (u64 (s.rpos + 2))).bind fun v11 => some (decide (v11 = 47)))).bind fun v12 => some v12
/-- `rpos + 2 == len && data[rpos] == '.' && data[rpos + 1] == '.'` -/
def cDD : St → Option Bool :=
  fun s => (andL ((andL (some (decide ((u64 (s.rpos + 2)) = s.len))) ((rdM s.s__mem s.rpos).bind fun v15 => some (decide (v15 = 46)))).bind fun v16 => some v16) ((rdM s.s__mem (u64 (s.rpos + 1))).bind fun v17 => some (decide (v17 = 46)))).bind fun v18 => some v18
/-- `c == '.' && rpos + 1 == len && data[rpos] == '.'` -/
def cE2 : St → Option Bool :=
  fun s => (andL (some ((decide (s.c = 46)) && (decide ((u64 (s.rpos + 1)) = s.len)))) ((rdM s.s__mem s.rpos).bind fun v5 => some (decide (v5 = 46)))).bind fun v6 => some v6

/-- `if (c == -1) c = data[rpos++]` -/
def blkRead : Stmt St :=
  iteS (fun s => some (decide (s.c = (-1))))
    (assignS (fun s => (rdM s.s__mem s.rpos).bind fun v33 => some { s with c := v33, rpos := (u64 (s.rpos + 1)) }))
    (skipS)
/-- rule A: `../` and `./` at the start of a segment -/
def blkA : Stmt St :=
  iteS (fun s => some (decide (s.c = 46)))
    (iteS cDS
    (seqS (assignS (fun s => some { s with c := (-1) }))
    (seqS (assignS (fun s => some { s with rpos := (u64 (s.rpos + 2)) }))
    (contS)))
    (iteS cS
    (seqS (assignS (fun s => some { s with c := (-1) }))
    (seqS (assignS (fun s => some { s with rpos := (u64 (s.rpos + 1)) }))
    (contS)))
    (skipS)))
    (skipS)
/-- rule B: `/./` and a final `/.` -/
def blkB : Stmt St :=
  iteS cDS
    (seqS (assignS (fun s => some { s with c := 47 }))
    (seqS (assignS (fun s => some { s with rpos := (u64 (s.rpos + 2)) }))
    (contS)))
    (iteS cD1
    (seqS (assignS (fun s => some { s with c := 47 }))
    (seqS (assignS (fun s => some { s with rpos := (u64 (s.rpos + 1)) }))
    (contS)))
    (skipS))
/-- rule C: `/../` and a final `/..` -/
def blkC (fuel : Nat) : Stmt St :=
  iteS cDDS
    (seqS (assignS (fun s => some { s with c := 47 }))
    (seqS (assignS (fun s => some { s with rpos := (u64 (s.rpos + 3)) }))
    (htp_normalize_uri_path_inplace_loop2 fuel)))
    (iteS cDD
    (seqS (assignS (fun s => some { s with c := 47 }))
    (seqS (assignS (fun s => some { s with rpos := (u64 (s.rpos + 2)) }))
    (htp_normalize_uri_path_inplace_loop3 fuel)))
    (skipS))
def blkBC (fuel : Nat) : Stmt St :=
  iteS (fun s => some (decide (s.c = 47))) (seqS blkB (blkC fuel)) (skipS)
/-- rule D: a final `.` -/
def blkD1 : Stmt St :=
  iteS (fun s => some ((decide (s.c = 46)) && (decide (s.rpos = s.len))))
    (seqS (assignS (fun s => some { s with rpos := (u64 (s.rpos + 1)) }))
    (contS))
    (skipS)
/-- rule D: a final `..` -/
def blkD2 : Stmt St :=
  iteS cE2
    (seqS (assignS (fun s => some { s with rpos := (u64 (s.rpos + 2)) }))
    (contS))
    (skipS)
/-- rule E: write the pending character, copy the segment -/
def blkE (fuel : Nat) : Stmt St :=
  seqS (assignS (fun s => (wrM s.s__mem s.wpos (u8 s.c)).bind fun m' => some { s with s__mem := m', wpos := (u64 (s.wpos + 1)) }))
    (htp_normalize_uri_path_inplace_loop1 fuel)
/-- everything after the read -/
def blkRules (fuel : Nat) : Stmt St :=
  seqS blkA (seqS (blkBC fuel) (seqS blkD1 (seqS blkD2 (blkE fuel))))

theorem body4_eq (fuel : Nat) : htp_normalize_uri_path_inplace_body4 fuel = seqS blkRead (blkRules fuel) := rfl

/-! ## 3. the model's rules as the chain of tests the C code makes -/

/-- the unread input starts with `./` -/
def pDS : Bytes → Bool | x :: y :: _ => x == 0x2e && y == 0x2f | _ => false
/-- ... starts with `/` -/
def pS : Bytes → Bool | x :: _ => x == 0x2f | _ => false
/-- ... is `.` -/
def pD1 : Bytes → Bool | [x] => x == 0x2e | _ => false
/-- ... starts with `../` -/
def pDDS : Bytes → Bool | x :: y :: z :: _ => x == 0x2e && y == 0x2e && z == 0x2f | _ => false
/-- ... is `..` -/
def pDD : Bytes → Bool | [x, y] => x == 0x2e && y == 0x2e | _ => false

/-- rule E of the model -/
def ruleE (b : UInt8) (rest out : Bytes) : Bytes × Option (Bytes × Option UInt8) :=
  ((copySegment rest (b :: out)).2, some ((copySegment rest (b :: out)).1, none))

theorem pDS_false (rest : Bytes) (h : ∀ more, rest = 0x2e :: 0x2f :: more → False) : pDS rest = false := by
  match rest, h with
  | [], _ => rfl
  | [x], _ => rfl
  | x :: y :: t, h1 =>
    simp only [pDS]
    by_cases hx : x = 0x2e
    · by_cases hy : y = 0x2f
      · subst hx; subst hy; exact absurd rfl (h1 t)
      · simp [hy]
    · simp [hx]

theorem pS_false (rest : Bytes) (h : ∀ more, rest = 0x2f :: more → False) : pS rest = false := by
  match rest, h with
  | [], _ => rfl
  | x :: t, h2 =>
    simp only [pS]
    by_cases hx : x = 0x2f
    · subst hx; exact absurd rfl (h2 t)
    · simp [hx]

theorem pD1_false (rest : Bytes) (h : rest = [0x2e] → False) : pD1 rest = false := by
  match rest, h with
  | [], _ => rfl
  | [x], h4 =>
    simp only [pD1]
    by_cases hx : x = 0x2e
    · subst hx; exact absurd rfl h4
    · simp [hx]
  | x :: y :: t, _ => rfl

theorem pDDS_false (rest : Bytes) (h : ∀ more, rest = 0x2e :: 0x2e :: 0x2f :: more → False) : pDDS rest = false := by
  match rest, h with
  | [], _ => rfl
  | [x], _ => rfl
  | [x, y], _ => rfl
  | x :: y :: z :: t, h1 =>
    simp only [pDDS]
    by_cases hx : x = 0x2e
    · by_cases hy : y = 0x2e
      · by_cases hz : z = 0x2f
        · subst hx; subst hy; subst hz; exact absurd rfl (h1 t)
        · simp [hz]
      · simp [hy]
    · simp [hx]

theorem pDD_false (rest : Bytes) (h : rest = [0x2e, 0x2e] → False) : pDD rest = false := by
  match rest, h with
  | [], _ => rfl
  | [x], _ => rfl
  | [x, y], h1 =>
    simp only [pDD]
    by_cases hx : x = 0x2e
    · by_cases hy : y = 0x2e
      · subst hx; subst hy; exact absurd rfl h1
      · simp [hy]
    · simp [hx]
  | x :: y :: z :: t, _ => rfl

/-- the model's rules for a pending `.` -/
theorem normRules_dot (rest out : Bytes) : normRules 0x2e rest out =
    if pDS rest then (out, some (rest.drop 2, none))
    else if pS rest then (out, some (rest.drop 1, none))
    else if rest.isEmpty then (out, none)
    else if pD1 rest then (out, none)
    else ruleE 0x2e rest out := by
  unfold normRules
  simp only [beq_self_eq_true, if_true]
  split
  · simp [pDS]
  · rename_i more; cases more <;> simp [pDS, pS]
  · simp [pDS, pS]
  · simp [pDS, pS, pD1]
  · rename_i h1 h2 h3 h4
    have e3 : rest.isEmpty = false := by
      cases rest with
      | nil => exact absurd rfl h3
      | cons _ _ => rfl
    simp [pDS_false rest h1, pS_false rest h2, e3, pD1_false rest h4, ruleE]

/-- the model's rules for a pending `/` -/
theorem normRules_slash (rest out : Bytes) : normRules 0x2f rest out =
    if pDS rest then (out, some (rest.drop 2, some 0x2f))
    else if pD1 rest then (out, none)
    else if pDDS rest then (dropLastSegment out, some (rest.drop 3, some 0x2f))
    else if pDD rest then (dropLastSegment out, none)
    else ruleE 0x2f rest out := by
  unfold normRules
  have hne : ((0x2f : UInt8) == 0x2e) = false := by decide
  simp only [hne, beq_self_eq_true, if_true, Bool.false_eq_true, if_false]
  split
  · simp [pDS]
  · simp [pDS, pD1]
  · rename_i more; cases more <;> simp [pDS, pD1, pDDS]
  · simp [pDS, pD1, pDDS, pDD]
  · rename_i h1 h2 h3 h4
    simp [pDS_false rest h1, pD1_false rest h2, pDDS_false rest h3, pDD_false rest h4, ruleE]

/-- the model's rules for any other pending character -/
theorem normRules_other (b : UInt8) (rest out : Bytes) (h1 : b ≠ 0x2e) (h2 : b ≠ 0x2f) : normRules b rest out = ruleE b rest out := by
  unfold normRules
  have e1 : (b == 0x2e) = false := by simpa using h1
  have e2 : (b == 0x2f) = false := by simpa using h2
  simp [e1, e2, ruleE]

/-! ## 4. the tests of the C code, evaluated on a represented state: every read is inside the buffer -/

theorem dec46 (x : UInt8) : decide ((x.toNat : Int) = 46) = (x == 0x2e) := by
  have := byte_eq_iff x 0x2e
  simp only [UInt8.toNat_ofNat] at this
  by_cases h : x = 0x2e
  · simp [h]
  · have h' : ¬ ((x.toNat : Int) = 46) := fun e => h (this.mp e)
    simp [h, h']

theorem dec47 (x : UInt8) : decide ((x.toNat : Int) = 47) = (x == 0x2f) := by
  have := byte_eq_iff x 0x2f
  simp only [UInt8.toNat_ofNat] at this
  by_cases h : x = 0x2f
  · simp [h]
  · have h' : ¬ ((x.toNat : Int) = 47) := fun e => h (this.mp e)
    simp [h, h']

theorem cDS_eval {L : Nat} {mem : List Int} {r w : Nat} {rest out : Bytes} (h : Rep L mem r w rest out) (hL : L < 9223372036854775808)
    (sl cI : Int) : cDS (NS sl L r w cI mem) = some (pDS rest) := by
  have hl := h.rest_len
  have hr := h.hr
  have hu1 : u64 ((r : Int) + 1) = ((r + 1 : Nat) : Int) := by rw [u64_id] <;> omega
  have k0 := rdM_drop h.hdrop 0
  have k1 := rdM_drop h.hdrop 1
  simp only [Nat.add_zero] at k0
  simp only [cDS, hu1, k0, k1]
  match rest, hl with
  | [], hl =>
    have : ¬ ((r : Int) + 1 < L) := by simp at hl; omega
    simp [andL, pDS, this]
  | [x], hl =>
    have : ¬ ((r : Int) + 1 < L) := by simp at hl; omega
    simp [andL, pDS, this]
  | x :: y :: t, hl =>
    have : (((r + 1 : Nat) : Int) < L) := by simp at hl; omega
    simp only [andL, pDS, this, memOf_cons, decide_true, List.getElem?_cons_zero, List.getElem?_cons_succ, Option.bind_some, dec46, dec47]
    cases (x == 0x2e) <;> cases (y == 0x2f) <;> rfl

theorem cS_eval {L : Nat} {mem : List Int} {r w : Nat} {rest out : Bytes} (h : Rep L mem r w rest out) (hL : L < 9223372036854775808)
    (sl cI : Int) : cS (NS sl L r w cI mem) = some (pS rest) := by
  have hl := h.rest_len
  have k0 := rdM_drop h.hdrop 0
  simp only [Nat.add_zero] at k0
  simp only [cS, k0]
  match rest, hl with
  | [], hl =>
    have : ¬ ((r : Int) < L) := by simp at hl; omega
    simp [andL, pS, this]
  | x :: t, hl =>
    have : ((r : Int) < L) := by simp at hl; omega
    simp only [andL, pS, this, memOf_cons, decide_true, List.getElem?_cons_zero, Option.bind_some, dec47]

theorem cD1_eval {L : Nat} {mem : List Int} {r w : Nat} {rest out : Bytes} (h : Rep L mem r w rest out) (hL : L < 9223372036854775808)
    (sl cI : Int) : cD1 (NS sl L r w cI mem) = some (pD1 rest) := by
  have hl := h.rest_len
  have hr := h.hr
  have hu1 : u64 ((r : Int) + 1) = ((r + 1 : Nat) : Int) := by rw [u64_id] <;> omega
  have k0 := rdM_drop h.hdrop 0
  simp only [Nat.add_zero] at k0
  simp only [cD1, hu1, k0]
  match rest, hl with
  | [], hl =>
    have : ¬ ((r : Int) + 1 = L) := by simp at hl; omega
    simp [andL, pD1, this]
  | [x], hl =>
    have : (((r + 1 : Nat) : Int) = L) := by simp at hl; omega
    simp only [andL, pD1, this, memOf_cons, decide_true, List.getElem?_cons_zero, Option.bind_some, dec46]
  | x :: y :: t, hl =>
    have : ¬ ((r : Int) + 1 = L) := by simp at hl; omega
    simp [andL, pD1, this]

theorem cDDS_eval {L : Nat} {mem : List Int} {r w : Nat} {rest out : Bytes} (h : Rep L mem r w rest out) (hL : L < 9223372036854775808)
    (sl cI : Int) : cDDS (NS sl L r w cI mem) = some (pDDS rest) := by
  have hl := h.rest_len
  have hr := h.hr
  have hu1 : u64 ((r : Int) + 1) = ((r + 1 : Nat) : Int) := by rw [u64_id] <;> omega
  have hu2 : u64 ((r : Int) + 2) = ((r + 2 : Nat) : Int) := by rw [u64_id] <;> omega
  have k0 := rdM_drop h.hdrop 0
  have k1 := rdM_drop h.hdrop 1
  have k2 := rdM_drop h.hdrop 2
  simp only [Nat.add_zero] at k0
  simp only [cDDS, hu1, hu2, k0, k1, k2]
  match rest, hl with
  | [], hl =>
    have : ¬ ((r : Int) + 2 < L) := by simp at hl; omega
    simp [andL, pDDS, this]
  | [x], hl =>
    have : ¬ ((r : Int) + 2 < L) := by simp at hl; omega
    simp [andL, pDDS, this]
  | [x, y], hl =>
    have : ¬ ((r : Int) + 2 < L) := by simp at hl; omega
    simp [andL, pDDS, this]
  | x :: y :: z :: t, hl =>
    have : (((r + 2 : Nat) : Int) < L) := by simp at hl; omega
    simp only [andL, pDDS, this, memOf_cons, decide_true, List.getElem?_cons_zero, List.getElem?_cons_succ,
      Option.bind_some, dec46, dec47]
    cases (x == 0x2e) <;> cases (y == 0x2e) <;> cases (z == 0x2f) <;> rfl

theorem cDD_eval {L : Nat} {mem : List Int} {r w : Nat} {rest out : Bytes} (h : Rep L mem r w rest out) (hL : L < 9223372036854775808)
    (sl cI : Int) : cDD (NS sl L r w cI mem) = some (pDD rest) := by
  have hl := h.rest_len
  have hr := h.hr
  have hu1 : u64 ((r : Int) + 1) = ((r + 1 : Nat) : Int) := by rw [u64_id] <;> omega
  have hu2 : u64 ((r : Int) + 2) = ((r + 2 : Nat) : Int) := by rw [u64_id] <;> omega
  have k0 := rdM_drop h.hdrop 0
  have k1 := rdM_drop h.hdrop 1
  simp only [Nat.add_zero] at k0
  simp only [cDD, hu1, hu2, k0, k1]
  match rest, hl with
  | [], hl =>
    have : ¬ ((r : Int) + 2 = L) := by simp at hl; omega
    simp [andL, pDD, this]
  | [x], hl =>
    have : ¬ ((r : Int) + 2 = L) := by simp at hl; omega
    simp [andL, pDD, this]
  | [x, y], hl =>
    have : (((r + 2 : Nat) : Int) = L) := by simp at hl; omega
    simp only [andL, pDD, this, memOf_cons, decide_true, List.getElem?_cons_zero, List.getElem?_cons_succ,
      Option.bind_some, dec46]
    cases (x == 0x2e) <;> cases (y == 0x2e) <;> rfl
  | x :: y :: z :: t, hl =>
    have : ¬ ((r : Int) + 2 = L) := by simp at hl; omega
    simp [andL, pDD, this]

theorem cE2_eval {L : Nat} {mem : List Int} {r w : Nat} {rest out : Bytes} (h : Rep L mem r w rest out) (hL : L < 9223372036854775808)
    (sl cI : Int) : cE2 (NS sl L r w cI mem) = some (decide (cI = 46) && pD1 rest) := by
  have hl := h.rest_len
  have hr := h.hr
  have hu1 : u64 ((r : Int) + 1) = ((r + 1 : Nat) : Int) := by rw [u64_id] <;> omega
  have k0 := rdM_drop h.hdrop 0
  simp only [Nat.add_zero] at k0
  simp only [cE2, hu1, k0]
  match rest, hl with
  | [], hl =>
    have : ¬ ((r : Int) + 1 = L) := by simp at hl; omega
    simp [andL, pD1, this]
  | [x], hl =>
    have : (((r + 1 : Nat) : Int) = L) := by simp at hl; omega
    simp only [andL, pD1, this, memOf_cons, decide_true, List.getElem?_cons_zero, Option.bind_some, dec46,
      Bool.and_true]
    cases (decide (cI = 46)) <;> cases (x == 0x2e) <;> rfl
  | x :: y :: t, hl =>
    have : ¬ ((r : Int) + 1 = L) := by simp at hl; omega
    simp [andL, pD1, this]

/-! ## 5. the pieces of the body on a represented state -/

section blocks
variable {L : Nat} {mem : List Int} {r w : Nat} {rest out : Bytes}

theorem blkA_1 (h : Rep L mem r w rest out) (hL : L < 9223372036854775808) (sl : Int) (p1 : pDS rest = true) :
    blkA (NS sl L r w 46 mem) = some (.cont (NS sl L (r + 2) w (-1) mem)) := by
  have hr := h.hr
  have hu : u64 ((r : Int) + 2) = ((r + 2 : Nat) : Int) := by rw [u64_id] <;> omega
  simp only [blkA, iteS, cDS_eval h hL, p1, seqS, assignS, contS, Option.map_some, hu, decide_true]

theorem blkA_2 (h : Rep L mem r w rest out) (hL : L < 9223372036854775808) (sl : Int) (p1 : pDS rest = false) (p2 : pS rest = true) :
    blkA (NS sl L r w 46 mem) = some (.cont (NS sl L (r + 1) w (-1) mem)) := by
  have hr := h.hr
  have hu : u64 ((r : Int) + 1) = ((r + 1 : Nat) : Int) := by rw [u64_id] <;> omega
  simp only [blkA, iteS, cDS_eval h hL, cS_eval h hL, p1, p2, seqS, assignS, contS, Option.map_some, hu, decide_true]

theorem blkA_3 (h : Rep L mem r w rest out) (hL : L < 9223372036854775808) (sl : Int) (p1 : pDS rest = false) (p2 : pS rest = false) :
    blkA (NS sl L r w 46 mem) = some (.next (NS sl L r w 46 mem)) := by
  simp only [blkA, iteS, cDS_eval h hL, cS_eval h hL, p1, p2, skipS, decide_true]

theorem blkA_4 (sl cI : Int) (hc : cI ≠ 46) : blkA (NS sl L r w cI mem) = some (.next (NS sl L r w cI mem)) := by
  simp [blkA, iteS, skipS, hc]

theorem blkB_1 (h : Rep L mem r w rest out) (hL : L < 9223372036854775808) (sl cI : Int) (p1 : pDS rest = true) :
    blkB (NS sl L r w cI mem) = some (.cont (NS sl L (r + 2) w 47 mem)) := by
  have hr := h.hr
  have hu : u64 ((r : Int) + 2) = ((r + 2 : Nat) : Int) := by rw [u64_id] <;> omega
  simp only [blkB, iteS, cDS_eval h hL, p1, seqS, assignS, contS, Option.map_some, hu]

theorem blkB_2 (h : Rep L mem r w rest out) (hL : L < 9223372036854775808) (sl cI : Int) (p1 : pDS rest = false) (p2 : pD1 rest = true) :
    blkB (NS sl L r w cI mem) = some (.cont (NS sl L (r + 1) w 47 mem)) := by
  have hr := h.hr
  have hu : u64 ((r : Int) + 1) = ((r + 1 : Nat) : Int) := by rw [u64_id] <;> omega
  simp only [blkB, iteS, cDS_eval h hL, cD1_eval h hL, p1, p2, seqS, assignS, contS, Option.map_some, hu]

theorem blkB_3 (h : Rep L mem r w rest out) (hL : L < 9223372036854775808) (sl cI : Int) (p1 : pDS rest = false) (p2 : pD1 rest = false) :
    blkB (NS sl L r w cI mem) = some (.next (NS sl L r w cI mem)) := by
  simp only [blkB, iteS, cDS_eval h hL, cD1_eval h hL, p1, p2, skipS]

theorem blkC_1 (F : Nat) (h : Rep L mem r w rest out) (hL : L < 9223372036854775808) (sl cI : Int) (p1 : pDDS rest = true) :
    blkC F (NS sl L r w cI mem) = htp_normalize_uri_path_inplace_loop2 F (NS sl L (r + 3) w 47 mem) := by
  have hr := h.hr
  have hu : u64 ((r : Int) + 3) = ((r + 3 : Nat) : Int) := by rw [u64_id] <;> omega
  simp only [blkC, iteS, cDDS_eval h hL, p1, seqS, assignS, Option.map_some, hu]

theorem blkC_2 (F : Nat) (h : Rep L mem r w rest out) (hL : L < 9223372036854775808) (sl cI : Int) (p1 : pDDS rest = false) (p2 : pDD rest = true) :
    blkC F (NS sl L r w cI mem) = htp_normalize_uri_path_inplace_loop2 F (NS sl L (r + 2) w 47 mem) := by
  have hr := h.hr
  have hu : u64 ((r : Int) + 2) = ((r + 2 : Nat) : Int) := by rw [u64_id] <;> omega
  simp only [blkC, iteS, cDDS_eval h hL, cDD_eval h hL, p1, p2, seqS, assignS, Option.map_some, hu, loop3_eq_loop2]

theorem blkC_3 (F : Nat) (h : Rep L mem r w rest out) (hL : L < 9223372036854775808) (sl cI : Int) (p1 : pDDS rest = false) (p2 : pDD rest = false) :
    blkC F (NS sl L r w cI mem) = some (.next (NS sl L r w cI mem)) := by
  simp only [blkC, iteS, cDDS_eval h hL, cDD_eval h hL, p1, p2, skipS]

theorem blkBC_skip (F : Nat) (sl cI : Int) (hc : cI ≠ 47) : blkBC F (NS sl L r w cI mem) = some (.next (NS sl L r w cI mem)) := by
  simp [blkBC, iteS, skipS, hc]

theorem blkBC_47 (F : Nat) (sl : Int) : blkBC F (NS sl L r w 47 mem) = seqS blkB (blkC F) (NS sl L r w 47 mem) := by
  simp [blkBC, iteS]

theorem blkD1_1 (h : Rep L mem r w rest out) (hL : L < 9223372036854775808) (sl : Int) (p : rest = []) :
    blkD1 (NS sl L r w 46 mem) = some (.cont (NS sl L (r + 1) w 46 mem)) := by
  have hl := h.rest_len
  have hu : u64 ((r : Int) + 1) = ((r + 1 : Nat) : Int) := by rw [u64_id] <;> omega
  have e : decide ((r : Int) = L) = true := by subst p; simp at hl; simp; omega
  simp only [blkD1, iteS, seqS, assignS, contS, Option.map_some, hu, e, decide_true, Bool.and_self]

theorem blkD1_2 (h : Rep L mem r w rest out) (sl cI : Int) (p : cI ≠ 46 ∨ rest ≠ []) :
    blkD1 (NS sl L r w cI mem) = some (.next (NS sl L r w cI mem)) := by
  have hl := h.rest_len
  have e : ¬ (cI = 46 ∧ (r : Int) = L) := by
    rintro ⟨h1, h2⟩
    rcases p with p | p
    · exact p h1
    · apply p; apply List.eq_nil_of_length_eq_zero; omega
  simp only [blkD1, iteS, skipS]
  by_cases h1 : cI = 46
  · have h2 : ¬ ((r : Int) = L) := fun h2 => e ⟨h1, h2⟩
    simp [h1, h2]
  · simp [h1]

theorem blkD2_1 (h : Rep L mem r w rest out) (hL : L < 9223372036854775808) (sl : Int) (p : pD1 rest = true) :
    blkD2 (NS sl L r w 46 mem) = some (.cont (NS sl L (r + 2) w 46 mem)) := by
  have hr := h.hr
  have hu : u64 ((r : Int) + 2) = ((r + 2 : Nat) : Int) := by rw [u64_id] <;> omega
  simp only [blkD2, iteS, cE2_eval h hL, p, seqS, assignS, contS, Option.map_some, hu, decide_true, Bool.and_self]

theorem blkD2_2 (h : Rep L mem r w rest out) (hL : L < 9223372036854775808) (sl cI : Int) (p : cI ≠ 46 ∨ pD1 rest = false) :
    blkD2 (NS sl L r w cI mem) = some (.next (NS sl L r w cI mem)) := by
  have e : (decide (cI = 46) && pD1 rest) = false := by
    rcases p with p | p
    · simp [p]
    · simp [p]
  simp only [blkD2, iteS, cE2_eval h hL, e, skipS]

end blocks

/-! ## 6. one application of the rules: the C state after it represents what the model's `normRules` returns -/

/-- the C value of the pending character -/
def cval : Option UInt8 → Int | none => -1 | some b => (b.toNat : Int)
def pend : Option UInt8 → Nat | none => 0 | some _ => 1

/-- the representation invariant of the main loop -/
def Inv (L : Nat) (s : St) (rest out : Bytes) (c : Option UInt8) : Prop :=
  ∃ sl r w mem, s = NS sl L r w (cval c) mem ∧ Rep L mem r w rest out ∧ w + pend c ≤ r

/-- the read cursor is at (or one past) the end: the loop is over, with this output -/
def Done (L : Nat) (s : St) (out : Bytes) : Prop :=
  ∃ sl r w cI mem, s = NS sl L r w cI mem ∧ L ≤ r ∧ w ≤ L ∧ mem.length = L ∧ mem.take w = memOf out.reverse

/-- the state represents the result of `normRules` -/
def Post (L : Nat) (s : St) : Bytes × Option (Bytes × Option UInt8) → Prop
  | (out', none) => Done L s out'
  | (out', some (rest', c')) => Inv L s rest' out' c'

theorem pDS_len {rest : Bytes} (h : pDS rest = true) : 2 ≤ rest.length := by
  match rest, h with
  | x :: y :: t, _ => simp
theorem pS_len {rest : Bytes} (h : pS rest = true) : 1 ≤ rest.length := by
  match rest, h with
  | x :: t, _ => simp
theorem pD1_len {rest : Bytes} (h : pD1 rest = true) : rest.length = 1 := by
  match rest, h with
  | [x], _ => rfl
theorem pDDS_len {rest : Bytes} (h : pDDS rest = true) : 3 ≤ rest.length := by
  match rest, h with
  | x :: y :: z :: t, _ => simp
theorem pDD_len {rest : Bytes} (h : pDD rest = true) : rest.length = 2 := by
  match rest, h with
  | [x, y], _ => rfl

section step
variable {L : Nat} {mem : List Int} {r w : Nat} {rest out : Bytes}

/-- rule E: the pending byte is written (below the read cursor) and the segment copied -/
theorem blkE_step (F : Nat) (hL : L < 9223372036854775808) (hF : L < F) (sl : Int) (b : UInt8)
    (h : Rep L mem r w rest out) (hw : w + 1 ≤ r) :
    ∃ s', blkE F (NS sl L r w (b.toNat : Int) mem) = some (.next s') ∧ Post L s' (ruleE b rest out) := by
  have hr := h.hr
  have hl := h.rest_len
  have hwl : w < mem.length := by rw [h.hlen]; omega
  have hu : u64 ((w : Int) + 1) = ((w + 1 : Nat) : Int) := by rw [u64_id] <;> omega
  have e1 : (assignS (fun s : St => (wrM s.s__mem s.wpos (u8 s.c)).bind fun m' => some { s with s__mem := m', wpos := (u64 (s.wpos + 1)) }))
      (NS sl L r w (b.toNat : Int) mem) = some (.next (NS sl L r (w + 1) (b.toNat : Int) (mem.set w (b.toNat : Int)))) := by
    simp only [assignS, byte_u8, wrM_nat mem w _ hwl, Option.bind_some, Option.map_some, hu]
  obtain ⟨r', w', mem', hw', hrep, hle⟩ :=
    loop1_while F L hL sl (b.toNat : Int) rest (b :: out) _ r (w + 1) F (h.write (by omega) b) (by omega) (by omega)
  refine ⟨NS sl L r' w' (-1) mem', ?_, ?_⟩
  · unfold blkE
    rw [seqS_next e1]
    unfold htp_normalize_uri_path_inplace_loop1
    rw [seqS_next hw']
    rfl
  · exact ⟨sl, r', w', mem', rfl, hrep, by simpa [pend] using hle⟩

theorem rules_E (F : Nat) (s : St) (hA : blkA s = some (.next s)) (hBC : blkBC F s = some (.next s)) (h1 : blkD1 s = some (.next s))
    (h2 : blkD2 s = some (.next s)) : blkRules F s = blkE F s := by
  unfold blkRules
  rw [seqS_next hA, seqS_next hBC, seqS_next h1, seqS_next h2]

/-- rules A, D, E: a pending `.` -/
theorem rules_dot (F : Nat) (hL : L < 9223372036854775808) (hF : L < F) (sl : Int)
    (h : Rep L mem r w rest out) (hw : w + 1 ≤ r) :
    ∃ s', (blkRules F (NS sl L r w 46 mem) = some (.next s') ∨ blkRules F (NS sl L r w 46 mem) = some (.cont s'))
      ∧ Post L s' (normRules 0x2e rest out) := by
  have hr := h.hr
  have hl := h.rest_len
  rw [normRules_dot]
  cases p1 : pDS rest with
  | true =>
    have := pDS_len p1
    refine ⟨NS sl L (r + 2) w (-1) mem, Or.inr ?_, ?_⟩
    · unfold blkRules; exact seqS_cont (blkA_1 h hL sl p1)
    · simp only [if_true]
      exact ⟨sl, r + 2, w, mem, rfl, h.skip 2 this, by simp [pend]; omega⟩
  | false =>
    cases p2 : pS rest with
    | true =>
      have := pS_len p2
      refine ⟨NS sl L (r + 1) w (-1) mem, Or.inr ?_, ?_⟩
      · unfold blkRules; exact seqS_cont (blkA_2 h hL sl p1 p2)
      · simp only [Bool.false_eq_true, if_false, if_true]
        exact ⟨sl, r + 1, w, mem, rfl, h.skip 1 this, by simp [pend]; omega⟩
    | false =>
      have hA := blkA_3 h hL sl p1 p2
      have hBC := blkBC_skip (L := L) (mem := mem) (r := r) (w := w) F sl 46 (by decide)
      cases hre : rest with
      | nil =>
        refine ⟨NS sl L (r + 1) w 46 mem, Or.inr ?_, ?_⟩
        · unfold blkRules
          rw [seqS_next hA, seqS_next hBC]
          exact seqS_cont (blkD1_1 h hL sl hre)
        · simp only [Bool.false_eq_true, if_false, if_true, List.isEmpty_nil]
          subst hre
          exact ⟨sl, r + 1, w, 46, mem, rfl, by simp at hl; omega, by omega, h.hlen, h.htake⟩
      | cons x t =>
        have hne : rest ≠ [] := by rw [hre]; simp
        have hD1 := blkD1_2 h sl 46 (Or.inr hne)
        rw [← hre]
        have he : rest.isEmpty = false := by rw [hre]; rfl
        cases p4 : pD1 rest with
        | true =>
          have := pD1_len p4
          refine ⟨NS sl L (r + 2) w 46 mem, Or.inr ?_, ?_⟩
          · unfold blkRules
            rw [seqS_next hA, seqS_next hBC, seqS_next hD1]
            exact seqS_cont (blkD2_1 h hL sl p4)
          · simp only [he, Bool.false_eq_true, if_false, if_true]
            exact ⟨sl, r + 2, w, 46, mem, rfl, by omega, by omega, h.hlen, h.htake⟩
        | false =>
          have hD2 := blkD2_2 h hL sl 46 (Or.inr p4)
          obtain ⟨s', hs', hpost⟩ := blkE_step F hL hF sl 0x2e h hw
          refine ⟨s', Or.inl ?_, ?_⟩
          · rw [rules_E F _ hA hBC hD1 hD2]; exact hs'
          · simp only [he, Bool.false_eq_true, if_false]
            exact hpost

/-- rules B, C, E: a pending `/` -/
theorem rules_slash (F : Nat) (hL : L < 9223372036854775808) (hF : L < F) (sl : Int)
    (h : Rep L mem r w rest out) (hw : w + 1 ≤ r) :
    ∃ s', (blkRules F (NS sl L r w 47 mem) = some (.next s') ∨ blkRules F (NS sl L r w 47 mem) = some (.cont s'))
      ∧ Post L s' (normRules 0x2f rest out) := by
  have hr := h.hr
  have hl := h.rest_len
  rw [normRules_slash]
  have hA := blkA_4 (L := L) (mem := mem) (r := r) (w := w) sl 47 (by decide)
  have hBC := blkBC_47 (L := L) (mem := mem) (r := r) (w := w) F sl
  cases p1 : pDS rest with
  | true =>
    have := pDS_len p1
    refine ⟨NS sl L (r + 2) w 47 mem, Or.inr ?_, ?_⟩
    · unfold blkRules
      rw [seqS_next hA]
      apply seqS_cont
      rw [hBC]
      exact seqS_cont (blkB_1 h hL sl 47 p1)
    · simp only [if_true]
      exact ⟨sl, r + 2, w, mem, rfl, h.skip 2 this, by simp [pend]; omega⟩
  | false =>
    cases p2 : pD1 rest with
    | true =>
      have := pD1_len p2
      refine ⟨NS sl L (r + 1) w 47 mem, Or.inr ?_, ?_⟩
      · unfold blkRules
        rw [seqS_next hA]
        apply seqS_cont
        rw [hBC]
        exact seqS_cont (blkB_2 h hL sl 47 p1 p2)
      · simp only [Bool.false_eq_true, if_false, if_true]
        exact ⟨sl, r + 1, w, 47, mem, rfl, by omega, by omega, h.hlen, h.htake⟩
    | false =>
      have hB := blkB_3 h hL sl 47 p1 p2
      cases p3 : pDDS rest with
      | true =>
        have := pDDS_len p3
        obtain ⟨w', hw', hrep, hle⟩ := loop2_eq F L hL sl 47 (rest.drop 3) out mem (r + 3) w (h.skip 3 this) (by omega) hF
        refine ⟨NS sl L (r + 3) w' 47 mem, Or.inr ?_, ?_⟩
        · unfold blkRules
          rw [seqS_next hA]
          apply seqS_cont
          rw [hBC, seqS_next hB, blkC_1 F h hL sl 47 p3]
          exact hw'
        · simp only [Bool.false_eq_true, if_false, if_true]
          exact ⟨sl, r + 3, w', mem, rfl, hrep, by simp [pend]; omega⟩
      | false =>
        cases p4 : pDD rest with
        | true =>
          have := pDD_len p4
          obtain ⟨w', hw', hrep, hle⟩ := loop2_eq F L hL sl 47 (rest.drop 2) out mem (r + 2) w (h.skip 2 (by omega)) (by omega) hF
          refine ⟨NS sl L (r + 2) w' 47 mem, Or.inr ?_, ?_⟩
          · unfold blkRules
            rw [seqS_next hA]
            apply seqS_cont
            rw [hBC, seqS_next hB, blkC_2 F h hL sl 47 p3 p4]
            exact hw'
          · simp only [Bool.false_eq_true, if_false, if_true]
            exact ⟨sl, r + 2, w', 47, mem, rfl, by omega, by omega, hrep.hlen, hrep.htake⟩
        | false =>
          have hC := blkC_3 F h hL sl 47 p3 p4
          have hBC' : blkBC F (NS sl L r w 47 mem) = some (.next (NS sl L r w 47 mem)) := by
            rw [hBC, seqS_next hB, hC]
          have hD1 := blkD1_2 h sl 47 (Or.inl (by decide))
          have hD2 := blkD2_2 h hL sl 47 (Or.inl (by decide))
          obtain ⟨s', hs', hpost⟩ := blkE_step F hL hF sl 0x2f h hw
          refine ⟨s', Or.inl ?_, ?_⟩
          · rw [rules_E F _ hA hBC' hD1 hD2]; exact hs'
          · simp only [Bool.false_eq_true, if_false]
            exact hpost

/-- rule E: any other pending character -/
theorem rules_other (F : Nat) (hL : L < 9223372036854775808) (hF : L < F) (sl : Int) (b : UInt8) (h1 : b ≠ 0x2e) (h2 : b ≠ 0x2f)
    (h : Rep L mem r w rest out) (hw : w + 1 ≤ r) :
    ∃ s', (blkRules F (NS sl L r w (b.toNat : Int) mem) = some (.next s') ∨ blkRules F (NS sl L r w (b.toNat : Int) mem) = some (.cont s'))
      ∧ Post L s' (normRules b rest out) := by
  rw [normRules_other b rest out h1 h2]
  have e46 := byte_eq_iff b 0x2e
  have e47 := byte_eq_iff b 0x2f
  simp only [UInt8.toNat_ofNat] at e46 e47
  have n46 : (b.toNat : Int) ≠ 46 := fun e => h1 (e46.mp e)
  have n47 : (b.toNat : Int) ≠ 47 := fun e => h2 (e47.mp e)
  have hA := blkA_4 (L := L) (mem := mem) (r := r) (w := w) sl _ n46
  have hBC := blkBC_skip (L := L) (mem := mem) (r := r) (w := w) F sl _ n47
  have hD1 := blkD1_2 h sl _ (Or.inl n46)
  have hD2 := blkD2_2 h hL sl _ (Or.inl n46)
  obtain ⟨s', hs', hpost⟩ := blkE_step F hL hF sl b h hw
  exact ⟨s', Or.inl (by rw [rules_E F _ hA hBC hD1 hD2]; exact hs'), hpost⟩

/-- **one application of the rules**, whatever the pending character is -/
theorem rules_step (F : Nat) (hL : L < 9223372036854775808) (hF : L < F) (sl : Int) (b : UInt8)
    (h : Rep L mem r w rest out) (hw : w + 1 ≤ r) :
    ∃ s', (blkRules F (NS sl L r w (b.toNat : Int) mem) = some (.next s') ∨ blkRules F (NS sl L r w (b.toNat : Int) mem) = some (.cont s'))
      ∧ Post L s' (normRules b rest out) := by
  by_cases h1 : b = 0x2e
  · subst h1; exact rules_dot F hL hF sl h hw
  · by_cases h2 : b = 0x2f
    · subst h2; exact rules_slash F hL hF sl h hw
    · exact rules_other F hL hF sl b h1 h2 h hw

end step

/-! ## 7. progress: `2 * rest.length + pending` decreases -/

theorem ruleE_progress (b : UInt8) (rest out out' rest' : Bytes) (c' : Option UInt8)
    (h : ruleE b rest out = (out', some (rest', c'))) : 2 * rest'.length + pend c' ≤ 2 * rest.length := by
  simp only [ruleE, Prod.mk.injEq, Option.some.injEq] at h
  obtain ⟨_, h2, h3⟩ := h
  subst h3
  rw [← h2, copySegment_eq]
  simp only [pend]
  have := length_dropWhile_le' (· != SL) rest
  omega

theorem normRules_progress (b : UInt8) (rest out out' rest' : Bytes) (c' : Option UInt8)
    (h : normRules b rest out = (out', some (rest', c'))) : 2 * rest'.length + pend c' ≤ 2 * rest.length := by
  by_cases h1 : b = 0x2e
  · subst h1
    rw [normRules_dot] at h
    cases p1 : pDS rest with
    | true =>
      have := pDS_len p1
      simp only [p1, if_true, Prod.mk.injEq, Option.some.injEq] at h
      obtain ⟨_, h2, h3⟩ := h
      subst h2; subst h3; simp [pend]; omega
    | false =>
      cases p2 : pS rest with
      | true =>
        have := pS_len p2
        simp only [p1, p2, Bool.false_eq_true, if_false, if_true, Prod.mk.injEq, Option.some.injEq] at h
        obtain ⟨_, h2, h3⟩ := h
        subst h2; subst h3; simp [pend]; omega
      | false =>
        cases p3 : rest.isEmpty with
        | true => simp [p1, p2, p3] at h
        | false =>
          cases p4 : pD1 rest with
          | true => simp [p1, p2, p3, p4] at h
          | false =>
            simp only [p1, p2, p3, p4, Bool.false_eq_true, if_false] at h
            exact ruleE_progress _ _ _ _ _ _ h
  · by_cases h2 : b = 0x2f
    · subst h2
      rw [normRules_slash] at h
      cases p1 : pDS rest with
      | true =>
        have := pDS_len p1
        simp only [p1, if_true, Prod.mk.injEq, Option.some.injEq] at h
        obtain ⟨_, h2, h3⟩ := h
        subst h2; subst h3; simp [pend]; omega
      | false =>
        cases p2 : pD1 rest with
        | true => simp [p1, p2] at h
        | false =>
          cases p3 : pDDS rest with
          | true =>
            have := pDDS_len p3
            simp only [p1, p2, p3, Bool.false_eq_true, if_false, if_true, Prod.mk.injEq, Option.some.injEq] at h
            obtain ⟨_, h2, h3⟩ := h
            subst h2; subst h3; simp [pend]; omega
          | false =>
            cases p4 : pDD rest with
            | true => simp [p1, p2, p3, p4] at h
            | false =>
              simp only [p1, p2, p3, p4, Bool.false_eq_true, if_false] at h
              exact ruleE_progress _ _ _ _ _ _ h
    · rw [normRules_other b rest out h1 h2] at h
      exact ruleE_progress _ _ _ _ _ _ h

/-! ## 8. the main loop -/

theorem cond4_nat (F : Nat) (sl : Int) (L r w : Nat) (cI : Int) (mem : List Int) :
    htp_normalize_uri_path_inplace_cond4 F (NS sl L r w cI mem) = some (decide ((r : Int) < L) && decide ((w : Int) < L)) := rfl

/-- a finished state leaves the loop -/
theorem done_exit (F L : Nat) (s : St) (out : Bytes) (n : Nat) (h : Done L s out) :
    whileF (htp_normalize_uri_path_inplace_cond4 F) (htp_normalize_uri_path_inplace_body4 F) (htp_normalize_uri_path_inplace_incr4 F)
      (n + 1) s = some (.next s) := by
  obtain ⟨sl, r, w, cI, mem, rfl, hr, _, _, _⟩ := h
  apply whileF_exit
  rw [cond4_nat]
  have : ¬ ((r : Int) < L) := by omega
  simp [this]

/-- what the model applies its rules to: the pending character, or else the next byte of the input -/
def nextRules (c : Option UInt8) (x : UInt8) (t out : Bytes) : Bytes × Option (Bytes × Option UInt8) :=
  match c with
  | none => normRules x t out
  | some b => normRules b (x :: t) out

/-- the body of the main loop on a represented state with unread input: read the next byte unless one is pending, apply the rules -/
theorem body4_step (F L : Nat) (hL : L < 9223372036854775808) (hF : L < F) (s : St) (x : UInt8) (t out : Bytes) (c : Option UInt8)
    (h : Inv L s (x :: t) out c) :
    ∃ s', (htp_normalize_uri_path_inplace_body4 F s = some (.next s') ∨ htp_normalize_uri_path_inplace_body4 F s = some (.cont s'))
      ∧ Post L s' (nextRules c x t out) := by
  obtain ⟨sl, r, w, mem, rfl, hrep, hw⟩ := h
  have hl := hrep.rest_len
  simp only [List.length_cons] at hl
  rw [body4_eq]
  cases c with
  | none =>
    have r0 : rdM mem (r : Int) = some (x.toNat : Int) := by
      have := rdM_drop hrep.hdrop 0
      simpa [memOf] using this
    have hu : u64 ((r : Int) + 1) = ((r + 1 : Nat) : Int) := by rw [u64_id] <;> omega
    have e1 : blkRead (NS sl L r w (cval none) mem) = some (.next (NS sl L (r + 1) w (x.toNat : Int) mem)) := by
      simp only [blkRead, iteS, cval, decide_true, assignS, r0, Option.bind_some, Option.map_some, hu]
    rw [seqS_next e1]
    have h1 : Rep L mem (r + 1) w t out := by simpa using hrep.skip 1 (by simp)
    exact rules_step F hL hF sl x h1 (by simp [pend] at hw; omega)
  | some b =>
    have e1 : blkRead (NS sl L r w (cval (some b)) mem) = some (.next (NS sl L r w (b.toNat : Int) mem)) := by
      have : ¬ ((b.toNat : Int) = -1) := byte_ne_neg1 b
      simp [blkRead, iteS, cval, this, skipS]
    rw [seqS_next e1]
    exact rules_step F hL hF sl b hrep (by simpa [pend] using hw)

/-- **the main loop = the model's `normLoop`**: from a represented state, with enough fuel on both sides, the C loop ends in a state whose
    written part is the model's output -/
theorem main_loop (F L : Nat) (hL : L < 9223372036854775808) (hF : L < F) :
    ∀ (k : Nat) (rest out : Bytes) (c : Option UInt8) (s : St) (n m : Nat), 2 * rest.length + pend c < k → k ≤ n → k ≤ m →
      Inv L s rest out c →
      ∃ s', whileF (htp_normalize_uri_path_inplace_cond4 F) (htp_normalize_uri_path_inplace_body4 F)
              (htp_normalize_uri_path_inplace_incr4 F) n s = some (.next s') ∧ Done L s' (normLoop m rest out c) := by
  intro k
  induction k with
  | zero => intro rest out c s n m hk; omega
  | succ k ih =>
    intro rest out c s n m hk hn hm hinv
    obtain ⟨n, rfl⟩ : ∃ n', n = n' + 1 := ⟨n - 1, by omega⟩
    obtain ⟨m, rfl⟩ : ∃ m', m = m' + 1 := ⟨m - 1, by omega⟩
    cases rest with
    | nil =>
      obtain ⟨sl, r, w, mem, rfl, hrep, hw⟩ := hinv
      have hl := hrep.rest_len
      simp at hl
      have hd : Done L (NS sl L r w (cval c) mem) out := ⟨sl, r, w, cval c, mem, rfl, by omega, by omega, hrep.hlen, hrep.htake⟩
      refine ⟨_, done_exit F L _ out n hd, ?_⟩
      simpa [normLoop] using hd
    | cons x t =>
      obtain ⟨s1, hb, hpost⟩ := body4_step F L hL hF s x t out c hinv
      have hc : htp_normalize_uri_path_inplace_cond4 F s = some true := by
        obtain ⟨sl, r, w, mem, rfl, hrep, hw⟩ := hinv
        have hl := hrep.rest_len
        simp only [List.length_cons] at hl
        rw [cond4_nat]
        have a1 : ((r : Int) < L) := by omega
        have a2 : ((w : Int) < L) := by omega
        simp [a1, a2]
      have hstep : whileF (htp_normalize_uri_path_inplace_cond4 F) (htp_normalize_uri_path_inplace_body4 F)
          (htp_normalize_uri_path_inplace_incr4 F) (n + 1) s
          = whileF (htp_normalize_uri_path_inplace_cond4 F) (htp_normalize_uri_path_inplace_body4 F)
          (htp_normalize_uri_path_inplace_incr4 F) n s1 := whileF_nc n hc hb
      rw [hstep]
      simp only [List.length_cons] at hk
      -- the model's turn
      have hmodel : normLoop (m + 1) (x :: t) out c =
          (match (nextRules c x t out) with
           | (out', none) => out'
           | (out', some (rest'', c')) => normLoop m rest'' out' c') := by
        cases c <;> rfl
      rw [hmodel]
      have hprog : ∀ out' rest'' c', (nextRules c x t out) = (out', some (rest'', c')) →
          2 * rest''.length + pend c' < k := by
        intro out' rest'' c' he
        cases c with
        | none =>
          have := normRules_progress _ _ _ _ _ _ he
          have e : pend none = 0 := rfl
          rw [e] at hk
          omega
        | some b =>
          have := normRules_progress _ _ _ _ _ _ he
          have e : pend (some b) = 1 := rfl
          rw [e] at hk
          simp only [List.length_cons] at this
          omega
      generalize (nextRules c x t out) = res at hpost hprog
      obtain ⟨out', nxt⟩ := res
      cases nxt with
      | none =>
        obtain ⟨n, rfl⟩ : ∃ n', n = n' + 1 := ⟨n - 1, by omega⟩
        exact ⟨s1, done_exit F L s1 out' n hpost, hpost⟩
      | some p =>
        obtain ⟨rest'', c'⟩ := p
        exact ih rest'' out' c' s1 n m (hprog out' rest'' c' rfl) (by omega) (by omega) hpost

end Htp.CFuns.Norm

/-! ## 9. the function -/
namespace Htp.CFuns
open Htp Htp.CSem Htp.Gen.C Htp.Gen Htp.Decode Htp.CFuns.Norm

/-- **htp_normalize_uri_path_inplace, as translated from the current source, is the model's `normalizePath`** for every input below 2^63
    bytes: the function returns, every read and write is inside the buffer, all loops finish within the fuel, the buffer keeps its
    length, and its first `s->len` bytes are the model's output -/
theorem htp_normalize_uri_path_inplace_eq (d : Bytes) (h1 : d.length < 9223372036854775808) (fuel : Nat) (hf : 2 * d.length + 2 < fuel) :
    ∃ s', htp_normalize_uri_path_inplace fuel (memOf d) d.length = some (0, s') ∧
          s'.s__mem.length = d.length ∧
          s'.s__mem.take s'.s__len.toNat = memOf (Htp.Decode.normalizePath d) ∧ 0 ≤ s'.s__len ∧ s'.s__len ≤ d.length := by
  have hinv : Inv d.length (NS d.length d.length 0 0 (-1) (memOf d)) d [] none :=
    ⟨d.length, 0, 0, memOf d, rfl, ⟨memOf_length d, by omega, rfl, rfl⟩, by simp [pend]⟩
  obtain ⟨s1, hloop, hdone⟩ := main_loop fuel d.length h1 (by omega) (2 * d.length + 1) d [] none _ fuel (2 * d.length + 2)
    (by simp [pend]) (by omega) (by omega) hinv
  obtain ⟨sl, r, w, cI, mem, rfl, hr, hw, hlen, htake⟩ := hdone
  refine ⟨NS w d.length r w cI mem, ?_, hlen, ?_, by simp, by simp; omega⟩
  · unfold htp_normalize_uri_path_inplace htp_normalize_uri_path_inplace_stmt htp_normalize_uri_path_inplace_loop4 run
    have e0 : ∀ (a b : Stmt Norm.St) (s : Norm.St), seqS (iteS (fun _ => some false) a skipS) b s = b s := fun a b s => rfl
    rw [e0, e0]
    have e1 : (assignS (fun s : Norm.St => some { s with len := s.s__len })) { s__len := d.length, s__mem := memOf d }
        = some (.next { s__len := d.length, len := d.length, s__mem := memOf d }) := rfl
    rw [seqS_next e1]
    have e2 : (assignS (fun s : Norm.St => some { s with rpos := 0 })) { s__len := d.length, len := d.length, s__mem := memOf d }
        = some (.next { s__len := d.length, len := d.length, s__mem := memOf d }) := rfl
    rw [seqS_next e2]
    have e3 : (assignS (fun s : Norm.St => some { s with wpos := 0 })) { s__len := d.length, len := d.length, s__mem := memOf d }
        = some (.next { s__len := d.length, len := d.length, s__mem := memOf d }) := rfl
    rw [seqS_next e3]
    have e4 : (assignS (fun s : Norm.St => some { s with c := (-1) })) { s__len := d.length, len := d.length, s__mem := memOf d }
        = some (.next (NS d.length d.length 0 0 (-1) (memOf d))) := rfl
    rw [seqS_next e4, seqS_next hloop]
    rfl
  · simp only [Int.toNat_natCast]
    rw [htake]; rfl

/-- the same as one equation: the value returned (the translator's 0 for `void`) and the bytes the bstr holds afterwards -/
theorem htp_normalize_uri_path_inplace_bytes (d : Bytes) (h1 : d.length < 9223372036854775808) (fuel : Nat) (hf : 2 * d.length + 2 < fuel) :
    (htp_normalize_uri_path_inplace fuel (memOf d) d.length).map (fun r => (r.1, r.2.s__mem.take r.2.s__len.toNat))
      = some (0, memOf (Htp.Decode.normalizePath d)) := by
  obtain ⟨s', h, _, ht, _, _⟩ := htp_normalize_uri_path_inplace_eq d h1 fuel hf
  rw [h]; simp [ht]

end Htp.CFuns

#print axioms Htp.CFuns.Norm.loop1_while
#print axioms Htp.CFuns.Norm.loop2_eq
#print axioms Htp.CFuns.Norm.rules_step
#print axioms Htp.CFuns.Norm.main_loop
#print axioms Htp.CFuns.htp_normalize_uri_path_inplace_eq
#print axioms Htp.CFuns.htp_normalize_uri_path_inplace_bytes
