/- The two NUL-skipping bstr primitives as translated from the current source = their models (all inputs):
   * bstr_util_cmp_mem_nocasenorzero = `Bstr.cmpMemNocaseNorzero`: the main loop (NUL bytes of data1 skipped with `continue`) by induction
     over the rest of data1, then the trailing-NUL loop and the final length comparison (`cmp_norzero_trail*`);
   * bstr_util_mem_index_of_mem_nocasenorzero = `Bstr.indexOfMemNocaseNorzero`: the inner loop decides `Bstr.prefixMatchNorzero` (induction over
     the rest of the haystack; the `j--; continue` + for-increment `j++` pair of size_t wraps is the identity, also at `j = 0`), the outer
     loop is `Bstr.indexOfNorzeroAux`.
   Every read inside the arrays; every loop finishes within `len1 + 1` turns. -/
import HtpModel.Lemmas.CFunsBase
namespace Htp.CFuns
open Htp Htp.CSem Htp.Gen.C Htp.Gen

/-! wrap eliminations and character facts -/
theorem u64_succ_nat (p : Nat) (h : p + 1 < 18446744073709551616) : u64 ((p : Int) + 1) = ((p + 1 : Nat) : Int) := by
  rw [u64_id] <;> omega

/-- `j--` then `j++` on a size_t: the identity, also when `j = 0` and the decrement wraps to 2^64-1 -/
theorem u64_pred_succ (j : Nat) (h : j < 18446744073709551616) : u64 (u64 ((j : Int) - 1) + 1) = (j : Int) := by
  unfold u64; omega

theorem u64_pred_succ_zero : u64 (u64 (0 - 1) + 1) = 0 := by decide

theorem tolowerI_toNat' (x : UInt8) : tolowerI (x.toNat : Int) = ((cTolower x).toNat : Int) := by simp [tolowerI]
theorem toupperI_toNat' (x : UInt8) : toupperI (x.toNat : Int) = ((cToupper x).toNat : Int) := by simp [toupperI]

theorem toNat_int_eq_zero (x : UInt8) : ((x.toNat : Int) = 0) ↔ x = 0 := by
  constructor
  · intro h; apply UInt8.toNat_inj.mp; simp; omega
  · intro h; subst h; rfl

/-! ## bstr_util_cmp_mem_nocasenorzero -/

abbrev SZ (d1 d2 : Bytes) (p1 p2 : Nat) : St_bstr_util_cmp_mem_nocasenorzero :=
  { len1 := d1.length, len2 := d2.length, p1 := p1, p2 := p2 }

/-- the trailing-NUL loop and the final comparison, entered with data2 used up -/
theorem cmp_norzero_trail_nil (F : Nat) (d1 d2 : Bytes) (h1 : d1.length < 9223372036854775808) :
    ∀ (a : Bytes) (p1 n : Nat), d1.drop p1 = a → p1 ≤ d1.length → a.length < n →
      retVal (seqS (whileF (bstr_util_cmp_mem_nocasenorzero_cond1 F d1 d2) (bstr_util_cmp_mem_nocasenorzero_body1 F d1 d2)
                (bstr_util_cmp_mem_nocasenorzero_incr1 F d1 d2) n)
              (bstr_util_cmp_mem_nocasenorzero_rest1 F d1 d2) (SZ d1 d2 p1 d2.length))
        = some (Bstr.cmpMemNocaseNorzero a []) := by
  intro a
  induction a with
  | nil =>
    intro p1 n ha hp hn
    obtain ⟨m, rfl⟩ : ∃ m, n = m + 1 := ⟨n - 1, by omega⟩
    have hl := le_of_drop_nil ha
    have e : p1 = d1.length := by omega
    subst e
    have hc : bstr_util_cmp_mem_nocasenorzero_cond1 F d1 d2 (SZ d1 d2 d1.length d2.length) = some false := by
      simp [bstr_util_cmp_mem_nocasenorzero_cond1, andL]
    rw [seqS_next (whileF_exit m hc)]
    simp [bstr_util_cmp_mem_nocasenorzero_rest1, iteS, retS, retVal, Bstr.cmpMemNocaseNorzero]
  | cons x a' ih =>
    intro p1 n ha hp hn
    obtain ⟨m, rfl⟩ : ∃ m, n = m + 1 := ⟨n - 1, by omega⟩
    have hl := lt_of_drop_cons ha
    have c1 : ((p1 : Int) < d1.length) := by omega
    have r1 := rd_of_drop ha
    by_cases hx : x = 0
    · have hx' : ((x.toNat : Int) = 0) := (toNat_int_eq_zero x).mpr hx
      have hc : bstr_util_cmp_mem_nocasenorzero_cond1 F d1 d2 (SZ d1 d2 p1 d2.length) = some true := by
        simp [bstr_util_cmp_mem_nocasenorzero_cond1, andL, c1, r1, hx']
      have hu := u64_succ_nat p1 (by omega)
      have hb : bstr_util_cmp_mem_nocasenorzero_body1 F d1 d2 (SZ d1 d2 p1 d2.length) = some (.next (SZ d1 d2 (p1 + 1) d2.length)) := by
        simp [bstr_util_cmp_mem_nocasenorzero_body1, assignS, hu]
      have hi : bstr_util_cmp_mem_nocasenorzero_incr1 F d1 d2 (SZ d1 d2 (p1 + 1) d2.length)
          = some (.next (SZ d1 d2 (p1 + 1) d2.length)) := rfl
      rw [seqS_congr (whileF_next m hc hb hi)]
      have := ih (p1 + 1) m (drop_succ_of_drop ha) (by omega) (by simp at hn; omega)
      simpa [Bstr.cmpMemNocaseNorzero, hx] using this
    · have hx' : ¬ (x.toNat = 0) := fun e => hx ((toNat_int_eq_zero x).mp (by omega))
      have hc : bstr_util_cmp_mem_nocasenorzero_cond1 F d1 d2 (SZ d1 d2 p1 d2.length) = some false := by
        simp [bstr_util_cmp_mem_nocasenorzero_cond1, andL, c1, r1, hx']
      rw [seqS_next (whileF_exit m hc)]
      have hne : ¬ ((p1 : Int) = d1.length) := by omega
      simp [bstr_util_cmp_mem_nocasenorzero_rest1, iteS, retS, retVal, Bstr.cmpMemNocaseNorzero, hne, hx]

/-- the trailing-NUL loop and the final comparison, entered with data1 used up and data2 not -/
theorem cmp_norzero_trail_short (F : Nat) (d1 d2 : Bytes) (p2 n : Nat) (hp2 : p2 < d2.length) (hn : 0 < n) :
      retVal (seqS (whileF (bstr_util_cmp_mem_nocasenorzero_cond1 F d1 d2) (bstr_util_cmp_mem_nocasenorzero_body1 F d1 d2)
                (bstr_util_cmp_mem_nocasenorzero_incr1 F d1 d2) n)
              (bstr_util_cmp_mem_nocasenorzero_rest1 F d1 d2) (SZ d1 d2 d1.length p2))
        = some (-1) := by
  obtain ⟨m, rfl⟩ : ∃ m, n = m + 1 := ⟨n - 1, by omega⟩
  have hc : bstr_util_cmp_mem_nocasenorzero_cond1 F d1 d2 (SZ d1 d2 d1.length p2) = some false := by
    simp [bstr_util_cmp_mem_nocasenorzero_cond1, andL]
  rw [seqS_next (whileF_exit m hc)]
  have hne : ¬ ((p2 : Int) = d2.length) := by omega
  simp [bstr_util_cmp_mem_nocasenorzero_rest1, iteS, retS, retVal, hne]

/-- the main loop followed by the trailing-NUL loop and the comparison -/
theorem cmp_norzero_loop (F : Nat) (d1 d2 : Bytes) (h1 : d1.length < 9223372036854775808) (h2 : d2.length < 9223372036854775808)
    (hF : d1.length < F) :
    ∀ (a b : Bytes) (p1 p2 n : Nat), d1.drop p1 = a → d2.drop p2 = b → p1 ≤ d1.length → p2 ≤ d2.length → a.length < n →
      retVal (seqS (whileF (bstr_util_cmp_mem_nocasenorzero_cond2 F d1 d2) (bstr_util_cmp_mem_nocasenorzero_body2 F d1 d2)
                (bstr_util_cmp_mem_nocasenorzero_incr2 F d1 d2) n)
              (bstr_util_cmp_mem_nocasenorzero_rest2 F d1 d2) (SZ d1 d2 p1 p2))
        = some (Bstr.cmpMemNocaseNorzero a b) := by
  intro a
  induction a with
  | nil =>
    intro b p1 p2 n ha hb hp1 hp2 hn
    obtain ⟨m, rfl⟩ : ∃ m, n = m + 1 := ⟨n - 1, by omega⟩
    have hl := le_of_drop_nil ha
    have e : p1 = d1.length := by omega
    subst e
    have hc : bstr_util_cmp_mem_nocasenorzero_cond2 F d1 d2 (SZ d1 d2 d1.length p2) = some false := by
      simp [bstr_util_cmp_mem_nocasenorzero_cond2]
    rw [seqS_next (whileF_exit m hc)]
    unfold bstr_util_cmp_mem_nocasenorzero_rest2 bstr_util_cmp_mem_nocasenorzero_loop1
    cases b with
    | nil =>
      have hl2 := le_of_drop_nil hb
      have e2 : p2 = d2.length := by omega
      subst e2
      exact cmp_norzero_trail_nil F d1 d2 h1 [] d1.length F ha (by omega) (by simp; omega)
    | cons y b' =>
      have hl2 := lt_of_drop_cons hb
      rw [cmp_norzero_trail_short F d1 d2 p2 F hl2 (by omega)]
      simp [Bstr.cmpMemNocaseNorzero]
  | cons x a' ih =>
    intro b p1 p2 n ha hb hp1 hp2 hn
    obtain ⟨m, rfl⟩ : ∃ m, n = m + 1 := ⟨n - 1, by omega⟩
    have hl := lt_of_drop_cons ha
    cases b with
    | nil =>
      have hl2 := le_of_drop_nil hb
      have e2 : p2 = d2.length := by omega
      subst e2
      have hc : bstr_util_cmp_mem_nocasenorzero_cond2 F d1 d2 (SZ d1 d2 p1 d2.length) = some false := by
        simp [bstr_util_cmp_mem_nocasenorzero_cond2]
      rw [seqS_next (whileF_exit m hc)]
      unfold bstr_util_cmp_mem_nocasenorzero_rest2 bstr_util_cmp_mem_nocasenorzero_loop1
      exact cmp_norzero_trail_nil F d1 d2 h1 (x :: a') p1 F ha hp1 (by
        have : (x :: a').length ≤ d1.length := by rw [← ha]; simp
        omega)
    | cons y b' =>
      have hl2 := lt_of_drop_cons hb
      have c1 : ((p1 : Int) < d1.length) := by omega
      have c2 : ((p2 : Int) < d2.length) := by omega
      have r1 := rd_of_drop ha
      have r2 := rd_of_drop hb
      have t1 := tolowerI_toNat' x
      have t2 := tolowerI_toNat' y
      have hc : bstr_util_cmp_mem_nocasenorzero_cond2 F d1 d2 (SZ d1 d2 p1 p2) = some true := by
        simp [bstr_util_cmp_mem_nocasenorzero_cond2, c1, c2]
      have hu1 := u64_succ_nat p1 (by omega)
      have hu2 := u64_succ_nat p2 (by omega)
      by_cases hx : x = 0
      · have hx' : ((x.toNat : Int) = 0) := (toNat_int_eq_zero x).mpr hx
        have hb1 : bstr_util_cmp_mem_nocasenorzero_body2 F d1 d2 (SZ d1 d2 p1 p2) = some (.cont (SZ d1 d2 (p1 + 1) p2)) := by
          simp [bstr_util_cmp_mem_nocasenorzero_body2, iteS, seqS, contS, assignS, r1, hx', hu1]
        have hi : bstr_util_cmp_mem_nocasenorzero_incr2 F d1 d2 (SZ d1 d2 (p1 + 1) p2) = some (.next (SZ d1 d2 (p1 + 1) p2)) := rfl
        rw [seqS_congr (whileF_cont m hc hb1 hi)]
        have := ih (y :: b') (p1 + 1) p2 m (drop_succ_of_drop ha) hb (by omega) hp2 (by simp at hn; omega)
        simpa [Bstr.cmpMemNocaseNorzero, hx] using this
      · have hx' : ¬ (x.toNat = 0) := fun e => hx ((toNat_int_eq_zero x).mp (by omega))
        by_cases hxy : cTolower x = cTolower y
        · have hb1 : bstr_util_cmp_mem_nocasenorzero_body2 F d1 d2 (SZ d1 d2 p1 p2) = some (.next (SZ d1 d2 (p1 + 1) (p2 + 1))) := by
            simp [bstr_util_cmp_mem_nocasenorzero_body2, iteS, seqS, skipS, assignS, r1, r2, t1, t2, hx', hu1, hu2, hxy]
          have hi : bstr_util_cmp_mem_nocasenorzero_incr2 F d1 d2 (SZ d1 d2 (p1 + 1) (p2 + 1))
              = some (.next (SZ d1 d2 (p1 + 1) (p2 + 1))) := rfl
          rw [seqS_congr (whileF_next m hc hb1 hi)]
          have := ih b' (p1 + 1) (p2 + 1) m (drop_succ_of_drop ha) (drop_succ_of_drop hb) (by omega) (by omega) (by simp at hn; omega)
          simpa [Bstr.cmpMemNocaseNorzero, hx, hxy] using this
        · have hn' : ¬ (((cTolower x).toNat : Int) = (cTolower y).toNat) := by
            intro e; apply hxy; apply UInt8.toNat_inj.mp; omega
          have hb1 : bstr_util_cmp_mem_nocasenorzero_body2 F d1 d2 (SZ d1 d2 p1 p2)
              = some (.ret (SZ d1 d2 p1 p2) (if cTolower x < cTolower y then -1 else 1)) := by
            simp [bstr_util_cmp_mem_nocasenorzero_body2, iteS, retS, seqS, skipS, r1, r2, t1, t2, hx', hn', UInt8.lt_iff_toNat_lt]
          rw [seqS_ret (whileF_ret m hc hb1)]
          simp [retVal, Bstr.cmpMemNocaseNorzero, hx, hxy]

/-- **bstr_util_cmp_mem_nocasenorzero, as translated from the current source, is the model's `Bstr.cmpMemNocaseNorzero`** for all byte
    strings (below 2^63 bytes), with every read inside the arrays and both loops finished within `len1 + 1` turns each -/
theorem bstr_util_cmp_mem_nocasenorzero_eq (d1 d2 : Bytes) (h1 : d1.length < 9223372036854775808) (h2 : d2.length < 9223372036854775808)
    (fuel : Nat) (hf : d1.length < fuel) :
    (bstr_util_cmp_mem_nocasenorzero fuel d1 d2 d1.length d2.length).map (·.1) = some (Bstr.cmpMemNocaseNorzero d1 d2) := by
  unfold bstr_util_cmp_mem_nocasenorzero
  rw [run_val]
  unfold bstr_util_cmp_mem_nocasenorzero_stmt bstr_util_cmp_mem_nocasenorzero_loop2
  have h0 : seqS (assignS fun s => some { s with p1 := 0 }) (assignS fun s => some { s with p2 := 0 })
      ({ len1 := d1.length, len2 := d2.length } : St_bstr_util_cmp_mem_nocasenorzero) = some (.next (SZ d1 d2 0 0)) := by
    simp [seqS, assignS, SZ]
  rw [seqS_next h0]
  exact cmp_norzero_loop fuel d1 d2 h1 h2 hf d1 d2 0 0 fuel rfl rfl (by omega) (by omega) hf

/-! ## bstr_util_mem_index_of_mem_nocasenorzero -/

abbrev SJ (hay needle : Bytes) (i j k : Nat) : St_bstr_util_mem_index_of_mem_nocasenorzero :=
  { len1 := hay.length, len2 := needle.length, i := i, j := j, k := k }

/-- the inner loop from `(i, j, k)` stops (condition false or `break`) in a state whose `j` is `len2` exactly when the rest of the needle
    matches the rest of the haystack with the haystack's NUL bytes skipped; `i`, `len1`, `len2` are unchanged. On a NUL the body's `j--`
    (wrapping at `j = 0`) is undone by the for-increment's `j++`. -/
theorem index_norzero_inner_loop (F : Nat) (hay needle : Bytes) (h1 : hay.length < 18446744073709551616) (i : Nat) :
    ∀ (a b : Bytes) (j k n : Nat), hay.drop k = a → needle.drop j = b → j ≤ k → j ≤ needle.length → a.length < n →
      ∃ j' k', whileF (bstr_util_mem_index_of_mem_nocasenorzero_cond1 F hay needle) (bstr_util_mem_index_of_mem_nocasenorzero_body1 F hay needle)
                  (bstr_util_mem_index_of_mem_nocasenorzero_incr1 F hay needle) n (SJ hay needle i j k) = some (.next (SJ hay needle i j' k'))
        ∧ (j' = needle.length ↔ Bstr.prefixMatchNorzero a b = true) := by
  intro a
  induction a with
  | nil =>
    intro b j k n ha hb hjk hjl hn
    obtain ⟨m, rfl⟩ : ∃ m, n = m + 1 := ⟨n - 1, by omega⟩
    have hl := le_of_drop_nil ha
    have hc : bstr_util_mem_index_of_mem_nocasenorzero_cond1 F hay needle (SJ hay needle i j k) = some false := by
      have : ¬ ((k : Int) < hay.length) := by omega
      simp [bstr_util_mem_index_of_mem_nocasenorzero_cond1, this]
    refine ⟨j, k, whileF_exit m hc, ?_⟩
    cases b with
    | nil =>
      have hl2 := le_of_drop_nil hb
      simp [Bstr.prefixMatchNorzero]; omega
    | cons y b' =>
      have hl2 := lt_of_drop_cons hb
      simp [Bstr.prefixMatchNorzero]; omega
  | cons x a' ih =>
    intro b j k n ha hb hjk hjl hn
    obtain ⟨m, rfl⟩ : ∃ m, n = m + 1 := ⟨n - 1, by omega⟩
    have hl := lt_of_drop_cons ha
    cases b with
    | nil =>
      have hl2 := le_of_drop_nil hb
      have hc : bstr_util_mem_index_of_mem_nocasenorzero_cond1 F hay needle (SJ hay needle i j k) = some false := by
        have : ¬ ((j : Int) < needle.length) := by omega
        simp [bstr_util_mem_index_of_mem_nocasenorzero_cond1, this]
      refine ⟨j, k, whileF_exit m hc, ?_⟩
      simp [Bstr.prefixMatchNorzero]; omega
    | cons y b' =>
      have hl2 := lt_of_drop_cons hb
      have c1 : ((k : Int) < hay.length) := by omega
      have c2 : ((j : Int) < needle.length) := by omega
      have r1 := rd_of_drop ha
      have r2 := rd_of_drop hb
      have t1 := toupperI_toNat' x
      have t2 := toupperI_toNat' y
      have hc : bstr_util_mem_index_of_mem_nocasenorzero_cond1 F hay needle (SJ hay needle i j k) = some true := by
        simp [bstr_util_mem_index_of_mem_nocasenorzero_cond1, c1, c2]
      have hu2 := u64_succ_nat k (by omega)
      by_cases hx : x = 0
      · have hx' : ((x.toNat : Int) = 0) := (toNat_int_eq_zero x).mpr hx
        have hb1 : bstr_util_mem_index_of_mem_nocasenorzero_body1 F hay needle (SJ hay needle i j k)
            = some (.cont { len1 := hay.length, len2 := needle.length, i := i, j := u64 ((j : Int) - 1), k := k }) := by
          simp [bstr_util_mem_index_of_mem_nocasenorzero_body1, iteS, seqS, contS, assignS, r1, hx']
        have hps := u64_pred_succ j (by omega)
        have hi : bstr_util_mem_index_of_mem_nocasenorzero_incr1 F hay needle { len1 := hay.length, len2 := needle.length, i := i, j := u64 ((j : Int) - 1), k := k }
            = some (.next (SJ hay needle i j (k + 1))) := by
          simp [bstr_util_mem_index_of_mem_nocasenorzero_incr1, seqS, assignS, hps, hu2]
        rw [whileF_cont m hc hb1 hi]
        obtain ⟨j', k', hw, hiff⟩ := ih (y :: b') j (k + 1) m (drop_succ_of_drop ha) hb (by omega) hjl (by simp at hn; omega)
        refine ⟨j', k', hw, ?_⟩
        simpa [Bstr.prefixMatchNorzero, hx] using hiff
      · have hx' : ¬ (x.toNat = 0) := fun e => hx ((toNat_int_eq_zero x).mp (by omega))
        have hu1 := u64_succ_nat j (by omega)
        by_cases hxy : cToupper x = cToupper y
        · have hb1 : bstr_util_mem_index_of_mem_nocasenorzero_body1 F hay needle (SJ hay needle i j k) = some (.next (SJ hay needle i j k)) := by
            simp [bstr_util_mem_index_of_mem_nocasenorzero_body1, iteS, seqS, skipS, r1, r2, t1, t2, hx', hxy]
          have hi : bstr_util_mem_index_of_mem_nocasenorzero_incr1 F hay needle (SJ hay needle i j k) = some (.next (SJ hay needle i (j + 1) (k + 1))) := by
            simp [bstr_util_mem_index_of_mem_nocasenorzero_incr1, seqS, assignS, hu1, hu2]
          rw [whileF_next m hc hb1 hi]
          obtain ⟨j', k', hw, hiff⟩ := ih b' (j + 1) (k + 1) m (drop_succ_of_drop ha) (drop_succ_of_drop hb) (by omega) (by omega)
            (by simp at hn; omega)
          refine ⟨j', k', hw, ?_⟩
          simpa [Bstr.prefixMatchNorzero, Bstr.eqUpper, hx, hxy] using hiff
        · have hn' : ¬ (((cToupper x).toNat : Int) = (cToupper y).toNat) := by
            intro e; apply hxy; apply UInt8.toNat_inj.mp; omega
          have hb1 : bstr_util_mem_index_of_mem_nocasenorzero_body1 F hay needle (SJ hay needle i j k) = some (.brk (SJ hay needle i j k)) := by
            simp [bstr_util_mem_index_of_mem_nocasenorzero_body1, iteS, seqS, skipS, brkS, r1, r2, t1, t2, hx', hn']
          refine ⟨j, k, whileF_brk m hc hb1, ?_⟩
          simp [Bstr.prefixMatchNorzero, Bstr.eqUpper, hx, hxy]; omega

/-- one turn of the outer loop's body at a position `i` holding NUL: `continue` -/
theorem index_norzero_body2_nul (F : Nat) (hay needle : Bytes) (i j k : Nat) (t : Bytes) (hd : hay.drop i = 0 :: t) :
    bstr_util_mem_index_of_mem_nocasenorzero_body2 F hay needle (SJ hay needle i j k) = some (.cont (SJ hay needle i j i)) := by
  have r1 := rd_of_drop hd
  unfold bstr_util_mem_index_of_mem_nocasenorzero_body2
  have e1 : (assignS fun s => some { s with k := s.i }) (SJ hay needle i j k) = some (.next (SJ hay needle i j i)) := rfl
  rw [seqS_next e1]
  simp [seqS, iteS, contS, r1]

/-- one turn of the outer loop's body at a position `i` not holding NUL: `return i` if the needle matches `hay.drop i` with NULs skipped,
    else falls through with `i` unchanged -/
theorem index_norzero_body2 (F : Nat) (hay needle : Bytes) (h1 : hay.length ≤ 2147483648) (hF : hay.length < F) (i j k : Nat)
    (x : UInt8) (t : Bytes) (hd : hay.drop i = x :: t) (hx : x ≠ 0) :
    ∃ j' k', bstr_util_mem_index_of_mem_nocasenorzero_body2 F hay needle (SJ hay needle i j k)
      = (if Bstr.prefixMatchNorzero (hay.drop i) needle then some (.ret (SJ hay needle i j' k') (i : Int))
         else some (.next (SJ hay needle i j' k'))) := by
  have hi := lt_of_drop_cons hd
  obtain ⟨j', k', hw, hiff⟩ := index_norzero_inner_loop F hay needle (by omega) i (hay.drop i) needle 0 i F rfl rfl (by omega) (by omega)
    (by simp; omega)
  refine ⟨j', k', ?_⟩
  have r1 := rd_of_drop hd
  have hx' : ¬ (x.toNat = 0) := fun e => hx ((toNat_int_eq_zero x).mp (by omega))
  have h0 : bstr_util_mem_index_of_mem_nocasenorzero_body2 F hay needle (SJ hay needle i j k)
      = bstr_util_mem_index_of_mem_nocasenorzero_rest1 F hay needle (SJ hay needle i j' k') := by
    unfold bstr_util_mem_index_of_mem_nocasenorzero_body2 bstr_util_mem_index_of_mem_nocasenorzero_loop1
    have e1 : (assignS fun s => some { s with k := s.i }) (SJ hay needle i j k) = some (.next (SJ hay needle i j i)) := rfl
    have e2 : (iteS (fun s => (rd hay s.i).bind fun v4 => some (decide (v4 = 0))) contS skipS) (SJ hay needle i j i)
        = some (.next (SJ hay needle i j i)) := by
      simp [iteS, skipS, r1, hx']
    have e3 : (assignS fun s => some { s with j := 0 }) (SJ hay needle i j i) = some (.next (SJ hay needle i 0 i)) := rfl
    rw [seqS_next e1, seqS_next e2, seqS_next e3, seqS_next hw]
  rw [h0]
  have hi32 : i32 (i : Int) = i := by rw [i32_id] <;> omega
  by_cases hp : Bstr.prefixMatchNorzero (hay.drop i) needle = true
  · have hj := hiff.mpr hp
    subst hj
    simp [bstr_util_mem_index_of_mem_nocasenorzero_rest1, iteS, retS, hp, hi32]
  · have hj : ¬ ((j' : Int) = needle.length) := by
      intro e; apply hp; apply hiff.mp; omega
    simp [bstr_util_mem_index_of_mem_nocasenorzero_rest1, iteS, skipS, hp, hj]

theorem index_norzero_outer_loop (F : Nat) (hay needle : Bytes) (h1 : hay.length ≤ 2147483648) (hF : hay.length < F) :
    ∀ (a : Bytes) (i j k n : Nat), hay.drop i = a → i ≤ hay.length → a.length < n →
      retVal (seqS (whileF (bstr_util_mem_index_of_mem_nocasenorzero_cond2 F hay needle) (bstr_util_mem_index_of_mem_nocasenorzero_body2 F hay needle)
                (bstr_util_mem_index_of_mem_nocasenorzero_incr2 F hay needle) n)
              (bstr_util_mem_index_of_mem_nocasenorzero_rest2 F hay needle) (SJ hay needle i j k))
        = some (match Bstr.indexOfNorzeroAux needle a i with | some r => (r : Int) | none => -1) := by
  intro a
  induction a with
  | nil =>
    intro i j k n ha hi hn
    obtain ⟨m, rfl⟩ : ∃ m, n = m + 1 := ⟨n - 1, by omega⟩
    have hl := le_of_drop_nil ha
    have hc : bstr_util_mem_index_of_mem_nocasenorzero_cond2 F hay needle (SJ hay needle i j k) = some false := by
      have : ¬ ((i : Int) < hay.length) := by omega
      simp [bstr_util_mem_index_of_mem_nocasenorzero_cond2, this]
    rw [seqS_next (whileF_exit m hc)]
    simp [bstr_util_mem_index_of_mem_nocasenorzero_rest2, retS, retVal, Bstr.indexOfNorzeroAux]
  | cons x a' ih =>
    intro i j k n ha hi hn
    obtain ⟨m, rfl⟩ : ∃ m, n = m + 1 := ⟨n - 1, by omega⟩
    have hl := lt_of_drop_cons ha
    have hc : bstr_util_mem_index_of_mem_nocasenorzero_cond2 F hay needle (SJ hay needle i j k) = some true := by
      have : ((i : Int) < hay.length) := by omega
      simp [bstr_util_mem_index_of_mem_nocasenorzero_cond2, this]
    have hu : u64 ((i : Int) + 1) = ((i + 1 : Nat) : Int) := u64_succ_nat i (by omega)
    have hin : ∀ j' k', bstr_util_mem_index_of_mem_nocasenorzero_incr2 F hay needle (SJ hay needle i j' k') = some (.next (SJ hay needle (i + 1) j' k')) := by
      intro j' k'
      simp [bstr_util_mem_index_of_mem_nocasenorzero_incr2, assignS, hu]
    by_cases hx : x = 0
    · subst hx
      have hb := index_norzero_body2_nul F hay needle i j k a' ha
      rw [seqS_congr (whileF_cont m hc hb (hin j i))]
      have := ih (i + 1) j i m (drop_succ_of_drop ha) (by omega) (by simp at hn; omega)
      simpa [Bstr.indexOfNorzeroAux] using this
    · obtain ⟨j', k', hb⟩ := index_norzero_body2 F hay needle h1 hF i j k x a' ha hx
      rw [ha] at hb
      by_cases hp : Bstr.prefixMatchNorzero (x :: a') needle = true
      · rw [if_pos hp] at hb
        rw [seqS_ret (whileF_ret m hc hb)]
        simp [retVal, Bstr.indexOfNorzeroAux, hx, hp]
      · rw [if_neg hp] at hb
        rw [seqS_congr (whileF_next m hc hb (hin j' k'))]
        have := ih (i + 1) j' k' m (drop_succ_of_drop ha) (by omega) (by simp at hn; omega)
        simpa [Bstr.indexOfNorzeroAux, hx, hp] using this

/-- **bstr_util_mem_index_of_mem_nocasenorzero, as translated from the current source, is the model's `Bstr.indexOfMemNocaseNorzero`**
    (`-1` for "not found") for every haystack of at most 2^31 bytes (so that `(int) i` is `i`) and every needle, with every read inside the
    arrays and both loops finished within `len1 + 1` turns -/
theorem bstr_util_mem_index_of_mem_nocasenorzero_eq (hay needle : Bytes) (h1 : hay.length ≤ 2147483648) (fuel : Nat)
    (hf : hay.length < fuel) :
    (bstr_util_mem_index_of_mem_nocasenorzero fuel hay needle hay.length needle.length).map (·.1)
      = some (match Bstr.indexOfMemNocaseNorzero hay needle with | some i => (i : Int) | none => -1) := by
  unfold bstr_util_mem_index_of_mem_nocasenorzero
  rw [run_val]
  unfold bstr_util_mem_index_of_mem_nocasenorzero_stmt bstr_util_mem_index_of_mem_nocasenorzero_loop2
  have h0 : (assignS fun s => some { s with i := 0 })
      ({ len1 := hay.length, len2 := needle.length } : St_bstr_util_mem_index_of_mem_nocasenorzero) = some (.next (SJ hay needle 0 0 0)) := by
    simp [assignS, SJ]
  rw [seqS_next h0]
  exact index_norzero_outer_loop fuel hay needle h1 hf hay 0 0 0 fuel rfl (by omega) hf

end Htp.CFuns
