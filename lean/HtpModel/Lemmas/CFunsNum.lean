/- The number parsers as translated from the current source = the hand-written models (all inputs):
   bstr_util_mem_to_pint = Bstr.memToPint (value and *lastlen; the int64 stores never wrap because of the overflow guard),
   htp_parse_positive_integer_whitespace = Num.parsePositiveIntegerWhitespace, htp_parse_port = Num.parsePort. -/
import HtpModel.Lemmas.CFunsBase
namespace Htp.CFuns
open Htp Htp.CSem Htp.Gen.C Htp.Gen

/-! ## bstr_util_mem_to_pint -/

/-- value returned and `*lastlen` at the return -/
def retVL (r : Option (Ctl St_bstr_util_mem_to_pint)) : Option (Int × Int) :=
  match r with
  | some (.ret s v) => some (v, s.lastlen)
  | _ => none

theorem run_vl (body : Stmt St_bstr_util_mem_to_pint) (s : St_bstr_util_mem_to_pint) :
    (run body s).map (fun r => (r.1, r.2.lastlen)) = retVL (body s) := by
  unfold run retVL
  split <;> simp_all

def rvalOf : Option Nat → Int
  | some r => (r : Int)
  | none => 0
def tflagOf : Option Nat → Int
  | some _ => 1
  | none => 0

/-- the C digit value of a byte (`-1`: not a digit in any base) -/
def dval (x : UInt8) : Int :=
  match Bstr.digitVal x with
  | some k => (k : Int)
  | none => -1

abbrev SP (d : Bytes) (base : Nat) (l : Int) (p : Nat) (acc : Option Nat) (dd : Int) : St_bstr_util_mem_to_pint :=
  { len := d.length, base := base, lastlen := l, rval := rvalOf acc, tflag := tflagOf acc, i := p, d := dd }

theorem digitVal_le {x : UInt8} {k : Nat} (h : Bstr.digitVal x = some k) : k ≤ 200 := by
  have := UInt8.toNat_lt x
  unfold Bstr.digitVal at h
  split at h
  · cases h; omega
  · split at h
    · cases h; omega
    · split at h
      · cases h; omega
      · cases h

/-- the first three statements of the loop body: read the byte, `*lastlen = i`, classify the digit -/
theorem pint_body_pre (d junk : Bytes) (base : Nat) (l : Int) (p : Nat) (acc : Option Nat) (dd : Int) (x : UInt8)
    (hr : rd (d ++ junk) (p : Int) = some (x.toNat : Int)) (K : Stmt St_bstr_util_mem_to_pint) :
    seqS (assignS (fun s => (rd (d ++ junk) s.i).bind fun v1 => some { s with d := v1 }))
      (seqS (assignS (fun s => some { s with lastlen := s.i }))
      (seqS (iteS (fun s => some ((decide (s.d ≥ 48)) && (decide (s.d ≤ 57))))
      (assignS (fun s => some { s with d := (i32 (s.d - 48)) }))
      (iteS (fun s => some ((decide (s.d ≥ 97)) && (decide (s.d ≤ 122))))
      (assignS (fun s => some { s with d := (i32 (s.d - (97 - 10))) }))
      (iteS (fun s => some ((decide (s.d ≥ 65)) && (decide (s.d ≤ 90))))
      (assignS (fun s => some { s with d := (i32 (s.d - (65 - 10))) }))
      (assignS (fun s => some { s with d := (-1) })))))
      K)) (SP d base l p acc dd) = K (SP d base p p acc (dval x)) := by
  have hx := UInt8.toNat_lt x
  unfold dval Bstr.digitVal
  by_cases h1 : 48 ≤ x.toNat ∧ x.toNat ≤ 57
  · have e : i32 ((x.toNat : Int) - 48) = ((x.toNat - 48 : Nat) : Int) := by rw [i32_id] <;> omega
    have b1 : (decide ((48 : Int) ≤ x.toNat) && decide ((x.toNat : Int) ≤ 57)) = true := by simp; omega
    simp [seqS, assignS, iteS, SP, hr, h1, e, b1]
  · have b1 : (decide ((48 : Int) ≤ x.toNat) && decide ((x.toNat : Int) ≤ 57)) = false := by
      rw [Bool.eq_false_iff]; simp; omega
    by_cases h2 : 97 ≤ x.toNat ∧ x.toNat ≤ 122
    · have e : i32 ((x.toNat : Int) - 87) = ((x.toNat - 87 : Nat) : Int) := by rw [i32_id] <;> omega
      have b2 : (decide ((97 : Int) ≤ x.toNat) && decide ((x.toNat : Int) ≤ 122)) = true := by simp; omega
      simp [seqS, assignS, iteS, SP, hr, h1, h2, e, b1, b2]
    · have b2 : (decide ((97 : Int) ≤ x.toNat) && decide ((x.toNat : Int) ≤ 122)) = false := by
        rw [Bool.eq_false_iff]; simp; omega
      by_cases h3 : 65 ≤ x.toNat ∧ x.toNat ≤ 90
      · have e : i32 ((x.toNat : Int) - 55) = ((x.toNat - 55 : Nat) : Int) := by rw [i32_id] <;> omega
        have b3 : (decide ((65 : Int) ≤ x.toNat) && decide ((x.toNat : Int) ≤ 90)) = true := by simp; omega
        simp [seqS, assignS, iteS, SP, hr, h1, h2, h3, e, b1, b2, b3]
      · have b3 : (decide ((65 : Int) ≤ x.toNat) && decide ((x.toNat : Int) ≤ 90)) = false := by
          rw [Bool.eq_false_iff]; simp; omega
        simp [seqS, assignS, iteS, SP, hr, h1, h2, h3, b1, b2, b3]

/-- the overflow guard in exact arithmetic: when it does not fire the new value fits in an int64 -/
theorem guard_fits {r k base : Nat} (hk : k ≤ INT64_MAX') (h : ¬ ((INT64_MAX' - k) / base < r)) : r * base + k ≤ INT64_MAX' := by
  have h1 : r ≤ (INT64_MAX' - k) / base := by omega
  have h2 := Nat.mul_le_mul_right base h1
  have h3 := Nat.div_mul_le_self (INT64_MAX' - k) base
  omega

/-- the guard as the C evaluates it (`/` on int64 truncates) is the guard of the model -/
theorem guard_tdiv {k base : Nat} (hk : k ≤ 200) :
    Int.tdiv (9223372036854775807 - (k : Int)) (base : Int) = ((INT64_MAX' - k : Nat) : Int) / (base : Int) := by
  have : (9223372036854775807 - (k : Int)) = ((INT64_MAX' - k : Nat) : Int) := by unfold INT64_MAX'; omega
  rw [this, ← Int.ofNat_tdiv, Int.natCast_ediv]

theorem guard_cast {k base r : Nat} :
    (((INT64_MAX' - k : Nat) : Int) / (base : Int) < (r : Int)) ↔ ((INT64_MAX' - k) / base < r) := by
  rw [← Int.natCast_ediv]; omega

/-- the two int64 stores of a turn keep the exact value when it fits -/
theorem i64_stores {r k base : Nat} (hfit : r * base + k ≤ INT64_MAX') :
    i64 ((r : Int) * (base : Int)) = (r : Int) * (base : Int) ∧
    i64 ((r : Int) * (base : Int) + (k : Int)) = (r : Int) * (base : Int) + (k : Int) := by
  unfold INT64_MAX' at hfit
  have h0 : (0 : Int) ≤ (r : Int) * (base : Int) := by rw [← Int.natCast_mul]; omega
  have h1 : (r : Int) * (base : Int) + (k : Int) ≤ 9223372036854775807 := by rw [← Int.natCast_mul]; omega
  constructor
  · rw [i64_id] <;> omega
  · rw [i64_id] <;> omega

def accOk (acc : Option Nat) : Prop := ∀ r, acc = some r → r ≤ INT64_MAX'

theorem rd_append_of_drop {d junk : Bytes} {p : Nat} {x : UInt8} {t : Bytes} (h : d.drop p = x :: t) :
    rd (d ++ junk) (p : Int) = some (x.toNat : Int) := by
  have hp := lt_of_drop_cons h
  apply rd_of_drop (t := t ++ junk)
  rw [List.drop_append_of_le_length (by omega), h]; rfl

theorem pint_loop (F : Nat) (d junk : Bytes) (base : Nat) (hd : d.length < 9223372036854775808) :
    ∀ (a : Bytes) (p n : Nat) (acc : Option Nat) (l dd : Int), d.drop p = a → p ≤ d.length → a.length < n → accOk acc →
      retVL (seqS (whileF (bstr_util_mem_to_pint_cond1 F (d ++ junk)) (bstr_util_mem_to_pint_body1 F (d ++ junk)) (bstr_util_mem_to_pint_incr1 F (d ++ junk)) n)
              (bstr_util_mem_to_pint_rest1 F (d ++ junk)) (SP d base l p acc dd))
        = some ((Bstr.pintLoop base a p acc).1, ((Bstr.pintLoop base a p acc).2 : Int)) := by
  intro a
  induction a with
  | nil =>
    intro p n acc l dd ha hp hn hacc
    obtain ⟨m, rfl⟩ : ∃ m, n = m + 1 := ⟨n - 1, by omega⟩
    have hl := le_of_drop_nil ha
    have hpe : (p : Int) = d.length := by omega
    have hc : bstr_util_mem_to_pint_cond1 F (d ++ junk) (SP d base l p acc dd) = some false := by
      simp [bstr_util_mem_to_pint_cond1, hpe]
    rw [seqS_next (whileF_exit m hc)]
    have hu : u64 ((p : Int) + 1) = ((p + 1 : Nat) : Int) := by rw [u64_id] <;> omega
    cases acc <;> simp [bstr_util_mem_to_pint_rest1, seqS, assignS, retS, retVL, hu, Bstr.pintLoop, rvalOf]
  | cons x a' ih =>
    intro p n acc l dd ha hp hn hacc
    obtain ⟨m, rfl⟩ : ∃ m, n = m + 1 := ⟨n - 1, by omega⟩
    have hl := lt_of_drop_cons ha
    have hr : rd (d ++ junk) (p : Int) = some (x.toNat : Int) := rd_append_of_drop ha
    have hc : bstr_util_mem_to_pint_cond1 F (d ++ junk) (SP d base l p acc dd) = some true := by
      have c1 : ((p : Int) < d.length) := by omega
      simp [bstr_util_mem_to_pint_cond1, c1]
    have hu : u64 ((p : Int) + 1) = ((p + 1 : Nat) : Int) := by rw [u64_id] <;> omega
    have hi : ∀ acc' dd', bstr_util_mem_to_pint_incr1 F (d ++ junk) (SP d base p p acc' dd') = some (.next (SP d base p (p + 1) acc' dd')) := by
      intro acc' dd'
      simp [bstr_util_mem_to_pint_incr1, assignS, SP, hu]
    cases hdv : Bstr.digitVal x with
    | none =>
      have hdv' : dval x = -1 := by simp [dval, hdv]
      have hb1 : bstr_util_mem_to_pint_body1 F (d ++ junk) (SP d base l p acc dd)
          = some (.ret (SP d base p p acc (-1)) (match acc with | some r => (r : Int) | none => -1)) := by
        unfold bstr_util_mem_to_pint_body1
        rw [pint_body_pre d junk base l p acc dd x hr, hdv']
        cases acc <;> simp [seqS, iteS, retS, SP, rvalOf, tflagOf]
      rw [seqS_ret (whileF_ret m hc hb1)]
      cases acc <;> simp [retVL, Bstr.pintLoop, hdv]
    | some k =>
      have hdv' : dval x = (k : Int) := by simp [dval, hdv]
      have hk := digitVal_le hdv
      by_cases hkb : k ≥ base
      · have c1 : ((base : Int) ≤ k) := by omega
        have hb1 : bstr_util_mem_to_pint_body1 F (d ++ junk) (SP d base l p acc dd)
            = some (.ret (SP d base p p acc k) (match acc with | some r => (r : Int) | none => -1)) := by
          unfold bstr_util_mem_to_pint_body1
          rw [pint_body_pre d junk base l p acc dd x hr, hdv']
          cases acc <;> simp [seqS, iteS, retS, SP, rvalOf, tflagOf, c1]
        rw [seqS_ret (whileF_ret m hc hb1)]
        cases acc <;> simp [retVL, Bstr.pintLoop, hdv, hkb]
      · have c1 : ¬ ((base : Int) ≤ k) := by omega
        have c2 : ¬ ((k : Int) = -1) := by omega
        cases acc with
        | none =>
          have hb1 : bstr_util_mem_to_pint_body1 F (d ++ junk) (SP d base l p none dd) = some (.next (SP d base p p (some k) k)) := by
            unfold bstr_util_mem_to_pint_body1
            rw [pint_body_pre d junk base l p none dd x hr, hdv']
            simp [seqS, iteS, skipS, assignS, SP, rvalOf, tflagOf, c1, c2]
          rw [seqS_congr (whileF_next m hc hb1 (hi _ _))]
          have hok : accOk (some k) := by intro r e; cases e; unfold INT64_MAX'; omega
          have := ih (p + 1) m (some k) p k (drop_succ_of_drop ha) (by omega) (by simp at hn; omega) hok
          simpa [Bstr.pintLoop, hdv, hkb] using this
        | some r =>
          have hr64 := hacc r rfl
          have hg := guard_tdiv (base := base) hk
          by_cases hov : (INT64_MAX' - k) / base < r
          · have c3 := (guard_cast (k := k) (base := base) (r := r)).mpr hov
            have hb1 : bstr_util_mem_to_pint_body1 F (d ++ junk) (SP d base l p (some r) dd) = some (.ret (SP d base p p (some r) k) (-2)) := by
              unfold bstr_util_mem_to_pint_body1
              rw [pint_body_pre d junk base l p (some r) dd x hr, hdv']
              simp [seqS, iteS, retS, skipS, SP, rvalOf, tflagOf, c1, c2, hg, c3]
            rw [seqS_ret (whileF_ret m hc hb1)]
            simp [retVL, Bstr.pintLoop, hdv, hkb, hov]
          · have c3 : ¬ (((INT64_MAX' - k : Nat) : Int) / (base : Int) < (r : Int)) := fun h => hov (guard_cast.mp h)
            have hfit := guard_fits (r := r) (k := k) (base := base) (by unfold INT64_MAX'; omega) hov
            obtain ⟨e1, e2⟩ := i64_stores hfit
            have hb1 : bstr_util_mem_to_pint_body1 F (d ++ junk) (SP d base l p (some r) dd)
                = some (.next (SP d base p p (some (r * base + k)) k)) := by
              unfold bstr_util_mem_to_pint_body1
              rw [pint_body_pre d junk base l p (some r) dd x hr, hdv']
              simp [seqS, iteS, skipS, assignS, SP, rvalOf, tflagOf, c1, c2, hg, c3, e1, e2]
            rw [seqS_congr (whileF_next m hc hb1 (hi _ _))]
            have hok : accOk (some (r * base + k)) := by intro r' e; cases e; exact hfit
            have := ih (p + 1) m (some (r * base + k)) p k (drop_succ_of_drop ha) (by omega) (by simp at hn; omega) hok
            simpa [Bstr.pintLoop, hdv, hkb, hov] using this

/-- **bstr_util_mem_to_pint, as translated from the current source, is the model's `Bstr.memToPint`** (value and `*lastlen`), for a
    pointer with `x.length` bytes to parse and anything behind them, any base, any initial `*lastlen`: every read is inside the first
    `x.length` bytes, the loop ends within `x.length + 1` turns, and the int64 stores never wrap (the guard returns -2 first) -/
theorem bstr_util_mem_to_pint_eq (x junk : Bytes) (base : Nat) (l0 : Int) (hx : x.length < 9223372036854775808)
    (fuel : Nat) (hf : x.length < fuel) :
    (bstr_util_mem_to_pint fuel (x ++ junk) x.length base l0).map (fun r => (r.1, r.2.lastlen))
      = some ((Bstr.memToPint x base).1, ((Bstr.memToPint x base).2 : Int)) := by
  unfold bstr_util_mem_to_pint
  rw [run_vl]
  unfold bstr_util_mem_to_pint_stmt bstr_util_mem_to_pint_loop1
  have h0 : seqS (assignS fun s => some { s with rval := 0 }) (assignS fun s => some { s with tflag := 0 })
      ({ len := x.length, base := base, lastlen := l0 } : St_bstr_util_mem_to_pint)
      = some (.next { len := x.length, base := base, lastlen := l0 }) := by
    simp [seqS, assignS]
  rw [seqS_next h0]
  have h1 : ∀ K : Stmt St_bstr_util_mem_to_pint, seqS (assignS (fun s => some { s with i := 0 }))
      (seqS (assignS (fun s => some { s with lastlen := s.i }))
      (seqS (assignS (fun s => some { s with i := 0 })) K))
      ({ len := x.length, base := base, lastlen := l0 } : St_bstr_util_mem_to_pint) = K (SP x base 0 0 none 0) := by
    intro K
    simp [seqS, assignS, SP, rvalOf, tflagOf]
  rw [h1]
  exact pint_loop fuel x junk base hx x 0 fuel none 0 0 rfl (by omega) hf (by intro r e; cases e)

/-- the exact-length form -/
theorem bstr_util_mem_to_pint_eq' (d : Bytes) (base : Nat) (l0 : Int) (hd : d.length < 9223372036854775808)
    (fuel : Nat) (hf : d.length < fuel) :
    (bstr_util_mem_to_pint fuel d d.length base l0).map (fun r => (r.1, r.2.lastlen))
      = some ((Bstr.memToPint d base).1, ((Bstr.memToPint d base).2 : Int)) := by
  have := bstr_util_mem_to_pint_eq d [] base l0 hd fuel hf
  simpa using this

/-! ## htp_is_lws, htp_parse_positive_integer_whitespace -/

theorem htp_is_lws_val (F : Nat) (c : Int) : htp_is_lws F c = some (if c = 32 ∨ c = 9 then 1 else 0, { c := c }) := by
  unfold htp_is_lws run htp_is_lws_stmt
  by_cases h : c = 32 ∨ c = 9
  · have hb : (decide (c = 32) || decide (c = 9)) = true := by simpa using h
    simp [iteS, retS, h, hb]
  · have hb : (decide (c = 32) || decide (c = 9)) = false := by rw [Bool.eq_false_iff]; simpa using h
    simp [iteS, retS, h, hb]

theorem isLws_nat : ∀ y : UInt8, isLws y = (decide (y.toNat = 32) || decide (y.toNat = 9)) := by
  apply forall_uint8_of_lt
  decide +kernel

/-- the translated `htp_is_lws` on a byte is the model's class table -/
theorem isLws_iff (y : UInt8) : isLws y = true ↔ ((y.toNat : Int) = 32 ∨ (y.toNat : Int) = 9) := by
  rw [isLws_nat]; simp; omega

theorem htp_is_lws_byte (F : Nat) (y : UInt8) : (htp_is_lws F (y.toNat : Int)).map (·.1) = some (if isLws y then 1 else 0) := by
  rw [htp_is_lws_val]
  by_cases h : isLws y = true
  · simp [h, (isLws_iff y).mp h]
  · have := mt (isLws_iff y).mpr h
    simp [h, this]

theorem lws_test (F : Nat) (d : Bytes) (p : Int) (y : UInt8) (hr : rd d p = some (y.toNat : Int)) :
    ((rd d p).bind fun v1 => (htp_is_lws F v1).bind fun v2 => some (decide (v2.1 ≠ 0))) = some (isLws y) := by
  rw [hr, Option.bind_some, htp_is_lws_val]
  by_cases h : isLws y = true
  · simp [h, (isLws_iff y).mp h]
  · have := mt (isLws_iff y).mpr h
    simp [h, this]

theorem lws_ntest (F : Nat) (d : Bytes) (p : Int) (y : UInt8) (hr : rd d p = some (y.toNat : Int)) :
    ((rd d p).bind fun v1 => (htp_is_lws F v1).bind fun v2 => some (!(decide (v2.1 ≠ 0)))) = some (!isLws y) := by
  rw [hr, Option.bind_some, htp_is_lws_val]
  by_cases h : isLws y = true
  · simp [h, (isLws_iff y).mp h]
  · have := mt (isLws_iff y).mpr h
    simp [h, this]

abbrev SW (x : Bytes) (base : Nat) (lp : Int) (p : Nat) (r : Int) : St_htp_parse_positive_integer_whitespace :=
  { len := x.length, base := base, last_pos := lp, pos := p, r := r }

/-- loop 2 (skip leading LWS): stops at the first non-LWS byte of the `x.length` bytes -/
theorem piw_loop2 (F : Nat) (x junk : Bytes) (base : Nat) (lp r : Int) (hx : x.length < 9223372036854775808) :
    ∀ (a : Bytes) (p n : Nat), x.drop p = a → p ≤ x.length → a.length < n →
      whileF (htp_parse_positive_integer_whitespace_cond2 F (x ++ junk)) (htp_parse_positive_integer_whitespace_body2 F (x ++ junk))
          (htp_parse_positive_integer_whitespace_incr2 F (x ++ junk)) n (SW x base lp p r)
        = some (.next (SW x base lp (x.length - (a.dropWhile isLws).length) r)) := by
  intro a
  induction a with
  | nil =>
    intro p n ha hp hn
    obtain ⟨m, rfl⟩ : ∃ m, n = m + 1 := ⟨n - 1, by omega⟩
    have hl := le_of_drop_nil ha
    have hpe : p = x.length := by omega
    have hc : htp_parse_positive_integer_whitespace_cond2 F (x ++ junk) (SW x base lp p r) = some false := by
      simp [htp_parse_positive_integer_whitespace_cond2, hpe, andL]
    rw [whileF_exit m hc]
    simp [hpe]
  | cons y a' ih =>
    intro p n ha hp hn
    obtain ⟨m, rfl⟩ : ∃ m, n = m + 1 := ⟨n - 1, by omega⟩
    have hl := lt_of_drop_cons ha
    have hlen : x.length = p + (a'.length + 1) := by
      have := congrArg List.length ha
      simp at this; omega
    have hr : rd (x ++ junk) (p : Int) = some (y.toNat : Int) := rd_append_of_drop ha
    have c1 : ((p : Int) < x.length) := by omega
    by_cases hy : isLws y = true
    · have hy' := (isLws_iff y).mp hy
      have hc : htp_parse_positive_integer_whitespace_cond2 F (x ++ junk) (SW x base lp p r) = some true := by
        unfold htp_parse_positive_integer_whitespace_cond2
        rw [lws_test F (x ++ junk) _ y hr]
        simp [andL, c1, hy]
      have hu : u64 ((p : Int) + 1) = ((p + 1 : Nat) : Int) := by rw [u64_id] <;> omega
      have hb1 : htp_parse_positive_integer_whitespace_body2 F (x ++ junk) (SW x base lp p r) = some (.next (SW x base lp (p + 1) r)) := by
        simp [htp_parse_positive_integer_whitespace_body2, assignS, SW, hu]
      have hi : htp_parse_positive_integer_whitespace_incr2 F (x ++ junk) (SW x base lp (p + 1) r) = some (.next (SW x base lp (p + 1) r)) := rfl
      rw [whileF_next m hc hb1 hi, ih (p + 1) m (drop_succ_of_drop ha) (by omega) (by simp at hn; omega)]
      simp [List.dropWhile, hy]
    · have hy' := mt (isLws_iff y).mpr hy
      have hc : htp_parse_positive_integer_whitespace_cond2 F (x ++ junk) (SW x base lp p r) = some false := by
        unfold htp_parse_positive_integer_whitespace_cond2
        rw [lws_test F (x ++ junk) _ y hr]
        simp [andL, c1, hy]
      rw [whileF_exit m hc]
      have : x.length - (a'.length + 1) = p := by omega
      simp [List.dropWhile, hy, this]

/-- loop 1 (only LWS may follow the number) and the final `return r` -/
theorem piw_loop1 (F : Nat) (x junk : Bytes) (base : Nat) (lp r : Int) (hx : x.length < 9223372036854775808) :
    ∀ (a : Bytes) (p n : Nat), x.drop p = a → a.length < n →
      retVal (seqS (whileF (htp_parse_positive_integer_whitespace_cond1 F (x ++ junk)) (htp_parse_positive_integer_whitespace_body1 F (x ++ junk))
          (htp_parse_positive_integer_whitespace_incr1 F (x ++ junk)) n) (htp_parse_positive_integer_whitespace_rest1 F (x ++ junk))
          (SW x base lp p r))
        = some (if a.all isLws then r else -1002) := by
  intro a
  induction a with
  | nil =>
    intro p n ha hn
    obtain ⟨m, rfl⟩ : ∃ m, n = m + 1 := ⟨n - 1, by omega⟩
    have hl := le_of_drop_nil ha
    have hpe : ¬ ((p : Int) < x.length) := by omega
    have hc : htp_parse_positive_integer_whitespace_cond1 F (x ++ junk) (SW x base lp p r) = some false := by
      simp [htp_parse_positive_integer_whitespace_cond1, hpe]
    rw [seqS_next (whileF_exit m hc)]
    simp [htp_parse_positive_integer_whitespace_rest1, retS, retVal, SW]
  | cons y a' ih =>
    intro p n ha hn
    obtain ⟨m, rfl⟩ : ∃ m, n = m + 1 := ⟨n - 1, by omega⟩
    have hl := lt_of_drop_cons ha
    have hr : rd (x ++ junk) (p : Int) = some (y.toNat : Int) := rd_append_of_drop ha
    have c1 : ((p : Int) < x.length) := by omega
    have hc : htp_parse_positive_integer_whitespace_cond1 F (x ++ junk) (SW x base lp p r) = some true := by
      simp [htp_parse_positive_integer_whitespace_cond1, c1]
    by_cases hy : isLws y = true
    · have hy' := (isLws_iff y).mp hy
      have hu : u64 ((p : Int) + 1) = ((p + 1 : Nat) : Int) := by rw [u64_id] <;> omega
      have hb1 : htp_parse_positive_integer_whitespace_body1 F (x ++ junk) (SW x base lp p r) = some (.next (SW x base lp (p + 1) r)) := by
        unfold htp_parse_positive_integer_whitespace_body1 seqS iteS
        dsimp only
        rw [lws_ntest F (x ++ junk) _ y hr]
        simp [skipS, assignS, hu, hy]
      have hi : htp_parse_positive_integer_whitespace_incr1 F (x ++ junk) (SW x base lp (p + 1) r) = some (.next (SW x base lp (p + 1) r)) := rfl
      rw [seqS_congr (whileF_next m hc hb1 hi), ih (p + 1) m (drop_succ_of_drop ha) (by simp at hn; omega)]
      simp [hy]
    · have hy' := mt (isLws_iff y).mpr hy
      have hb1 : htp_parse_positive_integer_whitespace_body1 F (x ++ junk) (SW x base lp p r) = some (.ret (SW x base lp p r) (-1002)) := by
        unfold htp_parse_positive_integer_whitespace_body1 seqS iteS
        dsimp only
        rw [lws_ntest F (x ++ junk) _ y hr]
        simp [retS, hy]
      rw [seqS_ret (whileF_ret m hc hb1)]
      simp [retVal, hy]

theorem drop_dropWhile (f : UInt8 → Bool) (x : Bytes) : x.drop (x.length - (x.dropWhile f).length) = x.dropWhile f := by
  have h := List.takeWhile_append_dropWhile (p := f) (l := x)
  have hl : (x.takeWhile f).length + (x.dropWhile f).length = x.length := by
    have := congrArg List.length h
    rwa [List.length_append] at this
  have e : x.length - (x.dropWhile f).length = (x.takeWhile f).length := by omega
  have h2 : List.drop (x.takeWhile f).length (x.takeWhile f ++ x.dropWhile f) = x.dropWhile f := List.drop_left
  rw [h] at h2
  rw [e, h2]

theorem pintLoop_snd_le (base : Nat) : ∀ (a : Bytes) (i : Nat) (acc : Option Nat), (Bstr.pintLoop base a i acc).2 ≤ i + a.length + 1 := by
  intro a
  induction a with
  | nil => intro i acc; simp [Bstr.pintLoop]
  | cons c cs ih =>
    intro i acc
    have h1 := ih (i + 1)
    unfold Bstr.pintLoop
    simp only [List.length_cons]
    split
    · split
      · split <;> (dsimp only; omega)
      · split
        · split
          · dsimp only; omega
          · exact Nat.le_trans (h1 _) (by omega)
        · exact Nat.le_trans (h1 _) (by omega)
    · split <;> (dsimp only; omega)

/-- **htp_parse_positive_integer_whitespace, as translated from the current source, is the model's
    `Num.parsePositiveIntegerWhitespace`** for a pointer with `x.length` bytes to parse and anything behind them -/
theorem htp_parse_positive_integer_whitespace_eq (x junk : Bytes) (base : Nat) (hx : x.length < 9223372036854775808)
    (fuel : Nat) (hf : x.length < fuel) :
    (htp_parse_positive_integer_whitespace fuel (x ++ junk) x.length base).map (·.1)
      = some (Num.parsePositiveIntegerWhitespace x base) := by
  unfold htp_parse_positive_integer_whitespace
  rw [run_val]
  unfold htp_parse_positive_integer_whitespace_stmt
  by_cases h0 : x.length = 0
  · simp [seqS, iteS, retS, retVal, h0, Num.parsePositiveIntegerWhitespace]
  · have h0' : ¬ ((x.length : Int) = 0) := by omega
    have hA : ∀ K : Stmt St_htp_parse_positive_integer_whitespace,
        seqS (iteS (fun s => some (decide (s.len = 0))) (retS (fun s => some (-1003))) skipS)
          (seqS (assignS (fun s => some { s with pos := 0 })) K)
          ({ len := x.length, base := base } : St_htp_parse_positive_integer_whitespace) = K (SW x base 0 0 0) := by
      intro K
      have hne : ¬ x = [] := by intro e; simp [e] at h0
      simp [seqS, iteS, skipS, assignS, hne, SW]
    rw [hA]
    unfold htp_parse_positive_integer_whitespace_loop2
    rw [seqS_next (piw_loop2 fuel x junk base 0 0 hx x 0 fuel rfl (by omega) hf)]
    have hdrop := drop_dropWhile isLws x
    have hlen : (x.dropWhile isLws).length ≤ x.length := by
      have := congrArg List.length hdrop
      rw [List.length_drop] at this; omega
    generalize hrest : x.dropWhile isLws = rest at hdrop hlen
    generalize hq : x.length - rest.length = q at hdrop
    unfold htp_parse_positive_integer_whitespace_rest2
    by_cases hqe : q = x.length
    · simp [seqS, iteS, retS, retVal, hqe, Num.parsePositiveIntegerWhitespace, h0, hrest, hq]
    · have hqe' : ¬ ((q : Int) = x.length) := by omega
      have hB : ∀ K : Stmt St_htp_parse_positive_integer_whitespace,
          seqS (iteS (fun s => some (decide (s.pos = s.len))) (retS (fun s => some (-1001))) skipS) K (SW x base 0 q 0)
            = K (SW x base 0 q 0) := by
        intro K
        simp [seqS, iteS, skipS, hqe']
      rw [hB]
      -- the call
      have hd2 : List.drop (Int.toNat (q : Int)) (x ++ junk) = rest ++ junk := by
        rw [Int.toNat_natCast, List.drop_append_of_le_length (by omega), hdrop]
      have hu : u64 ((x.length : Int) - (q : Int)) = (rest.length : Int) := by rw [u64_id] <;> omega
      have hcall := bstr_util_mem_to_pint_eq rest junk base 0 (by omega) fuel (by omega)
      have hsnd := pintLoop_snd_le base rest 0 none
      generalize hm : Bstr.memToPint rest base = mp at hcall
      obtain ⟨rv, lp⟩ := mp
      have hsnd' : lp ≤ rest.length + 1 := by
        have : (Bstr.memToPint rest base).2 = lp := by rw [hm]
        unfold Bstr.memToPint at this
        omega
      obtain ⟨v, hv, hv2⟩ := Option.map_eq_some_iff.mp hcall
      have hv1 : v.1 = rv := congrArg Prod.fst hv2
      have hvl : v.2.lastlen = (lp : Int) := congrArg Prod.snd hv2
      have hC : (assignS (fun s : St_htp_parse_positive_integer_whitespace =>
            (bstr_util_mem_to_pint fuel (List.drop (Int.toNat s.pos) (x ++ junk)) (u64 (s.len - s.pos)) s.base s.last_pos).bind
              fun v3 => some { s with r := v3.1, last_pos := v3.2.lastlen })) (SW x base 0 q 0)
            = some (.next (SW x base lp q rv)) := by
        simp only [assignS, SW, hd2, hu, hv, Option.bind_some, Option.map_some, hv1, hvl]
      rw [seqS_next hC]
      have hmodel : Num.parsePositiveIntegerWhitespace x base
          = if rv < 0 then rv else if (x.drop (q + lp)).all isLws then rv else -1002 := by
        simp [Num.parsePositiveIntegerWhitespace, h0, hrest, hq, hqe, hm]
      rw [hmodel]
      by_cases hneg : rv < 0
      · simp [seqS, iteS, retS, retVal, hneg]
      · have hu2 : u64 ((q : Int) + (lp : Int)) = ((q + lp : Nat) : Int) := by rw [u64_id] <;> omega
        have hD : ∀ K : Stmt St_htp_parse_positive_integer_whitespace,
            seqS (iteS (fun s => some (decide (s.r < 0))) (retS (fun s => some s.r)) skipS)
              (seqS (assignS (fun s => some { s with pos := (u64 (s.pos + s.last_pos)) })) K) (SW x base lp q rv)
              = K (SW x base lp (q + lp) rv) := by
          intro K
          simp [seqS, iteS, skipS, assignS, hneg, hu2, SW]
        rw [hD]
        unfold htp_parse_positive_integer_whitespace_loop1
        rw [piw_loop1 fuel x junk base lp rv hx (x.drop (q + lp)) (q + lp) fuel rfl (by rw [List.length_drop]; omega)]
        simp [hneg]

/-- the exact-length form -/
theorem htp_parse_positive_integer_whitespace_eq' (d : Bytes) (base : Nat) (hd : d.length < 9223372036854775808)
    (fuel : Nat) (hf : d.length < fuel) :
    (htp_parse_positive_integer_whitespace fuel d d.length base).map (·.1) = some (Num.parsePositiveIntegerWhitespace d base) := by
  have := htp_parse_positive_integer_whitespace_eq d [] base hd fuel hf
  simpa using this

/-! ## htp_parse_port -/

/-- **htp_parse_port, as translated from the current source, is the model's `Num.parsePort`**: `*port` is the model's port and
    `*invalid` is set to 1 exactly when the model flags the port invalid, and left as it was otherwise -/
theorem htp_parse_port_eq (x junk : Bytes) (p0 i0 : Int) (hx : x.length < 9223372036854775808) (fuel : Nat) (hf : x.length < fuel) :
    (htp_parse_port fuel (x ++ junk) x.length p0 i0).map (fun r => (r.2.port, r.2.invalid))
      = some ((Num.parsePort x).1, if (Num.parsePort x).2 then 1 else i0) := by
  unfold htp_parse_port run htp_parse_port_stmt
  by_cases h0 : x.length = 0
  · have hne : x = [] := by simpa using h0
    simp [seqS, iteS, retS, assignS, hne, Num.parsePort]
  · have h0' : ¬ ((x.length : Int) = 0) := by omega
    have hne : ¬ x = [] := by intro e; simp [e] at h0
    have hcall := htp_parse_positive_integer_whitespace_eq x junk 10 hx fuel hf
    obtain ⟨v, hv, hv1⟩ := Option.map_eq_some_iff.mp hcall
    generalize hP : Num.parsePositiveIntegerWhitespace x 10 = P at hv1
    have hv' : htp_parse_positive_integer_whitespace fuel (x ++ junk) (x.length : Int) 10 = some v := hv
    by_cases hneg : P < 0
    · simp [seqS, iteS, retS, assignS, skipS, hv', hv1, hneg, Num.parsePort, h0, hP]
    · by_cases hr : 0 < P ∧ P < 65536
      · have e : i32 P = P := by rw [i32_id] <;> omega
        simp [seqS, iteS, retS, assignS, skipS, hv', hv1, hneg, Num.parsePort, h0, hP, hr, e]
      · have hb : (decide (0 < P) && decide (P < 65536)) = false := by
          rw [Bool.eq_false_iff]; simpa using hr
        simp [seqS, iteS, retS, assignS, skipS, hv', hv1, hneg, Num.parsePort, h0, hP, hr, hb]

/-- the exact-length form -/
theorem htp_parse_port_eq' (d : Bytes) (p0 i0 : Int) (hd : d.length < 9223372036854775808) (fuel : Nat) (hf : d.length < fuel) :
    (htp_parse_port fuel d d.length p0 i0).map (fun r => (r.2.port, r.2.invalid))
      = some ((Num.parsePort d).1, if (Num.parsePort d).2 then 1 else i0) := by
  have := htp_parse_port_eq d [] p0 i0 hd fuel hf
  simpa using this

/-- **the port reported is the exact value or an error, never a wrapped value**: `htp_parse_port` always returns, and either
    `*port = -1` with `*invalid = 1`, or `*port` is the exact (unbounded) value of the digits as `Num.parsePositiveIntegerWhitespace`
    computes it, that value lies in 1..65535, and `*invalid` is untouched -/
theorem htp_parse_port_exact_or_error (d : Bytes) (p0 i0 : Int) (hd : d.length < 9223372036854775808) (fuel : Nat) (hf : d.length < fuel) :
    ∃ r, htp_parse_port fuel d d.length p0 i0 = some r ∧
      ((r.2.port = -1 ∧ r.2.invalid = 1) ∨
       (r.2.port = Num.parsePositiveIntegerWhitespace d 10 ∧ 1 ≤ r.2.port ∧ r.2.port ≤ 65535 ∧ r.2.invalid = i0)) := by
  obtain ⟨r, hr, he⟩ := Option.map_eq_some_iff.mp (htp_parse_port_eq' d p0 i0 hd fuel hf)
  refine ⟨r, hr, ?_⟩
  have e1 : r.2.port = (Num.parsePort d).1 := congrArg Prod.fst he
  have e2 : r.2.invalid = if (Num.parsePort d).2 then 1 else i0 := congrArg Prod.snd he
  rw [e1, e2]
  unfold Num.parsePort
  by_cases h0 : d.length = 0
  · simp [h0]
  · by_cases hneg : Num.parsePositiveIntegerWhitespace d 10 < 0
    · simp [h0, hneg]
    · by_cases hrange : Num.parsePositiveIntegerWhitespace d 10 > 0 ∧ Num.parsePositiveIntegerWhitespace d 10 < 65536
      · right
        simp [h0, hneg, hrange]
        omega
      · simp [h0, hneg, hrange]

end Htp.CFuns
