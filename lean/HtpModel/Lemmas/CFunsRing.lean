/- The seven functions of libhtp's array-backed ring buffer (htp_list.c), as translated from the current source
   (HtpModel/Gen/CFuns.lean), compute the hand-written model `Htp.Ring` (HtpModel/Prim/Ring.lean) on the fields of every well-formed
   ring whose capacity is below 2^62; and, run in sequence, they compute what a double-ended sequence returns. -/
import HtpModel.Gen.CFuns
import HtpModel.Lemmas.Ring
namespace Htp.CFuns
open Htp Htp.CSem Htp.Gen.C Htp.Ring
set_option linter.unusedSimpArgs false
set_option linter.unusedVariables false

/-! ## 0. general facts -/

/- the capacity bound 4611686018427387904 = 2^62: `max_size * 2`, `first + idx`, `current_size + 1` stay inside size_t -/

theorem rdM_nat (m : List Int) (n : Nat) (h : n < m.length) : rdM m (n : Int) = some (m.getD n 0) := by
  unfold rdM
  have : ¬ ((n : Int) < 0) := by omega
  simp [this, h]

theorem wrM_nat (m : List Int) (n : Nat) (v : Int) (h : n < m.length) : wrM m (n : Int) v = some (m.set n v) := by
  unfold wrM
  have : ¬ ((n : Int) < 0) := by omega
  simp [this, h]

theorem u64_nat (n : Nat) (h : n < 18446744073709551616) : u64 (n : Int) = (n : Int) :=
  u64_id (by omega) (by omega)

/-! ## 1. get, size, clear -/

/-- htp_list_array_get with its (unchanged) final state -/
theorem htp_list_array_get_full (fuel : Nat) (r : Ring Int) (w : WF r) (hb : r.maxSize < 4611686018427387904) (i : Nat) :
    htp_list_array_get fuel (l_elements := r.elems) (idx := i) (l_first := r.first) (l_max_size := r.maxSize)
        (l_current_size := r.curSize)
      = some ((get r i).getD 0,
          { idx := i, l_first := r.first, l_max_size := r.maxSize, l_current_size := r.curSize, l_elements := r.elems }) := by
  have hp := w.pos; have hl := w.len; have hf := w.first_lt; have hc := w.cur_le
  simp only [htp_list_array_get, htp_list_array_get_stmt, run, seqS, iteS, retS, skipS, Ring.get]
  by_cases h : i ≥ r.curSize
  · have h' : (i : Int) ≥ (r.curSize : Int) := by omega
    simp only [h, h', decide_true, if_true, Option.map_some]
    rfl
  · have h' : ¬ ((i : Int) ≥ (r.curSize : Int)) := by omega
    have e1 : u64 ((r.first : Int) + (i : Int)) = ((r.first + i : Nat) : Int) := by
      rw [u64_id (by omega) (by omega)]; omega
    have e2 : u64 ((r.maxSize : Int) - (r.first : Int)) = ((r.maxSize - r.first : Nat) : Int) := by
      rw [u64_id (by omega) (by omega)]; omega
    simp only [h, h', e1, e2, decide_false, if_false]
    by_cases hlt : r.first + i < r.maxSize
    · have hlt' : ((r.first + i : Nat) : Int) < (r.maxSize : Int) := by omega
      simp only [hlt', decide_true, slot, hlt, if_true]
      rw [rdM_nat _ _ (by omega)]
      rfl
    · have hlt' : ¬ ((r.first + i : Nat) : Int) < (r.maxSize : Int) := by omega
      have e3 : u64 ((i : Int) - ((r.maxSize - r.first : Nat) : Int)) = ((i - (r.maxSize - r.first) : Nat) : Int) := by
        rw [u64_id (by omega) (by omega)]; omega
      simp only [hlt', decide_false, slot, hlt, if_false, e3]
      rw [rdM_nat _ _ (by omega)]
      rfl

/-- **htp_list_array_get = `Ring.get`** on every well-formed ring below the bound, for EVERY index (NULL = 0 when the model has
    none); the read is inside `elements` -/
theorem htp_list_array_get_eq (fuel : Nat) (r : Ring Int) (w : WF r) (hb : r.maxSize < 4611686018427387904) (i : Nat) :
    (htp_list_array_get fuel (l_elements := r.elems) (idx := i) (l_first := r.first) (l_max_size := r.maxSize)
        (l_current_size := r.curSize)).map (·.1)
      = some (match get r i with | some v => v | none => 0) := by
  rw [htp_list_array_get_full fuel r w hb i]
  cases get r i <;> rfl

/-- htp_list_array_size -/
theorem htp_list_array_size_eq (fuel : Nat) (r : Ring Int) :
    htp_list_array_size fuel (l_current_size := r.curSize) = some ((size r : Int), { l_current_size := r.curSize }) := by
  simp [htp_list_array_size, htp_list_array_size_stmt, run, seqS, iteS, retS, skipS, size]

/-- htp_list_array_clear -/
theorem htp_list_array_clear_eq (fuel : Nat) (r : Ring Int) :
    htp_list_array_clear fuel (l_current_size := r.curSize) (l_first := r.first) (l_last := r.last)
      = some (0, { l_current_size := (clear r).curSize, l_first := (clear r).first, l_last := (clear r).last }) := by
  simp [htp_list_array_clear, htp_list_array_clear_stmt, run, seqS, iteS, retS, skipS, assignS, clear]

/-! ## 2. pop, shift -/

/-- **htp_list_array_pop = `Ring.pop`**: the element (NULL = 0 for an empty list) and every field -/
theorem htp_list_array_pop_eq (fuel : Nat) (r : Ring Int) (w : WF r) (hb : r.maxSize < 4611686018427387904) :
    ∃ s, htp_list_array_pop fuel (l_elements := r.elems) (l_current_size := r.curSize) (l_first := r.first) (l_last := r.last)
        (l_max_size := r.maxSize) = some (((pop r).2).getD 0, s) ∧
      s.l_first = (pop r).1.first ∧ s.l_last = (pop r).1.last ∧ s.l_max_size = (pop r).1.maxSize ∧
      s.l_current_size = (pop r).1.curSize ∧ s.l_elements = (pop r).1.elems := by
  have hp := w.pos; have hl := w.len; have hf := w.first_lt; have hc := w.cur_le
  simp only [htp_list_array_pop, htp_list_array_pop_stmt, run, seqS, iteS, retS, skipS, assignS, pop]
  by_cases h : r.curSize = 0
  · simp [h]
  · have h' : ¬ ((r.curSize : Int) = 0) := by omega
    have e1 : u64 (u64 ((r.first : Int) + (r.curSize : Int)) - 1) = ((r.first + r.curSize - 1 : Nat) : Int) := by
      rw [u64_id (v := (r.first : Int) + (r.curSize : Int)) (by omega) (by omega), u64_id (by omega) (by omega)]; omega
    have e2 : u64 ((r.maxSize : Int) - 1) = ((r.maxSize - 1 : Nat) : Int) := by
      rw [u64_id (by omega) (by omega)]; omega
    simp only [h, h', e1, e2, decide_false, if_false, Option.map_some]
    have e4 : u64 ((r.curSize : Int) - 1) = ((r.curSize - 1 : Nat) : Int) := by
      rw [u64_id (by omega) (by omega)]; omega
    by_cases hgt : r.first + r.curSize - 1 > r.maxSize - 1
    · have hgt' : ((r.first + r.curSize - 1 : Nat) : Int) > ((r.maxSize - 1 : Nat) : Int) := by omega
      have e3 : u64 (((r.first + r.curSize - 1 : Nat) : Int) - (r.maxSize : Int)) = ((r.first + r.curSize - 1 - r.maxSize : Nat) : Int) := by
        rw [u64_id (by omega) (by omega)]; omega
      simp only [hgt, hgt', decide_true, if_true, e3]
      rw [rdM_nat _ _ (by omega)]
      simp [e4]
    · have hgt' : ¬ ((r.first + r.curSize - 1 : Nat) : Int) > ((r.maxSize - 1 : Nat) : Int) := by omega
      simp only [hgt, hgt', decide_false, if_false]
      rw [rdM_nat _ _ (by omega)]
      simp [e4]

/-- **htp_list_array_shift = `Ring.shift`**: the element (NULL = 0 for an empty list) and every field -/
theorem htp_list_array_shift_eq (fuel : Nat) (r : Ring Int) (w : WF r) (hb : r.maxSize < 4611686018427387904) :
    ∃ s, htp_list_array_shift fuel (l_elements := r.elems) (l_current_size := r.curSize) (l_first := r.first)
        (l_max_size := r.maxSize) = some (((shift r).2).getD 0, s) ∧
      s.l_first = (shift r).1.first ∧ s.l_max_size = (shift r).1.maxSize ∧
      s.l_current_size = (shift r).1.curSize ∧ s.l_elements = (shift r).1.elems := by
  have hp := w.pos; have hl := w.len; have hf := w.first_lt; have hc := w.cur_le
  simp only [htp_list_array_shift, htp_list_array_shift_stmt, run, seqS, iteS, retS, skipS, assignS, shift]
  by_cases h : r.curSize = 0
  · simp [h]
  · have h' : ¬ ((r.curSize : Int) = 0) := by omega
    have e1 : u64 ((r.first : Int) + 1) = ((r.first + 1 : Nat) : Int) := by
      rw [u64_id (by omega) (by omega)]; omega
    have e4 : u64 ((r.curSize : Int) - 1) = ((r.curSize - 1 : Nat) : Int) := by
      rw [u64_id (by omega) (by omega)]; omega
    simp only [h, h', decide_false, if_false, Option.map_some]
    rw [rdM_nat _ _ (by omega)]
    simp only [Option.bind_some, Option.map_some, e1, e4]
    by_cases hw : r.first + 1 = r.maxSize
    · have hw' : ((r.first + 1 : Nat) : Int) = (r.maxSize : Int) := by omega
      simp only [hw, hw', decide_true, if_true]
      exact ⟨_, rfl, rfl, rfl, e4, rfl⟩
    · have hw' : ¬ ((r.first + 1 : Nat) : Int) = (r.maxSize : Int) := by omega
      simp only [hw, hw', decide_false, if_false]
      exact ⟨_, rfl, rfl, rfl, e4, rfl⟩

/-! ## 3. replace -/

/-- **htp_list_array_replace = `Ring.replace`** for EVERY index (since the repair of S43 in /repo the range test is `idx >= current_size`,
    so nothing wraps before it): HTP_OK / HTP_DECLINED and the array; the write is inside `elements` -/
theorem htp_list_array_replace_eq (fuel : Nat) (r : Ring Int) (w : WF r) (hb : r.maxSize < 4611686018427387904)
    (i : Nat) (e : Int) :
    ∃ s, htp_list_array_replace fuel (l_elements := r.elems) (idx := i) (e := e) (l_current_size := r.curSize) (l_first := r.first)
        (l_max_size := r.maxSize) = some (if (replace r i e).2 then 1 else 0, s) ∧
      s.l_first = (replace r i e).1.first ∧ s.l_max_size = (replace r i e).1.maxSize ∧
      s.l_current_size = (replace r i e).1.curSize ∧ s.l_elements = (replace r i e).1.elems := by
  have hp := w.pos; have hl := w.len; have hf := w.first_lt; have hc := w.cur_le
  simp only [htp_list_array_replace, htp_list_array_replace_stmt, run, seqS, iteS, retS, skipS, assignS, replace]
  by_cases h : i + 1 > r.curSize
  · have h' : (i : Int) ≥ (r.curSize : Int) := by omega
    simp only [h, h', decide_true, if_true]
    exact ⟨_, rfl, rfl, rfl, rfl, rfl⟩
  · have h' : ¬ (i : Int) ≥ (r.curSize : Int) := by omega
    have e2 : u64 ((r.first : Int) + (i : Int)) = ((r.first + i : Nat) : Int) := by
      rw [u64_id (by omega) (by omega)]; omega
    have hm : (r.first + i) % r.maxSize < r.maxSize := Nat.mod_lt _ hp
    have e3 : u64 (Int.tmod ((r.first + i : Nat) : Int) (r.maxSize : Int)) = (((r.first + i) % r.maxSize : Nat) : Int) := by
      rw [Int.tmod_eq_emod_of_nonneg (by omega), ← Int.natCast_emod]
      rw [u64_id (by omega) (by omega)]
    simp only [h, h', e2, e3, decide_false, if_false, Option.map_some]
    rw [wrM_nat _ _ _ (by omega)]
    exact ⟨_, rfl, rfl, rfl, rfl, rfl⟩

/-! ## 4. push -/

/-- the two `memcpy` calls of the growth step with `first ≠ 0` -/
theorem memcpy_grow1 (m : List Int) (f n2 : Nat) (hf : f ≤ m.length) (hn : m.length ≤ n2) :
    memcpyM (List.replicate n2 0) 0 m (f : Int) ((m.length - f : Nat) : Int)
      = some (m.drop f ++ List.replicate (n2 - (m.length - f)) 0) := by
  unfold memcpyM
  have c1 : ¬ ((0 : Int) < 0 ∨ (f : Int) < 0 ∨ ((m.length - f : Nat) : Int) < 0) := by omega
  rw [if_neg c1]
  simp only [Int.toNat_natCast, Int.toNat_zero, Nat.zero_add, List.length_replicate]
  rw [if_pos (by omega)]
  rw [List.take_zero, List.nil_append, List.take_of_length_le (by simp), List.drop_replicate]

theorem memcpy_grow2 (m : List Int) (f n2 : Nat) (hf : f ≤ m.length) (hn : m.length ≤ n2) :
    memcpyM (m.drop f ++ List.replicate (n2 - (m.length - f)) 0) ((m.length - f : Nat) : Int) m 0 (f : Int)
      = some ((m.drop f ++ m.take f) ++ List.replicate (n2 - m.length) 0) := by
  unfold memcpyM
  have c1 : ¬ (((m.length - f : Nat) : Int) < 0 ∨ (0 : Int) < 0 ∨ (f : Int) < 0) := by omega
  rw [if_neg c1]
  simp only [Int.toNat_natCast, Int.toNat_zero, Nat.zero_add, List.length_replicate, List.length_append, List.length_drop, List.drop_zero]
  rw [if_pos (by omega)]
  rw [List.take_left' (by simp)]
  have hd : List.drop (m.length - f + f) (List.drop f m ++ List.replicate (n2 - (m.length - f)) 0)
      = List.replicate (n2 - m.length) 0 := by
    rw [List.drop_append, List.drop_of_length_le (by simp), List.nil_append, List.drop_replicate]
    congr 1
    simp only [List.length_drop]; omega
  rw [hd]

theorem htp_list_array_push_eq (fuel : Nat) (r : Ring Int) (w : WF r) (hb : r.maxSize < 4611686018427387904) (e : Int) :
    ∃ s, htp_list_array_push fuel (l_elements := r.elems) (e := e) (l_current_size := r.curSize) (l_first := r.first)
        (l_last := r.last) (l_max_size := r.maxSize) (alloc_ok := 1) = some (1, s) ∧
      s.l_first = (push r e).first ∧ s.l_last = (push r e).last ∧ s.l_max_size = (push r e).maxSize ∧
      s.l_current_size = (push r e).curSize ∧ s.l_elements = (push r e).elems := by
  have hp := w.pos; have hl := w.len; have hf := w.first_lt; have hc := w.cur_le; have hla := w.last_eq
  simp only [htp_list_array_push, htp_list_array_push_stmt, run, seqS, iteS, retS, skipS, assignS, push]
  by_cases h : r.curSize ≥ r.maxSize
  · have h' : ((r.curSize : Int) ≥ (r.maxSize : Int)) := by omega
    have hcm : r.curSize = r.maxSize := by omega
    have en : u64 ((r.maxSize : Int) * 2) = ((r.maxSize * 2 : Nat) : Int) := by
      rw [u64_id (by omega) (by omega)]; omega
    have ha : ((1 : Int) ≠ 0) := by decide
    simp only [h, h', decide_true, if_true, en, Option.map_some]
    by_cases h0 : r.first = 0
    · have h0' : (r.first : Int) = 0 := by omega
      have hd0 : decide ((0 : Int) = 0) = true := by decide
      have hd1 : decide ((0 : Int) ≠ 0) = false := by decide
      have e1 : u64 ((r.curSize : Int) + 1) = ((r.curSize + 1 : Nat) : Int) := by
        rw [u64_id (by omega) (by omega)]; omega
      simp only [h0', hd0, hd1, if_pos ha, Option.map_some, Int.toNat_natCast, decide_true, decide_false]
      rw [wrM_nat _ _ _ (by simp [resizeM]; omega)]
      simp only [Option.bind_some, Option.map_some, e1]
      have er : resizeM r.elems (r.maxSize * 2) = r.elems ++ List.replicate (r.maxSize * 2 - r.maxSize) default := by
        unfold resizeM
        rw [List.take_of_length_le (by omega), hl]; rfl
      by_cases hw : r.curSize + 1 = r.maxSize * 2
      · have hw' : ((r.curSize + 1 : Nat) : Int) = ((r.maxSize * 2 : Nat) : Int) := by omega
        simp only [hw', decide_true, pushCore, grow, h0, if_true, er]
        refine ⟨_, rfl, rfl, ?_, rfl, rfl, rfl⟩
        rw [if_pos hw]; rfl
      · have hw' : ¬ ((r.curSize + 1 : Nat) : Int) = ((r.maxSize * 2 : Nat) : Int) := by omega
        simp only [hw, hw', decide_false, pushCore, grow, h0, if_true, if_false, er]
        exact ⟨_, rfl, rfl, rfl, rfl, rfl, rfl⟩
    · have h0' : ¬ (r.first : Int) = 0 := by omega
      have hd1 : decide ((0 : Int) ≠ 0) = false := by decide
      have e1 : u64 ((r.curSize : Int) + 1) = ((r.curSize + 1 : Nat) : Int) := by
        rw [u64_id (by omega) (by omega)]; omega
      have e5 : u64 ((r.maxSize : Int) - (r.first : Int)) = ((r.elems.length - r.first : Nat) : Int) := by
        rw [u64_id (by omega) (by omega)]; omega
      simp only [h0', hd1, if_pos ha, Option.map_some, Int.toNat_natCast, decide_true, decide_false, e5]
      rw [memcpy_grow1 _ _ _ (by omega) (by omega)]
      simp only [Option.bind_some, Option.map_some, e5]
      rw [memcpy_grow2 _ _ _ (by omega) (by omega)]
      simp only [Option.bind_some, Option.map_some]
      rw [wrM_nat _ _ _ (by simp; omega)]
      simp only [Option.bind_some, Option.map_some, e1, hl]
      by_cases hw : r.curSize + 1 = r.maxSize * 2
      · have hw' : ((r.curSize + 1 : Nat) : Int) = ((r.maxSize * 2 : Nat) : Int) := by omega
        simp only [hw', decide_true, pushCore, grow, h0, if_true, if_false]
        refine ⟨_, rfl, rfl, ?_, rfl, rfl, rfl⟩
        rw [if_pos hw]; rfl
      · have hw' : ¬ ((r.curSize + 1 : Nat) : Int) = ((r.maxSize * 2 : Nat) : Int) := by omega
        simp only [hw, hw', decide_false, pushCore, grow, h0, if_true, if_false]
        exact ⟨_, rfl, rfl, rfl, rfl, rfl, rfl⟩
  · have h' : ¬ ((r.curSize : Int) ≥ (r.maxSize : Int)) := by omega
    simp only [h, h', decide_false, if_false]
    have hlast : r.last < r.maxSize := by rw [hla]; split <;> omega
    have e1 : u64 ((r.curSize : Int) + 1) = ((r.curSize + 1 : Nat) : Int) := by
      rw [u64_id (by omega) (by omega)]; omega
    have e2 : u64 ((r.last : Int) + 1) = ((r.last + 1 : Nat) : Int) := by
      rw [u64_id (by omega) (by omega)]; omega
    rw [wrM_nat _ _ _ (by omega)]
    simp only [Option.bind_some, Option.map_some, e1, e2, pushCore]
    by_cases hw : r.last + 1 = r.maxSize
    · have hw' : ((r.last + 1 : Nat) : Int) = (r.maxSize : Int) := by omega
      simp only [hw, hw', decide_true, if_true, Option.map_some]
      exact ⟨_, rfl, rfl, rfl, rfl, rfl, rfl⟩
    · have hw' : ¬ ((r.last + 1 : Nat) : Int) = (r.maxSize : Int) := by omega
      simp only [hw, hw', decide_false, if_false, Option.map_some]
      exact ⟨_, rfl, rfl, rfl, rfl, rfl, rfl⟩

/-- allocation failure on a full list: HTP_ERROR and the list is untouched -/
theorem htp_list_array_push_nomem (fuel : Nat) (r : Ring Int) (w : WF r) (hb : r.maxSize < 4611686018427387904) (e : Int)
    (hfull : r.curSize = r.maxSize) :
    ∃ s, htp_list_array_push fuel (l_elements := r.elems) (e := e) (l_current_size := r.curSize) (l_first := r.first)
        (l_last := r.last) (l_max_size := r.maxSize) (alloc_ok := 0) = some (-1, s) ∧
      s.l_first = r.first ∧ s.l_last = r.last ∧ s.l_max_size = r.maxSize ∧
      s.l_current_size = r.curSize ∧ s.l_elements = r.elems := by
  have hp := w.pos
  simp only [htp_list_array_push, htp_list_array_push_stmt, run, seqS, iteS, retS, skipS, assignS]
  have h' : ((r.curSize : Int) ≥ (r.maxSize : Int)) := by omega
  have ha : ¬ ((0 : Int) ≠ 0) := by decide
  have hd1 : decide ((1 : Int) ≠ 0) = true := by decide
  simp only [h', decide_true, if_neg ha, Option.map_some]
  by_cases h0 : (r.first : Int) = 0
  · simp only [h0, hd1, decide_true]
    exact ⟨_, rfl, rfl, rfl, rfl, rfl, rfl⟩
  · simp only [h0, hd1, decide_false]
    exact ⟨_, rfl, rfl, rfl, rfl, rfl, rfl⟩

/-- allocation is not attempted while there is room: `alloc_ok` is irrelevant -/
theorem htp_list_array_push_room (fuel : Nat) (r : Ring Int) (w : WF r) (hb : r.maxSize < 4611686018427387904) (e a : Int)
    (hroom : r.curSize < r.maxSize) :
    (htp_list_array_push fuel (l_elements := r.elems) (e := e) (l_current_size := r.curSize) (l_first := r.first)
        (l_last := r.last) (l_max_size := r.maxSize) (alloc_ok := a)).map (·.1) = some 1 := by
  have hp := w.pos; have hl := w.len; have hf := w.first_lt; have hc := w.cur_le; have hla := w.last_eq
  rw [htp_list_array_push, run_val]
  simp only [htp_list_array_push_stmt, seqS, iteS, retS, skipS, assignS, retVal]
  have h' : ¬ ((r.curSize : Int) ≥ (r.maxSize : Int)) := by omega
  have hlast : r.last < r.maxSize := by rw [hla]; split <;> omega
  simp only [h', decide_false]
  rw [wrM_nat _ _ _ (by omega)]
  simp only [Option.bind_some, Option.map_some]
  generalize decide (u64 ((r.last : Int) + 1) = (r.maxSize : Int)) = b
  cases b <;> rfl

/-! ## 5. `idx = SIZE_MAX` in htp_list_array_replace (finding S43, repaired in /repo)

Before the repair the range test was `idx + 1 > current_size`: for `idx = SIZE_MAX` the sum wraps to 0, the test fails, the function
stored into slot `(first + idx) % max_size` (inside the array, because of the `%`) and answered HTP_OK, where the model (and the contract
of an indexed replace) decline. This proof attempt found it: `htp_list_array_replace_eq` needed the bound `i < SIZE_MAX`, and the excluded
point, run on the real library, overwrote an element. With the test `idx >= current_size` (as htp_list_array_get has it) the translated
code declines there too: -/
theorem htp_list_array_replace_sizemax :
    (htp_list_array_replace 0 (l_elements := [30, 10, 20]) (idx := 18446744073709551615) (e := 77) (l_current_size := 2)
        (l_first := 1) (l_max_size := 3)).map (fun p => (p.1, p.2.l_elements)) = some (0, [30, 10, 20]) ∧
    (let m := replace ({ first := 1, last := 0, maxSize := 3, curSize := 2, elems := [30, 10, 20] } : Ring Int)
        18446744073709551615 77
     (m.2, m.1.elems)) = (false, [30, 10, 20]) := by
  constructor
  · decide
  · decide

/-! ## 6. the lift: one simulation step, then operation sequences -/

/-- the fields of `htp_list_array_t` as the translated functions see them -/
structure Flds where
  first : Int
  last : Int
  maxSize : Int
  curSize : Int
  elems : List Int
  deriving Repr, DecidableEq

/-- the fields of a model ring -/
def fieldsOf (r : Ring Int) : Flds :=
  { first := r.first, last := r.last, maxSize := r.maxSize, curSize := r.curSize, elems := r.elems }

/-- the abstraction: the model ring a translated state stands for -/
def ringOf (f : Flds) : Ring Int :=
  { first := f.first.toNat, last := f.last.toNat, maxSize := f.maxSize.toNat, curSize := f.curSize.toNat, elems := f.elems }

@[simp] theorem ringOf_fieldsOf (r : Ring Int) : ringOf (fieldsOf r) = r := by
  simp [ringOf, fieldsOf]

/-- operations of the list API (elements are opaque pointer values) -/
inductive COp where
  | push (e : Int) | pop | shift | get (i : Nat) | replace (i : Nat) (e : Int) | clear | size

/-- no operation needs a side condition any more (before the repair of S43 `replace` needed `i < SIZE_MAX`, see section 5); kept so that
    a future restriction has a place to go -/
def COp.ok : COp → Prop
  | _ => True

/-- one call of the translated function (allocation succeeds): the new fields and the value returned -/
def stepC (f : Flds) : COp → Option (Flds × Int)
  | .push e =>
    (htp_list_array_push 0 (l_elements := f.elems) (e := e) (l_current_size := f.curSize) (l_first := f.first) (l_last := f.last)
      (l_max_size := f.maxSize) (alloc_ok := 1)).map fun p =>
        ({ first := p.2.l_first, last := p.2.l_last, maxSize := p.2.l_max_size, curSize := p.2.l_current_size,
           elems := p.2.l_elements }, p.1)
  | .pop =>
    (htp_list_array_pop 0 (l_elements := f.elems) (l_current_size := f.curSize) (l_first := f.first) (l_last := f.last)
      (l_max_size := f.maxSize)).map fun p =>
        ({ first := p.2.l_first, last := p.2.l_last, maxSize := p.2.l_max_size, curSize := p.2.l_current_size,
           elems := p.2.l_elements }, p.1)
  | .shift =>
    (htp_list_array_shift 0 (l_elements := f.elems) (l_current_size := f.curSize) (l_first := f.first)
      (l_max_size := f.maxSize)).map fun p =>
        ({ first := p.2.l_first, last := f.last, maxSize := p.2.l_max_size, curSize := p.2.l_current_size,
           elems := p.2.l_elements }, p.1)
  | .get i =>
    (htp_list_array_get 0 (l_elements := f.elems) (idx := i) (l_current_size := f.curSize) (l_first := f.first)
      (l_max_size := f.maxSize)).map fun p =>
        ({ first := p.2.l_first, last := f.last, maxSize := p.2.l_max_size, curSize := p.2.l_current_size,
           elems := p.2.l_elements }, p.1)
  | .replace i e =>
    (htp_list_array_replace 0 (l_elements := f.elems) (idx := i) (e := e) (l_current_size := f.curSize) (l_first := f.first)
      (l_max_size := f.maxSize)).map fun p =>
        ({ first := p.2.l_first, last := f.last, maxSize := p.2.l_max_size, curSize := p.2.l_current_size,
           elems := p.2.l_elements }, p.1)
  | .clear =>
    (htp_list_array_clear 0 (l_current_size := f.curSize) (l_first := f.first) (l_last := f.last)).map fun p =>
        ({ first := p.2.l_first, last := p.2.l_last, maxSize := f.maxSize, curSize := p.2.l_current_size,
           elems := f.elems }, p.1)
  | .size =>
    (htp_list_array_size 0 (l_current_size := f.curSize)).map fun p =>
        ({ first := f.first, last := f.last, maxSize := f.maxSize, curSize := p.2.l_current_size, elems := f.elems }, p.1)

/-- the model's operation with the C encoding of its result: a missing element is NULL = 0, HTP_OK = 1, HTP_DECLINED = 0,
    `void` is 0 -/
def stepM (r : Ring Int) : COp → Ring Int × Int
  | .push e => (push r e, 1)
  | .pop => ((pop r).1, (pop r).2.getD 0)
  | .shift => ((shift r).1, (shift r).2.getD 0)
  | .get i => (r, (get r i).getD 0)
  | .replace i e => ((replace r i e).1, if (replace r i e).2 then 1 else 0)
  | .clear => (clear r, 0)
  | .size => (r, (size r : Int))

/-- **one simulation step**: on the fields of a well-formed ring below the capacity bound, the translated function returns the
    model's (encoded) result, leaves exactly the fields of the model's new ring, and that ring is well formed again -/
theorem cring_step (r : Ring Int) (w : WF r) (hb : r.maxSize < 4611686018427387904) (o : COp) (ho : o.ok) :
    stepC (fieldsOf r) o = some (fieldsOf (stepM r o).1, (stepM r o).2) ∧ WF (stepM r o).1 := by
  cases o with
  | push e =>
    obtain ⟨s, heq, h1, h2, h3, h4, h5⟩ := htp_list_array_push_eq 0 r w hb e
    refine ⟨?_, push_wf r w e⟩
    simp only [stepC, fieldsOf, stepM, heq, Option.map_some, h1, h2, h3, h4, h5]
  | pop =>
    obtain ⟨s, heq, h1, h2, h3, h4, h5⟩ := htp_list_array_pop_eq 0 r w hb
    refine ⟨?_, pop_wf r w⟩
    simp only [stepC, fieldsOf, stepM, heq, Option.map_some, h1, h2, h3, h4, h5]
  | shift =>
    obtain ⟨s, heq, h1, h3, h4, h5⟩ := htp_list_array_shift_eq 0 r w hb
    refine ⟨?_, shift_wf r w⟩
    have hl : (shift r).1.last = r.last := by unfold shift; split <;> rfl
    simp only [stepC, fieldsOf, stepM, heq, Option.map_some, h1, h3, h4, h5, hl]
  | get i =>
    refine ⟨?_, w⟩
    simp only [stepC, fieldsOf, stepM, htp_list_array_get_full 0 r w hb i, Option.map_some]
  | replace i e =>
    obtain ⟨s, heq, h1, h3, h4, h5⟩ := htp_list_array_replace_eq 0 r w hb i e
    refine ⟨?_, replace_wf r w i e⟩
    have hl : (replace r i e).1.last = r.last := by unfold replace; split <;> rfl
    simp only [stepC, fieldsOf, stepM, heq, Option.map_some, h1, h3, h4, h5, hl]
  | clear =>
    refine ⟨?_, clear_wf r w⟩
    simp only [stepC, fieldsOf, stepM, htp_list_array_clear_eq 0 r, Option.map_some]
    rfl
  | size =>
    refine ⟨?_, w⟩
    simp only [stepC, fieldsOf, stepM, htp_list_array_size_eq 0 r, Option.map_some]

/-! ### operation sequences -/

/-- the translated functions called one after the other on the same list -/
def runC (f : Flds) : List COp → Option (Flds × List Int)
  | [] => some (f, [])
  | o :: os => (stepC f o).bind fun p => (runC p.1 os).map fun q => (q.1, p.2 :: q.2)

/-- the model run -/
def runM (r : Ring Int) : List COp → Ring Int × List Int
  | [] => (r, [])
  | o :: os => ((runM (stepM r o).1 os).1, (stepM r o).2 :: (runM (stepM r o).1 os).2)

/-- the abstract type: a double-ended sequence, results in the C encoding -/
def stepS (l : List Int) : COp → List Int × Int
  | .push e => (l ++ [e], 1)
  | .pop => (l.dropLast, l.getLast?.getD 0)
  | .shift => (l.tail, l.head?.getD 0)
  | .get i => (l, l[i]?.getD 0)
  | .replace i e => (if i < l.length then l.set i e else l, if i < l.length then 1 else 0)
  | .clear => ([], 0)
  | .size => (l, (l.length : Int))

def runS (l : List Int) : List COp → List Int × List Int
  | [] => (l, [])
  | o :: os => ((runS (stepS l o).1 os).1, (stepS l o).2 :: (runS (stepS l o).1 os).2)

/-- capacity and length grow by at most "one element" per operation: capacity ≤ 2K and length ≤ K are kept with K + 1 -/
theorem stepM_growth (r : Ring Int) (w : WF r) (K : Nat) (h1 : r.maxSize ≤ 2 * K) (h2 : r.curSize ≤ K) (o : COp) :
    (stepM r o).1.maxSize ≤ 2 * (K + 1) ∧ (stepM r o).1.curSize ≤ K + 1 := by
  have hc := w.cur_le
  cases o with
  | push e =>
    simp only [stepM, push, pushCore]
    by_cases h : r.curSize ≥ r.maxSize
    · simp only [h, if_true, grow]; omega
    · simp only [h, if_false]; omega
  | pop => simp only [stepM, pop]; split <;> simp only [] <;> omega
  | shift => simp only [stepM, shift]; split <;> simp only [] <;> omega
  | get i => simp only [stepM]; omega
  | replace i e => simp only [stepM, replace]; split <;> simp only [] <;> omega
  | clear => simp only [stepM, clear]; omega
  | size => simp only [stepM]; omega

/-- **the translated functions, run in sequence, are the model run**, as long as the capacity stays below 2^62 — guaranteed by
    `K + ops.length < 2^61` when the ring starts with capacity ≤ 2K and length ≤ K -/
theorem cring_run (ops : List COp) : ∀ (r : Ring Int) (w : WF r) (K : Nat) (h1 : r.maxSize ≤ 2 * K) (h2 : r.curSize ≤ K)
    (hok : ∀ o ∈ ops, o.ok) (hK : K + ops.length < 2305843009213693952),
    runC (fieldsOf r) ops = some (fieldsOf (runM r ops).1, (runM r ops).2) ∧ WF (runM r ops).1 := by
  induction ops with
  | nil => intro r w K h1 h2 hok hK; exact ⟨rfl, w⟩
  | cons o os ih =>
    intro r w K h1 h2 hok hK
    have hlen : (o :: os).length = os.length + 1 := rfl
    obtain ⟨hs, w'⟩ := cring_step r w (by omega) o (hok o (List.mem_cons_self ..))
    obtain ⟨g1, g2⟩ := stepM_growth r w K h1 h2 o
    obtain ⟨hr, w''⟩ := ih (stepM r o).1 w' (K + 1) g1 g2 (fun o' ho' => hok o' (List.mem_cons_of_mem _ ho')) (by omega)
    refine ⟨?_, w''⟩
    simp only [runC, hs, Option.bind_some, hr, Option.map_some, runM]

/-- the model step against the double-ended sequence (`Lemmas/Ring.lean`), in the C encoding -/
theorem stepM_spec (r : Ring Int) (w : WF r) (o : COp) :
    (stepM r o).2 = (stepS (abs r) o).2 ∧ abs (stepM r o).1 = (stepS (abs r) o).1 := by
  cases o with
  | push e => exact ⟨rfl, abs_push r w e⟩
  | pop => have h := pop_spec r w; exact ⟨by simp only [stepM, stepS, h.2], by simp only [stepM, stepS, h.1]⟩
  | shift => have h := shift_spec r w; exact ⟨by simp only [stepM, stepS, h.2], by simp only [stepM, stepS, h.1]⟩
  | get i => exact ⟨by simp only [stepM, stepS, get_eq], rfl⟩
  | replace i e =>
    have h := replace_spec r w i e
    refine ⟨?_, by simp only [stepM, stepS, h.2, abs_length]⟩
    simp only [stepM, stepS, h.1, abs_length, decide_eq_true_eq]
  | clear => exact ⟨rfl, by simp only [stepM, stepS, abs_clear]⟩
  | size => exact ⟨by simp only [stepM, stepS, size, abs_length], rfl⟩

theorem runM_spec (ops : List COp) : ∀ (r : Ring Int) (w : WF r),
    (runM r ops).2 = (runS (abs r) ops).2 ∧ abs (runM r ops).1 = (runS (abs r) ops).1 := by
  induction ops with
  | nil => intro r w; exact ⟨rfl, rfl⟩
  | cons o os ih =>
    intro r w
    obtain ⟨a1, a2⟩ := stepM_spec r w o
    have w' : WF (stepM r o).1 := by
      cases o with
      | push e => exact push_wf r w e
      | pop => exact pop_wf r w
      | shift => exact shift_wf r w
      | get i => exact w
      | replace i e => exact replace_wf r w i e
      | clear => exact clear_wf r w
      | size => exact w
    obtain ⟨b1, b2⟩ := ih (stepM r o).1 w'
    simp only [runM, runS, a1, b1, b2, a2, and_self]

/-- **C17 (list), translated code**: starting from `htp_list_array_create(n)`, every sequence of calls of the translated
    htp_list_array_* functions (allocation succeeding, `n + |ops| < 2^61`, replace indexes below SIZE_MAX) returns exactly what a
    double-ended sequence returns, ends in fields that are a well-formed ring, and that ring stands for the sequence's final value -/
theorem cring_sim_fresh (n : Nat) (hn : 0 < n) (ops : List COp) (hok : ∀ o ∈ ops, o.ok)
    (hK : n + ops.length < 2305843009213693952) :
    ∃ f, runC (fieldsOf (create n)) ops = some (f, (runS [] ops).2) ∧ WF (ringOf f) ∧ abs (ringOf f) = (runS [] ops).1 := by
  have w : WF (create n : Ring Int) := create_wf n hn
  obtain ⟨hr, w'⟩ := cring_run ops (create n) w n (by simp only [create]; omega) (by simp only [create]; omega) hok hK
  obtain ⟨s1, s2⟩ := runM_spec ops (create n) w
  rw [abs_create] at s1 s2
  exact ⟨_, by rw [hr, s1], by rw [ringOf_fieldsOf]; exact w', by rw [ringOf_fieldsOf]; exact s2⟩

/-- non-vacuity: the translated functions run through growth with `first ≠ 0` (two memcpy), wrap-around, pop, shift, replace, get -/
example : (runC (fieldsOf (create 2))
    [.push 11, .push 12, .shift, .push 13, .push 14, .pop, .replace 1 19, .get 1, .get 5, .size]).map (·.2)
    = some [1, 1, 11, 1, 1, 14, 1, 19, 0, 2] := by
  decide

end Htp.CFuns
