/- bstr_util_mem_index_of_mem_nocase as translated from the current source = the model's `Bstr.indexOfMemNocase` (all inputs): the C compares
   `toupper(data1[k]) != toupper(data2[j])`, the model `Bstr.eqUpper`; the inner loop decides `Bstr.prefixMatch Bstr.eqUpper` at the current
   position, the outer loop is `Bstr.indexOfAux`; every read inside the arrays; both loops finish within `len1 + 1` turns. -/
import HtpModel.Lemmas.CFunsBase
namespace Htp.CFuns
open Htp Htp.CSem Htp.Gen.C Htp.Gen

theorem toupperI_toNat (x : UInt8) : toupperI (x.toNat : Int) = ((cToupper x).toNat : Int) := by simp [toupperI]

abbrev SIU (hay needle : Bytes) (i j k : Nat) : St_bstr_util_mem_index_of_mem_nocase :=
  { len1 := hay.length, len2 := needle.length, i := i, j := j, k := k }

/-- the inner loop from `(i, j, k)` stops (condition false or `break`) in a state whose `j` is `len2` exactly when the rest of the needle
    is a prefix of the rest of the haystack; `i`, `len1`, `len2` are unchanged -/
theorem index_nocase_inner_loop (F : Nat) (hay needle : Bytes) (h1 : hay.length < 18446744073709551616) (i : Nat) :
    ∀ (b a : Bytes) (j k n : Nat), hay.drop k = a → needle.drop j = b → j ≤ k → j ≤ needle.length → min a.length b.length < n →
      ∃ j' k', whileF (bstr_util_mem_index_of_mem_nocase_cond1 F hay needle) (bstr_util_mem_index_of_mem_nocase_body1 F hay needle)
                  (bstr_util_mem_index_of_mem_nocase_incr1 F hay needle) n (SIU hay needle i j k) = some (.next (SIU hay needle i j' k'))
        ∧ (j' = needle.length ↔ Bstr.prefixMatch Bstr.eqUpper a b = true) := by
  intro b
  induction b with
  | nil =>
    intro a j k n ha hb hjk hjl hn
    obtain ⟨m, rfl⟩ : ∃ m, n = m + 1 := ⟨n - 1, by omega⟩
    have hl2 := le_of_drop_nil hb
    have hc : bstr_util_mem_index_of_mem_nocase_cond1 F hay needle (SIU hay needle i j k) = some false := by
      have : ¬ ((j : Int) < needle.length) := by omega
      simp [bstr_util_mem_index_of_mem_nocase_cond1, this]
    refine ⟨j, k, whileF_exit m hc, ?_⟩
    simp [Bstr.prefixMatch]; omega
  | cons y b' ih =>
    intro a j k n ha hb hjk hjl hn
    obtain ⟨m, rfl⟩ : ∃ m, n = m + 1 := ⟨n - 1, by omega⟩
    have hl2 := lt_of_drop_cons hb
    cases a with
    | nil =>
      have hl := le_of_drop_nil ha
      have hc : bstr_util_mem_index_of_mem_nocase_cond1 F hay needle (SIU hay needle i j k) = some false := by
        have : ¬ ((k : Int) < hay.length) := by omega
        simp [bstr_util_mem_index_of_mem_nocase_cond1, this]
      refine ⟨j, k, whileF_exit m hc, ?_⟩
      simp [Bstr.prefixMatch]; omega
    | cons x a' =>
      have hl := lt_of_drop_cons ha
      have c1 : ((k : Int) < hay.length) := by omega
      have c2 : ((j : Int) < needle.length) := by omega
      have r1 := rd_of_drop ha
      have r2 := rd_of_drop hb
      have hc : bstr_util_mem_index_of_mem_nocase_cond1 F hay needle (SIU hay needle i j k) = some true := by
        simp [bstr_util_mem_index_of_mem_nocase_cond1, c1, c2]
      have t1 := toupperI_toNat x
      have t2 := toupperI_toNat y
      by_cases hxy : cToupper x = cToupper y
      · have hu1 : u64 ((j : Int) + 1) = ((j + 1 : Nat) : Int) := by rw [u64_id] <;> omega
        have hu2 : u64 ((k : Int) + 1) = ((k + 1 : Nat) : Int) := by rw [u64_id] <;> omega
        have hb1 : bstr_util_mem_index_of_mem_nocase_body1 F hay needle (SIU hay needle i j k) = some (.next (SIU hay needle i j k)) := by
          simp [bstr_util_mem_index_of_mem_nocase_body1, iteS, skipS, r1, r2, t1, t2, hxy]
        have hi : bstr_util_mem_index_of_mem_nocase_incr1 F hay needle (SIU hay needle i j k) = some (.next (SIU hay needle i (j + 1) (k + 1))) := by
          simp [bstr_util_mem_index_of_mem_nocase_incr1, seqS, assignS, hu1, hu2]
        rw [whileF_next m hc hb1 hi]
        obtain ⟨j', k', hw, hiff⟩ := ih a' (j + 1) (k + 1) m (drop_succ_of_drop ha) (drop_succ_of_drop hb) (by omega) (by omega)
          (by simp at hn; omega)
        refine ⟨j', k', hw, ?_⟩
        simpa [Bstr.prefixMatch, Bstr.eqUpper, hxy] using hiff
      · have hn' : ¬ (((cToupper x).toNat : Int) = (cToupper y).toNat) := by
          intro e; apply hxy; apply UInt8.toNat_inj.mp; omega
        have hb1 : bstr_util_mem_index_of_mem_nocase_body1 F hay needle (SIU hay needle i j k) = some (.brk (SIU hay needle i j k)) := by
          simp [bstr_util_mem_index_of_mem_nocase_body1, iteS, brkS, r1, r2, t1, t2, hn']
        refine ⟨j, k, whileF_brk m hc hb1, ?_⟩
        simp [Bstr.prefixMatch, Bstr.eqUpper, hxy]; omega

/-- one turn of the outer loop's body at position `i`: `return i` if the needle is a prefix of `hay.drop i`, else falls through with `i` unchanged -/
theorem index_nocase_body2 (F : Nat) (hay needle : Bytes) (h1 : hay.length ≤ 2147483648) (hF : hay.length < F) (i j k : Nat)
    (hi : i < hay.length) :
    ∃ j' k', bstr_util_mem_index_of_mem_nocase_body2 F hay needle (SIU hay needle i j k)
      = (if Bstr.prefixMatch Bstr.eqUpper (hay.drop i) needle then some (.ret (SIU hay needle i j' k') (i : Int))
         else some (.next (SIU hay needle i j' k'))) := by
  obtain ⟨j', k', hw, hiff⟩ := index_nocase_inner_loop F hay needle (by omega) i needle (hay.drop i) 0 i F rfl rfl (by omega) (by omega)
    (by simp; omega)
  refine ⟨j', k', ?_⟩
  have h0 : bstr_util_mem_index_of_mem_nocase_body2 F hay needle (SIU hay needle i j k)
      = bstr_util_mem_index_of_mem_nocase_rest1 F hay needle (SIU hay needle i j' k') := by
    unfold bstr_util_mem_index_of_mem_nocase_body2 bstr_util_mem_index_of_mem_nocase_loop1
    have e1 : (assignS fun s => some { s with k := s.i }) (SIU hay needle i j k) = some (.next (SIU hay needle i j i)) := rfl
    have e2 : (assignS fun s => some { s with j := 0 }) (SIU hay needle i j i) = some (.next (SIU hay needle i 0 i)) := rfl
    rw [seqS_next e1, seqS_next e2, seqS_next hw]
  rw [h0]
  have hi32 : i32 (i : Int) = i := by rw [i32_id] <;> omega
  by_cases hp : Bstr.prefixMatch Bstr.eqUpper (hay.drop i) needle = true
  · have hj := hiff.mpr hp
    subst hj
    simp [bstr_util_mem_index_of_mem_nocase_rest1, iteS, retS, hp, hi32]
  · have hj : ¬ ((j' : Int) = needle.length) := by
      intro e; apply hp; apply hiff.mp; omega
    simp [bstr_util_mem_index_of_mem_nocase_rest1, iteS, skipS, hp, hj]

theorem index_nocase_outer_loop (F : Nat) (hay needle : Bytes) (h1 : hay.length ≤ 2147483648) (hF : hay.length < F) :
    ∀ (a : Bytes) (i j k n : Nat), hay.drop i = a → i ≤ hay.length → a.length < n →
      retVal (seqS (whileF (bstr_util_mem_index_of_mem_nocase_cond2 F hay needle) (bstr_util_mem_index_of_mem_nocase_body2 F hay needle)
                (bstr_util_mem_index_of_mem_nocase_incr2 F hay needle) n)
              (bstr_util_mem_index_of_mem_nocase_rest2 F hay needle) (SIU hay needle i j k))
        = some (match Bstr.indexOfAux Bstr.eqUpper needle a i with | some r => (r : Int) | none => -1) := by
  intro a
  induction a with
  | nil =>
    intro i j k n ha hi hn
    obtain ⟨m, rfl⟩ : ∃ m, n = m + 1 := ⟨n - 1, by omega⟩
    have hl := le_of_drop_nil ha
    have hc : bstr_util_mem_index_of_mem_nocase_cond2 F hay needle (SIU hay needle i j k) = some false := by
      have : ¬ ((i : Int) < hay.length) := by omega
      simp [bstr_util_mem_index_of_mem_nocase_cond2, this]
    rw [seqS_next (whileF_exit m hc)]
    simp [bstr_util_mem_index_of_mem_nocase_rest2, retS, retVal, Bstr.indexOfAux]
  | cons x a' ih =>
    intro i j k n ha hi hn
    obtain ⟨m, rfl⟩ : ∃ m, n = m + 1 := ⟨n - 1, by omega⟩
    have hl := lt_of_drop_cons ha
    have hc : bstr_util_mem_index_of_mem_nocase_cond2 F hay needle (SIU hay needle i j k) = some true := by
      have : ((i : Int) < hay.length) := by omega
      simp [bstr_util_mem_index_of_mem_nocase_cond2, this]
    obtain ⟨j', k', hb⟩ := index_nocase_body2 F hay needle h1 hF i j k hl
    rw [ha] at hb
    by_cases hp : Bstr.prefixMatch Bstr.eqUpper (x :: a') needle = true
    · rw [if_pos hp] at hb
      rw [seqS_ret (whileF_ret m hc hb)]
      simp [retVal, Bstr.indexOfAux, hp]
    · rw [if_neg hp] at hb
      have hu : u64 ((i : Int) + 1) = ((i + 1 : Nat) : Int) := by rw [u64_id] <;> omega
      have hin : bstr_util_mem_index_of_mem_nocase_incr2 F hay needle (SIU hay needle i j' k') = some (.next (SIU hay needle (i + 1) j' k')) := by
        simp [bstr_util_mem_index_of_mem_nocase_incr2, assignS, hu]
      rw [seqS_congr (whileF_next m hc hb hin)]
      have := ih (i + 1) j' k' m (drop_succ_of_drop ha) (by omega) (by simp at hn; omega)
      simpa [Bstr.indexOfAux, hp] using this

/-- **bstr_util_mem_index_of_mem_nocase, as translated from the current source, is the model's `Bstr.indexOfMemNocase`** (`-1` for "not found") for every
    haystack of at most 2^31 bytes (so that `(int) i` is `i`) and every needle, with every read inside the arrays and both loops
    finished within `len1 + 1` turns -/
theorem bstr_util_mem_index_of_mem_nocase_eq (hay needle : Bytes) (h1 : hay.length ≤ 2147483648) (fuel : Nat) (hf : hay.length < fuel) :
    (bstr_util_mem_index_of_mem_nocase fuel hay needle hay.length needle.length).map (·.1)
      = some (match Bstr.indexOfMemNocase hay needle with | some i => (i : Int) | none => -1) := by
  unfold bstr_util_mem_index_of_mem_nocase
  rw [run_val]
  unfold bstr_util_mem_index_of_mem_nocase_stmt bstr_util_mem_index_of_mem_nocase_loop2
  have h0 : (assignS fun s => some { s with i := 0 })
      ({ len1 := hay.length, len2 := needle.length } : St_bstr_util_mem_index_of_mem_nocase) = some (.next (SIU hay needle 0 0 0)) := by
    simp [assignS, SIU]
  rw [seqS_next h0]
  exact index_nocase_outer_loop fuel hay needle h1 hf hay 0 0 0 fuel rfl (by omega) hf

/-- corner case, empty needle: found at 0 in a non-empty haystack, not found (-1) in the empty haystack — C and model alike -/
theorem bstr_util_mem_index_of_mem_nocase_empty_needle (hay : Bytes) (h1 : hay.length ≤ 2147483648) (fuel : Nat) (hf : hay.length < fuel) :
    (bstr_util_mem_index_of_mem_nocase fuel hay [] hay.length 0).map (·.1) = some (if hay = [] then -1 else 0) := by
  have := bstr_util_mem_index_of_mem_nocase_eq hay [] h1 fuel hf
  simp only [List.length_nil, Int.natCast_zero] at this
  rw [this]
  cases hay <;> simp [Bstr.indexOfMemNocase, Bstr.indexOfAux, Bstr.prefixMatch]

end Htp.CFuns
