/- One step of the UTF-8 automaton, `htp_utf8_decode_allow_overlong` (htp_utf8_decoder.c), as translated from the current source
   (HtpModel/Gen/CFuns.lean) = the hand-written model `Htp.Decode.utf8Dfa` for every byte, every automaton state (0..8) and every
   32-bit code point; the new state is again one of 0..8. -/
import HtpModel.Gen.CFuns
import HtpModel.Util.Decode
namespace Htp.CFuns
open Htp Htp.CSem Htp.Gen.C Htp.Gen Htp.Decode
set_option linter.unusedSimpArgs false
set_option linter.unusedVariables false

/-! ## 0. the tables -/

theorem utf8d_length : utf8d.length = 400 := by decide +kernel
theorem utf8dAllowOverlong_length : utf8dAllowOverlong.length = 400 := by decide +kernel

/-- every character class is at most 11, so `256 + state*16 + type` stays inside `utf8d` for state ≤ 8 -/
theorem utf8_type_le : ∀ c : UInt8, utf8dAllowOverlong.getD c.toNat 0 ≤ 11 := by
  apply forall_uint8_of_lt
  decide +kernel

/-- the transition part of `utf8d` maps the states 0..8 to the states 0..8 -/
theorem utf8d_trans_le : ∀ i, i < 144 → utf8d.getD (256 + i) 0 ≤ 8 := by
  decide +kernel

theorem rdT_nat (t : List Nat) (n : Nat) (h : n < t.length) : rdT t (n : Int) = some ((t.getD n 0 : Nat) : Int) := by
  unfold rdT
  have : ¬ ((n : Int) < 0) := by omega
  simp [this, h]

/-! ## 1. bit operators -/

theorem or_mod_small (a b : Nat) (ha : a < 64) : (a ||| (b % 4294967296)) = (a ||| b) % 4294967296 := by
  have e : (4294967296 : Nat) = 2 ^ 32 := by decide
  rw [e, Nat.or_mod_two_pow, Nat.mod_eq_of_lt (a := a) (by omega)]

theorem and_lt_256 (a b : Nat) (hb : b < 256) : a &&& b < 256 := Nat.lt_of_le_of_lt Nat.and_le_right hb

/- the C operators on casts of naturals are the natural-number operators -/
theorem bandI_nat (a b : Nat) : bandI (a : Int) (b : Int) = ((a &&& b : Nat) : Int) := by
  unfold bandI; rw [Int.toNat_natCast, Int.toNat_natCast]
theorem borI_nat (a b : Nat) : borI (a : Int) (b : Int) = ((a ||| b : Nat) : Int) := by
  unfold borI; rw [Int.toNat_natCast, Int.toNat_natCast]
theorem shlI_nat (a k : Nat) : shlI (a : Int) (k : Int) = ((a <<< k : Nat) : Int) := by
  unfold shlI; rw [Int.toNat_natCast, Int.toNat_natCast]
theorem shrI_nat (a k : Nat) : shrI (a : Int) (k : Int) = ((a >>> k : Nat) : Int) := by
  unfold shrI; rw [Int.toNat_natCast, Int.toNat_natCast]
theorem u32_nat (n : Nat) (h : n < 4294967296) : u32 (n : Int) = (n : Int) := u32_id (by omega) (by omega)
theorem u32_nat_mod (n : Nat) : u32 (n : Int) = ((n % 4294967296 : Nat) : Int) := by unfold u32; omega

/-! ## 2. the step -/

/-- the new `*codep` of the translated function (both arms of the `?:`) is the model's -/
theorem utf8_codep_eq (state codep ty : Nat) (byte : UInt8) :
    u32 (if (decide ((state : Int) ≠ 0)) then (borI (bandI (byte.toNat : Int) 63) (u32 (shlI (codep : Int) 6)))
          else (bandI (u32 (shrI 255 (ty : Int))) (byte.toNat : Int)))
      = (((if state != UTF8_ACCEPT then ((byte.toNat &&& 0x3f) ||| (codep <<< 6)) % 4294967296
            else (0xff >>> ty) &&& byte.toNat : Nat)) : Int) := by
  have hb := UInt8.toNat_lt byte
  by_cases h0 : state = 0
  · have h0' : ¬ ((state : Int) ≠ 0) := by omega
    have hle : 255 >>> ty ≤ 255 := by rw [Nat.shiftRight_eq_div_pow]; exact Nat.div_le_self _ _
    have hlt := and_lt_256 (255 >>> ty) byte.toNat (by omega)
    have e1 : bandI (u32 (shrI 255 (ty : Int))) (byte.toNat : Int) = (((255 >>> ty) &&& byte.toNat : Nat) : Int) := by
      have k1 : shrI 255 (ty : Int) = ((255 >>> ty : Nat) : Int) := shrI_nat 255 ty
      rw [k1, u32_nat _ (by omega), bandI_nat]
    rw [if_neg (by simp [h0]), e1, if_neg (by simp [h0, UTF8_ACCEPT])]
    exact u32_nat _ (by omega)
  · have h0' : ((state : Int) ≠ 0) := by omega
    have ha : byte.toNat &&& 63 < 64 := Nat.lt_of_le_of_lt Nat.and_le_right (by omega)
    have e1 : borI (bandI (byte.toNat : Int) 63) (u32 (shlI (codep : Int) 6))
        = ((((byte.toNat &&& 63) ||| (codep <<< 6)) % 4294967296 : Nat) : Int) := by
      have k1 : shlI (codep : Int) 6 = ((codep <<< 6 : Nat) : Int) := shlI_nat codep 6
      have k2 : bandI (byte.toNat : Int) 63 = ((byte.toNat &&& 63 : Nat) : Int) := bandI_nat byte.toNat 63
      rw [← or_mod_small _ _ ha, k1, u32_nat_mod, k2, borI_nat]
    have hne : (state != UTF8_ACCEPT) = true := by simp [UTF8_ACCEPT, h0]
    rw [if_pos (by simp [h0]), e1, if_pos hne]
    exact u32_nat _ (Nat.mod_lt _ (by omega))

/-- **htp_utf8_decode_allow_overlong, as translated from the current source, is `utf8Dfa`**: returned value, new `*state`, new `*codep`
    (and the character class read), for every byte, every state 0..8 and every `*codep`; in particular both table reads are
    inside their tables -/
theorem utf8_step_eq_any_codep (fuel : Nat) (state codep : Nat) (byte : UInt8) (hs : state ≤ 8) :
    htp_utf8_decode_allow_overlong fuel state codep byte.toNat
      = some (((utf8Dfa state codep byte).1 : Int),
          { state := ((utf8Dfa state codep byte).1 : Int), codep := ((utf8Dfa state codep byte).2 : Int), byte := byte.toNat,
            type := ((utf8dAllowOverlong.getD byte.toNat 0 : Nat) : Int) }) := by
  have hb := UInt8.toNat_lt byte
  have ht := utf8_type_le byte
  generalize htd : utf8dAllowOverlong.getD byte.toNat 0 = ty at ht
  have r1 : rdT utf8dAllowOverlong (byte.toNat : Int) = some ((ty : Nat) : Int) := by
    rw [rdT_nat _ _ (by rw [utf8dAllowOverlong_length]; omega), htd]
  have eidx : u32 ((u32 ((u32 256) + (u32 ((state : Int) * 16)))) + (ty : Int)) = ((256 + state * 16 + ty : Nat) : Int) := by
    unfold u32; omega
  have r2 : rdT utf8d ((256 + state * 16 + ty : Nat) : Int) = some ((utf8d.getD (256 + state * 16 + ty) 0 : Nat) : Int) :=
    rdT_nat _ _ (by rw [utf8d_length]; omega)
  simp only [htp_utf8_decode_allow_overlong, htp_utf8_decode_allow_overlong_stmt, run, seqS, assignS, retS, r1, Option.bind_some,
    Option.map_some, eidx, r2, utf8Dfa, htd, utf8_codep_eq]

/-- the same under the C type's bound on `*codep` (not needed: the translated `*codep << 6` is wrapped to 32 bits, and the model takes
    `% 4294967296`, for any natural) -/
theorem utf8_step_eq (fuel : Nat) (state codep : Nat) (byte : UInt8) (hs : state ≤ 8) (hc : codep < 4294967296) :
    htp_utf8_decode_allow_overlong fuel state codep byte.toNat
      = some (((utf8Dfa state codep byte).1 : Int),
          { state := ((utf8Dfa state codep byte).1 : Int), codep := ((utf8Dfa state codep byte).2 : Int), byte := byte.toNat,
            type := ((utf8dAllowOverlong.getD byte.toNat 0 : Nat) : Int) }) :=
  utf8_step_eq_any_codep fuel state codep byte hs

/-- the bound `state ≤ 8` is the exact one: in "state" 9 the second read leaves `utf8d` (400 entries) for every byte
    (256 + 9*16 = 400), and the translated function is undefined there -/
theorem utf8_step_state9_undefined (fuel : Nat) (codep : Nat) (byte : UInt8) :
    htp_utf8_decode_allow_overlong fuel 9 codep byte.toNat = none := by
  have hb := UInt8.toNat_lt byte
  have ht := utf8_type_le byte
  generalize htd : utf8dAllowOverlong.getD byte.toNat 0 = ty at ht
  have r1 : rdT utf8dAllowOverlong (byte.toNat : Int) = some ((ty : Nat) : Int) := by
    rw [rdT_nat _ _ (by rw [utf8dAllowOverlong_length]; omega), htd]
  have eidx : u32 ((u32 ((u32 256) + (u32 ((9 : Int) * 16)))) + (ty : Int)) = ((400 + ty : Nat) : Int) := by
    unfold u32; omega
  have r2 : rdT utf8d ((400 + ty : Nat) : Int) = none := by
    unfold rdT
    have : ¬ (((400 + ty : Nat) : Int) < 0) := by omega
    rw [if_neg this, Int.toNat_natCast, List.getElem?_eq_none (by rw [utf8d_length]; omega)]
    rfl
  simp only [htp_utf8_decode_allow_overlong, htp_utf8_decode_allow_overlong_stmt, run, seqS, assignS, retS, r1, Option.bind_some,
    Option.map_some, eidx, r2, Option.bind_none, Option.map_none]

/-- the returned value, the new `*state` and the new `*codep` only -/
theorem utf8_step_eq_map (fuel : Nat) (state codep : Nat) (byte : UInt8) (hs : state ≤ 8) (hc : codep < 4294967296) :
    (htp_utf8_decode_allow_overlong fuel state codep byte.toNat).map (fun r => (r.1, r.2.state, r.2.codep))
      = some (((utf8Dfa state codep byte).1 : Int), ((utf8Dfa state codep byte).1 : Int), ((utf8Dfa state codep byte).2 : Int)) := by
  rw [utf8_step_eq fuel state codep byte hs hc]; rfl

/-! ## 3. the invariant of the decoding loop -/

/-- **the new state is again one of 0..8**, so the hypothesis of `utf8_step_eq` holds at every step of a decoding loop that starts
    in state 0 (ACCEPT) -/
theorem utf8_step_state_le (state codep : Nat) (byte : UInt8) (hs : state ≤ 8) : (utf8Dfa state codep byte).1 ≤ 8 := by
  have ht := utf8_type_le byte
  simp only [utf8Dfa]
  generalize utf8dAllowOverlong.getD byte.toNat 0 = ty at ht
  have : 256 + state * 16 + ty = 256 + (state * 16 + ty) := by omega
  rw [this]
  exact utf8d_trans_le _ (by omega)

/-- the new code point is again below 2^32 (the other half of the loop invariant) -/
theorem utf8_step_codep_lt (state codep : Nat) (byte : UInt8) : (utf8Dfa state codep byte).2 < 4294967296 := by
  simp only [utf8Dfa]
  split
  · exact Nat.mod_lt _ (by omega)
  · exact Nat.lt_of_lt_of_le (and_lt_256 _ _ (UInt8.toNat_lt byte)) (by omega)

end Htp.CFuns

