/- A state invariant for the Content-Length of identity-coded request bodies (`ClOK`): every stored transaction whose request transfer
   coding is IDENTITY has a non-negative request Content-Length. It holds in the initial state, every function that runs inside a request
   data call keeps it (the two fields are written by `txProcessRequestHeaders` only, from `requestFraming`, which answers IDENTITY only
   with a parsed non-negative length), and it discharges `ClAtDecision`, the last outside hypothesis of the whole-call theorems of the
   request direction. -/
import HtpModel.Lemmas.Owed
namespace Htp.Conn
open Htp Htp.Gen

/-- an identity-coded request body has a non-negative Content-Length -/
def ClOKTx (t : Tx) : Prop := t.reqTransferCoding = CODING_IDENTITY → 0 ≤ t.reqContentLength

/-- every stored transaction is `ClOKTx` -/
def ClOK (c : Conn) : Prop := ∀ t, some t ∈ c.txs → ClOKTx t

/-- `f` keeps the invariant -/
structure KeepCl (c c' : Conn) : Prop where
  keep : ClOK c → ClOK c'

theorem KeepCl.refl (c : Conn) : KeepCl c c := ⟨id⟩
theorem KeepCl.trans {a b c : Conn} (h1 : KeepCl a b) (h2 : KeepCl b c) : KeepCl a c := ⟨fun h => h2.keep (h1.keep h)⟩

/-- a transaction as created (`{ uid := u }`, whatever the other defaulted fields): coding UNKNOWN -/
theorem clOKTx_default (u : Nat) : ClOKTx { uid := u } := fun h => by
  have h' : CODING_UNKNOWN = CODING_IDENTITY := h
  exact absurd h' (by decide)

theorem clOK_init : ClOK ({} : Conn) := fun t h => by
  have : some t ∈ ([] : List (Option Tx)) := h
  simp at this

/-- the state whose transaction list is the same -/
theorem keepCl_of_txs {c c' : Conn} (h : c'.txs = c.txs) : KeepCl c c' := ⟨fun hc t ht => hc t (by rw [← h]; exact ht)⟩

theorem clOKTx_findTx {c : Conn} (h : ClOK c) {u : Nat} {t : Tx} (hf : c.findTx u = some t) : ClOKTx t := by
  unfold Conn.findTx at hf
  generalize hq : c.txs.find? _ = q at hf
  cases q with
  | none => simp at hf
  | some o =>
    cases o with
    | none => simp at hf
    | some t' =>
      simp only [Option.join_some, Option.some.injEq] at hf
      subst hf
      exact h _ (List.mem_of_find?_eq_some hq)

theorem clOKTx_getD {c : Conn} (h : ClOK c) (u : Nat) {d : Tx} (hd : ClOKTx d) : ClOKTx ((c.findTx u).getD d) := by
  cases hf : c.findTx u with
  | none => exact hd
  | some t => exact clOKTx_findTx h hf

theorem clOKTx_inTx {c : Conn} (h : ClOK c) : ClOKTx c.inTx := by
  unfold Conn.inTx
  cases hb : c.inn.tx.bind c.findTx with
  | none => exact clOKTx_default 0
  | some t =>
    cases hu : c.inn.tx with
    | none => rw [hu] at hb; simp at hb
    | some u =>
      rw [hu] at hb
      exact clOKTx_findTx h hb

theorem keepCl_modTx (u : Nat) (f : Tx → Tx) (c : Conn) (hf : ∀ t, ClOKTx t → ClOKTx (f t) := by exact fun _ h => h) : KeepCl c (c.modTx u f) := by
  refine ⟨fun h t ht => ?_⟩
  unfold Conn.modTx at ht
  simp only [List.mem_map] at ht
  obtain ⟨o, ho, he⟩ := ht
  cases o with
  | none => simp at he
  | some x =>
    simp only at he
    split at he
    · simp only [Option.some.injEq] at he
      rw [← he]; exact hf x (h x ho)
    · simp only [Option.some.injEq] at he
      rw [← he]; exact h x ho

theorem keepCl_modIn (f : Tx → Tx) (c : Conn) (hf : ∀ t, ClOKTx t → ClOKTx (f t) := by exact fun _ h => h) : KeepCl c (c.modIn f) := by
  unfold Conn.modIn
  split
  · exact keepCl_modTx _ f c hf
  · exact KeepCl.refl c

theorem keepCl_modOut (f : Tx → Tx) (c : Conn) (hf : ∀ t, ClOKTx t → ClOKTx (f t) := by exact fun _ h => h) : KeepCl c (c.modOut f) := by
  unfold Conn.modOut
  split
  · exact keepCl_modTx _ f c hf
  · exact KeepCl.refl c

theorem keepCl_setTx (t : Tx) (c : Conn) (ht : ClOKTx t) : KeepCl c (c.setTx t) := by
  refine ⟨fun h t' ht' => ?_⟩
  unfold Conn.setTx at ht'
  simp only [List.mem_map] at ht'
  obtain ⟨o, ho, he⟩ := ht'
  cases o with
  | none => simp at he
  | some x =>
    simp only at he
    split at he
    · simp only [Option.some.injEq] at he
      rw [← he]; exact ht
    · simp only [Option.some.injEq] at he
      rw [← he]; exact h x ho

theorem clOK_setTx {c : Conn} {t : Tx} (hc : ClOK c) (ht : ClOKTx t) : ClOK (c.setTx t) := (keepCl_setTx t c ht).keep hc

theorem keepCl_destroyTx (u : Nat) (c : Conn) : KeepCl c (destroyTx u c) := by
  refine ⟨fun h t ht => ?_⟩
  unfold destroyTx at ht
  simp only [List.mem_map] at ht
  obtain ⟨o, ho, he⟩ := ht
  cases o with
  | none => simp at he
  | some x =>
    simp only at he
    split at he
    · simp at he
    · simp only [Option.some.injEq] at he
      rw [← he]; exact h x ho

/-- sequencing with `>>?` keeps the invariant -/
theorem keepCl_andThen (c0 : Conn) (r : R) (f : Conn → R) (h1 : KeepCl c0 r.1) (h2 : ∀ c, KeepCl c (f c).1) :
    KeepCl c0 (r >>? f).1 := by
  unfold R.andThen
  split
  · exact h1.trans (h2 r.1)
  · exact h1

/-! ### the framing decision -/

/-- **`requestFraming` answers IDENTITY only without a Transfer-Encoding header, with a Content-Length header, and with a parsed length that
    is not negative** (a negative - unparseable - length gives CODING_INVALID) -/
theorem requestFraming_identity (hs : List Parse.Header) (p : Int) (fl : Nat) (h : (requestFraming hs p fl).coding = CODING_IDENTITY) :
    (getHeaderC hs (b!"transfer-encoding")).isNone = true ∧ (getHeaderC hs (b!"content-length")).isSome = true ∧
    0 ≤ (requestFraming hs p fl).contentLength := by
  unfold requestFraming at h ⊢
  simp only [] at h ⊢
  cases hte : getHeaderC hs (b!"transfer-encoding") with
  | some te =>
    rw [hte] at h
    simp only at h
    split at h
    · exact absurd (show CODING_INVALID = CODING_IDENTITY from h) (by decide)
    · exact absurd (show CODING_CHUNKED = CODING_IDENTITY from h) (by decide)
  | none =>
    rw [hte] at h
    simp only at h ⊢
    cases hcl : getHeaderC hs (b!"content-length") with
    | none =>
      rw [hcl] at h
      exact absurd (show CODING_NO_BODY = CODING_IDENTITY from h) (by decide)
    | some cl =>
      rw [hcl] at h
      simp only at h ⊢
      split at h
      · exact absurd (show CODING_INVALID = CODING_IDENTITY from h) (by decide)
      · rename_i hn
        refine ⟨rfl, rfl, ?_⟩
        simp only [hn, if_false]
        omega

/-- the transaction record that `txProcessRequestHeaders` builds from the framing decision is `ClOKTx`, whatever it was before -/
theorem clOKTx_framed (t : Tx) :
    ClOKTx { t with reqTransferCoding := (requestFraming t.reqHeaders t.protocolNumber t.flags).coding,
                    flags := (requestFraming t.reqHeaders t.protocolNumber t.flags).flags,
                    reqContentLength := if (getHeaderC t.reqHeaders (b!"transfer-encoding")).isNone &&
                                            (getHeaderC t.reqHeaders (b!"content-length")).isSome
                                        then (requestFraming t.reqHeaders t.protocolNumber t.flags).contentLength else t.reqContentLength } := by
  intro h
  obtain ⟨h1, h2, h3⟩ := requestFraming_identity _ _ _ h
  show 0 ≤ (if ((getHeaderC t.reqHeaders (b!"transfer-encoding")).isNone && (getHeaderC t.reqHeaders (b!"content-length")).isSome) = true
            then (requestFraming t.reqHeaders t.protocolNumber t.flags).contentLength else t.reqContentLength)
  rw [h1, h2]
  exact h3

/-! ### callbacks, body handlers, decompression -/

theorem keepCl_runCallback (h : Hook) (uid : Option Nat) (data : Option Bytes) (isLast : Bool) (c : Conn) (g : Nat) (s : Bool) :
    KeepCl c (runCallback h uid data isLast c g s).1 := by
  unfold runCallback
  simp only
  cases lookupAction c.policy c.cbCount with
  | ok => exact ⟨id⟩
  | declined => exact ⟨id⟩
  | stop => exact ⟨id⟩
  | error => exact ⟨id⟩
  | destroyTx =>
    simp only
    cases uid.bind c.findTx with
    | none => exact ⟨id⟩
    | some t =>
      simp only
      split
      · exact KeepCl.trans (b := { c with cbCount := c.cbCount + 1, events := _ :: c.events }) ⟨id⟩ (keepCl_destroyTx _ _)
      · exact ⟨id⟩
  | regTxHooks =>
    simp only
    cases uid with
    | none => exact ⟨id⟩
    | some u => exact KeepCl.trans (b := { c with cbCount := c.cbCount + 1, events := _ :: c.events }) ⟨id⟩ (keepCl_modTx _ _ _ (fun _ h => h))

theorem keepCl_runCallbackN (n : Nat) (h : Hook) (uid : Option Nat) (data : Option Bytes) (isLast : Bool) (g : Nat) (c : Conn) :
    KeepCl c (runCallbackN n h uid data isLast g c).1 := by
  induction n generalizing c with
  | zero => exact KeepCl.refl c
  | succ k ih =>
    unfold runCallbackN
    exact keepCl_andThen c _ _ (keepCl_runCallback ..) (fun c' => ih c')

theorem keepCl_urlencBodyCallback (cfg : Cfg) (uid : Nat) (data : Option Bytes) (c : Conn) :
    KeepCl c (urlencBodyCallback cfg uid data c).1 := by
  refine ⟨fun hc => ?_⟩
  unfold urlencBodyCallback
  cases hf : c.findTx uid with
  | none => exact hc
  | some t =>
    have ht := clOKTx_findTx hc hf
    simp only
    cases t.urlenBody with
    | none => exact hc
    | some u =>
      simp only
      split
      · exact hc
      · cases data with
        | some d => exact clOK_setTx hc ht
        | none => exact clOK_setTx hc ht

theorem keepCl_mpartFileEvents (uid : Nat) (evs : List (Nat × Option Bytes)) (c : Conn) :
    KeepCl c (mpartFileEvents uid evs c) := by
  induction evs generalizing c with
  | nil => exact KeepCl.refl c
  | cons e rest ih =>
    obtain ⟨i, d⟩ := e
    unfold mpartFileEvents
    exact (keepCl_runCallback ..).trans (ih _)

theorem keepCl_mpartBodyCallback (uid : Nat) (data : Option Bytes) (c : Conn) :
    KeepCl c (mpartBodyCallback uid data c).1 := by
  refine ⟨fun hc => ?_⟩
  unfold mpartBodyCallback
  cases hf : c.findTx uid with
  | none => exact hc
  | some t =>
    have ht := clOKTx_findTx hc hf
    simp only
    cases t.mpart with
    | none => exact hc
    | some mp =>
      simp only
      split
      · exact hc
      · cases data with
        | some d => exact (keepCl_mpartFileEvents _ _ _).keep (clOK_setTx hc ht)
        | none => exact (keepCl_mpartFileEvents _ _ _).keep (clOK_setTx hc ht)

theorem keepCl_runTxReqBodyHooks (cfg : Cfg) (uid : Nat) (data : Option Bytes) (isLast : Bool) (g : Nat) (hs : List TxHook) (c : Conn) :
    KeepCl c (runTxReqBodyHooks cfg uid data isLast g hs c).1 := by
  induction hs generalizing c with
  | nil => exact KeepCl.refl c
  | cons h rest ih =>
    unfold runTxReqBodyHooks
    apply keepCl_andThen
    · cases h with
      | user => exact keepCl_runCallback ..
      | urlenc => exact keepCl_urlencBodyCallback ..
      | mpart => exact keepCl_mpartBodyCallback ..
    · intro c'
      exact ih c'

theorem keepCl_reqRunHookBodyDataL (cfg : Cfg) (data : Option Bytes) (g : Nat) (l : Bool) (c : Conn) :
    KeepCl c (reqRunHookBodyDataL cfg data g l c).1 := by
  unfold reqRunHookBodyDataL
  split
  · exact KeepCl.refl c
  · cases c.inn.tx with
    | none => exact KeepCl.refl c
    | some uid =>
      simp only
      apply keepCl_andThen
      · exact keepCl_runTxReqBodyHooks ..
      · intro c2
        apply keepCl_andThen
        · exact keepCl_runCallback ..
        · intro c3
          split
          · exact keepCl_runCallback ..
          · exact KeepCl.refl c3

theorem keepCl_reqRunHookBodyData (cfg : Cfg) (data : Option Bytes) (g : Nat) (c : Conn) :
    KeepCl c (reqRunHookBodyData cfg data g c).1 := by
  unfold reqRunHookBodyData; exact keepCl_reqRunHookBodyDataL ..

theorem keepCl_unsupported (c : Conn) : KeepCl c { c with unsupported := true } := ⟨id⟩
theorem keepCl_zoracle (c : Conn) (zs : List ZRes) : KeepCl c { c with zoracle := zs } := ⟨id⟩

theorem keepCl_resRunHookBodyData (data : Option Bytes) (c : Conn) : KeepCl c (resRunHookBodyData data c).1 := by
  unfold resRunHookBodyData
  split
  · exact KeepCl.refl c
  · cases c.out.tx with
    | none => exact KeepCl.refl c
    | some uid =>
      simp only
      apply keepCl_andThen
      · exact keepCl_runCallbackN ..
      · intro c2; exact keepCl_runCallback ..

theorem keepCl_decFinalCallback (cfg : Cfg) (req : Bool) (uid : Nat) (l : Bool) (data : Option Bytes) (c : Conn) :
    KeepCl c (decFinalCallback cfg req uid l data c).1 := by
  unfold decFinalCallback
  simp only
  cases req with
  | true =>
    simp only [if_true]
    have h := keepCl_reqRunHookBodyDataL cfg data 0 l (c.modTx uid fun t => { t with reqEntityLen := t.reqEntityLen + (data.map (·.length)).getD 0 })
    have h0 := (keepCl_modTx uid (fun t => { t with reqEntityLen := t.reqEntityLen + (data.map (·.length)).getD 0 }) c (fun _ h => h)).trans h
    split
    · exact h0
    · split <;> exact h0
  | false =>
    simp only [Bool.false_eq_true, if_false]
    have h := keepCl_resRunHookBodyData data (c.modTx uid fun t => { t with resEntityLen := t.resEntityLen + (data.map (·.length)).getD 0 })
    have h0 := (keepCl_modTx uid (fun t => { t with resEntityLen := t.resEntityLen + (data.map (·.length)).getD 0 }) c (fun _ h => h)).trans h
    split
    · exact h0
    · split <;> exact h0

/-- the functions of the decompression driver keep the invariant -/
theorem keepCl_dec (cfg : Cfg) (req : Bool) (uid : Nat) : ∀ fuel : Nat,
    (∀ l useNext rest data c, KeepCl c (decSend cfg req uid l fuel useNext rest data c).2.1) ∧
    (∀ d drec rest inp c, KeepCl c (decLoop cfg req uid d fuel drec rest inp c).2.1) ∧
    (∀ d drec rest inp c, KeepCl c (decStep cfg req uid d fuel drec rest inp c).2.1) ∧
    (∀ ds data c, KeepCl c (decompress cfg req uid fuel ds data c).2.1) := by
  intro fuel
  induction fuel with
  | zero =>
    refine ⟨?_, ?_, ?_, ?_⟩
    · intro l useNext rest data c; unfold decSend; exact keepCl_unsupported c
    · intro d drec rest inp c; unfold decLoop; exact keepCl_unsupported c
    · intro d drec rest inp c; unfold decStep; exact keepCl_unsupported c
    · intro ds data c; unfold decompress; exact keepCl_unsupported c
  | succ k ih =>
    obtain ⟨ihS, ihL, ihT, ihD⟩ := ih
    refine ⟨?_, ?_, ?_, ?_⟩
    · intro l useNext rest data c
      unfold decSend
      split
      · exact ihD ..
      · exact keepCl_decFinalCallback ..
    · intro d drec rest inp c
      unfold decLoop
      split
      · exact KeepCl.refl c
      · by_cases hfull : (drec.buf.length == GZIP_BUF_SIZE) = true
        · simp only [hfull, if_true]
          rcases hx : decSend cfg req uid false k (drec.kind != 0) rest (some drec.buf) c with ⟨rest1, c1, rc1⟩
          have f1 : KeepCl c c1 := by have := ihS false (drec.kind != 0) rest (some drec.buf) c; rw [hx] at this; exact this
          simp only
          by_cases hrc : (rc1 != Rc.ok) = true
          · simp only [hrc, if_true]; exact f1
          · simp only [hrc, Bool.false_eq_true, if_false]
            exact f1.trans (ihT ..)
        · simp only [hfull, Bool.false_eq_true, if_false]
          exact ihT ..
    · intro d drec rest inp c
      unfold decStep
      split
      · exact keepCl_unsupported c
      split
      · exact KeepCl.refl c
      split
      · exact keepCl_unsupported c
      · rename_i z zs hz
        simp only
        generalize (if ((drec.buf ++ z.produced).length > 0 && z.rc == Z_DATA_ERROR) = true then Z_STREAM_END else z.rc) = rcv
        split
        · -- stream end: the buffer goes out
          rcases hx : decSend cfg req uid false k (drec.kind != 0) rest (some (drec.buf ++ z.produced)) { c with zoracle := zs } with ⟨rest1, c1, rc1⟩
          have f1 : KeepCl c c1 := by
            have := ihS false (drec.kind != 0) rest (some (drec.buf ++ z.produced)) { c with zoracle := zs }
            rw [hx] at this; exact (keepCl_zoracle c zs).trans this
          simp only
          split <;> exact f1
        · split
          · split
            · split
              · exact keepCl_zoracle c zs
              · exact (keepCl_zoracle c zs).trans (ihL ..)
            · rcases hx : decFinalCallback cfg req uid false (some d) { c with zoracle := zs } with ⟨c1, rc1⟩
              have f1 : KeepCl c c1 := by
                have := keepCl_decFinalCallback cfg req uid false (some d) { c with zoracle := zs }
                rw [hx] at this; exact (keepCl_zoracle c zs).trans this
              simp only
              split <;> exact f1
          · exact (keepCl_zoracle c zs).trans (ihL ..)
    · intro ds data c
      unfold decompress
      cases ds with
      | nil => exact KeepCl.refl c
      | cons drec rest =>
        simp only
        split
        · rcases hx : decFinalCallback cfg req uid data.isNone data c with ⟨c1, rc1⟩
          have f1 : KeepCl c c1 := by have := keepCl_decFinalCallback cfg req uid data.isNone data c; rw [hx] at this; exact this
          exact f1
        · cases data with
          | none =>
            simp only
            rcases hx : decSend cfg req uid true k (drec.kind != 0) rest (if drec.buf.length > 0 then some drec.buf else none) c with ⟨rest1, c1, rc1⟩
            have f1 : KeepCl c c1 := by
              have := ihS true (drec.kind != 0) rest (if drec.buf.length > 0 then some drec.buf else none) c; rw [hx] at this; exact this
            simp only
            split <;> exact f1
          | some d => exact ihL ..


/-- body processing keeps the invariant - with or without the request decompressor in the way -/
theorem keepCl_reqProcessBodyData (cfg : Cfg) (data : Option Bytes) (g : Nat) (c : Conn) :
    KeepCl c (reqProcessBodyData cfg data g c).1 := by
  unfold reqProcessBodyData
  cases c.inn.tx with
  | none => exact KeepCl.refl c
  | some uid =>
    simp only
    split
    · split
      · exact KeepCl.refl c
      · split
        · exact keepCl_unsupported c
        split
        · exact keepCl_unsupported c
        · rcases hx : decompress cfg true uid (8 * (data.map (·.length)).getD g + 128) c.inDecs data c with ⟨ds, c1, rc1⟩
          have f1 : KeepCl c c1 := by
            have := (keepCl_dec cfg true uid (8 * (data.map (·.length)).getD g + 128)).2.2.2 c.inDecs data c
            rw [hx] at this; exact this
          simp only
          exact f1.trans ⟨id⟩
    · have h := keepCl_reqRunHookBodyData cfg data g
        (c.modTx uid fun t => { t with reqEntityLen := t.reqEntityLen + (data.map (·.length)).getD g })
      split <;> exact (keepCl_modTx _ _ c).trans h


/-! ### receivers and the transaction state functions of the request side -/

theorem keepCl_reqReceiverSend (l : Bool) (c : Conn) : KeepCl c (reqReceiverSend l c).1 := by
  unfold reqReceiverSend
  cases c.inn.receiverHook with
  | none => exact KeepCl.refl c
  | some h =>
    simp only
    apply keepCl_andThen
    · exact keepCl_runCallback ..
    · intro c2; exact ⟨id⟩

theorem keepCl_reqReceiverFinalizeClear (c : Conn) : KeepCl c (reqReceiverFinalizeClear c).1 := by
  unfold reqReceiverFinalizeClear
  cases c.inn.receiverHook with
  | none => exact KeepCl.refl c
  | some h =>
    simp only
    exact (keepCl_reqReceiverSend true c).trans ⟨id⟩

theorem keepCl_reqReceiverSet (h : Hook) (c : Conn) : KeepCl c (reqReceiverSet h c).1 := by
  unfold reqReceiverSet
  simp only
  exact (keepCl_reqReceiverFinalizeClear c).trans ⟨id⟩

theorem keepCl_txFinalize (cfg : Cfg) (uid : Nat) (c : Conn) : KeepCl c (txFinalize cfg uid c).1 := by
  unfold txFinalize
  cases c.findTx uid with
  | none => exact KeepCl.refl c
  | some t =>
    simp only
    split
    · exact KeepCl.refl c
    · apply keepCl_andThen
      · exact keepCl_runCallback ..
      · intro c1
        split
        · split
          · exact keepCl_destroyTx ..
          · exact KeepCl.refl _
        · exact KeepCl.refl _

theorem keepCl_txStateRequestCompletePartial (cfg : Cfg) (uid : Nat) (c : Conn) :
    KeepCl c (txStateRequestCompletePartial cfg uid c).1 := by
  unfold txStateRequestCompletePartial
  simp only
  apply keepCl_andThen
  · split
    · exact keepCl_reqProcessBodyData ..
    · exact KeepCl.refl c
  · intro c1
    apply keepCl_andThen
    · exact (keepCl_modTx _ _ c1).trans (keepCl_runCallback ..)
    · intro c2
      apply keepCl_andThen
      · exact keepCl_reqReceiverFinalizeClear c2
      · intro c3; exact ⟨id⟩

theorem keepCl_txStateRequestComplete (cfg : Cfg) (uid : Nat) (c : Conn) : KeepCl c (txStateRequestComplete cfg uid c).1 := by
  unfold txStateRequestComplete
  simp only
  apply keepCl_andThen
  · split
    · exact keepCl_txStateRequestCompletePartial ..
    · exact KeepCl.refl c
  · intro c1
    have kf := keepCl_txFinalize cfg uid { c1 with inState := if ((c1.findTx uid).map (·.is09)).getD ((c.findTx uid).getD { uid := uid }).is09 then .ignoreDataAfter09 else .idle }
    rcases hx : txFinalize cfg uid { c1 with inState := if ((c1.findTx uid).map (·.is09)).getD ((c.findTx uid).getD { uid := uid }).is09 then .ignoreDataAfter09 else .idle } with ⟨c2, rc2⟩
    rw [hx] at kf
    exact ⟨fun h => kf.keep h⟩

theorem keepCl_txStateRequestStart (uid : Nat) (c : Conn) : KeepCl c (txStateRequestStart uid c).1 := by
  unfold txStateRequestStart
  apply keepCl_andThen
  · exact keepCl_runCallback ..
  · intro c1
    exact ⟨fun h => (keepCl_modIn _ { c1 with inState := .line }).keep h⟩

theorem keepCl_processRequestHeader (data : Bytes) (c : Conn) : KeepCl c (processRequestHeader data c).1 := by
  unfold processRequestHeader
  simp only
  exact (keepCl_modIn _ c).trans (keepCl_modIn _ _)

theorem keepCl_reqFlushHeader (c : Conn) : KeepCl c (reqFlushHeader c).1 := by
  unfold reqFlushHeader
  cases c.inn.header with
  | none => exact KeepCl.refl c
  | some h =>
    simp only
    have := keepCl_processRequestHeader h c
    split
    · exact this
    · exact this.trans ⟨id⟩

theorem clOK_installUrlenc {cfg : Cfg} {uid : Nat} {t : Tx} {c : Conn} (hc : ClOK c) (ht : ClOKTx t) : ClOK (installUrlenc cfg uid t c) := by
  have ht' := clOKTx_getD hc uid ht
  unfold installUrlenc
  simp only []
  repeat' split
  all_goals first | exact hc | exact clOK_setTx hc ht'

theorem clOK_installMpart {cfg : Cfg} {uid : Nat} {t : Tx} {c : Conn} (hc : ClOK c) (ht : ClOKTx t) : ClOK (installMpart cfg uid t c) := by
  have ht' := clOKTx_getD hc uid ht
  unfold installMpart
  simp only []
  repeat' split
  all_goals first | exact hc | exact clOK_setTx hc ht'

theorem clOK_txProcessRequestHeadersTail {cfg : Cfg} {uid : Nat} {t : Tx} {ae : Bool} {c : Conn} (hc : ClOK c) (ht : ClOKTx t) :
    ClOK (txProcessRequestHeadersTail cfg uid t ae c).1 := by
  unfold txProcessRequestHeadersTail
  split
  · exact hc
  · have k1 := keepCl_reqReceiverFinalizeClear c
    generalize reqReceiverFinalizeClear c = r at k1 ⊢
    unfold R.andThen
    split
    · exact (keepCl_runCallback ..).keep (clOK_installMpart (clOK_installUrlenc (k1.keep hc) ht) ht)
    · exact k1.keep hc

/-- **htp_tx_process_request_headers keeps the invariant**: it is the one writer of the two fields, and what it stores is the framing decision -/
theorem keepCl_txProcessRequestHeaders (cfg : Cfg) (uid : Nat) (c : Conn) : KeepCl c (txProcessRequestHeaders cfg uid c).1 := by
  refine ⟨fun hc => ?_⟩
  unfold txProcessRequestHeaders
  extract_lets t0 ce enc c2 t1 c1 fr t2 hasBody c0 un
  have k2 : KeepCl c c2 := keepCl_modTx ..
  have k1 : KeepCl c2 c1 := by
    simp only [c1]
    split
    · exact ⟨id⟩
    · exact KeepCl.refl _
  have k0 : KeepCl c1 c0 := by
    simp only [c0]
    split
    · exact ⟨id⟩
    · exact KeepCl.refl _
  have hc0 : ClOK c0 := ((k2.trans k1).trans k0).keep hc
  have ht2 : ClOKTx t2 := clOKTx_framed t1
  clear_value c0
  split
  extract_lets t3 t4 t5
  have h3 : ClOKTx t3 := ht2
  have h4 : ClOKTx t4 := by
    simp only [t4]
    split <;> exact h3
  have h5 : ClOKTx t5 := by
    simp only [t5]
    repeat' split
    all_goals exact h4
  clear_value t5
  split
  rename_i T ae heq
  have hT : ClOKTx T := by
    have e := congrArg Prod.fst heq
    simp only at e
    rw [← e]
    repeat' split
    all_goals exact h5
  exact clOK_txProcessRequestHeadersTail (clOK_setTx hc0 hT) hT

theorem keepCl_urlencQueryCallback (cfg : Cfg) (uid : Nat) (c : Conn) : KeepCl c (urlencQueryCallback cfg uid c) := by
  refine ⟨fun hc => ?_⟩
  unfold urlencQueryCallback
  cases hf : c.findTx uid with
  | none => exact hc
  | some t =>
    have ht := clOKTx_findTx hc hf
    simp only []
    repeat' split
    all_goals first | exact hc | exact clOK_setTx hc ht

theorem keepCl_txCreate (cfg : Cfg) (c : Conn) : KeepCl c (txCreate cfg c).1 := by
  refine ⟨fun hc => ?_⟩
  unfold txCreate
  simp only []
  split
  · exact hc
  · intro t ht
    have ht' : some t ∈ c.txs ++ [some ({ uid := c.nextUid, index := c.txs.length, portNumber := 0 } : Tx)] := ht
    simp only [List.mem_append, List.mem_singleton, Option.some.injEq] at ht'
    rcases ht' with h | h
    · exact hc t h
    · rw [h]
      intro hh
      exact absurd (show CODING_UNKNOWN = CODING_IDENTITY from hh) (by decide)

theorem keepCl_txStateRequestLine (cfg : Cfg) (uid : Nat) (c : Conn) : KeepCl c (txStateRequestLine cfg uid c).1 := by
  refine ⟨fun hc => ?_⟩
  have ht0 : ClOKTx ((c.findTx uid).getD { uid := uid }) := clOKTx_getD hc uid (clOKTx_default uid)
  unfold txStateRequestLine
  extract_lets t0 hp fl1 fl2 src t1 t2 t3 c1
  split
  · exact hc
  · have h1 : ClOKTx t1 := by
      simp only [t1]
      repeat' split
      all_goals exact ht0
    have h2 : ClOKTx t2 := by
      simp only [t2]
      repeat' split
      all_goals exact h1
    have h3 : ClOKTx t3 := by
      simp only [t3]
      repeat' split
      all_goals exact h2
    have hc1 : ClOK c1 := clOK_setTx hc h3
    clear_value c1
    apply (keepCl_andThen c1 _ _ (keepCl_runCallback ..) ?_).keep hc1
    intro c2
    have k3 : KeepCl c2 (if cfg.urlencParsers then urlencQueryCallback cfg uid c2 else c2) := by
      split
      · exact keepCl_urlencQueryCallback ..
      · exact KeepCl.refl _
    apply keepCl_andThen
    · exact k3.trans (keepCl_runCallback ..)
    · intro c3; exact ⟨id⟩

theorem keepCl_txStateRequestHeaders (cfg : Cfg) (uid : Nat) (c : Conn) : KeepCl c (txStateRequestHeaders cfg uid c).1 := by
  unfold txStateRequestHeaders
  simp only
  split
  · apply keepCl_andThen
    · exact keepCl_runCallback ..
    · intro c1
      apply keepCl_andThen
      · exact keepCl_reqReceiverFinalizeClear c1
      · intro c2; exact ⟨id⟩
  · split
    · have k0 : KeepCl c (if c.inChunkCount != c.inChunkRequestIndex then c.modTx uid (fun t => { t with flags := t.flags ||| MULTI_PACKET_HEAD }) else c) := by
        split
        · exact keepCl_modTx ..
        · exact KeepCl.refl c
      apply keepCl_andThen
      · exact k0.trans (keepCl_txProcessRequestHeaders ..)
      · intro c1; exact ⟨id⟩
    · exact KeepCl.refl c

/-! ### the fourteen request state functions -/

theorem keepCl_inn (c : Conn) (d : Dir) : KeepCl c { c with inn := d } := ⟨id⟩

theorem keepCl_reqIdle (cfg : Cfg) (c : Conn) : KeepCl c (reqIdle cfg c).1 := by
  unfold reqIdle
  split
  · exact KeepCl.refl c
  · have k := keepCl_txCreate cfg c
    rcases hx : txCreate cfg c with ⟨c1, u⟩
    rw [hx] at k
    simp only at k ⊢
    cases u with
    | none => exact k.trans ⟨id⟩
    | some uid =>
      simp only
      have k2 := keepCl_txStateRequestStart uid c1
      rcases hy : txStateRequestStart uid c1 with ⟨c2, rc2⟩
      rw [hy] at k2
      exact k.trans k2

theorem keepCl_reqLineComplete (cfg : Cfg) (c : Conn) : KeepCl c (reqLineComplete cfg c).1 := by
  unfold reqLineComplete
  cases hc : c.inn.consolidate cfg.fieldLimitHard true with
  | none => exact KeepCl.refl c
  | some p =>
    obtain ⟨d, data⟩ := p
    simp -zeta only
    extract_lets c0 ci line rl c1
    have ki : KeepCl c ci := (keepCl_inn c d).trans (keepCl_modIn _ c0)
    have k1 : KeepCl c c1 := (keepCl_inn c d).trans (keepCl_modIn _ c0)
    clear_value ci c1
    split
    · exact ⟨id⟩
    · split
      · exact ki.trans ⟨id⟩
      · cases c1.inn.tx with
        | none => exact k1
        | some uid =>
          simp only
          have k2 := keepCl_txStateRequestLine cfg uid c1
          rcases hy : txStateRequestLine cfg uid c1 with ⟨c2, rc2⟩
          rw [hy] at k2
          simp only at k2 ⊢
          split
          · exact k1.trans k2
          · exact (k1.trans k2).trans ⟨id⟩

theorem keepCl_reqLineLoop (cfg : Cfg) (fuel : Nat) (c : Conn) : KeepCl c (reqLineLoop cfg fuel c).1 := by
  induction fuel generalizing c with
  | zero => unfold reqLineLoop; exact KeepCl.refl c
  | succ k ih =>
    unfold reqLineLoop
    simp only
    split
    · exact (keepCl_inn c _).trans (keepCl_reqLineComplete cfg _)
    · cases hn : (c.inn.peekSet).1.copyByte with
      | none => exact ⟨id⟩
      | some p =>
        obtain ⟨d, b⟩ := p
        simp only
        split
        · exact (keepCl_inn c _).trans (keepCl_reqLineComplete cfg _)
        · exact (keepCl_inn c _).trans (ih _)

theorem keepCl_reqProtocol (c : Conn) : KeepCl c (reqProtocol c).1 := by
  have k1 : KeepCl c ({ c with inState := .headers }.modIn (fun t => { t with reqProgress := 2 })) :=
    ⟨fun h => (keepCl_modIn _ { c with inState := .headers }).keep h⟩
  unfold reqProtocol
  simp only []
  repeat' split
  all_goals first
    | exact ⟨id⟩
    | exact k1
    | exact k1.trans (keepCl_modIn _ _)

theorem keepCl_reqHeadersLoop (cfg : Cfg) (fuel : Nat) (c : Conn) : KeepCl c (reqHeadersLoop cfg fuel c).1 := by
  induction fuel generalizing c with
  | zero => unfold reqHeadersLoop; exact KeepCl.refl c
  | succ k ih =>
    unfold reqHeadersLoop
    cases c.inn.tx with
    | none => exact KeepCl.refl c
    | some uid =>
      simp only
      split
      · apply keepCl_andThen
        · exact keepCl_reqFlushHeader c
        · intro c1
          exact (keepCl_inn c1 c1.inn.clearBuffer).trans ((keepCl_modIn _ _).trans (keepCl_txStateRequestHeaders ..))
      · cases hn : c.inn.copyByte with
        | none => exact KeepCl.refl c
        | some p =>
          obtain ⟨d, b⟩ := p
          simp only
          split
          · exact (keepCl_inn c d).trans (ih _)
          · cases hc : d.consolidate cfg.fieldLimitHard true with
            | none => exact ⟨id⟩
            | some q =>
              obtain ⟨d2, data⟩ := q
              simp only
              split
              · apply keepCl_andThen
                · exact (keepCl_inn c d2).trans (keepCl_reqFlushHeader _)
                · intro c1
                  exact (keepCl_inn c1 _).trans (keepCl_txStateRequestHeaders ..)
              · apply keepCl_andThen
                · split
                  · apply keepCl_andThen
                    · exact (keepCl_inn c d2).trans (keepCl_reqFlushHeader _)
                    · intro c1
                      split
                      · split
                        · have kk := keepCl_processRequestHeader (Parse.chomp data).1 { c1 with inn := (c1.inn.peekSet).1 }
                          split
                          · exact (keepCl_inn c1 _).trans kk
                          · exact (keepCl_inn c1 _).trans kk
                        · exact ⟨id⟩
                      · exact ⟨id⟩
                  · split
                    · exact ((keepCl_inn c d2).trans (keepCl_modIn _ _)).trans ⟨id⟩
                    · split
                      · exact ⟨id⟩
                      · exact ⟨id⟩
                · intro c1
                  exact (keepCl_inn c1 _).trans (ih _)

theorem keepCl_reqConnectCheck (c : Conn) : KeepCl c (reqConnectCheck c).1 := by
  unfold reqConnectCheck
  split <;> exact ⟨id⟩

theorem keepCl_reqConnectWaitResponse (c : Conn) : KeepCl c (reqConnectWaitResponse c).1 := by
  unfold reqConnectWaitResponse
  simp only []
  repeat' split
  all_goals exact ⟨id⟩

theorem keepCl_reqConnectProbeLoop (cfg : Cfg) (fuel : Nat) (c : Conn) : KeepCl c (reqConnectProbeLoop cfg fuel c).1 := by
  induction fuel generalizing c with
  | zero => unfold reqConnectProbeLoop; exact KeepCl.refl c
  | succ k ih =>
    unfold reqConnectProbeLoop
    simp only
    split
    · cases hc : (c.inn.peekSet).1.consolidate cfg.fieldLimitHard true with
      | none => exact ⟨id⟩
      | some q =>
        obtain ⟨d2, data⟩ := q
        simp only
        split
        · split
          · rename_i uid _
            exact (keepCl_inn c d2).trans (keepCl_txStateRequestComplete cfg uid _)
          · exact ⟨id⟩
        · exact ⟨id⟩
    · cases hn : (c.inn.peekSet).1.copyByte with
      | none => exact ⟨id⟩
      | some p =>
        obtain ⟨d, b⟩ := p
        exact (keepCl_inn c d).trans (ih _)

theorem keepCl_reqBodyDetermine (c : Conn) : KeepCl c (reqBodyDetermine c).1 := by
  unfold reqBodyDetermine
  simp only []
  repeat' split
  all_goals first
    | exact ⟨id⟩
    | exact ⟨fun h => (keepCl_modIn _ { c with inState := .bodyChunkedLength }).keep h⟩
    | exact ⟨fun h => (keepCl_modIn _ { c with inn := { c.inn with contentLength := c.inTx.reqContentLength, bodyDataLeft := c.inTx.reqContentLength }, inState := ReqState.bodyIdentity }).keep h⟩

theorem keepCl_reqBodyIdentity (cfg : Cfg) (c : Conn) : KeepCl c (reqBodyIdentity cfg c).1 := by
  unfold reqBodyIdentity
  extract_lets avail n data
  clear_value n data
  split
  · exact KeepCl.refl c
  · have k := keepCl_reqProcessBodyData cfg data (if c.inn.curNull then n.toNat else 0) c
    rcases hx : reqProcessBodyData cfg data (if c.inn.curNull then n.toNat else 0) c with ⟨c1, rc1⟩
    rw [hx] at k
    simp only at k ⊢
    have k2 : KeepCl c ({ c1 with inn := { c1.inn.advance n with bodyDataLeft := c1.inn.bodyDataLeft - n } }.modIn
        (fun t => { t with reqMessageLen := t.reqMessageLen + n.toNat })) :=
      k.trans ⟨fun h => (keepCl_modIn _ { c1 with inn := { c1.inn.advance n with bodyDataLeft := c1.inn.bodyDataLeft - n } }).keep h⟩
    split
    · exact k
    · split
      · exact k2.trans ⟨id⟩
      · exact k2

theorem keepCl_reqChunkedDataEndLoop (fuel : Nat) (c : Conn) : KeepCl c (reqChunkedDataEndLoop fuel c).1 := by
  induction fuel generalizing c with
  | zero => unfold reqChunkedDataEndLoop; exact KeepCl.refl c
  | succ k ih =>
    unfold reqChunkedDataEndLoop
    cases hn : c.inn.nextByteConsume with
    | none => exact KeepCl.refl c
    | some p =>
      obtain ⟨d, b⟩ := p
      simp only
      have k1 : KeepCl c ({ c with inn := d }.modIn (fun t => { t with reqMessageLen := t.reqMessageLen + 1 })) :=
        (keepCl_inn c d).trans (keepCl_modIn _ _)
      split
      · exact k1.trans ⟨id⟩
      · exact k1.trans (ih _)

theorem keepCl_reqBodyChunkedData (cfg : Cfg) (c : Conn) : KeepCl c (reqBodyChunkedData cfg c).1 := by
  unfold reqBodyChunkedData
  extract_lets avail n data
  clear_value n data
  split
  · exact KeepCl.refl c
  · have k := keepCl_reqProcessBodyData cfg (some data) 0 c
    rcases hx : reqProcessBodyData cfg (some data) 0 c with ⟨c1, rc1⟩
    rw [hx] at k
    simp only at k ⊢
    have k2 : KeepCl c ({ c1 with inn := { c1.inn.advance n with chunkedLength := c1.inn.chunkedLength - n } }.modIn
        (fun t => { t with reqMessageLen := t.reqMessageLen + n.toNat })) :=
      k.trans ⟨fun h => (keepCl_modIn _ { c1 with inn := { c1.inn.advance n with chunkedLength := c1.inn.chunkedLength - n } }).keep h⟩
    split
    · exact k
    · split
      · exact k2.trans ⟨id⟩
      · exact k2

theorem keepCl_reqChunkedLengthLoop (cfg : Cfg) (fuel : Nat) (c : Conn) : KeepCl c (reqChunkedLengthLoop cfg fuel c).1 := by
  induction fuel generalizing c with
  | zero => unfold reqChunkedLengthLoop; exact KeepCl.refl c
  | succ k ih =>
    unfold reqChunkedLengthLoop
    cases hn : c.inn.copyByte with
    | none => exact KeepCl.refl c
    | some p =>
      obtain ⟨d, b⟩ := p
      simp -zeta only
      extract_lets c0
      have h0 : KeepCl c c0 := keepCl_inn c d
      split
      · exact h0.trans (ih _)
      · cases hc : c0.inn.consolidate cfg.fieldLimitHard true with
        | none => exact h0
        | some q =>
          obtain ⟨d2, data⟩ := q
          simp -zeta only
          extract_lets c1 line src c2
          have h1 : KeepCl c c1 := (h0.trans (keepCl_inn c0 d2)).trans (keepCl_modIn _ _)
          have h2 : KeepCl c c2 := h1.trans ⟨id⟩
          clear_value c2 c1
          split
          · exact h2.trans ⟨id⟩
          · split
            · exact h2.trans ⟨fun h => (keepCl_modIn _ { c2 with inState := .headers }).keep h⟩
            · exact h2

theorem keepCl_reqIgnore (c : Conn) : KeepCl c (reqIgnoreDataAfter09 c).1 := by
  unfold reqIgnoreDataAfter09
  simp only []
  split <;> exact ⟨id⟩

theorem keepCl_reqFinalize (cfg : Cfg) (c : Conn) : KeepCl c (reqFinalize cfg c).1 := by
  unfold reqFinalize
  cases c.inn.tx with
  | none => exact KeepCl.refl c
  | some uid =>
    simp -zeta only
    extract_lets cp pre
    have hp : ∀ c' b, pre = some (c', b) → c'.txs = c.txs := by
      intro c' b hpre
      simp only [pre] at hpre
      split at hpre
      · split at hpre
        · simp only [Option.some.injEq, Prod.mk.injEq] at hpre; rw [← hpre.1]
        · split at hpre
          · split at hpre
            · simp at hpre
            · simp only [Option.some.injEq, Prod.mk.injEq] at hpre
              rw [← hpre.1]
          · simp only [Option.some.injEq, Prod.mk.injEq] at hpre; rw [← hpre.1]
      · simp only [Option.some.injEq, Prod.mk.injEq] at hpre; rw [← hpre.1]
    clear_value pre
    have viaComplete : ∀ c' : Conn, c'.txs = c.txs →
        KeepCl c (txStateRequestComplete cfg uid c').1 :=
      fun c' h' => (keepCl_of_txs h').trans (keepCl_txStateRequestComplete ..)
    split
    · exact ⟨id⟩
    · rename_i _ c1
      exact viaComplete c1 (hp _ _ rfl)
    · rename_i _ c1
      have h1 := hp _ _ rfl
      clear hp
      cases hc : c1.inn.consolidate cfg.fieldLimitHard true with
      | none => exact keepCl_of_txs h1
      | some q =>
        obtain ⟨d2, data⟩ := q
        simp -zeta only
        extract_lets c2
        have h2 : c2.txs = c.txs := h1
        clear_value c2
        split
        · exact viaComplete c2 h2
        · rename_i src go _
          have hgo : ∀ c', go = some c' → c'.txs = c.txs := by
            intro c' hg
            simp only [go] at hg
            split at hg
            · split at hg
              · simp at hg
              · simp only [Option.some.injEq] at hg
                rw [← hg]
                split
                · exact h2
                · exact h2
            · simp only [Option.some.injEq] at hg; rw [← hg]; exact h2
          clear_value go
          split
          · exact viaComplete _ h2
          · rename_i c3
            have h3 := hgo _ rfl
            clear hgo
            extract_lets r
            have hr : ∀ c' dd, r = some (c', dd) → c'.txs = c.txs := by
              intro c' dd hh
              simp only [r] at hh
              split at hh
              · cases hcb : c3.inn.copyByte with
                | none => rw [hcb] at hh; simp at hh
                | some p =>
                  obtain ⟨d4, b4⟩ := p
                  rw [hcb] at hh
                  simp only at hh
                  cases hc4 : d4.consolidate cfg.fieldLimitHard true with
                  | none =>
                    rw [hc4] at hh
                    simp only [Option.some.injEq, Prod.mk.injEq] at hh
                    rw [← hh.1]; exact h3
                  | some q4 =>
                    obtain ⟨d5, data5⟩ := q4
                    rw [hc4] at hh
                    simp only [Option.some.injEq, Prod.mk.injEq] at hh
                    rw [← hh.1]; exact h3
              · simp only [Option.some.injEq, Prod.mk.injEq] at hh; rw [← hh.1]; exact h3
            clear_value r
            split
            · exact keepCl_of_txs h3
            · rename_i c6 data6
              have h6 := hr _ _ rfl
              have k := keepCl_reqProcessBodyData cfg (some data6) 0 c6
              rcases hx : reqProcessBodyData cfg (some data6) 0 c6 with ⟨c7, rc7⟩
              rw [hx] at k
              simp only at k ⊢
              exact ((keepCl_of_txs h6).trans k).trans ⟨id⟩

theorem keepCl_reqHandleStateChange (c : Conn) : KeepCl c (reqHandleStateChange c).1 := by
  unfold reqHandleStateChange
  split
  · exact KeepCl.refl c
  · simp only
    apply keepCl_andThen
    · repeat' split
      all_goals first | exact KeepCl.refl c | exact keepCl_reqReceiverSet _ c
    · intro c1; exact ⟨id⟩

theorem keepCl_reqStateFn (cfg : Cfg) (c : Conn) : KeepCl c (reqStateFn cfg c).1 := by
  unfold reqStateFn
  cases c.inState with
  | idle => exact keepCl_reqIdle cfg c
  | line => exact keepCl_reqLineLoop cfg _ c
  | protocol => exact keepCl_reqProtocol c
  | headers => exact keepCl_reqHeadersLoop cfg _ c
  | connectCheck => exact keepCl_reqConnectCheck c
  | connectWaitResponse => exact keepCl_reqConnectWaitResponse c
  | connectProbeData => exact keepCl_reqConnectProbeLoop cfg _ c
  | bodyDetermine => exact keepCl_reqBodyDetermine c
  | bodyIdentity => exact keepCl_reqBodyIdentity cfg c
  | bodyChunkedLength => exact keepCl_reqChunkedLengthLoop cfg _ c
  | bodyChunkedData => exact keepCl_reqBodyChunkedData cfg c
  | bodyChunkedDataEnd => exact keepCl_reqChunkedDataEndLoop _ c
  | finalize => exact keepCl_reqFinalize cfg c
  | ignoreDataAfter09 => exact keepCl_reqIgnore c

/-! ### the whole call -/

/-- the invariant holds in every state a pass of the call starts from -/
theorem clOK_along_call (cfg : Cfg) (c0 : Conn) (h0 : ClOK c0) : ∀ c', CallReach cfg c0 c' → ClOK c' := by
  intro c' hr
  induction hr with
  | start => exact h0
  | step c1 hr1 hok _ _ ih =>
    exact (keepCl_reqHandleStateChange _).keep ((keepCl_reqStateFn cfg c1).keep ih)

/-- **`ClAtDecision` follows from the state invariant**: no outside fact is left -/
theorem clAtDecision_of_clOK (cfg : Cfg) (c0 : Conn) (h : ClOK c0) : ClAtDecision cfg c0 :=
  fun c' hr _ => clOKTx_inTx (clOK_along_call cfg c0 h c' hr)

theorem keepCl_reqStoreChunk (data : Option Bytes) (len : Nat) (c : Conn) : KeepCl c (reqStoreChunk data len c) := ⟨id⟩

theorem keepCl_reqWakeOther (c : Conn) : KeepCl c (reqWakeOther c) := by
  unfold reqWakeOther
  split <;> exact ⟨id⟩

theorem clOK_reqStoreChunk (d : Bytes) (c : Conn) (h : ClOK c) : ClOK (reqWakeOther (reqStoreChunk (some d) d.length c)) :=
  (keepCl_reqWakeOther _).keep ((keepCl_reqStoreChunk (some d) d.length c).keep h)

theorem buffer_keepCl (c : Conn) (d' : Dir) : KeepCl c { c with inn := d' } := ⟨id⟩

/-- the for(;;) of htp_connp_req_data keeps the invariant - data, gap or close, any fuel -/
theorem keepCl_reqDriverLoop (cfg : Cfg) (gap : Bool) (fuel : Nat) (c : Conn) : KeepCl c (reqDriverLoop cfg gap fuel c).1 := by
  induction fuel generalizing c with
  | zero => unfold reqDriverLoop; exact ⟨id⟩
  | succ k ih =>
    unfold reqDriverLoop
    simp only
    -- what happens with the answer of one pass
    have tail : ∀ (c1 : Conn) (rc1 : Rc), KeepCl c c1 → KeepCl c
        (match (if (rc1 == Rc.ok) = true then
                  if (c1.inn.status == STREAM_TUNNEL) = true then (c1, Rc.ok) else reqHandleStateChange c1
                else (c1, rc1) : R) with
         | (c, rc) =>
          if (rc == Rc.ok) = true then
            if (c.inn.status == STREAM_TUNNEL) = true then (c, STREAM_TUNNEL) else reqDriverLoop cfg gap k c
          else if (rc == Rc.data || rc == Rc.dataBuffer) = true then
            (match reqReceiverSend false c with
             | (c, _) =>
               if (rc == Rc.dataBuffer) = true then
                 (match c.inn.buffer cfg.fieldLimitHard true with
                  | none => (({ c with inn := { c.inn with status := STREAM_ERROR } }, STREAM_ERROR) : Conn × Nat)
                  | some d => ({ c with inn := { d with status := STREAM_DATA } }, STREAM_DATA))
               else ({ c with inn := { c.inn with status := STREAM_DATA } }, STREAM_DATA))
          else if (rc == Rc.dataOther) = true then
            (if c.inn.read ≥ c.inn.len then ({ c with inn := { c.inn with status := STREAM_DATA } }, STREAM_DATA)
             else ({ c with inn := { c.inn with status := STREAM_DATA_OTHER } }, STREAM_DATA_OTHER))
          else if (rc == Rc.stop) = true then ({ c with inn := { c.inn with status := STREAM_STOP } }, STREAM_STOP)
          else ({ c with inn := { c.inn with status := STREAM_ERROR } }, STREAM_ERROR)).1 := by
      intro c1 rc1 k1
      have k2 : KeepCl c (if (rc1 == Rc.ok) = true then
                  if (c1.inn.status == STREAM_TUNNEL) = true then (c1, Rc.ok) else reqHandleStateChange c1
                else (c1, rc1) : R).1 := by
        split
        · split
          · exact k1
          · exact k1.trans (keepCl_reqHandleStateChange c1)
        · exact k1
      generalize (if (rc1 == Rc.ok) = true then
                  if (c1.inn.status == STREAM_TUNNEL) = true then (c1, Rc.ok) else reqHandleStateChange c1
                else (c1, rc1) : R) = r2 at k2 ⊢
      obtain ⟨c2, rc2⟩ := r2
      simp only at k2 ⊢
      split
      · split
        · exact k2
        · exact k2.trans (ih c2)
      · split
        · have kk := keepCl_reqReceiverSend false c2
          rcases hz : reqReceiverSend false c2 with ⟨c3, rc3⟩
          rw [hz] at kk
          simp only at kk ⊢
          split
          · cases hb : c3.inn.buffer cfg.fieldLimitHard true with
            | none => exact (k2.trans kk).trans ⟨id⟩
            | some d => exact (k2.trans kk).trans ⟨id⟩
          · exact (k2.trans kk).trans ⟨id⟩
        · repeat' split
          all_goals exact k2.trans ⟨id⟩
    split
    · exact KeepCl.refl c
    · rename_i c1 rc1 hstep
      have k1 : KeepCl c c1 := by
        split at hstep
        · split at hstep
          · simp only [Option.some.injEq] at hstep
            have := keepCl_reqStateFn cfg c
            rw [hstep] at this; exact this
          · split at hstep
            · split at hstep
              · rename_i uid _
                simp only [Option.some.injEq] at hstep
                have := keepCl_txStateRequestComplete cfg uid c
                rw [hstep] at this; exact this
              · simp only [Option.some.injEq, Prod.mk.injEq] at hstep
                rw [← hstep.1]; exact KeepCl.refl c
            · simp at hstep
        · simp only [Option.some.injEq] at hstep
          have := keepCl_reqStateFn cfg c
          rw [hstep] at this; exact this
      exact tail c1 rc1 k1

/-- **a request data call keeps the invariant** -/
theorem clOK_reqData (cfg : Cfg) (data : Option Bytes) (len : Nat) (c : Conn) (h : ClOK c) : ClOK (reqData cfg data len c).1 := by
  unfold reqData
  simp only
  have key : ClOK (reqDataCore cfg data len c).1 := by
    unfold reqDataCore
    split
    · exact h
    split
    · exact h
    split
    · exact h
    split
    · exact h
    simp only
    split
    · exact h
    · exact (keepCl_reqDriverLoop cfg _ _ _).keep ((keepCl_reqWakeOther _).keep ((keepCl_reqStoreChunk data len c).keep h))
  exact key

/-- **DATA means the whole chunk was consumed, whole request data call, from a state invariant alone**: the line buffer within the limit,
    the counted body states owing bytes and the Content-Length invariant at the START of the call - no fact about what happens inside -/
theorem reqData_data_consumed_inv' (cfg : Cfg) (d : Bytes) (c : Conn) (hs : (d.length : Int) < 18446744073709551616)
    (hb : inBufLen c ≤ cfg.fieldLimitHard) (h0 : OwedPos c) (hcl : ClOK c)
    (hdata : (reqData cfg (some d) d.length c).2 = STREAM_DATA) :
    (reqData cfg (some d) d.length c).1.inn.read = (reqData cfg (some d) d.length c).1.inn.len :=
  reqData_data_consumed_inv cfg d c hs hb h0 (clAtDecision_of_clOK cfg _ (clOK_reqStoreChunk d c hcl)) hdata

/-- **the request-direction call invariant, closed**: line buffer within the hard limit, counted body states owing bytes, identity bodies
    with a non-negative Content-Length - all three hold again when htp_connp_req_data returns, for any chunk and any callback policy -/
theorem reqData_invariant' (cfg : Cfg) (d : Bytes) (c : Conn) (hs : (d.length : Int) < 18446744073709551616)
    (hb : inBufLen c ≤ cfg.fieldLimitHard) (h0 : OwedPos c) (hcl : ClOK c) :
    inBufLen (reqData cfg (some d) d.length c).1 ≤ cfg.fieldLimitHard ∧ OwedPos (reqData cfg (some d) d.length c).1 ∧
    ClOK (reqData cfg (some d) d.length c).1 := by
  obtain ⟨h1, h2⟩ := reqData_invariant cfg d c hs hb h0 (clAtDecision_of_clOK cfg _ (clOK_reqStoreChunk d c hcl))
  exact ⟨h1, h2, clOK_reqData cfg (some d) d.length c hcl⟩

end Htp.Conn
