/- Frame lemmas about the callback machinery of the connection model. -/
import HtpModel.Conn.Res

namespace Htp.Conn
open Htp.Gen

@[simp] theorem destroyTx_events (u : Nat) (c : Conn) : (destroyTx u c).events = c.events := rfl
@[simp] theorem destroyTx_cbCount (u : Nat) (c : Conn) : (destroyTx u c).cbCount = c.cbCount := rfl
@[simp] theorem modTx_events (u : Nat) (f : Tx → Tx) (c : Conn) : (c.modTx u f).events = c.events := rfl
@[simp] theorem modTx_cbCount (u : Nat) (f : Tx → Tx) (c : Conn) : (c.modTx u f).cbCount = c.cbCount := rfl
@[simp] theorem setTx_events (t : Tx) (c : Conn) : (c.setTx t).events = c.events := rfl

@[simp] theorem modIn_inn (c : Conn) (f : Tx → Tx) : (c.modIn f).inn = c.inn := by
  unfold Conn.modIn; cases c.inn.tx <;> rfl
@[simp] theorem modIn_out (c : Conn) (f : Tx → Tx) : (c.modIn f).out = c.out := by
  unfold Conn.modIn; cases c.inn.tx <;> rfl
@[simp] theorem modOut_inn (c : Conn) (f : Tx → Tx) : (c.modOut f).inn = c.inn := by
  unfold Conn.modOut; cases c.out.tx <;> rfl
@[simp] theorem modOut_out (c : Conn) (f : Tx → Tx) : (c.modOut f).out = c.out := by
  unfold Conn.modOut; cases c.out.tx <;> rfl
@[simp] theorem modIn_events (c : Conn) (f : Tx → Tx) : (c.modIn f).events = c.events := by
  unfold Conn.modIn; cases c.inn.tx <;> rfl
@[simp] theorem modOut_events (c : Conn) (f : Tx → Tx) : (c.modOut f).events = c.events := by
  unfold Conn.modOut; cases c.out.tx <;> rfl

/-- the event a callback invocation logs -/
def eventOf (h : Hook) (uid : Option Nat) (data : Option Bytes) (isLast : Bool) (c : Conn) (gapLen : Nat) (stale : Bool) : Event :=
  let tx := (uid.bind c.findTx)
  { hook := h, tx := match uid with | some u => (u : Int) | none => -1, data := data, isLast := isLast,
    gapLen := gapLen, stale := stale,
    reqProgress := (tx.map (·.reqProgress)).getD 0, resProgress := (tx.map (·.resProgress)).getD 0 }

/-- every callback invocation appends exactly one event and bumps the invocation counter by one -/
theorem runCallback_log (h : Hook) (uid : Option Nat) (data : Option Bytes) (isLast : Bool) (c : Conn) (g : Nat) (s : Bool) :
    (runCallback h uid data isLast c g s).1.events = eventOf h uid data isLast c g s :: c.events ∧
    (runCallback h uid data isLast c g s).1.cbCount = c.cbCount + 1 := by
  cases uid with
  | none =>
    unfold runCallback eventOf
    simp only
    cases lookupAction c.policy c.cbCount <;> simp
  | some u =>
    unfold runCallback eventOf
    simp only
    cases lookupAction c.policy c.cbCount with
    | ok => simp
    | declined => simp
    | stop => simp
    | error => simp
    | destroyTx =>
      simp only
      cases (some u).bind c.findTx with
      | none => simp
      | some t => simp only; split <;> simp
    | regTxHooks => simp

end Htp.Conn

namespace Htp.Conn
open Htp.Gen

/-- a direction record with its tx reference erased: callbacks can only change a direction by clearing that reference -/
def Dir.eraseTx (d : Dir) : Dir := { d with tx := none }

/-- `f` leaves both directions alone except for clearing tx references -/
def FrameDirs (c c' : Conn) : Prop := c'.inn.eraseTx = c.inn.eraseTx ∧ c'.out.eraseTx = c.out.eraseTx

theorem FrameDirs.refl (c : Conn) : FrameDirs c c := ⟨rfl, rfl⟩
theorem FrameDirs.trans {a b c : Conn} (h1 : FrameDirs a b) (h2 : FrameDirs b c) : FrameDirs a c :=
  ⟨h2.1.trans h1.1, h2.2.trans h1.2⟩

theorem frame_destroyTx (u : Nat) (c : Conn) : FrameDirs c (destroyTx u c) := by
  unfold destroyTx FrameDirs Dir.eraseTx
  constructor <;> (simp only []; split <;> rfl)

theorem frame_modTx (u : Nat) (f : Tx → Tx) (c : Conn) : FrameDirs c (c.modTx u f) := ⟨rfl, rfl⟩
theorem frame_setTx (t : Tx) (c : Conn) : FrameDirs c (c.setTx t) := ⟨rfl, rfl⟩

theorem frame_runCallback (h : Hook) (uid : Option Nat) (data : Option Bytes) (isLast : Bool) (c : Conn) (g : Nat) (s : Bool) :
    FrameDirs c (runCallback h uid data isLast c g s).1 := by
  unfold runCallback
  simp only
  cases lookupAction c.policy c.cbCount with
  | ok => exact ⟨rfl, rfl⟩
  | declined => exact ⟨rfl, rfl⟩
  | stop => exact ⟨rfl, rfl⟩
  | error => exact ⟨rfl, rfl⟩
  | destroyTx =>
    simp only
    cases uid.bind c.findTx with
    | none => exact ⟨rfl, rfl⟩
    | some t =>
      simp only
      split
      · exact frame_destroyTx _ _
      · exact ⟨rfl, rfl⟩
  | regTxHooks =>
    simp only
    cases uid with
    | none => exact ⟨rfl, rfl⟩
    | some u => exact ⟨rfl, rfl⟩

/-- sequencing with `>>?` preserves the frame -/
theorem frame_andThen (c0 : Conn) (r : R) (f : Conn → R) (h1 : FrameDirs c0 r.1) (h2 : ∀ c, FrameDirs c (f c).1) :
    FrameDirs c0 (r >>? f).1 := by
  unfold R.andThen
  split
  · exact h1.trans (h2 r.1)
  · exact h1

theorem frame_runCallbackN (n : Nat) (h : Hook) (uid : Option Nat) (data : Option Bytes) (isLast : Bool) (g : Nat) (c : Conn) :
    FrameDirs c (runCallbackN n h uid data isLast g c).1 := by
  induction n generalizing c with
  | zero => exact FrameDirs.refl c
  | succ k ih =>
    unfold runCallbackN
    exact frame_andThen c _ _ (frame_runCallback ..) (fun c' => ih c')

theorem frame_urlencBodyCallback (cfg : Cfg) (uid : Nat) (data : Option Bytes) (c : Conn) :
    FrameDirs c (urlencBodyCallback cfg uid data c).1 := by
  unfold urlencBodyCallback
  cases c.findTx uid with
  | none => exact FrameDirs.refl c
  | some t =>
    simp only
    cases t.urlenBody with
    | none => exact FrameDirs.refl c
    | some u =>
      simp only
      split
      · exact FrameDirs.refl c
      · cases data with
        | some d => exact frame_setTx _ _
        | none => exact frame_setTx _ _

theorem frame_mpartFileEvents (uid : Nat) (evs : List (Nat × Option Bytes)) (c : Conn) :
    FrameDirs c (mpartFileEvents uid evs c) := by
  induction evs generalizing c with
  | nil => exact FrameDirs.refl c
  | cons e rest ih =>
    obtain ⟨i, d⟩ := e
    unfold mpartFileEvents
    exact (frame_runCallback ..).trans (ih _)

theorem frame_mpartBodyCallback (uid : Nat) (data : Option Bytes) (c : Conn) :
    FrameDirs c (mpartBodyCallback uid data c).1 := by
  unfold mpartBodyCallback
  cases c.findTx uid with
  | none => exact FrameDirs.refl c
  | some t =>
    simp only
    cases t.mpart with
    | none => exact FrameDirs.refl c
    | some mp =>
      simp only
      split
      · exact FrameDirs.refl c
      · cases data with
        | some d => exact (frame_setTx _ c).trans (frame_mpartFileEvents ..)
        | none => exact (frame_setTx _ c).trans (frame_mpartFileEvents ..)

theorem frame_runTxReqBodyHooks (cfg : Cfg) (uid : Nat) (data : Option Bytes) (isLast : Bool) (g : Nat) (hs : List TxHook) (c : Conn) :
    FrameDirs c (runTxReqBodyHooks cfg uid data isLast g hs c).1 := by
  induction hs generalizing c with
  | nil => exact FrameDirs.refl c
  | cons h rest ih =>
    unfold runTxReqBodyHooks
    apply frame_andThen
    · cases h with
      | user => exact frame_runCallback ..
      | urlenc => exact frame_urlencBodyCallback ..
      | mpart => exact frame_mpartBodyCallback ..
    · intro c'
      exact ih c'

theorem frame_reqRunHookBodyDataL (cfg : Cfg) (data : Option Bytes) (g : Nat) (l : Bool) (c : Conn) :
    FrameDirs c (reqRunHookBodyDataL cfg data g l c).1 := by
  unfold reqRunHookBodyDataL
  split
  · exact FrameDirs.refl c
  · cases c.inn.tx with
    | none => exact FrameDirs.refl c
    | some uid =>
      simp only
      apply frame_andThen
      · exact frame_runTxReqBodyHooks ..
      · intro c2
        apply frame_andThen
        · exact frame_runCallback ..
        · intro c3
          split
          · exact frame_runCallback ..
          · exact FrameDirs.refl c3

theorem frame_reqRunHookBodyData (cfg : Cfg) (data : Option Bytes) (g : Nat) (c : Conn) :
    FrameDirs c (reqRunHookBodyData cfg data g c).1 := by
  unfold reqRunHookBodyData; exact frame_reqRunHookBodyDataL ..

theorem frame_unsupported (c : Conn) : FrameDirs c { c with unsupported := true } := ⟨rfl, rfl⟩
theorem frame_zoracle (c : Conn) (zs : List ZRes) : FrameDirs c { c with zoracle := zs } := ⟨rfl, rfl⟩

theorem frame_resRunHookBodyData (data : Option Bytes) (c : Conn) : FrameDirs c (resRunHookBodyData data c).1 := by
  unfold resRunHookBodyData
  split
  · exact FrameDirs.refl c
  · cases c.out.tx with
    | none => exact FrameDirs.refl c
    | some uid =>
      simp only
      apply frame_andThen
      · exact frame_runCallbackN ..
      · intro c2; exact frame_runCallback ..

theorem frame_decFinalCallback (cfg : Cfg) (req : Bool) (uid : Nat) (l : Bool) (data : Option Bytes) (c : Conn) :
    FrameDirs c (decFinalCallback cfg req uid l data c).1 := by
  unfold decFinalCallback
  simp only
  cases req with
  | true =>
    simp only [if_true]
    have h := frame_reqRunHookBodyDataL cfg data 0 l (c.modTx uid fun t => { t with reqEntityLen := t.reqEntityLen + (data.map (·.length)).getD 0 })
    have h0 := (frame_modTx uid (fun t => { t with reqEntityLen := t.reqEntityLen + (data.map (·.length)).getD 0 }) c).trans h
    split
    · exact h0
    · split <;> exact h0
  | false =>
    simp only [Bool.false_eq_true, if_false]
    have h := frame_resRunHookBodyData data (c.modTx uid fun t => { t with resEntityLen := t.resEntityLen + (data.map (·.length)).getD 0 })
    have h0 := (frame_modTx uid (fun t => { t with resEntityLen := t.resEntityLen + (data.map (·.length)).getD 0 }) c).trans h
    split
    · exact h0
    · split <;> exact h0


/-- the functions of the decompression driver leave both direction records alone (apart from cleared tx references): they only
    touch the oracle, the unsupported marker, and what the callbacks touch -/
theorem frame_dec (cfg : Cfg) (req : Bool) (uid : Nat) : ∀ fuel : Nat,
    (∀ l useNext rest data c, FrameDirs c (decSend cfg req uid l fuel useNext rest data c).2.1) ∧
    (∀ d drec rest inp c, FrameDirs c (decLoop cfg req uid d fuel drec rest inp c).2.1) ∧
    (∀ d drec rest inp c, FrameDirs c (decStep cfg req uid d fuel drec rest inp c).2.1) ∧
    (∀ ds data c, FrameDirs c (decompress cfg req uid fuel ds data c).2.1) := by
  intro fuel
  induction fuel with
  | zero =>
    refine ⟨?_, ?_, ?_, ?_⟩
    · intro l useNext rest data c; unfold decSend; exact frame_unsupported c
    · intro d drec rest inp c; unfold decLoop; exact frame_unsupported c
    · intro d drec rest inp c; unfold decStep; exact frame_unsupported c
    · intro ds data c; unfold decompress; exact frame_unsupported c
  | succ k ih =>
    obtain ⟨ihS, ihL, ihT, ihD⟩ := ih
    refine ⟨?_, ?_, ?_, ?_⟩
    · intro l useNext rest data c
      unfold decSend
      split
      · exact ihD ..
      · exact frame_decFinalCallback ..
    · intro d drec rest inp c
      unfold decLoop
      split
      · exact FrameDirs.refl c
      · by_cases hfull : (drec.buf.length == GZIP_BUF_SIZE) = true
        · simp only [hfull, if_true]
          rcases hx : decSend cfg req uid false k (drec.kind != 0) rest (some drec.buf) c with ⟨rest1, c1, rc1⟩
          have f1 : FrameDirs c c1 := by have := ihS false (drec.kind != 0) rest (some drec.buf) c; rw [hx] at this; exact this
          simp only
          by_cases hrc : (rc1 != Rc.ok) = true
          · simp only [hrc, if_true]; exact f1
          · simp only [hrc, Bool.false_eq_true, if_false]
            exact f1.trans (ihT ..)
        · simp only [hfull, Bool.false_eq_true, if_false]
          exact ihT ..
    · intro d drec rest inp c
      unfold decStep
      split
      · exact frame_unsupported c
      split
      · exact FrameDirs.refl c
      split
      · exact frame_unsupported c
      · rename_i z zs hz
        simp only
        generalize (if ((drec.buf ++ z.produced).length > 0 && z.rc == Z_DATA_ERROR) = true then Z_STREAM_END else z.rc) = rcv
        split
        · -- stream end: the buffer goes out
          rcases hx : decSend cfg req uid false k (drec.kind != 0) rest (some (drec.buf ++ z.produced)) { c with zoracle := zs } with ⟨rest1, c1, rc1⟩
          have f1 : FrameDirs c c1 := by
            have := ihS false (drec.kind != 0) rest (some (drec.buf ++ z.produced)) { c with zoracle := zs }
            rw [hx] at this; exact (frame_zoracle c zs).trans this
          simp only
          split <;> exact f1
        · split
          · split
            · split
              · exact frame_zoracle c zs
              · exact (frame_zoracle c zs).trans (ihL ..)
            · rcases hx : decFinalCallback cfg req uid false (some d) { c with zoracle := zs } with ⟨c1, rc1⟩
              have f1 : FrameDirs c c1 := by
                have := frame_decFinalCallback cfg req uid false (some d) { c with zoracle := zs }
                rw [hx] at this; exact (frame_zoracle c zs).trans this
              simp only
              split <;> exact f1
          · exact (frame_zoracle c zs).trans (ihL ..)
    · intro ds data c
      unfold decompress
      cases ds with
      | nil => exact FrameDirs.refl c
      | cons drec rest =>
        simp only
        split
        · rcases hx : decFinalCallback cfg req uid data.isNone data c with ⟨c1, rc1⟩
          have f1 : FrameDirs c c1 := by have := frame_decFinalCallback cfg req uid data.isNone data c; rw [hx] at this; exact this
          exact f1
        · cases data with
          | none =>
            simp only
            rcases hx : decSend cfg req uid true k (drec.kind != 0) rest (if drec.buf.length > 0 then some drec.buf else none) c with ⟨rest1, c1, rc1⟩
            have f1 : FrameDirs c c1 := by
              have := ihS true (drec.kind != 0) rest (if drec.buf.length > 0 then some drec.buf else none) c; rw [hx] at this; exact this
            simp only
            split <;> exact f1
          | some d => exact ihL ..


/-- body processing leaves both direction records alone - with or without the request decompressor in the way -/
theorem frame_reqProcessBodyData (cfg : Cfg) (data : Option Bytes) (g : Nat) (c : Conn) :
    FrameDirs c (reqProcessBodyData cfg data g c).1 := by
  unfold reqProcessBodyData
  cases c.inn.tx with
  | none => exact FrameDirs.refl c
  | some uid =>
    simp only
    split
    · split
      · exact FrameDirs.refl c
      · split
        · exact frame_unsupported c
        split
        · exact frame_unsupported c
        · rcases hx : decompress cfg true uid (8 * (data.map (·.length)).getD g + 128) c.inDecs data c with ⟨ds, c1, rc1⟩
          have f1 : FrameDirs c c1 := by
            have := (frame_dec cfg true uid (8 * (data.map (·.length)).getD g + 128)).2.2.2 c.inDecs data c
            rw [hx] at this; exact this
          simp only
          exact f1.trans ⟨rfl, rfl⟩
    · have h := frame_reqRunHookBodyData cfg data g
        (c.modTx uid fun t => { t with reqEntityLen := t.reqEntityLen + (data.map (·.length)).getD g })
      split <;> exact (frame_modTx _ _ c).trans h

/-- what `FrameDirs` gives for the cursor fields of the request direction -/
theorem FrameDirs.inn_fields {c c' : Conn} (h : FrameDirs c c') :
    c'.inn.read = c.inn.read ∧ c'.inn.len = c.inn.len ∧ c'.inn.consume = c.inn.consume ∧ c'.inn.cur = c.inn.cur ∧
    c'.inn.bodyDataLeft = c.inn.bodyDataLeft ∧ c'.inn.status = c.inn.status ∧ c'.inn.buf = c.inn.buf ∧
    c'.inn.chunkedLength = c.inn.chunkedLength ∧ c'.inn.curNull = c.inn.curNull := by
  have h1 := h.1
  unfold Dir.eraseTx at h1
  injection h1
  simp_all

end Htp.Conn

namespace Htp.Conn

/-- htp_tx_req_process_body_data_ex returns only HTP_OK or HTP_ERROR -/
theorem reqProcessBodyData_rc (cfg : Cfg) (data : Option Bytes) (g : Nat) (c : Conn) :
    (reqProcessBodyData cfg data g c).2 = Rc.ok ∨ (reqProcessBodyData cfg data g c).2 = Rc.error := by
  unfold reqProcessBodyData
  cases c.inn.tx with
  | none => exact Or.inr rfl
  | some uid =>
    simp only
    split
    · split
      · exact Or.inr rfl
      · split
        · exact Or.inl rfl
        · split
          · exact Or.inl rfl
          · exact Or.inl rfl
    · split
      · exact Or.inr rfl
      · exact Or.inl rfl

end Htp.Conn

namespace Htp.Conn
open Htp.Gen

/-- callbacks other than TRANSACTION_COMPLETE cannot even clear a tx reference: both direction records are untouched -/
theorem runCallback_dirs (h : Hook) (uid : Option Nat) (data : Option Bytes) (isLast : Bool) (c : Conn) (g : Nat) (s : Bool)
    (hne : h ≠ .transactionComplete) :
    (runCallback h uid data isLast c g s).1.inn = c.inn ∧ (runCallback h uid data isLast c g s).1.out = c.out ∧
    (runCallback h uid data isLast c g s).1.txs.length = c.txs.length := by
  unfold runCallback
  simp only
  cases lookupAction c.policy c.cbCount with
  | ok => exact ⟨rfl, rfl, rfl⟩
  | declined => exact ⟨rfl, rfl, rfl⟩
  | stop => exact ⟨rfl, rfl, rfl⟩
  | error => exact ⟨rfl, rfl, rfl⟩
  | destroyTx =>
    simp only
    cases uid.bind c.findTx with
    | none => exact ⟨rfl, rfl, rfl⟩
    | some t =>
      simp only
      have : (h == Hook.transactionComplete) = false := by
        cases h <;> first | rfl | exact absurd rfl hne
      simp [this]
  | regTxHooks =>
    simp only
    cases uid with
    | none => exact ⟨rfl, rfl, rfl⟩
    | some u => simp [Conn.modTx]

end Htp.Conn

namespace Htp.Conn
open Htp.Gen

/-- no callback can touch the parser's scalar bookkeeping -/
theorem runCallback_scalars (h : Hook) (uid : Option Nat) (data : Option Bytes) (isLast : Bool) (c : Conn) (g : Nat) (s : Bool) :
    (runCallback h uid data isLast c g s).1.outNextTxIndex = c.outNextTxIndex ∧
    (runCallback h uid data isLast c g s).1.inState = c.inState ∧
    (runCallback h uid data isLast c g s).1.outState = c.outState ∧
    (runCallback h uid data isLast c g s).1.connFlags = c.connFlags ∧
    (runCallback h uid data isLast c g s).1.inDataCounter = c.inDataCounter ∧
    (runCallback h uid data isLast c g s).1.outDataCounter = c.outDataCounter := by
  unfold runCallback
  simp only
  cases lookupAction c.policy c.cbCount with
  | ok => exact ⟨rfl, rfl, rfl, rfl, rfl, rfl⟩
  | declined => exact ⟨rfl, rfl, rfl, rfl, rfl, rfl⟩
  | stop => exact ⟨rfl, rfl, rfl, rfl, rfl, rfl⟩
  | error => exact ⟨rfl, rfl, rfl, rfl, rfl, rfl⟩
  | destroyTx =>
    simp only
    cases uid.bind c.findTx with
    | none => exact ⟨rfl, rfl, rfl, rfl, rfl, rfl⟩
    | some t => simp only; split <;> exact ⟨rfl, rfl, rfl, rfl, rfl, rfl⟩
  | regTxHooks =>
    simp only
    cases uid with
    | none => exact ⟨rfl, rfl, rfl, rfl, rfl, rfl⟩
    | some u => exact ⟨rfl, rfl, rfl, rfl, rfl, rfl⟩

/-- htp_tx_state_response_start attaches the response direction to `uid` and leaves the pairing index alone,
    whatever the RESPONSE_START callback does -/
theorem txStateResponseStart_attach (uid : Nat) (c : Conn) :
    (txStateResponseStart uid c).1.out.tx = some uid ∧ (txStateResponseStart uid c).1.outNextTxIndex = c.outNextTxIndex := by
  unfold txStateResponseStart
  simp only
  have hd := runCallback_dirs .responseStart (some uid) none false { c with out := { c.out with tx := some uid } } 0 false (by decide)
  have hs := runCallback_scalars .responseStart (some uid) none false { c with out := { c.out with tx := some uid } } 0 false
  unfold R.andThen
  split
  · simp only
    split
    · exact ⟨by simp [Conn.modTx, hd.2.1], by simp [Conn.modTx, hs.1]⟩
    · exact ⟨by simp [Conn.modTx, hd.2.1], by simp [Conn.modTx, hs.1]⟩
  · exact ⟨by rw [hd.2.1], by rw [hs.1]⟩


theorem findTx_modTx (c : Conn) (uid : Nat) (f : Tx → Tx) (hf : ∀ x, (f x).uid = x.uid) :
    (c.modTx uid f).findTx uid = (c.findTx uid).map f := by
  unfold Conn.modTx Conn.findTx
  simp only
  induction c.txs with
  | nil => rfl
  | cons o rest ih =>
    cases o with
    | none => simpa [List.find?] using ih
    | some x =>
      by_cases h : x.uid = uid
      · have h2 : (f x).uid = uid := by rw [hf]; exact h
        simp [List.find?, h, h2]
      · have h' : (x.uid == uid) = false := by simpa using h
        simp only [List.map_cons, h', List.find?]
        simpa [h'] using ih

theorem findTx_outState (c : Conn) (s : ResState) (uid : Nat) : ({ c with outState := s } : Conn).findTx uid = c.findTx uid := rfl


end Htp.Conn
