/- Frame lemmas about the callback machinery of the connection model. -/
import HtpModel.Conn.Res

namespace Htp.Conn
open Htp.Gen

@[simp] theorem destroyTx_events (u : Nat) (c : Conn) : (destroyTx u c).events = c.events := rfl
@[simp] theorem destroyTx_cbCount (u : Nat) (c : Conn) : (destroyTx u c).cbCount = c.cbCount := rfl
@[simp] theorem modTx_events (u : Nat) (f : Tx → Tx) (c : Conn) : (c.modTx u f).events = c.events := rfl
@[simp] theorem modTx_cbCount (u : Nat) (f : Tx → Tx) (c : Conn) : (c.modTx u f).cbCount = c.cbCount := rfl
@[simp] theorem setTx_events (t : Tx) (c : Conn) : (c.setTx t).events = c.events := rfl

/-- the event a callback invocation logs -/
def eventOf (h : Hook) (uid : Option Nat) (data : Option Bytes) (isLast : Bool) (c : Conn) (gapLen : Nat) (stale : Bool) : Event :=
  let tx := (uid.bind c.findTx)
  { hook := h, tx := match uid with | some u => (u : Int) | none => -1, data := data, isLast := isLast,
    gapLen := gapLen, stale := stale,
    reqProgress := (tx.map (·.reqProgress)).getD 0, resProgress := (tx.map (·.resProgress)).getD 0 }

/-- every callback invocation appends exactly one event and bumps the invocation counter by one -/
theorem runCallback_log (h : Hook) (uid : Option Nat) (data : Option Bytes) (isLast : Bool) (c : Conn) (g : Nat) (s : Bool) :
    (runCallback h uid data isLast c g s).1.events = eventOf h uid data isLast c g s :: c.events ∧
    (runCallback h uid data isLast c g s).1.cbCount = c.cbCount + 1 := by
  cases uid with
  | none =>
    unfold runCallback eventOf
    simp only
    cases lookupAction c.policy c.cbCount <;> simp
  | some u =>
    unfold runCallback eventOf
    simp only
    cases lookupAction c.policy c.cbCount with
    | ok => simp
    | declined => simp
    | stop => simp
    | error => simp
    | destroyTx =>
      simp only
      cases (some u).bind c.findTx with
      | none => simp
      | some t => simp only; split <;> simp
    | regTxHooks => simp

end Htp.Conn
