/- "HTP_DATA means the whole chunk was consumed": every request state function that answers HTP_DATA / HTP_DATA_BUFFER has read
   everything it was given, and the driver hands that answer on unchanged. Helper lemmas for Props/C09. -/
import HtpModel.Lemmas.Conn
namespace Htp.Conn
open Htp Htp.Gen

/-- a status that is neither HTP_DATA nor HTP_DATA_BUFFER -/
def NoData (rc : Rc) : Prop := rc ≠ .data ∧ rc ≠ .dataBuffer

theorem NoData.ok : NoData Rc.ok := ⟨by decide, by decide⟩
theorem NoData.error : NoData Rc.error := ⟨by decide, by decide⟩
theorem NoData.stop : NoData Rc.stop := ⟨by decide, by decide⟩
theorem NoData.dataOther : NoData Rc.dataOther := ⟨by decide, by decide⟩

theorem noData_andThen (r : R) (f : Conn → R) (h1 : NoData r.2) (h2 : ∀ c, NoData (f c).2) : NoData (r >>? f).2 := by
  unfold R.andThen
  split
  · exact h2 _
  · exact h1

theorem noData_runCallback (h : Hook) (uid : Option Nat) (data : Option Bytes) (l : Bool) (c : Conn) (g : Nat) (s : Bool) :
    NoData (runCallback h uid data l c g s).2 := by
  unfold runCallback
  simp only
  cases lookupAction c.policy c.cbCount with
  | ok => exact NoData.ok
  | declined => exact NoData.ok
  | stop => exact NoData.stop
  | error => exact NoData.error
  | destroyTx =>
    simp only
    cases uid.bind c.findTx with
    | none => exact NoData.ok
    | some t => simp only; split <;> exact NoData.ok
  | regTxHooks =>
    simp only
    cases uid with
    | none => exact NoData.ok
    | some u => exact NoData.ok

theorem noData_reqReceiverSend (l : Bool) (c : Conn) : NoData (reqReceiverSend l c).2 := by
  unfold reqReceiverSend
  cases c.inn.receiverHook with
  | none => exact NoData.ok
  | some h =>
    simp only
    apply noData_andThen
    · exact noData_runCallback ..
    · intro c2; exact NoData.ok

theorem noData_reqReceiverFinalizeClear (c : Conn) : NoData (reqReceiverFinalizeClear c).2 := by
  unfold reqReceiverFinalizeClear
  cases c.inn.receiverHook with
  | none => exact NoData.ok
  | some h => simp only; exact noData_reqReceiverSend true c

theorem noData_reqProcessBodyData (cfg : Cfg) (data : Option Bytes) (g : Nat) (c : Conn) : NoData (reqProcessBodyData cfg data g c).2 := by
  rcases reqProcessBodyData_rc cfg data g c with h | h <;> rw [h]
  · exact NoData.ok
  · exact NoData.error

theorem noData_txStateRequestCompletePartial (cfg : Cfg) (uid : Nat) (c : Conn) : NoData (txStateRequestCompletePartial cfg uid c).2 := by
  unfold txStateRequestCompletePartial
  simp only
  apply noData_andThen
  · split
    · exact noData_reqProcessBodyData ..
    · exact NoData.ok
  · intro c1
    apply noData_andThen
    · exact noData_runCallback ..
    · intro c2
      apply noData_andThen
      · exact noData_reqReceiverFinalizeClear c2
      · intro c3; exact NoData.ok

theorem noData_txStateRequestComplete (cfg : Cfg) (uid : Nat) (c : Conn) : NoData (txStateRequestComplete cfg uid c).2 := by
  unfold txStateRequestComplete
  simp only
  apply noData_andThen
  · split
    · exact noData_txStateRequestCompletePartial ..
    · exact NoData.ok
  · intro c1; exact NoData.ok


theorem noData_txProcessRequestHeadersTail (cfg : Cfg) (uid : Nat) (t : Tx) (ae : Bool) (c : Conn) :
    NoData (txProcessRequestHeadersTail cfg uid t ae c).2 := by
  unfold txProcessRequestHeadersTail
  split
  · exact NoData.error
  · apply noData_andThen
    · exact noData_reqReceiverFinalizeClear _
    · intro c1; exact noData_runCallback ..

theorem noData_txProcessRequestHeaders (cfg : Cfg) (uid : Nat) (c : Conn) : NoData (txProcessRequestHeaders cfg uid c).2 := by
  unfold txProcessRequestHeaders
  extract_lets
  repeat' split
  all_goals exact noData_txProcessRequestHeadersTail ..

theorem noData_txStateRequestHeaders (cfg : Cfg) (uid : Nat) (c : Conn) : NoData (txStateRequestHeaders cfg uid c).2 := by
  unfold txStateRequestHeaders
  simp only
  split
  · apply noData_andThen
    · exact noData_runCallback ..
    · intro c1
      apply noData_andThen
      · exact noData_reqReceiverFinalizeClear _
      · intro c2; exact NoData.ok
  · split
    · apply noData_andThen
      · exact noData_txProcessRequestHeaders ..
      · intro c1; exact NoData.ok
    · exact NoData.error

theorem noData_reqFlushHeader (c : Conn) : NoData (reqFlushHeader c).2 := by
  unfold reqFlushHeader
  cases c.inn.header with
  | none => exact NoData.ok
  | some h => simp only; split <;> first | exact NoData.error | exact NoData.ok


/-- a state function that answers HTP_DATA / HTP_DATA_BUFFER has read everything it was given -/
def Consumed (r : R) : Prop := (r.2 = Rc.data ∨ r.2 = Rc.dataBuffer) → r.1.inn.len ≤ r.1.inn.read

theorem consumed_of_noData (r : R) (h : NoData r.2) : Consumed r := by
  intro hd; rcases hd with hd | hd
  · exact absurd hd h.1
  · exact absurd hd h.2

theorem consumed_andThen (r : R) (f : Conn → R) (h1 : NoData r.2) (h2 : ∀ c, Consumed (f c)) : Consumed (r >>? f) := by
  unfold R.andThen
  split
  · exact h2 _
  · exact consumed_of_noData _ h1

theorem noData_txStateRequestStart (uid : Nat) (c : Conn) : NoData (txStateRequestStart uid c).2 := by
  unfold txStateRequestStart
  apply noData_andThen
  · exact noData_runCallback ..
  · intro c1; exact NoData.ok

theorem consumed_reqIdle (cfg : Cfg) (c : Conn) : Consumed (reqIdle cfg c) := by
  unfold reqIdle
  split
  · rename_i h; intro _; exact h
  · rcases hx : txCreate cfg c with ⟨c1, u⟩
    simp only
    cases u with
    | none => exact consumed_of_noData _ NoData.error
    | some uid =>
      simp only
      have k := noData_txStateRequestStart uid c1
      rcases hy : txStateRequestStart uid c1 with ⟨c2, rc2⟩
      rw [hy] at k
      exact consumed_of_noData _ k

theorem consumed_reqIgnore (c : Conn) : Consumed (reqIgnoreDataAfter09 c) := by
  unfold reqIgnoreDataAfter09
  intro _
  simp only [Dir.advance]
  split
  · show c.inn.len ≤ c.inn.read + (c.inn.len - c.inn.read); omega
  · show c.inn.len ≤ c.inn.read + (c.inn.len - c.inn.read); omega

theorem copyByte_none (d : Dir) (h : d.copyByte = none) : d.len ≤ d.read := by
  unfold Dir.copyByte at h
  split at h
  · split at h <;> simp at h
  · omega

theorem nextByteConsume_none (d : Dir) (h : d.nextByteConsume = none) : d.len ≤ d.read := by
  unfold Dir.nextByteConsume at h
  cases hc : d.copyByte with
  | none => exact copyByte_none d hc
  | some p => rw [hc] at h; simp at h

theorem consumed_reqChunkedDataEndLoop (fuel : Nat) (c : Conn) : Consumed (reqChunkedDataEndLoop fuel c) := by
  induction fuel generalizing c with
  | zero => unfold reqChunkedDataEndLoop; exact consumed_of_noData _ NoData.error
  | succ k ih =>
    unfold reqChunkedDataEndLoop
    cases hn : c.inn.nextByteConsume with
    | none => simp only; intro _; exact nextByteConsume_none _ hn
    | some p =>
      obtain ⟨d, b⟩ := p
      simp only
      split
      · exact consumed_of_noData _ NoData.ok
      · exact ih _


theorem consumed_reqChunkedLengthLoop (cfg : Cfg) (fuel : Nat) (c : Conn) : Consumed (reqChunkedLengthLoop cfg fuel c) := by
  induction fuel generalizing c with
  | zero => unfold reqChunkedLengthLoop; exact consumed_of_noData _ NoData.error
  | succ k ih =>
    unfold reqChunkedLengthLoop
    cases hn : c.inn.copyByte with
    | none => simp only; intro _; exact copyByte_none _ hn
    | some p =>
      obtain ⟨d, b⟩ := p
      simp only
      split
      · exact ih _
      · split
        · exact consumed_of_noData _ NoData.error
        · repeat' split
          all_goals first | exact consumed_of_noData _ NoData.ok | exact consumed_of_noData _ NoData.error

theorem consumed_reqConnectProbeLoop (cfg : Cfg) (fuel : Nat) (c : Conn) : Consumed (reqConnectProbeLoop cfg fuel c) := by
  induction fuel generalizing c with
  | zero => unfold reqConnectProbeLoop; exact consumed_of_noData _ NoData.error
  | succ k ih =>
    unfold reqConnectProbeLoop
    simp only
    split
    · split
      · exact consumed_of_noData _ NoData.error
      · split
        · split
          · exact consumed_of_noData _ (noData_txStateRequestComplete ..)
          · exact consumed_of_noData _ NoData.error
        · exact consumed_of_noData _ NoData.ok
    · split
      · rename_i hn
        intro _
        have := copyByte_none _ hn
        simpa [Dir.peekSet] using this
      · exact ih _

theorem consumed_simple_states (c : Conn) :
    Consumed (reqProtocol c) ∧ Consumed (reqConnectCheck c) ∧ Consumed (reqConnectWaitResponse c) ∧ Consumed (reqBodyDetermine c) := by
  refine ⟨?_, ?_, ?_, ?_⟩
  · unfold reqProtocol; simp only; repeat' split
    all_goals exact consumed_of_noData _ NoData.ok
  · unfold reqConnectCheck; split
    · exact consumed_of_noData _ NoData.dataOther
    · exact consumed_of_noData _ NoData.ok
  · unfold reqConnectWaitResponse; simp only; repeat' split
    all_goals first | exact consumed_of_noData _ NoData.ok | exact consumed_of_noData _ NoData.dataOther
  · unfold reqBodyDetermine; simp only; repeat' split
    all_goals first | exact consumed_of_noData _ NoData.ok | exact consumed_of_noData _ NoData.error


theorem consumed_reqBodyIdentity (cfg : Cfg) (c : Conn) (ho : 0 < c.inn.bodyDataLeft) : Consumed (reqBodyIdentity cfg c) := by
  unfold reqBodyIdentity
  simp only
  generalize hN : (if c.inn.len - c.inn.read ≥ c.inn.bodyDataLeft then c.inn.bodyDataLeft else c.inn.len - c.inn.read) = N
  split
  · -- nothing to take: with bytes still owed this means nothing is available
    rename_i h0
    have hN0 : N = 0 := by simpa using h0
    intro _
    simp only
    split at hN <;> omega
  · generalize hP : reqProcessBodyData cfg
        (if c.inn.curNull = true then none else some (sliceCur c.inn c.inn.read (c.inn.read + N)))
        (if c.inn.curNull = true then N.toNat else 0) c = P
    have hframe : FrameDirs c P.1 := by rw [← hP]; exact frame_reqProcessBodyData ..
    obtain ⟨hr, hl, hc, _, hb, _, _, _, _⟩ := hframe.inn_fields
    have hrc : NoData P.2 := by rw [← hP]; exact noData_reqProcessBodyData ..
    rcases P with ⟨c1, rc1⟩
    simp only at hr hl hc hb hrc ⊢
    split
    · exact consumed_of_noData _ hrc
    · split
      · exact consumed_of_noData _ NoData.ok
      · rename_i hleft
        intro _
        simp only [modIn_inn, Dir.advance] at hleft ⊢
        have hl2 : ¬ (c.inn.bodyDataLeft - N = 0) := by
          intro h; apply hleft; simp [hb, h]
        split at hN <;> omega


theorem consumed_reqBodyChunkedData (cfg : Cfg) (c : Conn) (ho : 0 < c.inn.chunkedLength) : Consumed (reqBodyChunkedData cfg c) := by
  unfold reqBodyChunkedData
  simp only
  generalize hN : (if c.inn.len - c.inn.read ≥ c.inn.chunkedLength then c.inn.chunkedLength else c.inn.len - c.inn.read) = N
  split
  · rename_i h0
    have hN0 : N = 0 := by simpa using h0
    intro _
    simp only
    split at hN <;> omega
  · generalize hP : reqProcessBodyData cfg (some (sliceCur c.inn c.inn.read (c.inn.read + N))) 0 c = P
    have hframe : FrameDirs c P.1 := by rw [← hP]; exact frame_reqProcessBodyData ..
    obtain ⟨hr, hl, hc, _, _, _, _, hb, _⟩ := hframe.inn_fields
    have hrc : NoData P.2 := by rw [← hP]; exact noData_reqProcessBodyData ..
    rcases P with ⟨c1, rc1⟩
    simp only at hr hl hc hb hrc ⊢
    split
    · exact consumed_of_noData _ hrc
    · split
      · exact consumed_of_noData _ NoData.ok
      · rename_i hleft
        intro _
        simp only [modIn_inn, Dir.advance] at hleft ⊢
        have hl2 : ¬ (c.inn.chunkedLength - N = 0) := by
          intro h; apply hleft; simp [hb, h]
        split at hN <;> omega

theorem consumed_reqHeadersLoop (cfg : Cfg) (fuel : Nat) (c : Conn) : Consumed (reqHeadersLoop cfg fuel c) := by
  induction fuel generalizing c with
  | zero => unfold reqHeadersLoop; exact consumed_of_noData _ NoData.error
  | succ k ih =>
    unfold reqHeadersLoop
    cases c.inn.tx with
    | none => exact consumed_of_noData _ NoData.error
    | some uid =>
      simp only
      split
      · -- closed: flush, finish the headers
        apply consumed_of_noData
        apply noData_andThen
        · exact noData_reqFlushHeader _
        · intro c1; exact noData_txStateRequestHeaders ..
      · cases hn : c.inn.copyByte with
        | none => simp only; intro _; exact copyByte_none _ hn
        | some p =>
          obtain ⟨d, b⟩ := p
          simp only
          split
          · exact ih _
          · split
            · exact consumed_of_noData _ NoData.error
            · split
              · apply consumed_of_noData
                apply noData_andThen
                · exact noData_reqFlushHeader _
                · intro c1; exact noData_txStateRequestHeaders ..
              · -- a header line: a step that never answers DATA, then the loop goes on
                apply consumed_andThen
                · split
                  · apply noData_andThen
                    · exact noData_reqFlushHeader _
                    · intro c1
                      repeat' split
                      all_goals first | exact NoData.ok | exact NoData.error
                  · repeat' split
                    all_goals exact NoData.ok
                · intro c1; exact ih _


theorem consumed_reqFinalize (cfg : Cfg) (c : Conn) : Consumed (reqFinalize cfg c) := by
  unfold reqFinalize
  cases c.inn.tx with
  | none => exact consumed_of_noData _ NoData.error
  | some uid =>
    simp only
    split
    · -- ran out of bytes while looking for the end of the line
      intro _; show c.inn.len ≤ c.inn.len; omega
    · exact consumed_of_noData _ (noData_txStateRequestComplete ..)
    · split
      · exact consumed_of_noData _ NoData.error
      · split
        · exact consumed_of_noData _ (noData_txStateRequestComplete ..)
        · split
          · exact consumed_of_noData _ (noData_txStateRequestComplete ..)
          · split
            · -- the LF that was peeked cannot be copied: no byte left
              rename_i cg _ _ hr
              intro _
              show cg.inn.len ≤ cg.inn.read
              split at hr
              · cases hcb : cg.inn.copyByte with
                | none => exact copyByte_none _ hcb
                | some p =>
                  rw [hcb] at hr
                  obtain ⟨d', b'⟩ := p
                  simp only at hr
                  split at hr <;> simp at hr
              · simp at hr
            · apply consumed_of_noData
              rename_i c3 data3 _
              rcases hx : reqProcessBodyData cfg (some data3) 0 c3 with ⟨c4, rc4⟩
              have := noData_reqProcessBodyData cfg (some data3) 0 c3
              rw [hx] at this
              exact this


/-- the cursors of a direction record are where the driver keeps them: a real chunk, 0 <= consume <= read <= len <= |chunk| < 2^64 -/
structure WFCur (d : Dir) : Prop where
  notNull : d.curNull = false
  c0 : 0 ≤ d.consume
  cr : d.consume ≤ d.read
  rl : d.read ≤ d.len
  lc : d.len ≤ (d.cur.length : Int)
  small : d.len < 18446744073709551616

theorem peek_none_wf (d : Dir) (w : WFCur d) (h : d.peek = none) : d.len ≤ d.read := by
  unfold Dir.peek at h
  split at h
  · omega
  · rename_i hlt
    have h0 : 0 ≤ d.read := Int.le_trans w.c0 w.cr
    have : d.read.toNat < d.cur.length := by
      have := w.lc; omega
    rw [List.getElem?_eq_getElem this] at h
    simp at h

theorem copyByte_some_wf (d d' : Dir) (b : UInt8) (w : WFCur d) (h : d.copyByte = some (d', b)) :
    WFCur d' ∧ d'.consume < d'.read ∧ d'.len = d.len := by
  unfold Dir.copyByte at h
  split at h
  · rename_i hlt
    split at h
    · simp only [Option.some.injEq, Prod.mk.injEq] at h
      obtain ⟨h1, _⟩ := h
      subst h1
      exact ⟨⟨w.notNull, w.c0, by have := w.cr; simp only []; omega, by simp only []; omega, w.lc, w.small⟩, by have := w.cr; simp only []; omega, rfl⟩
    · simp only [Option.some.injEq, Prod.mk.injEq] at h
      obtain ⟨h1, _⟩ := h
      subst h1
      exact ⟨⟨w.notNull, w.c0, by have := w.cr; simp only []; omega, by simp only []; omega, w.lc, w.small⟩, by have := w.cr; simp only []; omega, rfl⟩
  · simp at h

theorem consolidate_read_len (d d2 : Dir) (hard : Nat) (data : Bytes) (h : d.consolidate hard true = some (d2, data)) :
    d2.read = d.read ∧ d2.len = d.len := by
  unfold Dir.consolidate at h
  cases hb : d.buf with
  | none => rw [hb] at h; simp only [Option.some.injEq, Prod.mk.injEq] at h; rw [← h.1]; exact ⟨rfl, rfl⟩
  | some bb =>
    rw [hb] at h
    simp only at h
    cases hbu : d.buffer hard true with
    | none => rw [hbu] at h; simp at h
    | some d' =>
      rw [hbu] at h
      simp only [Option.some.injEq, Prod.mk.injEq] at h
      rw [← h.1]
      unfold Dir.buffer at hbu
      split at hbu
      · simp only [Option.some.injEq] at hbu; rw [← hbu]; exact ⟨rfl, rfl⟩
      · simp only at hbu
        split at hbu
        · simp only [Option.some.injEq] at hbu; rw [← hbu]; exact ⟨rfl, rfl⟩
        · split at hbu
          · simp at hbu
          · simp only [Option.some.injEq] at hbu; rw [← hbu]; exact ⟨rfl, rfl⟩


theorem sliceCur_nonempty (d : Dir) (w : WFCur d) (h : d.consume < d.read) : sliceCur d d.consume d.read ≠ [] := by
  unfold sliceCur
  intro he
  have hl := congrArg List.length he
  simp only [List.length_take, List.length_drop, List.length_nil] at hl
  have := w.c0; have := w.rl; have := w.lc
  omega

theorem sizeOfInt_pos (x : Int) (h1 : 0 < x) (h2 : x < 18446744073709551616) : sizeOfInt x ≠ 0 := by
  unfold sizeOfInt
  have : x % 18446744073709551616 = x := Int.emod_eq_of_lt (by omega) h2
  rw [this]; omega

theorem consolidate_nonempty (d d2 : Dir) (hard : Nat) (data : Bytes) (w : WFCur d) (hlt : d.consume < d.read)
    (h : d.consolidate hard true = some (d2, data)) : data ≠ [] := by
  unfold Dir.consolidate at h
  cases hb : d.buf with
  | none =>
    rw [hb] at h; simp only [Option.some.injEq, Prod.mk.injEq] at h
    rw [← h.2]; exact sliceCur_nonempty d w hlt
  | some bb =>
    rw [hb] at h
    simp only at h
    cases hbu : d.buffer hard true with
    | none => rw [hbu] at h; simp at h
    | some d' =>
      rw [hbu] at h
      simp only [Option.some.injEq, Prod.mk.injEq] at h
      rw [← h.2]
      unfold Dir.buffer at hbu
      rw [if_neg (by rw [w.notNull]; decide)] at hbu
      simp only at hbu
      have hsz : sizeOfInt (d.read - d.consume) ≠ 0 := sizeOfInt_pos _ (by omega) (by have := w.rl; have := w.small; have := w.c0; omega)
      have hne : (true && sizeOfInt (d.read - d.consume) == 0) = false := by simpa using hsz
      rw [if_neg (by rw [hne]; decide)] at hbu
      split at hbu
      · simp at hbu
      · simp only [Option.some.injEq] at hbu
        rw [← hbu]
        simp only [Option.getD_some]
        intro he
        have := sliceCur_nonempty d w hlt
        simp at he
        exact this he.2


theorem consumed_reqLineComplete (cfg : Cfg) (c : Conn)
    (H : c.inn.len ≤ c.inn.read ∨ (WFCur c.inn ∧ c.inn.consume < c.inn.read)) : Consumed (reqLineComplete cfg c) := by
  unfold reqLineComplete
  cases hc : c.inn.consolidate cfg.fieldLimitHard true with
  | none => exact consumed_of_noData _ NoData.error
  | some p =>
    obtain ⟨d, data⟩ := p
    simp only
    have hrl := consolidate_read_len _ _ _ _ hc
    split
    · -- an empty line at the end of the stream
      rename_i hz
      intro _
      show d.len ≤ d.read
      rcases H with H | ⟨w, hlt⟩
      · rw [hrl.1, hrl.2]; exact H
      · have := consolidate_nonempty _ _ _ _ w hlt hc
        have hz' : data = [] := by
          have : data.length = 0 := by simpa using hz
          exact List.eq_nil_of_length_eq_zero this
        exact absurd hz' this
    · split
      · exact consumed_of_noData _ NoData.ok
      · repeat' split
        all_goals first | exact consumed_of_noData _ NoData.error | exact consumed_of_noData _ NoData.ok

theorem consumed_reqLineLoop (cfg : Cfg) (fuel : Nat) (c : Conn) (w : WFCur c.inn) : Consumed (reqLineLoop cfg fuel c) := by
  induction fuel generalizing c with
  | zero => unfold reqLineLoop; exact consumed_of_noData _ NoData.error
  | succ k ih =>
    unfold reqLineLoop
    simp only [Dir.peekSet]
    have w0 : WFCur { c.inn with nextByte := match c.inn.peek with | some b => (b.toNat : Int) | none => -1 } :=
      ⟨w.notNull, w.c0, w.cr, w.rl, w.lc, w.small⟩
    split
    · -- closed and nothing left
      rename_i hcl
      apply consumed_reqLineComplete
      left
      have hn : c.inn.peek = none := by
        simp only [Bool.and_eq_true] at hcl
        have := hcl.2
        cases hp : c.inn.peek with
        | none => rfl
        | some b => rw [hp] at this; simp at this
      exact peek_none_wf c.inn w hn
    · cases hcb : Dir.copyByte { c.inn with nextByte := match c.inn.peek with | some b => (b.toNat : Int) | none => -1 } with
      | none =>
        simp only
        intro _
        exact copyByte_none _ hcb
      | some p =>
        obtain ⟨d, b⟩ := p
        simp only
        obtain ⟨wd, hlt, _⟩ := copyByte_some_wf _ d b w0 hcb
        split
        · apply consumed_reqLineComplete
          right
          exact ⟨wd, hlt⟩
        · exact ih _ wd


/-- every request state function: an answer of HTP_DATA / HTP_DATA_BUFFER means that the whole chunk has been read -/
theorem consumed_reqStateFn (cfg : Cfg) (c : Conn)
    (hw : c.inState = ReqState.line → WFCur c.inn)
    (ho1 : c.inState = ReqState.bodyIdentity → 0 < c.inn.bodyDataLeft)
    (ho2 : c.inState = ReqState.bodyChunkedData → 0 < c.inn.chunkedLength) : Consumed (reqStateFn cfg c) := by
  unfold reqStateFn
  cases hs : c.inState with
  | idle => exact consumed_reqIdle cfg c
  | line => exact consumed_reqLineLoop cfg _ c (hw hs)
  | protocol => exact (consumed_simple_states c).1
  | headers => exact consumed_reqHeadersLoop cfg _ c
  | connectCheck => exact (consumed_simple_states c).2.1
  | connectWaitResponse => exact (consumed_simple_states c).2.2.1
  | connectProbeData => exact consumed_reqConnectProbeLoop cfg _ c
  | bodyDetermine => exact (consumed_simple_states c).2.2.2
  | bodyIdentity => exact consumed_reqBodyIdentity cfg c (ho1 hs)
  | bodyChunkedLength => exact consumed_reqChunkedLengthLoop cfg _ c
  | bodyChunkedData => exact consumed_reqBodyChunkedData cfg c (ho2 hs)
  | bodyChunkedDataEnd => exact consumed_reqChunkedDataEndLoop _ c
  | finalize => exact consumed_reqFinalize cfg c
  | ignoreDataAfter09 => exact consumed_reqIgnore c


theorem reqReceiverSend_read_len (l : Bool) (c : Conn) :
    (reqReceiverSend l c).1.inn.read = c.inn.read ∧ (reqReceiverSend l c).1.inn.len = c.inn.len := by
  unfold reqReceiverSend
  cases hh : c.inn.receiverHook with
  | none => exact ⟨rfl, rfl⟩
  | some h =>
    simp only
    have f := frame_runCallback h c.inn.tx (if c.inn.curNull then none else some (sliceCur c.inn c.inn.receiver c.inn.read)) l c
      (if c.inn.curNull then (c.inn.read - c.inn.receiver).toNat else 0) (!c.inn.curNull && !c.inn.live)
    obtain ⟨hr, hl, _⟩ := f.inn_fields
    rcases hz : runCallback h c.inn.tx (if c.inn.curNull then none else some (sliceCur c.inn c.inn.receiver c.inn.read)) l c
      (if c.inn.curNull then (c.inn.read - c.inn.receiver).toNat else 0) (!c.inn.curNull && !c.inn.live) with ⟨c9, rc9⟩
    rw [hz] at hr hl
    simp only at hr hl
    unfold R.andThen
    simp only
    split
    · exact ⟨hr, hl⟩
    · exact ⟨hr, hl⟩

theorem buffer_read_len (d d' : Dir) (hard : Nat) (s : Bool) (h : d.buffer hard s = some d') : d'.read = d.read ∧ d'.len = d.len := by
  unfold Dir.buffer at h
  split at h
  · simp only [Option.some.injEq] at h; rw [← h]; exact ⟨rfl, rfl⟩
  · simp only at h
    split at h
    · simp only [Option.some.injEq] at h; rw [← h]; exact ⟨rfl, rfl⟩
    · split at h
      · simp at h
      · simp only [Option.some.injEq] at h; rw [← h]; exact ⟨rfl, rfl⟩

/-- **the driver hands the answer on**: when the state function run by one pass of htp_connp_req_data answers HTP_DATA or HTP_DATA_BUFFER,
    the call returns at once - with STREAM_DATA (or STREAM_ERROR when the line buffer limit is hit) - and the read cursor it reports is
    the one the state function left -/
theorem reqDriverLoop_data_step (cfg : Cfg) (fuel : Nat) (c : Conn)
    (hd : (reqStateFn cfg c).2 = Rc.data ∨ (reqStateFn cfg c).2 = Rc.dataBuffer) :
    ((reqDriverLoop cfg false (fuel + 1) c).2 = STREAM_DATA ∨ (reqDriverLoop cfg false (fuel + 1) c).2 = STREAM_ERROR) ∧
    (reqDriverLoop cfg false (fuel + 1) c).1.inn.read = (reqStateFn cfg c).1.inn.read ∧
    (reqDriverLoop cfg false (fuel + 1) c).1.inn.len = (reqStateFn cfg c).1.inn.len := by
  unfold reqDriverLoop
  simp only [Bool.false_eq_true, if_false]
  rcases hx : reqStateFn cfg c with ⟨c1, rc1⟩
  rw [hx] at hd
  simp only at hd ⊢
  have hnok : (rc1 == Rc.ok) = false := by rcases hd with h | h <;> rw [h] <;> decide
  simp only [hnok, Bool.false_eq_true, if_false]
  have hdd : (rc1 == Rc.data || rc1 == Rc.dataBuffer) = true := by rcases hd with h | h <;> rw [h] <;> decide
  simp only [hdd, if_true]
  obtain ⟨hr, hl⟩ := reqReceiverSend_read_len false c1
  rcases hy : reqReceiverSend false c1 with ⟨c2, rc2⟩
  rw [hy] at hr hl
  simp only at hr hl ⊢
  split
  · cases hb : c2.inn.buffer cfg.fieldLimitHard true with
    | none => simp only; exact ⟨by simp, hr, hl⟩
    | some d =>
      simp only
      obtain ⟨h1, h2⟩ := buffer_read_len _ _ _ _ hb
      exact ⟨by simp, by rw [← hr]; exact h1, by rw [← hl]; exact h2⟩
  · exact ⟨by simp, hr, hl⟩

end Htp.Conn
