/- Response direction of "HTP_DATA / HTP_DATA_BUFFER means the chunk was used up" (C09): the counterpart of Lemmas/Consumed.lean for the
   ten state functions behind htp_connp_res_data, and the driver pass that hands the answer on. -/
import HtpModel.Lemmas.Consumed
namespace Htp.Conn
open Htp Htp.Gen

theorem noData_resReceiverSend (l : Bool) (c : Conn) : NoData (resReceiverSend l c).2 := by
  unfold resReceiverSend
  cases c.out.receiverHook with
  | none => exact NoData.ok
  | some h =>
    simp only
    apply noData_andThen
    · exact noData_runCallback ..
    · intro c2; exact NoData.ok

theorem noData_resReceiverFinalizeClear (c : Conn) : NoData (resReceiverFinalizeClear c).2 := by
  unfold resReceiverFinalizeClear
  cases c.out.receiverHook with
  | none => exact NoData.ok
  | some h => simp only; exact noData_resReceiverSend true c

theorem noData_processResponseHeader (d : Bytes) (c : Conn) : NoData (processResponseHeader d c).2 := by
  unfold processResponseHeader; exact NoData.ok

theorem noData_resFlushHeader (c : Conn) : NoData (resFlushHeader c).2 := by
  unfold resFlushHeader
  cases c.out.header with
  | none => exact NoData.ok
  | some h => simp only; split <;> first | exact NoData.error | exact NoData.ok

theorem noData_txStateResponseStart (uid : Nat) (c : Conn) : NoData (txStateResponseStart uid c).2 := by
  unfold txStateResponseStart
  simp only
  apply noData_andThen
  · exact noData_runCallback ..
  · intro c1; split <;> exact NoData.ok

theorem noData_txStateResponseLine (uid : Nat) (c : Conn) : NoData (txStateResponseLine uid c).2 := by
  unfold txStateResponseLine; exact noData_runCallback ..

theorem noData_txStateResponseHeaders (cfg : Cfg) (uid : Nat) (c : Conn) : NoData (txStateResponseHeaders cfg uid c).2 := by
  unfold txStateResponseHeaders
  rcases responseNeedsDecompressor cfg ((c.findTx uid).getD { uid := uid }) with ⟨enc, needs⟩
  simp only
  apply noData_andThen
  · exact noData_resReceiverFinalizeClear _
  · intro c1
    apply noData_andThen
    · exact noData_runCallback ..
    · intro c2
      split
      · split
        · exact NoData.ok
        · cases ceChain cfg ((getHeaderC ((c.findTx uid).getD { uid := uid }).resHeaders (b!"content-encoding")).map (·.value) |>.getD []) with
          | nil => exact NoData.ok
          | cons ty rest => exact NoData.ok
      · exact NoData.ok

theorem noData_resProcessBodyData (cfg : Cfg) (data : Option Bytes) (c : Conn) : NoData (resProcessBodyData cfg data c).2 := by
  unfold resProcessBodyData
  cases c.out.tx with
  | none => exact NoData.error
  | some uid =>
    simp only
    repeat' split
    all_goals first | exact NoData.ok | exact NoData.error

theorem noData_txFinalize (cfg : Cfg) (uid : Nat) (c : Conn) : NoData (txFinalize cfg uid c).2 := by
  unfold txFinalize
  cases c.findTx uid with
  | none => exact NoData.ok
  | some t =>
    simp only
    split
    · exact NoData.ok
    · apply noData_andThen
      · exact noData_runCallback ..
      · intro c1; repeat' split
        all_goals exact NoData.ok

theorem noData_txStateResponseCompleteEx (cfg : Cfg) (uid : Nat) (c : Conn) : NoData (txStateResponseCompleteEx cfg uid c).2 := by
  unfold txStateResponseCompleteEx
  simp only
  apply noData_andThen
  · split
    · apply noData_andThen
      · exact noData_runCallback ..
      · intro c1; exact noData_resReceiverFinalizeClear _
    · exact NoData.ok
  · intro c1
    split
    · exact NoData.dataOther
    · split
      · exact NoData.dataOther
      · apply noData_andThen
        · exact noData_txFinalize ..
        · intro c2; exact NoData.ok


/-- the response-direction counterpart of `Consumed` -/
def ConsumedOut (r : R) : Prop := (r.2 = Rc.data ∨ r.2 = Rc.dataBuffer) → r.1.out.len ≤ r.1.out.read

theorem consumedOut_of_noData (r : R) (h : NoData r.2) : ConsumedOut r := by
  intro hd; rcases hd with hd | hd
  · exact absurd hd h.1
  · exact absurd hd h.2

theorem consumedOut_andThen (r : R) (f : Conn → R) (h1 : NoData r.2) (h2 : ∀ c, ConsumedOut (f c)) : ConsumedOut (r >>? f) := by
  unfold R.andThen
  split
  · exact h2 _
  · exact consumedOut_of_noData _ h1

theorem consumedOut_resIdle (cfg : Cfg) (c : Conn) : ConsumedOut (resIdle cfg c) := by
  unfold resIdle
  split
  · rename_i h; intro _; exact h
  · simp only
    split
    · unfold resIdleUnmatched
      rcases txCreate cfg _ with ⟨c1, u⟩
      simp only
      cases u with
      | none => exact consumedOut_of_noData _ NoData.error
      | some uid => simp only; exact consumedOut_of_noData _ (noData_txStateResponseStart ..)
    · exact consumedOut_of_noData _ (noData_txStateResponseStart ..)

theorem consumedOut_resChunkedDataEndLoop (fuel : Nat) (c : Conn) : ConsumedOut (resChunkedDataEndLoop fuel c) := by
  induction fuel generalizing c with
  | zero => unfold resChunkedDataEndLoop; exact consumedOut_of_noData _ NoData.error
  | succ k ih =>
    unfold resChunkedDataEndLoop
    cases hn : c.out.nextByteConsume with
    | none => simp only; intro _; exact nextByteConsume_none _ hn
    | some p =>
      obtain ⟨d, b⟩ := p
      simp only
      split
      · exact consumedOut_of_noData _ NoData.ok
      · exact ih _

theorem consumedOut_resChunkedLengthLoop (cfg : Cfg) (fuel : Nat) (c : Conn) : ConsumedOut (resChunkedLengthLoop cfg fuel c) := by
  induction fuel generalizing c with
  | zero => unfold resChunkedLengthLoop; exact consumedOut_of_noData _ NoData.error
  | succ k ih =>
    unfold resChunkedLengthLoop
    cases hn : c.out.copyByte with
    | none => simp only; intro _; exact copyByte_none _ hn
    | some p =>
      obtain ⟨d, b⟩ := p
      simp only
      split
      · exact ih _
      · split
        · exact consumedOut_of_noData _ NoData.error
        · repeat' split
          all_goals first | exact ih _ | exact consumedOut_of_noData _ NoData.ok | exact consumedOut_of_noData _ NoData.error


theorem frame_resProcessBodyData (cfg : Cfg) (data : Option Bytes) (c : Conn) : FrameDirs c (resProcessBodyData cfg data c).1 := by
  unfold resProcessBodyData
  cases c.out.tx with
  | none => exact FrameDirs.refl c
  | some uid =>
    simp only
    have f0 : FrameDirs c (c.modTx uid fun t => { t with resMessageLen := t.resMessageLen + (data.map (·.length)).getD 0 }) := frame_modTx ..
    split
    · split
      · exact f0
      · split
        · exact f0.trans (frame_unsupported _)
        · rcases hx : decompress cfg false uid (8 * (data.map (·.length)).getD 0 + 128)
            (c.modTx uid fun t => { t with resMessageLen := t.resMessageLen + (data.map (·.length)).getD 0 }).outDecs data
            (c.modTx uid fun t => { t with resMessageLen := t.resMessageLen + (data.map (·.length)).getD 0 }) with ⟨ds, c1, rc1⟩
          have f1 := (frame_dec cfg false uid (8 * (data.map (·.length)).getD 0 + 128)).2.2.2
            (c.modTx uid fun t => { t with resMessageLen := t.resMessageLen + (data.map (·.length)).getD 0 }).outDecs data
            (c.modTx uid fun t => { t with resMessageLen := t.resMessageLen + (data.map (·.length)).getD 0 })
          rw [hx] at f1
          simp only at f1 ⊢
          exact (f0.trans f1).trans ⟨rfl, rfl⟩
    · split
      · have h := frame_resRunHookBodyData data
          ((c.modTx uid fun t => { t with resMessageLen := t.resMessageLen + (data.map (·.length)).getD 0 }).modTx uid
            fun t => { t with resEntityLen := t.resEntityLen + (data.map (·.length)).getD 0 })
        have f2 := (f0.trans (frame_modTx uid (fun t => { t with resEntityLen := t.resEntityLen + (data.map (·.length)).getD 0 }) _)).trans h
        split <;> exact f2
      · exact f0

theorem frame_resProcessBodyDataGap (cfg : Cfg) (data : Option Bytes) (g : Nat) (c : Conn) :
    FrameDirs c (resBodyIdentityClKnown.resProcessBodyDataGap cfg data g c).1 := by
  unfold resBodyIdentityClKnown.resProcessBodyDataGap
  split
  · exact frame_resProcessBodyData ..
  · cases c.out.tx with
    | none => exact FrameDirs.refl c
    | some uid =>
      simp only
      have f0 : FrameDirs c (c.modTx uid fun t => { t with resMessageLen := t.resMessageLen + g }) := frame_modTx ..
      split
      · have f1 := f0.trans (frame_modTx uid (fun t => { t with resEntityLen := t.resEntityLen + g }) _)
        split
        · refine f1.trans ?_
          apply frame_andThen
          · exact frame_runCallbackN ..
          · intro c2; exact frame_runCallback ..
        · refine f1.trans ?_
          apply frame_andThen
          · exact frame_runCallbackN ..
          · intro c2; exact frame_runCallback ..
      · exact f0.trans (frame_unsupported _)


theorem noData_runCallbackN (n : Nat) (h : Hook) (uid : Option Nat) (data : Option Bytes) (l : Bool) (g : Nat) (c : Conn) :
    NoData (runCallbackN n h uid data l g c).2 := by
  induction n generalizing c with
  | zero => unfold runCallbackN; exact NoData.ok
  | succ k ih =>
    unfold runCallbackN
    apply noData_andThen
    · exact noData_runCallback ..
    · intro c2; exact ih c2

theorem noData_resProcessBodyDataGap (cfg : Cfg) (data : Option Bytes) (g : Nat) (c : Conn) :
    NoData (resBodyIdentityClKnown.resProcessBodyDataGap cfg data g c).2 := by
  unfold resBodyIdentityClKnown.resProcessBodyDataGap
  split
  · exact noData_resProcessBodyData ..
  · cases c.out.tx with
    | none => exact NoData.error
    | some uid =>
      simp only
      split
      · split
        · exact NoData.error
        · apply noData_andThen
          · exact noData_runCallbackN ..
          · intro c2; exact noData_runCallback ..
      · exact NoData.ok

theorem FrameDirs.out_fields {c c' : Conn} (h : FrameDirs c c') :
    c'.out.read = c.out.read ∧ c'.out.len = c.out.len ∧ c'.out.consume = c.out.consume ∧
    c'.out.bodyDataLeft = c.out.bodyDataLeft ∧ c'.out.chunkedLength = c.out.chunkedLength ∧ c'.out.status = c.out.status := by
  have h1 := h.2
  unfold Dir.eraseTx at h1
  injection h1
  simp_all

theorem consumedOut_resBodyIdentityClKnown (cfg : Cfg) (c : Conn) (ho : 0 < c.out.bodyDataLeft) :
    ConsumedOut (resBodyIdentityClKnown cfg c) := by
  unfold resBodyIdentityClKnown
  simp only
  generalize hN : (if c.out.len - c.out.read ≥ c.out.bodyDataLeft then c.out.bodyDataLeft else c.out.len - c.out.read) = N
  split
  · exact consumedOut_of_noData _ (noData_resProcessBodyData ..)
  · split
    · rename_i h0
      have hN0 : N = 0 := by simpa using h0
      intro _
      simp only
      split at hN <;> omega
    · generalize hP : resBodyIdentityClKnown.resProcessBodyDataGap cfg
          (if c.out.curNull = true then none else some (sliceCur c.out c.out.read (c.out.read + N)))
          (if c.out.curNull = true then N.toNat else 0) c = P
      have hframe : FrameDirs c P.1 := by rw [← hP]; exact frame_resProcessBodyDataGap ..
      obtain ⟨hr, hl, hc, hb, _, _⟩ := hframe.out_fields
      rcases P with ⟨c1, rc1⟩
      simp only at hr hl hc hb ⊢
      split
      · -- a failure is handed on as it is: it is never DATA
        have hnd : NoData rc1 := by
          have := noData_resProcessBodyDataGap cfg
            (if c.out.curNull = true then none else some (sliceCur c.out c.out.read (c.out.read + N)))
            (if c.out.curNull = true then N.toNat else 0) c
          rw [hP] at this; exact this
        exact consumedOut_of_noData _ hnd
      · split
        · exact consumedOut_of_noData _ (noData_resProcessBodyData ..)
        · rename_i hleft
          intro _
          simp only [Dir.advance] at hleft ⊢
          have hl2 : ¬ (c.out.bodyDataLeft - N = 0) := by
            intro h; apply hleft; simp [hb, h]
          split at hN <;> omega


theorem consumedOut_resBodyIdentityStreamClose (cfg : Cfg) (c : Conn) : ConsumedOut (resBodyIdentityStreamClose cfg c) := by
  unfold resBodyIdentityStreamClose
  simp only
  split
  · -- some bytes: they are all handed to the body callbacks
    generalize hP : resBodyIdentityClKnown.resProcessBodyDataGap cfg
        (if c.out.curNull = true then none else some (sliceCur c.out c.out.read (c.out.read + (c.out.len - c.out.read))))
        (if c.out.curNull = true then (c.out.len - c.out.read).toNat else 0) c = P
    have hframe : FrameDirs c P.1 := by rw [← hP]; exact frame_resProcessBodyDataGap ..
    obtain ⟨hr, hl, _, _, _, _⟩ := hframe.out_fields
    have hnd : NoData P.2 := by rw [← hP]; exact noData_resProcessBodyDataGap ..
    rcases P with ⟨c1, rc1⟩
    simp only at hr hl hnd ⊢
    split
    · rename_i hne
      have : ((c1, rc1) >>? fun c => if (c.out.status == STREAM_CLOSED) = true then ({ c with outState := ResState.finalize }, Rc.ok) else (c, Rc.data)) = (c1, rc1) := by
        unfold R.andThen
        have : (rc1 == Rc.ok) = false := by simpa using hne
        simp [this]
      rw [this]
      exact consumedOut_of_noData _ hnd
    · unfold R.andThen
      simp only [beq_self_eq_true, if_true]
      split
      · exact consumedOut_of_noData _ NoData.ok
      · intro _
        simp only [Dir.advance]
        omega
  · unfold R.andThen
    simp only [beq_self_eq_true, if_true]
    split
    · exact consumedOut_of_noData _ NoData.ok
    · rename_i hn _
      intro _
      have : c.out.len - c.out.read = 0 := by simpa using hn
      simp only
      omega


theorem consumedOut_resBodyChunkedData (cfg : Cfg) (c : Conn) (ho : 0 < c.out.chunkedLength) : ConsumedOut (resBodyChunkedData cfg c) := by
  unfold resBodyChunkedData
  simp only
  generalize hN : (if c.out.len - c.out.read ≥ c.out.chunkedLength then c.out.chunkedLength else c.out.len - c.out.read) = N
  split
  · rename_i h0
    have hN0 : N = 0 := by simpa using h0
    intro _
    simp only
    split at hN <;> omega
  · generalize hP : resProcessBodyData cfg (some (sliceCur c.out c.out.read (c.out.read + N))) c = P
    have hframe : FrameDirs c P.1 := by rw [← hP]; exact frame_resProcessBodyData ..
    obtain ⟨hr, hl, hc, _, hb, _⟩ := hframe.out_fields
    have hrc : NoData P.2 := by rw [← hP]; exact noData_resProcessBodyData ..
    rcases P with ⟨c1, rc1⟩
    simp only at hr hl hc hb hrc ⊢
    split
    · exact consumedOut_of_noData _ hrc
    · split
      · exact consumedOut_of_noData _ NoData.ok
      · rename_i hleft
        intro _
        simp only [Dir.advance] at hleft ⊢
        have hl2 : ¬ (c.out.chunkedLength - N = 0) := by
          intro h; apply hleft; simp [hb, h]
        split at hN <;> omega

theorem noData_resCl (cl ct : Option Parse.Header) (uid : Nat) (c : Conn) : NoData (resCl cl ct uid c).2 := by
  unfold resCl
  cases cl with
  | some cl' =>
    simp only
    repeat' split
    all_goals first | exact NoData.ok | exact NoData.error
  | none =>
    simp only
    repeat' split
    all_goals first | exact NoData.ok | exact NoData.error

theorem noData_resFraming (te cl ct : Option Parse.Header) (uid : Nat) (c : Conn) : NoData (resFraming te cl ct uid c).2 := by
  unfold resFraming
  repeat' split
  all_goals first | exact NoData.ok | exact noData_resCl ..

theorem noData_resFramingStep (uid : Nat) (t : Tx) (te cl : Option Parse.Header) (c : Conn) : NoData (resFramingStep uid t te cl c).2 := by
  unfold resFramingStep
  split
  · exact noData_resFraming ..
  · exact NoData.ok

theorem noData_resBodyDetermineRest (cfg : Cfg) (uid : Nat) (t : Tx) (c : Conn) : NoData (resBodyDetermineRest cfg uid t c).2 := by
  unfold resBodyDetermineRest
  extract_lets c1 cl te is100
  split
  · exact noData_txStateResponseHeaders ..
  · clear_value is100
    split
    · exact NoData.ok
    · apply noData_andThen
      · exact noData_resFramingStep ..
      · intro c2; exact noData_txStateResponseHeaders ..

theorem noData_resBodyDetermine (cfg : Cfg) (c : Conn) : NoData (resBodyDetermine cfg c).2 := by
  unfold resBodyDetermine
  cases c.out.tx with
  | none => exact NoData.error
  | some uid =>
    simp only
    split
    · exact noData_txStateResponseHeaders ..
    · exact noData_resBodyDetermineRest ..


theorem consumedOut_resFinalize (cfg : Cfg) (c : Conn) : ConsumedOut (resFinalize cfg c) := by
  unfold resFinalize
  cases c.out.tx with
  | none => exact consumedOut_of_noData _ NoData.error
  | some uid =>
    simp only
    split
    · intro _; show c.out.len ≤ c.out.len; omega
    · exact consumedOut_of_noData _ (noData_txStateResponseCompleteEx ..)
    · split
      · exact consumedOut_of_noData _ NoData.error
      · split
        · exact consumedOut_of_noData _ (noData_txStateResponseCompleteEx ..)
        · split
          · apply consumedOut_of_noData
            rename_i c3 _ _ d3 data3 _ _ _
            rcases hx : resProcessBodyData cfg (some data3) { c3 with out := d3 } with ⟨c4, rc4⟩
            have := noData_resProcessBodyData cfg (some data3) { c3 with out := d3 }
            rw [hx] at this
            exact this
          · exact consumedOut_of_noData _ (noData_txStateResponseCompleteEx ..)


theorem wf_nextByte (d : Dir) (n : Int) (w : WFCur d) : WFCur { d with nextByte := n } :=
  ⟨w.notNull, w.c0, w.cr, w.rl, w.lc, w.small⟩

theorem wf_peekSet (d : Dir) (w : WFCur d) : WFCur (d.peekSet).1 := by
  unfold Dir.peekSet; exact wf_nextByte _ _ w

theorem peekSet_snd (d : Dir) : (d.peekSet).2 = d.peek := rfl
theorem peekSet_read_len (d : Dir) : (d.peekSet).1.read = d.read ∧ (d.peekSet).1.len = d.len := ⟨rfl, rfl⟩

theorem noData_resLineAsBody (cfg : Cfg) (uid : Nat) (dn : Bool) (data line : Bytes) (cr : Nat) (c : Conn) :
    NoData (resLineAsBody cfg uid dn data line cr c).2 := by
  unfold resLineAsBody
  simp only []
  repeat' split
  all_goals first | exact NoData.ok | exact NoData.error | exact noData_resProcessBodyData ..

theorem noData_resLineComplete (cfg : Cfg) (uid : Nat) (closed : Bool) (c : Conn) : NoData (resLineComplete cfg uid closed c).2 := by
  unfold resLineComplete
  simp only []
  repeat' split
  all_goals first
    | exact NoData.ok
    | exact NoData.error
    | exact noData_resLineAsBody ..
    | (apply noData_andThen
       · exact noData_txStateResponseLine ..
       · intro c9; exact NoData.ok)

theorem consumedOut_resLineLoop (cfg : Cfg) (fuel : Nat) (c : Conn) (w : WFCur c.out) : ConsumedOut (resLineLoop cfg fuel c) := by
  induction fuel generalizing c with
  | zero => unfold resLineLoop; exact consumedOut_of_noData _ NoData.error
  | succ k ih =>
    unfold resLineLoop
    cases c.out.tx with
    | none => exact consumedOut_of_noData _ NoData.error
    | some uid =>
      simp only
      -- step 1: one more byte unless the stream is closed
      split
      · -- no byte
        rename_i h1
        intro _
        show c.out.len ≤ c.out.read
        split at h1
        · cases hcb : c.out.copyByte with
          | none => exact copyByte_none _ hcb
          | some p => rw [hcb] at h1; simp at h1
        · simp at h1
      · rename_i c1 h1
        have w1 : WFCur c1.out := by
          split at h1
          · cases hcb : c.out.copyByte with
            | none => rw [hcb] at h1; simp at h1
            | some p =>
              obtain ⟨d, b⟩ := p
              rw [hcb] at h1
              simp only [Option.some.injEq] at h1
              rw [← h1]
              exact (copyByte_some_wf _ d b w hcb).1
          · simp only [Option.some.injEq] at h1; rw [← h1]; exact w
        -- step 2: a CR needs the byte after it
        split
        · -- no byte after the CR
          rename_i rc h2
          split at h2
          · simp only [Dir.peekSet] at h2
            cases hp : c1.out.peek with
            | none =>
              rw [hp] at h2
              simp only [Except.error.injEq] at h2
              intro _
              show c1.out.len ≤ c1.out.read
              exact peek_none_wf _ w1 hp
            | some b =>
              rw [hp] at h2
              simp only at h2
              split at h2 <;> simp at h2
          · simp at h2
        · -- LF follows the CR: go on scanning
          rename_i c2 h2
          have w2 : WFCur c2.out := by
            split at h2
            · simp only [Dir.peekSet] at h2
              cases hp : c1.out.peek with
              | none => rw [hp] at h2; simp at h2
              | some b =>
                rw [hp] at h2
                simp only at h2
                split at h2
                · simp only [Except.ok.injEq, Prod.mk.injEq] at h2; rw [← h2.1]; exact wf_nextByte _ _ w1
                · simp only [Except.ok.injEq, Prod.mk.injEq] at h2; simp at h2
            · simp only [Except.ok.injEq, Prod.mk.injEq] at h2; simp at h2
          exact ih _ w2
        · rename_i c2 h2
          have w2 : WFCur c2.out := by
            split at h2
            · simp only [Dir.peekSet] at h2
              cases hp : c1.out.peek with
              | none => rw [hp] at h2; simp at h2
              | some b =>
                rw [hp] at h2
                simp only at h2
                split at h2
                · simp only [Except.ok.injEq, Prod.mk.injEq] at h2; simp at h2
                · simp only [Except.ok.injEq, Prod.mk.injEq] at h2; rw [← h2.1]; exact wf_nextByte _ _ (wf_nextByte _ _ w1)
            · simp only [Except.ok.injEq, Prod.mk.injEq] at h2; rw [← h2.1]; exact w1
          split
          · exact ih _ w2
          · -- a complete line (or the end of the stream): nothing below answers DATA
            exact consumedOut_of_noData _ (noData_resLineComplete ..)


theorem peek_some_lt (d : Dir) (b : UInt8) (h : d.peek = some b) : d.read < d.len := by
  unfold Dir.peek at h
  split at h
  · simp at h
  · omega

/-- what the line-end handling of RES_HEADERS leaves behind -/
def EolPost (c : Conn) : Except Rc (Conn × Bool × Bool × Bool) → Prop
  | .error _ => c.out.len ≤ c.out.read
  | .ok (c2, _, _, _) => WFCur c2.out

theorem copy_after_peek (d : Dir) (w : WFCur d) (b : UInt8) (hp : d.peek = some b) :
    ∃ d' b', (d.peekSet).1.copyByte = some (d', b') ∧ WFCur d' ∧ d'.consume < d'.read := by
  have hlt := peek_some_lt d b hp
  cases hc : (d.peekSet).1.copyByte with
  | none =>
    have := copyByte_none _ hc
    have e := peekSet_read_len d
    omega
  | some p =>
    obtain ⟨d', b'⟩ := p
    obtain ⟨w', hl, _⟩ := copyByte_some_wf _ d' b' (wf_peekSet d w) hc
    exact ⟨d', b', rfl, w', hl⟩

theorem wf_consume_succ (d : Dir) (w : WFCur d) (h : d.consume < d.read) : WFCur { d with consume := d.consume + 1 } :=
  ⟨w.notNull, by have := w.c0; simp only []; omega, by simp only []; omega, w.rl, w.lc, w.small⟩

theorem eol_spec (b : UInt8) (lfcr : Bool) (c : Conn) (w : WFCur c.out) : EolPost c (resHeadersEol b lfcr c) := by
  unfold resHeadersEol
  split
  · -- CR
    simp only
    cases hp : c.out.peek with
    | none =>
      have : (c.out.peekSet).2 = none := hp
      simp only [this]
      exact peek_none_wf _ w hp
    | some n =>
      have e2 : (c.out.peekSet).2 = some n := hp
      simp only [e2]
      obtain ⟨d1, b1, hc1, w1, hl1⟩ := copy_after_peek c.out w n hp
      split
      · -- LF follows
        simp only [hc1]
        split
        · -- LF-CR mode: a further CR (LF) may belong to the line end
          cases hp2 : d1.peek with
          | none =>
            have e3 : (d1.peekSet).2 = none := hp2
            simp only [e3]
            have : ((none : Option UInt8) == some CR) = false := rfl
            simp only [this, Bool.false_eq_true, if_false]
            exact wf_peekSet _ w1
          | some n2 =>
            have e3 : (d1.peekSet).2 = some n2 := hp2
            simp only [e3]
            obtain ⟨d2, b2, hc2, w2, hl2⟩ := copy_after_peek d1 w1 n2 hp2
            split
            · simp only [hc2]
              have w2' := wf_consume_succ d2 w2 hl2
              cases hp3 : Dir.peek { d2 with consume := d2.consume + 1 } with
              | none =>
                have e4 : (Dir.peekSet { d2 with consume := d2.consume + 1 }).2 = none := hp3
                simp only [e4]
                have : ((none : Option UInt8) == some LF) = false := rfl
                simp only [this, Bool.false_eq_true, if_false]
                exact wf_peekSet _ w2'
              | some n3 =>
                have e4 : (Dir.peekSet { d2 with consume := d2.consume + 1 }).2 = some n3 := hp3
                simp only [e4]
                obtain ⟨d3, b3, hc3, w3, hl3⟩ := copy_after_peek _ w2' n3 hp3
                split
                · simp only [hc3]
                  exact wf_consume_succ d3 w3 hl3
                · exact wf_peekSet _ w2'
            · exact wf_peekSet _ w1
        · exact w1
      · split
        · exact wf_peekSet _ w
        · exact wf_peekSet _ w
  · -- LF
    simp only
    cases hp : c.out.peek with
    | none =>
      have e2 : (c.out.peekSet).2 = none := hp
      simp only [e2]
      have : ((none : Option UInt8) == some CR) = false := rfl
      simp only [this, Bool.false_and, Bool.false_eq_true, if_false]
      exact wf_peekSet _ w
    | some n =>
      have e2 : (c.out.peekSet).2 = some n := hp
      simp only [e2]
      obtain ⟨d1, b1, hc1, w1, hl1⟩ := copy_after_peek c.out w n hp
      repeat' split
      all_goals first
        | exact w1
        | exact wf_peekSet _ w
        | (rename_i h9; rw [hc1] at h9; simp only [Option.some.injEq, Prod.mk.injEq] at h9; rw [← h9.1]; exact w1)
        | (rename_i h9; rw [hc1] at h9; simp at h9)


/-- the cursor fields of a direction record that `WFCur` speaks about -/
def SameCur (d d' : Dir) : Prop :=
  d'.read = d.read ∧ d'.len = d.len ∧ d'.consume = d.consume ∧ d'.cur = d.cur ∧ d'.curNull = d.curNull

theorem SameCur.refl (d : Dir) : SameCur d d := ⟨rfl, rfl, rfl, rfl, rfl⟩
theorem SameCur.trans {a b c : Dir} (h1 : SameCur a b) (h2 : SameCur b c) : SameCur a c :=
  ⟨h2.1.trans h1.1, h2.2.1.trans h1.2.1, h2.2.2.1.trans h1.2.2.1, h2.2.2.2.1.trans h1.2.2.2.1, h2.2.2.2.2.trans h1.2.2.2.2⟩

theorem wf_of_sameCur (d d' : Dir) (h : SameCur d d') (w : WFCur d) : WFCur d' := by
  obtain ⟨h1, h2, h3, h4, h5⟩ := h
  exact ⟨by rw [h5]; exact w.notNull, by rw [h3]; exact w.c0, by rw [h3, h1]; exact w.cr, by rw [h1, h2]; exact w.rl,
    by rw [h2, h4]; exact w.lc, by rw [h2]; exact w.small⟩

theorem wf_clearBuffer (d : Dir) (w : WFCur d) : WFCur d.clearBuffer :=
  ⟨w.notNull, Int.le_trans w.c0 w.cr, Int.le_refl _, w.rl, w.lc, w.small⟩

theorem processResponseHeader_out (d : Bytes) (c : Conn) : (processResponseHeader d c).1.out = c.out := by
  unfold processResponseHeader
  simp only [modOut_out]

theorem resFlushHeader_sameCur (c : Conn) : SameCur c.out (resFlushHeader c).1.out := by
  unfold resFlushHeader
  cases c.out.header with
  | none => exact SameCur.refl _
  | some h =>
    simp only
    have e := processResponseHeader_out h c
    rcases hx : processResponseHeader h c with ⟨c1, rc1⟩
    rw [hx] at e
    simp only at e ⊢
    split
    · rw [e]; exact SameCur.refl _
    · simp only [e]; exact SameCur.refl _

theorem consolidate_wf (d d2 : Dir) (hard : Nat) (s : Bool) (data : Bytes) (w : WFCur d) (h : d.consolidate hard s = some (d2, data)) : WFCur d2 := by
  unfold Dir.consolidate at h
  cases hb : d.buf with
  | none => rw [hb] at h; simp only [Option.some.injEq, Prod.mk.injEq] at h; rw [← h.1]; exact w
  | some bb =>
    rw [hb] at h
    simp only at h
    cases hbu : d.buffer hard s with
    | none => rw [hbu] at h; simp at h
    | some d' =>
      rw [hbu] at h
      simp only [Option.some.injEq, Prod.mk.injEq] at h
      rw [← h.1]
      unfold Dir.buffer at hbu
      split at hbu
      · simp only [Option.some.injEq] at hbu; rw [← hbu]; exact w
      · simp only at hbu
        split at hbu
        · simp only [Option.some.injEq] at hbu; rw [← hbu]; exact w
        · split at hbu
          · simp at hbu
          · simp only [Option.some.injEq] at hbu; rw [← hbu]
            exact ⟨w.notNull, Int.le_trans w.c0 w.cr, Int.le_refl _, w.rl, w.lc, w.small⟩

theorem consumedOut_andThen_wf (r : R) (f : Conn → R) (h1 : NoData r.2) (hw : WFCur r.1.out) (h2 : ∀ c, WFCur c.out → ConsumedOut (f c)) :
    ConsumedOut (r >>? f) := by
  unfold R.andThen
  split
  · exact h2 _ hw
  · exact consumedOut_of_noData _ h1


theorem resHeaderLine_spec (uid : Nat) (line : Bytes) (c : Conn) :
    NoData (resHeaderLine uid line c).2 ∧ SameCur c.out (resHeaderLine uid line c).1.out := by
  unfold resHeaderLine
  split
  · -- a new header line
    have hs := resFlushHeader_sameCur c
    have hn := noData_resFlushHeader c
    rcases hx : resFlushHeader c with ⟨c1, rc1⟩
    rw [hx] at hs hn
    simp only at hs hn
    unfold R.andThen
    simp only
    split
    · simp only [Dir.peekSet]
      obtain hp | ⟨b, hp⟩ : c1.out.peek = none ∨ ∃ b, c1.out.peek = some b := by cases c1.out.peek <;> simp
      · simp only [hp, Bool.not_true, Bool.false_eq_true, if_false]
        exact ⟨NoData.ok, hs.trans ⟨rfl, rfl, rfl, rfl, rfl⟩⟩
      · simp only [hp]
        by_cases hf : isFoldingChar b = true
        · simp only [hf, Bool.not_true, Bool.false_eq_true, if_false]
          exact ⟨NoData.ok, hs.trans ⟨rfl, rfl, rfl, rfl, rfl⟩⟩
        · simp only [hf, Bool.not_false, if_true]
          have e := processResponseHeader_out line { c1 with out := { c1.out with nextByte := (b.toNat : Int) } }
          rcases hy : processResponseHeader line { c1 with out := { c1.out with nextByte := (b.toNat : Int) } } with ⟨c2, rc2⟩
          rw [hy] at e
          simp only at e ⊢
          split
          · exact ⟨NoData.error, by rw [e]; exact hs.trans ⟨rfl, rfl, rfl, rfl, rfl⟩⟩
          · exact ⟨NoData.ok, by rw [e]; exact hs.trans ⟨rfl, rfl, rfl, rfl, rfl⟩⟩
    · exact ⟨hn, hs⟩
  · -- a continuation line
    cases c.out.header with
    | none => exact ⟨NoData.ok, ⟨rfl, rfl, rfl, rfl, rfl⟩⟩
    | some h =>
      simp only
      split
      · have e := processResponseHeader_out h (c.modTx uid fun t => { t with flags := t.flags ||| INVALID_FOLDING })
        rcases hy : processResponseHeader h (c.modTx uid fun t => { t with flags := t.flags ||| INVALID_FOLDING }) with ⟨c2, rc2⟩
        rw [hy] at e
        simp only at e ⊢
        split
        · exact ⟨NoData.error, by rw [e]; exact ⟨rfl, rfl, rfl, rfl, rfl⟩⟩
        · exact ⟨NoData.ok, by simp only [e]; exact ⟨rfl, rfl, rfl, rfl, rfl⟩⟩
      · split
        · exact ⟨NoData.ok, ⟨rfl, rfl, rfl, rfl, rfl⟩⟩
        · exact ⟨NoData.ok, SameCur.refl _⟩

theorem consumedOut_resHeadersLoop (cfg : Cfg) (fuel : Nat) (lfcr : Bool) (c : Conn) (w : WFCur c.out) :
    ConsumedOut (resHeadersLoop cfg fuel lfcr c) := by
  induction fuel generalizing c lfcr with
  | zero => unfold resHeadersLoop; exact consumedOut_of_noData _ NoData.error
  | succ k ih =>
    unfold resHeadersLoop
    cases c.out.tx with
    | none => exact consumedOut_of_noData _ NoData.error
    | some uid =>
      simp only
      split
      · apply consumedOut_of_noData
        apply noData_andThen
        · exact noData_resReceiverFinalizeClear _
        · intro c1
          apply noData_andThen
          · exact noData_runCallback ..
          · intro c2; exact NoData.ok
      · cases hn : c.out.copyByte with
        | none => simp only; intro _; exact copyByte_none _ hn
        | some p =>
          obtain ⟨d, b⟩ := p
          obtain ⟨wd, _, _⟩ := copyByte_some_wf _ d b w hn
          simp only
          split
          · exact ih _ _ wd
          · have he := eol_spec b lfcr { c with out := d } wd
            split
            · rename_i rc heq
              rw [heq] at he
              intro _; exact he
            · rename_i heq
              rw [heq] at he
              exact ih _ _ he
            · rename_i c2 lfcr2 ecr2 heq
              rw [heq] at he
              split
              · exact consumedOut_of_noData _ NoData.error
              · rename_i d2 data hc
                have w2 := consolidate_wf _ _ _ _ _ he hc
                split
                · exact ih _ _ w2
                · split
                  · apply consumedOut_of_noData
                    apply noData_andThen
                    · exact noData_resFlushHeader _
                    · intro c1
                      split
                      · exact NoData.ok
                      · apply noData_andThen
                        · exact noData_resReceiverFinalizeClear _
                        · intro c2
                          apply noData_andThen
                          · exact noData_runCallback ..
                          · intro c3; exact NoData.ok
                  · have hs := resHeaderLine_spec uid (Parse.chomp data).1 { c2 with out := d2 }
                    apply consumedOut_andThen_wf _ _ hs.1 (wf_of_sameCur _ _ hs.2 w2)
                    intro c3 w3
                    exact ih _ _ (wf_clearBuffer _ w3)

/-- every response state function: HTP_DATA / HTP_DATA_BUFFER is answered only with the chunk used up -/
theorem consumedOut_resStateFn (cfg : Cfg) (c : Conn)
    (hw : c.outState = ResState.line ∨ c.outState = ResState.headers → WFCur c.out)
    (ho1 : c.outState = ResState.bodyIdentityClKnown → 0 < c.out.bodyDataLeft)
    (ho2 : c.outState = ResState.bodyChunkedData → 0 < c.out.chunkedLength) : ConsumedOut (resStateFn cfg c) := by
  unfold resStateFn
  cases hs : c.outState with
  | idle => exact consumedOut_resIdle cfg c
  | line => exact consumedOut_resLineLoop cfg _ c (hw (Or.inl hs))
  | headers => exact consumedOut_resHeadersLoop cfg _ false c (hw (Or.inr hs))
  | bodyDetermine => exact consumedOut_of_noData _ (noData_resBodyDetermine cfg c)
  | bodyIdentityClKnown => exact consumedOut_resBodyIdentityClKnown cfg c (ho1 hs)
  | bodyIdentityStreamClose => exact consumedOut_resBodyIdentityStreamClose cfg c
  | bodyChunkedLength => exact consumedOut_resChunkedLengthLoop cfg _ c
  | bodyChunkedData => exact consumedOut_resBodyChunkedData cfg c (ho2 hs)
  | bodyChunkedDataEnd => exact consumedOut_resChunkedDataEndLoop _ c
  | finalize => exact consumedOut_resFinalize cfg c

theorem resReceiverSend_read_len (l : Bool) (c : Conn) :
    (resReceiverSend l c).1.out.read = c.out.read ∧ (resReceiverSend l c).1.out.len = c.out.len := by
  unfold resReceiverSend
  cases hh : c.out.receiverHook with
  | none => exact ⟨rfl, rfl⟩
  | some h =>
    simp only
    have f := frame_runCallback h c.out.tx (if c.out.curNull then none else some (sliceCur c.out c.out.receiver c.out.read)) l c
      (if c.out.curNull then (c.out.read - c.out.receiver).toNat else 0) (!c.out.curNull && !c.out.live)
    obtain ⟨hr, hl, _⟩ := f.out_fields
    rcases hz : runCallback h c.out.tx (if c.out.curNull then none else some (sliceCur c.out c.out.receiver c.out.read)) l c
      (if c.out.curNull then (c.out.read - c.out.receiver).toNat else 0) (!c.out.curNull && !c.out.live) with ⟨c9, rc9⟩
    rw [hz] at hr hl
    simp only at hr hl
    unfold R.andThen
    simp only
    split
    · exact ⟨hr, hl⟩
    · exact ⟨hr, hl⟩

/-- the response driver hands the answer on (the counterpart of `reqDriverLoop_data_step`) -/
theorem resDriverLoop_data_step (cfg : Cfg) (fuel : Nat) (c : Conn)
    (hd : (resStateFn cfg c).2 = Rc.data ∨ (resStateFn cfg c).2 = Rc.dataBuffer) :
    ((resDriverLoop cfg false (fuel + 1) c).2 = STREAM_DATA ∨ (resDriverLoop cfg false (fuel + 1) c).2 = STREAM_ERROR) ∧
    (resDriverLoop cfg false (fuel + 1) c).1.out.read = (resStateFn cfg c).1.out.read ∧
    (resDriverLoop cfg false (fuel + 1) c).1.out.len = (resStateFn cfg c).1.out.len := by
  unfold resDriverLoop
  simp only [Bool.false_eq_true, if_false]
  rcases hx : resStateFn cfg c with ⟨c1, rc1⟩
  rw [hx] at hd
  simp only at hd ⊢
  have hnok : (rc1 == Rc.ok) = false := by rcases hd with h | h <;> rw [h] <;> decide
  simp only [hnok, Bool.false_eq_true, if_false]
  have hdd : (rc1 == Rc.data || rc1 == Rc.dataBuffer) = true := by rcases hd with h | h <;> rw [h] <;> decide
  simp only [hdd, if_true]
  obtain ⟨hr, hl⟩ := resReceiverSend_read_len false c1
  rcases hy : resReceiverSend false c1 with ⟨c2, rc2⟩
  rw [hy] at hr hl
  simp only at hr hl ⊢
  split
  · cases hb : c2.out.buffer cfg.fieldLimitHard false with
    | none => simp only; exact ⟨by simp, hr, hl⟩
    | some d =>
      simp only
      obtain ⟨h1, h2⟩ := buffer_read_len _ _ _ _ hb
      exact ⟨by simp, by rw [← hr]; exact h1, by rw [← hl]; exact h2⟩
  · exact ⟨by simp, hr, hl⟩

end Htp.Conn
