/- Cost lemmas for the table lookup (C08): the number of key comparisons of htp_table_get as a function of the abstract slot
   sequence, and the cost of inserting a block of field names. -/
import HtpModel.Prim.Table
import HtpModel.Lemmas.Ring
namespace Htp.Table
open Htp Htp.Ring

/-- the cost of the lookup loop on the sequence of slots it walks (key, value, key, value, ...) -/
def slotsCost (m : Bytes → Bool) : List Slot → Nat
  | [] => 0
  | [s] => (match s with | .key k => if m k then 1 else 1 | _ => 1)
  | s :: _ :: rest => (match s with | .key k => if m k then 1 else 1 + slotsCost m rest | _ => 1 + slotsCost m rest)

theorem keyAt_abs (t : Table) (i : Nat) : keyAt t i = (match (Ring.abs t.list)[i]? with | some (.key k) => some k | _ => none) := by
  unfold keyAt
  rw [Ring.get_eq]
  cases (Ring.abs t.list)[i]? with
  | none => rfl
  | some s => cases s <;> rfl

theorem getLoopCost_abs (m : Bytes → Bool) (t : Table) (fuel i : Nat) (hf : (Ring.abs t.list).length ≤ i + 2 * fuel) :
    getLoopCost m t fuel i = slotsCost m ((Ring.abs t.list).drop i) := by
  induction fuel generalizing i with
  | zero =>
    have : (Ring.abs t.list).drop i = [] := List.drop_of_length_le (by omega)
    simp [getLoopCost, this, slotsCost]
  | succ k ih =>
    unfold getLoopCost
    have hsz : Ring.size t.list = (Ring.abs t.list).length := by simp [Ring.size]
    rw [hsz]
    by_cases hlt : i < (Ring.abs t.list).length
    · simp only [hlt, if_true]
      have hd : (Ring.abs t.list).drop i = (Ring.abs t.list)[i] :: (Ring.abs t.list).drop (i + 1) := List.drop_eq_getElem_cons hlt
      have ihh := ih (i + 2) (by omega)
      rw [keyAt_abs, List.getElem?_eq_getElem hlt, hd]
      by_cases hlt2 : i + 1 < (Ring.abs t.list).length
      · have hd2 : (Ring.abs t.list).drop (i + 1) = (Ring.abs t.list)[i + 1] :: (Ring.abs t.list).drop (i + 2) := List.drop_eq_getElem_cons hlt2
        rw [hd2]
        cases hs : (Ring.abs t.list)[i] with
        | null => simp [slotsCost, ihh]
        | val v => simp [slotsCost, ihh]
        | key kk => simp only [slotsCost]; split <;> simp [ihh]
      · have hd2 : (Ring.abs t.list).drop (i + 1) = [] := List.drop_of_length_le (by omega)
        have hd3 : (Ring.abs t.list).drop (i + 2) = [] := List.drop_of_length_le (by omega)
        rw [hd2]
        rw [hd3] at ihh
        simp only [slotsCost] at ihh
        cases hs : (Ring.abs t.list)[i] with
        | null => simp [slotsCost, ihh]
        | val v => simp [slotsCost, ihh]
        | key kk => simp only [slotsCost]; split <;> simp [ihh]
    · simp only [hlt, if_false]
      have : (Ring.abs t.list).drop i = [] := List.drop_of_length_le (by omega)
      simp [this, slotsCost]


/-- does the lookup loop find a matching key on this slot sequence? -/
def slotsHit (m : Bytes → Bool) : List Slot → Bool
  | [] => false
  | [s] => (match s with | .key k => m k | _ => false)
  | s :: _ :: rest => (match s with | .key k => if m k then true else slotsHit m rest | _ => slotsHit m rest)

theorem getLoop_none_abs (m : Bytes → Bool) (t : Table) (fuel i : Nat) (hf : (Ring.abs t.list).length ≤ i + 2 * fuel)
    (hh : slotsHit m ((Ring.abs t.list).drop i) = false) : getLoop m t fuel i = none := by
  induction fuel generalizing i with
  | zero => simp [getLoop]
  | succ k ih =>
    unfold getLoop
    have hsz : Ring.size t.list = (Ring.abs t.list).length := by simp [Ring.size]
    rw [hsz]
    by_cases hlt : i < (Ring.abs t.list).length
    · simp only [hlt, if_true]
      have hd : (Ring.abs t.list).drop i = (Ring.abs t.list)[i] :: (Ring.abs t.list).drop (i + 1) := List.drop_eq_getElem_cons hlt
      rw [keyAt_abs, List.getElem?_eq_getElem hlt]
      rw [hd] at hh
      by_cases hlt2 : i + 1 < (Ring.abs t.list).length
      · have hd2 : (Ring.abs t.list).drop (i + 1) = (Ring.abs t.list)[i + 1] :: (Ring.abs t.list).drop (i + 2) := List.drop_eq_getElem_cons hlt2
        rw [hd2] at hh
        cases hs : (Ring.abs t.list)[i] with
        | null => rw [hs] at hh; simp only [slotsHit] at hh; exact ih (i + 2) (by omega) hh
        | val v => rw [hs] at hh; simp only [slotsHit] at hh; exact ih (i + 2) (by omega) hh
        | key kk =>
          rw [hs] at hh
          simp only [slotsHit] at hh
          by_cases hm : m kk = true
          · simp [hm] at hh
          · simp only [hm, if_false, Bool.false_eq_true] at hh ⊢
            exact ih (i + 2) (by omega) hh
      · have hd2 : (Ring.abs t.list).drop (i + 1) = [] := List.drop_of_length_le (by omega)
        have hd3 : (Ring.abs t.list).drop (i + 2) = [] := List.drop_of_length_le (by omega)
        rw [hd2] at hh
        cases hs : (Ring.abs t.list)[i] with
        | null => simp only; exact ih (i + 2) (by omega) (by rw [hd3]; rfl)
        | val v => simp only; exact ih (i + 2) (by omega) (by rw [hd3]; rfl)
        | key kk =>
          rw [hs] at hh
          simp only [slotsHit] at hh
          simp only [hh, Bool.false_eq_true, if_false]
          exact ih (i + 2) (by omega) (by rw [hd3]; rfl)
    · simp only [hlt, if_false]

/-- the slot sequence of a table that holds the given names (each with some value) -/
def slotsOf : List Bytes → List Slot
  | [] => []
  | n :: ns => .key n :: .val 0 :: slotsOf ns

theorem slotsCost_nomatch (m : Bytes → Bool) (ns : List Bytes) (h : ∀ n ∈ ns, m n = false) : slotsCost m (slotsOf ns) = ns.length := by
  induction ns with
  | nil => rfl
  | cons n rest ih =>
    simp only [slotsOf, slotsCost, h n (by simp), Bool.false_eq_true, if_false, List.length_cons]
    rw [ih (fun x hx => h x (by simp [hx]))]; omega

theorem slotsHit_nomatch (m : Bytes → Bool) (ns : List Bytes) (h : ∀ n ∈ ns, m n = false) : slotsHit m (slotsOf ns) = false := by
  induction ns with
  | nil => rfl
  | cons n rest ih =>
    simp only [slotsOf, slotsHit, h n (by simp), Bool.false_eq_true, if_false]
    exact ih (fun x hx => h x (by simp [hx]))

theorem slotsCost_head (m : Bytes → Bool) (n : Bytes) (ns : List Bytes) (h : m n = true) : slotsCost m (slotsOf (n :: ns)) = 1 := by
  simp [slotsOf, slotsCost, h]

theorem slotsOf_append (a : List Bytes) (n : Bytes) : slotsOf (a ++ [n]) = slotsOf a ++ [.key n, .val 0] := by
  induction a with
  | nil => rfl
  | cons x t ih => simp [slotsOf, ih]


/-- what the header-processing code does with its table for one field name: look the name up, add it when it is new
    (htp_process_request_header_generic: htp_table_get, then htp_table_add) -/
def insertName (t : Table) (n : Bytes) : Table × Nat :=
  let c := getCost t n
  match get t n with
  | some _ => (t, c)
  | none => ((add t n 0).1, c)

/-- a header block: names inserted in order; returns the table and the total number of key comparisons -/
def insertNames (t : Table) : List Bytes → Table × Nat
  | [] => (t, 0)
  | n :: ns =>
    let r1 := insertName t n
    let r2 := insertNames r1.1 ns
    (r2.1, r1.2 + r2.2)

/-- d + (d+1) + ... + (d+k-1) -/
def sumFrom : Nat → Nat → Nat
  | _, 0 => 0
  | d, k + 1 => d + sumFrom (d + 1) k

theorem sumFrom_closed (d k : Nat) : 2 * sumFrom d k + k = 2 * (d * k) + k * k := by
  induction k generalizing d with
  | zero => simp [sumFrom]
  | succ k ih =>
    have h := ih (d + 1)
    simp only [sumFrom, Nat.mul_add, Nat.add_mul, Nat.mul_one, Nat.one_mul] at h ⊢
    generalize d * k = a at h ⊢
    generalize k * k = b at h ⊢
    generalize sumFrom (d + 1) k = s at h ⊢
    omega

structure TInv (t : Table) (done : List Bytes) : Prop where
  wf : WF t.list
  abs : Ring.abs t.list = slotsOf done
  alloc : t.alloc = .unknown ∨ t.alloc = .copied

theorem add_inv (t : Table) (done : List Bytes) (n : Bytes) (hi : TInv t done) : TInv (add t n 0).1 (done ++ [n]) := by
  have key : ∀ t' : Table, WF t'.list → Ring.abs t'.list = slotsOf done → (t'.alloc = .unknown ∨ t'.alloc = .copied) →
      TInv (rawAdd t' n 0) (done ++ [n]) := by
    intro t' w a al
    refine ⟨?_, ?_, al⟩
    · exact push_wf _ (push_wf _ w _) _
    · show Ring.abs (Ring.push (Ring.push t'.list (.key n)) (.val 0)) = _
      rw [abs_push _ (push_wf _ w _), abs_push _ w, a, slotsOf_append]; simp
  unfold add addWith
  rcases hi.alloc with h | h
  · simp only [h, if_true]
    exact key { t with alloc := .copied } hi.wf hi.abs (Or.inr rfl)
  · simp only [h]
    exact key t hi.wf hi.abs (Or.inr h)

theorem insertName_new (t : Table) (done : List Bytes) (n : Bytes) (hi : TInv t done)
    (hn : ∀ x ∈ done, (Bstr.cmpMemNocase x n == 0) = false) :
    (insertName t n).2 = done.length ∧ TInv (insertName t n).1 (done ++ [n]) := by
  have hlen : (Ring.abs t.list).length ≤ 0 + 2 * Ring.size t.list := by simp [Ring.size]; omega
  have hc : getCost t n = done.length := by
    unfold getCost
    rw [getLoopCost_abs _ t _ 0 hlen, List.drop_zero, hi.abs]
    exact slotsCost_nomatch _ done hn
  have hg : get t n = none := by
    unfold get
    apply getLoop_none_abs _ t _ 0 hlen
    rw [List.drop_zero, hi.abs]
    exact slotsHit_nomatch _ done hn
  unfold insertName
  simp only [hc, hg]
  exact ⟨trivial, add_inv t done n hi⟩

/-- inserting names none of which matches an earlier one costs |done| + (|done|+1) + ... comparisons -/
theorem insertNames_distinct (ns : List Bytes) (t : Table) (done : List Bytes) (hi : TInv t done)
    (hd : ∀ x ∈ done, ∀ n ∈ ns, (Bstr.cmpMemNocase x n == 0) = false)
    (hp : ns.Pairwise (fun a b => (Bstr.cmpMemNocase a b == 0) = false)) :
    (insertNames t ns).2 = sumFrom done.length ns.length := by
  induction ns generalizing t done with
  | nil => rfl
  | cons n rest ih =>
    unfold insertNames
    simp only
    have h1 := insertName_new t done n hi (fun x hx => hd x hx n (by simp))
    rw [List.pairwise_cons] at hp
    have h2 := ih (insertName t n).1 (done ++ [n]) h1.2
      (by
        intro x hx m hm
        rcases List.mem_append.mp hx with h | h
        · exact hd x h m (by simp [hm])
        · simp at h; subst h; exact hp.1 m hm)
      hp.2
    rw [h1.1, h2]
    simp [sumFrom]

end Htp.Table
