/- The request direction's cursors stay inside the chunk (C01): every tx-level function leaves chunk and cursors alone (`KeepIn`), and
   each of the fourteen request state functions preserves 0 <= consume <= read <= len <= |chunk| (`WFCur`). -/
import HtpModel.Lemmas.ConsumedOut
namespace Htp.Conn
open Htp Htp.Gen

/-- `f` leaves the request direction's chunk and cursors alone -/
def KeepIn (c c' : Conn) : Prop := SameCur c.inn c'.inn

theorem KeepIn.refl (c : Conn) : KeepIn c c := SameCur.refl _
theorem KeepIn.trans {a b c : Conn} (h1 : KeepIn a b) (h2 : KeepIn b c) : KeepIn a c := SameCur.trans h1 h2

theorem keepIn_of_frame {c c' : Conn} (h : FrameDirs c c') : KeepIn c c' := by
  obtain ⟨h1, h2, h3, h4, _, _, _, _, h5⟩ := h.inn_fields
  exact ⟨h1, h2, h3, h4, h5⟩

theorem keepIn_andThen (c0 : Conn) (r : R) (f : Conn → R) (h1 : KeepIn c0 r.1) (h2 : ∀ c, KeepIn c (f c).1) :
    KeepIn c0 (r >>? f).1 := by
  unfold R.andThen
  split
  · exact h1.trans (h2 _)
  · exact h1

theorem keepIn_runCallback (h : Hook) (uid : Option Nat) (data : Option Bytes) (l : Bool) (c : Conn) (g : Nat) (s : Bool) :
    KeepIn c (runCallback h uid data l c g s).1 := keepIn_of_frame (frame_runCallback ..)

theorem keepIn_modTx (u : Nat) (f : Tx → Tx) (c : Conn) : KeepIn c (c.modTx u f) := ⟨rfl, rfl, rfl, rfl, rfl⟩
theorem keepIn_modIn (f : Tx → Tx) (c : Conn) : KeepIn c (c.modIn f) := by
  unfold Conn.modIn
  split <;> exact ⟨rfl, rfl, rfl, rfl, rfl⟩

theorem keepIn_reqReceiverSend (l : Bool) (c : Conn) : KeepIn c (reqReceiverSend l c).1 := by
  unfold reqReceiverSend
  cases c.inn.receiverHook with
  | none => exact KeepIn.refl c
  | some h =>
    simp only
    apply keepIn_andThen
    · exact keepIn_runCallback ..
    · intro c2; exact ⟨rfl, rfl, rfl, rfl, rfl⟩

theorem keepIn_reqReceiverFinalizeClear (c : Conn) : KeepIn c (reqReceiverFinalizeClear c).1 := by
  unfold reqReceiverFinalizeClear
  cases c.inn.receiverHook with
  | none => exact KeepIn.refl c
  | some h =>
    simp only
    exact (keepIn_reqReceiverSend true c).trans ⟨rfl, rfl, rfl, rfl, rfl⟩

theorem keepIn_reqReceiverSet (h : Hook) (c : Conn) : KeepIn c (reqReceiverSet h c).1 := by
  unfold reqReceiverSet
  simp only
  exact (keepIn_reqReceiverFinalizeClear c).trans ⟨rfl, rfl, rfl, rfl, rfl⟩

theorem keepIn_reqProcessBodyData (cfg : Cfg) (data : Option Bytes) (g : Nat) (c : Conn) :
    KeepIn c (reqProcessBodyData cfg data g c).1 := keepIn_of_frame (frame_reqProcessBodyData ..)

theorem keepIn_txFinalize (cfg : Cfg) (uid : Nat) (c : Conn) : KeepIn c (txFinalize cfg uid c).1 := by
  unfold txFinalize
  cases c.findTx uid with
  | none => exact KeepIn.refl c
  | some t =>
    simp only
    split
    · exact KeepIn.refl c
    · apply keepIn_andThen
      · exact keepIn_runCallback ..
      · intro c1
        split
        · split
          · exact keepIn_of_frame (frame_destroyTx ..)
          · exact KeepIn.refl _
        · exact KeepIn.refl _

theorem keepIn_txStateRequestCompletePartial (cfg : Cfg) (uid : Nat) (c : Conn) : KeepIn c (txStateRequestCompletePartial cfg uid c).1 := by
  unfold txStateRequestCompletePartial
  simp only
  apply keepIn_andThen
  · split
    · exact keepIn_reqProcessBodyData ..
    · exact KeepIn.refl c
  · intro c1
    apply keepIn_andThen
    · exact (keepIn_modTx _ _ c1).trans (keepIn_runCallback ..)
    · intro c2
      apply keepIn_andThen
      · exact keepIn_reqReceiverFinalizeClear c2
      · intro c3; exact ⟨rfl, rfl, rfl, rfl, rfl⟩

theorem keepIn_txStateRequestComplete (cfg : Cfg) (uid : Nat) (c : Conn) : KeepIn c (txStateRequestComplete cfg uid c).1 := by
  unfold txStateRequestComplete
  simp only
  apply keepIn_andThen
  · split
    · exact keepIn_txStateRequestCompletePartial ..
    · exact KeepIn.refl c
  · intro c1
    have h := keepIn_txFinalize cfg uid { c1 with inState := if ((c1.findTx uid).map (·.is09)).getD ((c.findTx uid).getD { uid := uid }).is09 then .ignoreDataAfter09 else .idle }
    exact (KeepIn.trans ⟨rfl, rfl, rfl, rfl, rfl⟩ h).trans ⟨rfl, rfl, rfl, rfl, rfl⟩

theorem keepIn_txStateRequestStart (uid : Nat) (c : Conn) : KeepIn c (txStateRequestStart uid c).1 := by
  unfold txStateRequestStart
  apply keepIn_andThen
  · exact keepIn_runCallback ..
  · intro c1
    exact KeepIn.trans (b := { c1 with inState := .line }) ⟨rfl, rfl, rfl, rfl, rfl⟩ (keepIn_modIn _ _)

theorem keepIn_processRequestHeader (data : Bytes) (c : Conn) : KeepIn c (processRequestHeader data c).1 := by
  unfold processRequestHeader
  simp only
  exact (keepIn_modIn _ c).trans (keepIn_modIn _ _)

theorem keepIn_reqFlushHeader (c : Conn) : KeepIn c (reqFlushHeader c).1 := by
  unfold reqFlushHeader
  cases c.inn.header with
  | none => exact KeepIn.refl c
  | some h =>
    simp only
    have := keepIn_processRequestHeader h c
    split
    · exact this
    · exact this.trans ⟨rfl, rfl, rfl, rfl, rfl⟩

theorem keepIn_setTx (t : Tx) (c : Conn) : KeepIn c (c.setTx t) := ⟨rfl, rfl, rfl, rfl, rfl⟩

theorem keepIn_installUrlenc (cfg : Cfg) (uid : Nat) (t : Tx) (c : Conn) : KeepIn c (installUrlenc cfg uid t c) := by
  unfold installUrlenc
  simp only []
  repeat' split
  all_goals first | exact KeepIn.refl _ | exact keepIn_setTx _ _

theorem keepIn_installMpart (cfg : Cfg) (uid : Nat) (t : Tx) (c : Conn) : KeepIn c (installMpart cfg uid t c) := by
  unfold installMpart
  simp only []
  repeat' split
  all_goals first | exact KeepIn.refl _ | exact keepIn_setTx _ _

theorem keepIn_txProcessRequestHeadersTail (cfg : Cfg) (uid : Nat) (t : Tx) (ae : Bool) (c : Conn) :
    KeepIn c (txProcessRequestHeadersTail cfg uid t ae c).1 := by
  unfold txProcessRequestHeadersTail
  split
  · exact KeepIn.refl c
  · apply keepIn_andThen
    · exact keepIn_reqReceiverFinalizeClear _
    · intro c1
      exact ((keepIn_installUrlenc cfg uid t c1).trans (keepIn_installMpart ..)).trans (keepIn_runCallback ..)

theorem keepIn_txProcessRequestHeaders (cfg : Cfg) (uid : Nat) (c : Conn) : KeepIn c (txProcessRequestHeaders cfg uid c).1 := by
  unfold txProcessRequestHeaders
  extract_lets t0 ce enc c2 t1 c1 fr t2 hasBody c0 un
  have k2 : KeepIn c c2 := keepIn_modTx ..
  have k1 : KeepIn c2 c1 := by
    simp only [c1]
    split
    · exact ⟨rfl, rfl, rfl, rfl, rfl⟩
    · exact KeepIn.refl _
  have k0 : KeepIn c1 c0 := by
    simp only [c0]
    split
    · exact ⟨rfl, rfl, rfl, rfl, rfl⟩
    · exact KeepIn.refl _
  have k := (k2.trans k1).trans k0
  clear_value c0
  repeat' split
  all_goals exact k.trans ((keepIn_setTx _ _).trans (keepIn_txProcessRequestHeadersTail ..))

theorem keepIn_txStateRequestHeaders (cfg : Cfg) (uid : Nat) (c : Conn) : KeepIn c (txStateRequestHeaders cfg uid c).1 := by
  unfold txStateRequestHeaders
  simp only
  split
  · apply keepIn_andThen
    · exact keepIn_runCallback ..
    · intro c1
      apply keepIn_andThen
      · exact keepIn_reqReceiverFinalizeClear _
      · intro c2; exact ⟨rfl, rfl, rfl, rfl, rfl⟩
  · split
    · apply keepIn_andThen
      · refine KeepIn.trans ?_ (keepIn_txProcessRequestHeaders ..)
        split
        · exact keepIn_modTx ..
        · exact KeepIn.refl _
      · intro c1; exact ⟨rfl, rfl, rfl, rfl, rfl⟩
    · exact KeepIn.refl _

theorem keepIn_urlencQueryCallback (cfg : Cfg) (uid : Nat) (c : Conn) : KeepIn c (urlencQueryCallback cfg uid c) := by
  unfold urlencQueryCallback
  simp only []
  repeat' split
  all_goals first | exact KeepIn.refl _ | exact keepIn_setTx _ _

theorem keepIn_txStateRequestLine (cfg : Cfg) (uid : Nat) (c : Conn) : KeepIn c (txStateRequestLine cfg uid c).1 := by
  unfold txStateRequestLine
  extract_lets t0 hp fl1 fl2 src t1 t2 t3 c1
  split
  · exact KeepIn.refl c
  · have k1 : KeepIn c c1 := keepIn_setTx ..
    clear_value c1
    apply keepIn_andThen
    · exact k1.trans (keepIn_runCallback ..)
    · intro c2
      apply keepIn_andThen
      · refine KeepIn.trans ?_ (keepIn_runCallback ..)
        split
        · exact keepIn_urlencQueryCallback ..
        · exact KeepIn.refl _
      · intro c3; exact ⟨rfl, rfl, rfl, rfl, rfl⟩

theorem keepIn_txCreate (cfg : Cfg) (c : Conn) : KeepIn c (txCreate cfg c).1 := by
  unfold txCreate
  simp only []
  split <;> exact ⟨rfl, rfl, rfl, rfl, rfl⟩

theorem wf_keepIn {c c' : Conn} (k : KeepIn c c') (w : WFCur c.inn) : WFCur c'.inn := wf_of_sameCur _ _ k w

/-! ### every request state function keeps the cursors inside the chunk -/

theorem wfIn_reqIdle (cfg : Cfg) (c : Conn) (w : WFCur c.inn) : WFCur (reqIdle cfg c).1.inn := by
  unfold reqIdle
  split
  · exact w
  · have k := keepIn_txCreate cfg c
    rcases hx : txCreate cfg c with ⟨c1, u⟩
    rw [hx] at k
    simp only at k ⊢
    have w1 := wf_keepIn k w
    cases u with
    | none => exact wf_keepIn (c := c1) ⟨rfl, rfl, rfl, rfl, rfl⟩ w1
    | some uid =>
      simp only
      exact wf_keepIn (keepIn_txStateRequestStart uid c1) w1

theorem wfIn_reqLineComplete (cfg : Cfg) (c : Conn) (w : WFCur c.inn) : WFCur (reqLineComplete cfg c).1.inn := by
  unfold reqLineComplete
  cases hc : c.inn.consolidate cfg.fieldLimitHard true with
  | none => exact w
  | some p =>
    obtain ⟨d, data⟩ := p
    have wd := consolidate_wf _ _ _ _ _ w hc
    simp -zeta only
    extract_lets c0 ci line rl c1
    have w0 : WFCur c0.inn := wd
    have wi : WFCur ci.inn := wf_keepIn (keepIn_modIn _ c0) w0
    have w1 : WFCur c1.inn := wf_keepIn (keepIn_modIn _ c0) w0
    clear_value ci c1
    split
    · exact wf_clearBuffer _ w0
    · split
      · exact wf_clearBuffer _ wi
      · cases c1.inn.tx with
        | none => exact w1
        | some uid =>
          simp only
          have w2 := wf_keepIn (keepIn_txStateRequestLine cfg uid c1) w1
          split
          · exact w2
          · exact wf_clearBuffer _ w2

theorem wfIn_reqLineLoop (cfg : Cfg) (fuel : Nat) (c : Conn) (w : WFCur c.inn) : WFCur (reqLineLoop cfg fuel c).1.inn := by
  induction fuel generalizing c with
  | zero => unfold reqLineLoop; exact w
  | succ k ih =>
    unfold reqLineLoop
    simp only
    have w0 := wf_peekSet _ w
    split
    · exact wfIn_reqLineComplete cfg _ w0
    · cases hn : (c.inn.peekSet).1.copyByte with
      | none => exact w0
      | some p =>
        obtain ⟨d, b⟩ := p
        obtain ⟨wd, _, _⟩ := copyByte_some_wf _ d b w0 hn
        simp only
        split
        · exact wfIn_reqLineComplete cfg _ wd
        · exact ih _ wd

theorem wfIn_reqProtocol (c : Conn) (w : WFCur c.inn) : WFCur (reqProtocol c).1.inn := by
  unfold reqProtocol
  simp only []
  repeat' split
  all_goals first
    | exact w
    | exact wf_keepIn (c := { c with inState := .headers }) (keepIn_modIn _ _) w
    | exact wf_keepIn (keepIn_modIn _ _) (wf_keepIn (c := { c with inState := .headers }) (keepIn_modIn _ _) w)

theorem wf_header (d : Dir) (h : Option Bytes) (w : WFCur d) : WFCur { d with header := h } :=
  ⟨w.notNull, w.c0, w.cr, w.rl, w.lc, w.small⟩

/-- the per-line step of REQ_HEADERS (start a header, continue a folded one) keeps the cursors -/
theorem wfIn_reqHeadersLoop (cfg : Cfg) (fuel : Nat) (c : Conn) (w : WFCur c.inn) : WFCur (reqHeadersLoop cfg fuel c).1.inn := by
  induction fuel generalizing c with
  | zero => unfold reqHeadersLoop; exact w
  | succ k ih =>
    unfold reqHeadersLoop
    cases c.inn.tx with
    | none => exact w
    | some uid =>
      simp only
      split
      · -- closed
        have k1 := keepIn_reqFlushHeader c
        rcases hx : reqFlushHeader c with ⟨c1, rc1⟩
        rw [hx] at k1
        simp only at k1
        have w1 := wf_keepIn k1 w
        unfold R.andThen
        simp only
        split
        · refine wf_keepIn (keepIn_txStateRequestHeaders cfg uid _) ?_
          exact wf_keepIn (keepIn_modIn _ _) (wf_clearBuffer _ w1)
        · exact w1
      · cases hn : c.inn.copyByte with
        | none => exact w
        | some p =>
          obtain ⟨d, b⟩ := p
          obtain ⟨wd, _, _⟩ := copyByte_some_wf _ d b w hn
          simp only
          split
          · exact ih _ wd
          · cases hc : d.consolidate cfg.fieldLimitHard true with
            | none => exact wd
            | some q =>
              obtain ⟨d2, data⟩ := q
              have w2 := consolidate_wf _ _ _ _ _ wd hc
              simp only
              split
              · have k1 := keepIn_reqFlushHeader { c with inn := d2 }
                rcases hx : reqFlushHeader { c with inn := d2 } with ⟨c1, rc1⟩
                rw [hx] at k1
                simp only at k1
                have w1 : WFCur c1.inn := wf_keepIn k1 w2
                unfold R.andThen
                simp only
                split
                · exact wf_keepIn (keepIn_txStateRequestHeaders cfg uid _) (wf_clearBuffer _ w1)
                · exact w1
              · -- a header line
                have key : ∀ (r : R), WFCur r.1.inn → WFCur (r >>? fun c => reqHeadersLoop cfg k { c with inn := c.inn.clearBuffer }).1.inn := by
                  intro r wr
                  unfold R.andThen
                  split
                  · exact ih _ (wf_clearBuffer _ wr)
                  · exact wr
                apply key
                split
                · have k1 := keepIn_reqFlushHeader { c with inn := d2 }
                  rcases hx : reqFlushHeader { c with inn := d2 } with ⟨c1, rc1⟩
                  rw [hx] at k1
                  simp only at k1
                  have w1 : WFCur c1.inn := wf_keepIn k1 w2
                  unfold R.andThen
                  simp only
                  split
                  · have wp := wf_peekSet _ w1
                    split
                    · split
                      · have kk := keepIn_processRequestHeader (Parse.chomp data).1 { c1 with inn := (c1.inn.peekSet).1 }
                        split
                        · exact wf_keepIn kk wp
                        · exact wf_keepIn kk wp
                      · exact wf_header _ _ wp
                    · exact wf_header _ _ wp
                  · exact w1
                · split
                  · exact wf_header _ _ (wf_keepIn (c := { c with inn := d2 }) (keepIn_modIn _ _) w2)
                  · split
                    · exact wf_header _ _ w2
                    · exact w2

theorem wfIn_connect_states (c : Conn) (w : WFCur c.inn) :
    WFCur (reqConnectCheck c).1.inn ∧ WFCur (reqConnectWaitResponse c).1.inn ∧ WFCur (reqBodyDetermine c).1.inn := by
  refine ⟨?_, ?_, ?_⟩
  · unfold reqConnectCheck
    split
    · exact ⟨w.notNull, w.c0, w.cr, w.rl, w.lc, w.small⟩
    · exact w
  · unfold reqConnectWaitResponse
    simp only []
    repeat' split
    all_goals exact w
  · unfold reqBodyDetermine
    simp only []
    repeat' split
    all_goals first
      | exact w
      | exact wf_keepIn (c := { c with inState := .bodyChunkedLength }) (keepIn_modIn _ _) w
      | exact ⟨w.notNull, w.c0, w.cr, w.rl, w.lc, w.small⟩
      | (refine wf_keepIn (keepIn_modIn _ _) ?_; exact ⟨w.notNull, w.c0, w.cr, w.rl, w.lc, w.small⟩)

theorem wfIn_reqConnectProbeLoop (cfg : Cfg) (fuel : Nat) (c : Conn) (w : WFCur c.inn) :
    WFCur (reqConnectProbeLoop cfg fuel c).1.inn := by
  induction fuel generalizing c with
  | zero => unfold reqConnectProbeLoop; exact w
  | succ k ih =>
    unfold reqConnectProbeLoop
    simp only
    have w0 := wf_peekSet _ w
    split
    · cases hc : (c.inn.peekSet).1.consolidate cfg.fieldLimitHard true with
      | none => exact w0
      | some q =>
        obtain ⟨d2, data⟩ := q
        have w2 := consolidate_wf _ _ _ _ _ w0 hc
        simp only
        split
        · split
          · exact wf_keepIn (keepIn_txStateRequestComplete cfg _ _) w2
          · exact w2
        · exact ⟨w2.notNull, w2.c0, w2.cr, w2.rl, w2.lc, w2.small⟩
    · cases hn : (c.inn.peekSet).1.copyByte with
      | none => exact w0
      | some p =>
        obtain ⟨d, b⟩ := p
        obtain ⟨wd, _, _⟩ := copyByte_some_wf _ d b w0 hn
        exact ih _ wd

theorem wf_advance (d : Dir) (n : Int) (w : WFCur d) (h0 : 0 ≤ n) (h1 : n ≤ d.len - d.read) : WFCur (d.advance n) := by
  unfold Dir.advance
  exact ⟨w.notNull, by have := w.c0; simp only []; omega, by have := w.cr; simp only []; omega, by simp only []; omega, w.lc, w.small⟩

theorem wfIn_reqBodyIdentity (cfg : Cfg) (c : Conn) (w : WFCur c.inn) (ho : 0 ≤ c.inn.bodyDataLeft) :
    WFCur (reqBodyIdentity cfg c).1.inn := by
  unfold reqBodyIdentity
  extract_lets avail n data
  have hn0 : 0 ≤ n := by
    simp only [n, avail]
    have := w.rl
    split <;> omega
  have hn1 : n ≤ c.inn.len - c.inn.read := by
    simp only [n, avail]
    split <;> omega
  clear_value n
  split
  · exact w
  · have k := keepIn_reqProcessBodyData cfg data (if c.inn.curNull then n.toNat else 0) c
    rcases hx : reqProcessBodyData cfg data (if c.inn.curNull then n.toNat else 0) c with ⟨c1, rc1⟩
    rw [hx] at k
    simp only at k ⊢
    have w1 := wf_keepIn k w
    split
    · exact w1
    · obtain ⟨kr, kl, _, _, _⟩ := k
      have wa : WFCur (c1.inn.advance n) := wf_advance _ _ w1 hn0 (by rw [kr, kl]; exact hn1)
      have wb : WFCur { c1.inn.advance n with bodyDataLeft := c1.inn.bodyDataLeft - n } :=
        ⟨wa.notNull, wa.c0, wa.cr, wa.rl, wa.lc, wa.small⟩
      split
      · exact wf_keepIn (c := { c1 with inn := { c1.inn.advance n with bodyDataLeft := c1.inn.bodyDataLeft - n } }) (keepIn_modIn _ _) wb
      · exact wf_keepIn (c := { c1 with inn := { c1.inn.advance n with bodyDataLeft := c1.inn.bodyDataLeft - n } }) (keepIn_modIn _ _) wb

theorem nextByteConsume_some_wf (d d' : Dir) (b : UInt8) (w : WFCur d) (h : d.nextByteConsume = some (d', b)) : WFCur d' := by
  unfold Dir.nextByteConsume at h
  cases hc : d.copyByte with
  | none => rw [hc] at h; simp at h
  | some p =>
    obtain ⟨d1, b1⟩ := p
    rw [hc] at h
    simp only [Option.some.injEq, Prod.mk.injEq] at h
    obtain ⟨w1, hl, _⟩ := copyByte_some_wf _ d1 b1 w hc
    rw [← h.1]
    exact wf_consume_succ _ w1 hl

theorem wfIn_reqChunkedDataEndLoop (fuel : Nat) (c : Conn) (w : WFCur c.inn) : WFCur (reqChunkedDataEndLoop fuel c).1.inn := by
  induction fuel generalizing c with
  | zero => unfold reqChunkedDataEndLoop; exact w
  | succ k ih =>
    unfold reqChunkedDataEndLoop
    cases hn : c.inn.nextByteConsume with
    | none => exact w
    | some p =>
      obtain ⟨d, b⟩ := p
      have wd := nextByteConsume_some_wf _ d b w hn
      simp only
      have w1 : WFCur ({ c with inn := d }.modIn (fun t => { t with reqMessageLen := t.reqMessageLen + 1 })).inn :=
        wf_keepIn (c := { c with inn := d }) (keepIn_modIn _ _) wd
      split
      · exact w1
      · exact ih _ w1

theorem wfIn_reqBodyChunkedData (cfg : Cfg) (c : Conn) (w : WFCur c.inn) (ho : 0 ≤ c.inn.chunkedLength) :
    WFCur (reqBodyChunkedData cfg c).1.inn := by
  unfold reqBodyChunkedData
  extract_lets avail n data
  have hn0 : 0 ≤ n := by
    simp only [n, avail]
    have := w.rl
    split <;> omega
  have hn1 : n ≤ c.inn.len - c.inn.read := by
    simp only [n, avail]
    split <;> omega
  clear_value n
  split
  · exact w
  · have k := keepIn_reqProcessBodyData cfg (some data) 0 c
    rcases hx : reqProcessBodyData cfg (some data) 0 c with ⟨c1, rc1⟩
    rw [hx] at k
    simp only at k ⊢
    have w1 := wf_keepIn k w
    split
    · exact w1
    · obtain ⟨kr, kl, _, _, _⟩ := k
      have wa : WFCur (c1.inn.advance n) := wf_advance _ _ w1 hn0 (by rw [kr, kl]; exact hn1)
      have wb : WFCur { c1.inn.advance n with chunkedLength := c1.inn.chunkedLength - n } :=
        ⟨wa.notNull, wa.c0, wa.cr, wa.rl, wa.lc, wa.small⟩
      split
      · exact wf_keepIn (c := { c1 with inn := { c1.inn.advance n with chunkedLength := c1.inn.chunkedLength - n } }) (keepIn_modIn _ _) wb
      · exact wf_keepIn (c := { c1 with inn := { c1.inn.advance n with chunkedLength := c1.inn.chunkedLength - n } }) (keepIn_modIn _ _) wb

theorem wfIn_reqChunkedLengthLoop (cfg : Cfg) (fuel : Nat) (c : Conn) (w : WFCur c.inn) :
    WFCur (reqChunkedLengthLoop cfg fuel c).1.inn := by
  induction fuel generalizing c with
  | zero => unfold reqChunkedLengthLoop; exact w
  | succ k ih =>
    unfold reqChunkedLengthLoop
    cases hn : c.inn.copyByte with
    | none => exact w
    | some p =>
      obtain ⟨d, b⟩ := p
      obtain ⟨wd, _, _⟩ := copyByte_some_wf _ d b w hn
      simp -zeta only
      extract_lets c0
      have w0 : WFCur c0.inn := wd
      split
      · exact ih _ w0
      · cases hc : c0.inn.consolidate cfg.fieldLimitHard true with
        | none => exact w0
        | some q =>
          obtain ⟨d2, data⟩ := q
          have w2 := consolidate_wf _ _ _ _ _ w0 hc
          simp -zeta only
          extract_lets c1 line n c2
          have w1 : WFCur c1.inn := wf_keepIn (c := { c0 with inn := d2 }) (keepIn_modIn _ _) w2
          have wc := wf_clearBuffer _ w1
          have w2' : WFCur c2.inn := ⟨wc.notNull, wc.c0, wc.cr, wc.rl, wc.lc, wc.small⟩
          clear_value c2
          repeat' split
          all_goals first
            | exact w2'
            | exact wf_keepIn (c := { c2 with inState := .headers }) (keepIn_modIn _ _) w2'

theorem wfIn_reqIgnore (c : Conn) (w : WFCur c.inn) : WFCur (reqIgnoreDataAfter09 c).1.inn := by
  unfold reqIgnoreDataAfter09
  simp only []
  have h := wf_advance c.inn (c.inn.len - c.inn.read) w (by have := w.rl; omega) (by omega)
  split <;> exact h

theorem reqFinalizeScan_wf (fuel : Nat) (d d' : Dir) (w : WFCur d) (h : reqFinalizeScan fuel d = some d') : WFCur d' := by
  induction fuel generalizing d with
  | zero => unfold reqFinalizeScan at h; simp only [Option.some.injEq] at h; rw [← h]; exact w
  | succ k ih =>
    unfold reqFinalizeScan at h
    simp only at h
    have w0 := wf_peekSet _ w
    split at h
    · simp only [Option.some.injEq] at h; rw [← h]; exact w0
    · cases hn : (d.peekSet).1.copyByte with
      | none => rw [hn] at h; simp at h
      | some p =>
        obtain ⟨d1, b1⟩ := p
        rw [hn] at h
        simp only at h
        obtain ⟨w1, _, _⟩ := copyByte_some_wf _ d1 b1 w0 hn
        exact ih _ w1 h

theorem wfIn_reqFinalize (cfg : Cfg) (c : Conn) (w : WFCur c.inn) : WFCur (reqFinalize cfg c).1.inn := by
  unfold reqFinalize
  cases c.inn.tx with
  | none => exact w
  | some uid =>
    simp -zeta only
    extract_lets cp pre
    have w0 : WFCur cp.inn := wf_peekSet _ w
    have hp : ∀ c' b, pre = some (c', b) → WFCur c'.inn := by
      intro c' b hpre
      simp only [pre] at hpre
      split at hpre
      · split at hpre
        · simp only [Option.some.injEq, Prod.mk.injEq] at hpre; rw [← hpre.1]; exact w0
        · split at hpre
          · split at hpre
            · simp at hpre
            · rename_i d hs
              simp only [Option.some.injEq, Prod.mk.injEq] at hpre
              rw [← hpre.1]
              exact reqFinalizeScan_wf _ _ _ w0 hs
          · simp only [Option.some.injEq, Prod.mk.injEq] at hpre; rw [← hpre.1]; exact w0
      · simp only [Option.some.injEq, Prod.mk.injEq] at hpre; rw [← hpre.1]; exact w
    clear_value pre
    split
    · exact ⟨w.notNull, w.c0, Int.le_trans w.cr w.rl, Int.le_refl _, w.lc, w.small⟩
    · rename_i _ c1
      exact wf_keepIn (keepIn_txStateRequestComplete cfg uid c1) (hp _ _ rfl)
    · rename_i _ c1
      have w1 := hp _ _ rfl
      clear hp
      cases hc : c1.inn.consolidate cfg.fieldLimitHard true with
      | none => exact w1
      | some q =>
        obtain ⟨d2, data⟩ := q
        have w2 := consolidate_wf _ _ _ _ _ w1 hc
        simp -zeta only
        extract_lets c2
        have wc2 : WFCur c2.inn := w2
        clear_value c2
        split
        · exact wf_keepIn (keepIn_txStateRequestComplete cfg uid c2) wc2
        · rename_i src go _
          have hgo : ∀ c', go = some c' → WFCur c'.inn := by
            intro c' hg
            simp only [go] at hg
            split at hg
            · split at hg
              · simp at hg
              · simp only [Option.some.injEq] at hg
                rw [← hg]
                split
                · exact wc2
                · exact ⟨wc2.notNull, wc2.c0, wc2.cr, wc2.rl, wc2.lc, wc2.small⟩
            · simp only [Option.some.injEq] at hg; rw [← hg]; exact wc2
          clear_value go
          split
          · exact wf_keepIn (keepIn_txStateRequestComplete cfg uid _) ⟨wc2.notNull, wc2.c0, wc2.cr, wc2.rl, wc2.lc, wc2.small⟩
          · rename_i c3
            have w3 := hgo _ rfl
            clear hgo
            extract_lets r
            have hr : ∀ c' dd, r = some (c', dd) → WFCur c'.inn := by
              intro c' dd hh
              simp only [r] at hh
              split at hh
              · cases hcb : c3.inn.copyByte with
                | none => rw [hcb] at hh; simp at hh
                | some p =>
                  obtain ⟨d4, b4⟩ := p
                  obtain ⟨w4, _, _⟩ := copyByte_some_wf _ d4 b4 w3 hcb
                  rw [hcb] at hh
                  simp only at hh
                  cases hc4 : d4.consolidate cfg.fieldLimitHard true with
                  | none =>
                    rw [hc4] at hh
                    simp only [Option.some.injEq, Prod.mk.injEq] at hh
                    rw [← hh.1]; exact w4
                  | some q4 =>
                    obtain ⟨d5, data5⟩ := q4
                    rw [hc4] at hh
                    simp only [Option.some.injEq, Prod.mk.injEq] at hh
                    rw [← hh.1]
                    exact consolidate_wf _ _ _ _ _ w4 hc4
              · simp only [Option.some.injEq, Prod.mk.injEq] at hh; rw [← hh.1]; exact w3
            clear_value r
            split
            · exact w3
            · rename_i c6 data6
              have w6 := hr _ _ rfl
              have k := keepIn_reqProcessBodyData cfg (some data6) 0 c6
              rcases hx : reqProcessBodyData cfg (some data6) 0 c6 with ⟨c7, rc7⟩
              rw [hx] at k
              simp only at k ⊢
              exact wf_clearBuffer _ (wf_keepIn k w6)

/-- **every request state function keeps the cursors inside the chunk**: 0 <= consume <= read <= len <= |chunk| is preserved by each of the
    fourteen state functions, whatever they answer, provided the two counted body states do not owe a negative amount -/
theorem wfIn_reqStateFn (cfg : Cfg) (c : Conn) (w : WFCur c.inn)
    (ho1 : c.inState = ReqState.bodyIdentity → 0 ≤ c.inn.bodyDataLeft)
    (ho2 : c.inState = ReqState.bodyChunkedData → 0 ≤ c.inn.chunkedLength) : WFCur (reqStateFn cfg c).1.inn := by
  unfold reqStateFn
  cases hs : c.inState with
  | idle => exact wfIn_reqIdle cfg c w
  | line => exact wfIn_reqLineLoop cfg _ c w
  | protocol => exact wfIn_reqProtocol c w
  | headers => exact wfIn_reqHeadersLoop cfg _ c w
  | connectCheck => exact (wfIn_connect_states c w).1
  | connectWaitResponse => exact (wfIn_connect_states c w).2.1
  | connectProbeData => exact wfIn_reqConnectProbeLoop cfg _ c w
  | bodyDetermine => exact (wfIn_connect_states c w).2.2
  | bodyIdentity => exact wfIn_reqBodyIdentity cfg c w (ho1 hs)
  | bodyChunkedLength => exact wfIn_reqChunkedLengthLoop cfg _ c w
  | bodyChunkedData => exact wfIn_reqBodyChunkedData cfg c w (ho2 hs)
  | bodyChunkedDataEnd => exact wfIn_reqChunkedDataEndLoop _ c w
  | finalize => exact wfIn_reqFinalize cfg c w
  | ignoreDataAfter09 => exact wfIn_reqIgnore c w

theorem wfIn_reqHandleStateChange (c : Conn) (w : WFCur c.inn) : WFCur (reqHandleStateChange c).1.inn := by
  unfold reqHandleStateChange
  split
  · exact w
  · simp only
    have key : ∀ (r : R), WFCur r.1.inn → WFCur (r >>? fun c => ({ c with inStatePrev := some c.inState }, Rc.ok)).1.inn := by
      intro r wr
      unfold R.andThen
      split
      · exact wr
      · exact wr
    apply key
    repeat' split
    all_goals first | exact w | exact wf_keepIn (keepIn_reqReceiverSet _ c) w

/-- the chunk a data call stores is well-formed: cursors at 0, length = |chunk| -/
theorem wf_reqStoreChunk (d : Bytes) (c : Conn) (h : (d.length : Int) < 18446744073709551616) :
    WFCur (reqStoreChunk (some d) d.length c).inn := by
  unfold reqStoreChunk
  exact ⟨rfl, Int.le_refl _, Int.le_refl _, by simp only []; omega, by simp [Option.getD], h⟩

end Htp.Conn
