/- Length lemmas for the in-place decoders and the dot-segment remover: at every point the write position is at or behind the
   read position, so no stage produces more bytes than it was given. Used by C12 (never longer than the raw path) and C01
   (the in-place rewriting stays inside its buffer). -/
import HtpModel.Util.Decode
namespace Htp.Decode
open Htp Htp.Gen

theorem emitPath_len (cfg : DecoderCfg) (c : UInt8) (s : St) : (emitPath cfg c s).out.length ≤ s.out.length + 1 := by
  unfold emitPath
  simp only
  repeat' split
  all_goals simp

theorem applyPath_len (cfg : DecoderCfg) (s : St) (d : FS × Act) : (applyPath cfg s d).1.out.length ≤ s.out.length + 1 := by
  unfold applyPath
  cases d.2 with
  | emit c k => simpa using emitPath_len cfg c _
  | drop => simp
  | stop => simp

theorem pathLoop_len (cfg : DecoderCfg) (input : Bytes) (skip : Nat) (s : St) :
    (pathLoop cfg input skip s).out.length ≤ s.out.length + input.length := by
  induction input generalizing skip s with
  | nil => simp [pathLoop]
  | cons c tl ih =>
    unfold pathLoop
    split
    · simp
    · cases skip with
      | succ k => simp only; have := ih k s; simp; omega
      | zero =>
        simp only
        have h1 := applyPath_len cfg s (pathDecide cfg c tl { flags := s.flags, status := s.status })
        have h2 := ih (pathStep cfg c tl s).2 (pathStep cfg c tl s).1
        unfold pathStep at h2 ⊢
        simp only [List.length_cons]
        omega

/-- the in-place path decoder never produces more bytes than it has read: at every point of the loop the write position is at
    or behind the read position -/
theorem decodePath_len (cfg : DecoderCfg) (input : Bytes) (flags : Nat) (status : Int) :
    (decodePath cfg input flags status).1.length ≤ input.length := by
  unfold decodePath
  have := pathLoop_len cfg input 0 { flags := flags, status := status }
  simpa using this


theorem applyUrl_len (s : St) (d : FS × Act) : (applyUrl s d).1.out.length ≤ s.out.length + 1 := by
  unfold applyUrl
  cases d.2 with
  | emit c k => simp
  | drop => simp
  | stop => simp

theorem urlLoop_len (cfg : DecoderCfg) (input : Bytes) (skip : Nat) (s : St) :
    (urlLoop cfg input skip s).out.length ≤ s.out.length + input.length := by
  induction input generalizing skip s with
  | nil => simp [urlLoop]
  | cons c tl ih =>
    unfold urlLoop
    split
    · simp
    · cases skip with
      | succ k => simp only; have := ih k s; simp; omega
      | zero =>
        simp only
        have h1 := applyUrl_len s (urlDecide cfg c tl { flags := s.flags, status := s.status })
        have h2 := ih (urlStep cfg c tl s).2 (urlStep cfg c tl s).1
        unfold urlStep at h2 ⊢
        simp only [List.length_cons]
        omega

theorem urldecodeEx_len (cfg : DecoderCfg) (input : Bytes) (flags : Nat) (status : Int) :
    (urldecodeEx cfg input flags status).1.length ≤ input.length := by
  unfold urldecodeEx
  have := urlLoop_len cfg input 0 { flags := flags, status := status }
  simpa using this

/-- every switch of the UTF-8 converter: output plus pending sequence bytes grow by at most one -/
theorem utf8DecStep_le (cfg : DecoderCfg) (u : U8) (b : UInt8) :
    (utf8DecStep cfg u b).1.out.length + (utf8DecStep cfg u b).1.counter ≤ u.out.length + u.counter + 1 := by
  unfold utf8DecStep
  simp only
  split
  · split <;> simp <;> omega
  · split <;> simp <;> omega

/-- a switch that does not consume its byte (a sequence broken off by this byte) does not grow them at all -/
theorem utf8DecStep_unconsumed (cfg : DecoderCfg) (u : U8) (b : UInt8) (h : (utf8DecStep cfg u b).2 = false) :
    (utf8DecStep cfg u b).1.out.length + (utf8DecStep cfg u b).1.counter ≤ u.out.length + u.counter := by
  unfold utf8DecStep at h ⊢
  simp only at h ⊢
  generalize utf8Dfa u.state u.codep b = r at h ⊢
  obtain ⟨st, cp⟩ := r
  simp only at h ⊢
  by_cases h1 : st = UTF8_ACCEPT
  · simp only [h1, if_true] at h
    split at h <;> simp at h
  · simp only [h1, if_false] at h ⊢
    by_cases h2 : st = UTF8_REJECT
    · simp only [h2, if_true] at h ⊢
      simp only [decide_eq_false_iff_not] at h
      simp
      omega
    · simp only [h2, if_false] at h
      simp at h

theorem utf8DecLoop_len (cfg : DecoderCfg) (l : Bytes) (u : U8) :
    (utf8DecLoop cfg l u).out.length + (utf8DecLoop cfg l u).counter ≤ u.out.length + u.counter + l.length := by
  induction l generalizing u with
  | nil => simp [utf8DecLoop]
  | cons b tl ih =>
    unfold utf8DecLoop
    simp only
    cases hc : (utf8DecStep cfg u b).2 with
    | true =>
      simp only [if_true]
      have h1 := utf8DecStep_le cfg u b
      have h2 := ih (utf8DecStep cfg u b).1
      simp only [List.length_cons]; omega
    | false =>
      simp only [Bool.false_eq_true, if_false]
      have h1 := utf8DecStep_unconsumed cfg u b hc
      have h2 := utf8DecStep_le cfg (utf8DecStep cfg u b).1 b
      have h3 := ih (utf8DecStep cfg (utf8DecStep cfg u b).1 b).1
      simp only [List.length_cons]; omega

theorem utf8DecodePath_len (cfg : DecoderCfg) (input : Bytes) (flags : Nat) (status : Int) :
    (utf8DecodePath cfg input flags status).1.length ≤ input.length := by
  unfold utf8DecodePath
  have := utf8DecLoop_len cfg input { flags := flags, status := status }
  simp at this ⊢
  omega


theorem length_dropWhile_le' {α} (p : α → Bool) (l : List α) : (l.dropWhile p).length ≤ l.length := by
  induction l with
  | nil => simp
  | cons a t ih =>
    simp only [List.dropWhile]
    split
    · simp; omega
    · simp

theorem dropLastSegment_len (out : Bytes) : (dropLastSegment out).length ≤ out.length := by
  unfold dropLastSegment
  have h := length_dropWhile_le' (fun c : UInt8 => c != 0x2f) out
  cases hd : List.dropWhile (fun c : UInt8 => c != 0x2f) out with
  | nil => simp
  | cons x rest =>
    rw [hd] at h
    simp at h ⊢; omega

theorem copySegment_len (rest out : Bytes) :
    (copySegment rest out).1.length + (copySegment rest out).2.length = rest.length + out.length := by
  induction rest generalizing out with
  | nil => simp [copySegment]
  | cons c t ih =>
    unfold copySegment
    split
    · simp
    · rw [ih]; simp; omega

/-- what one application of the rules leaves: output, unread input and a pending character never add up to more than before -/
def normMeasure (r : Bytes × Option (Bytes × Option UInt8)) : Nat :=
  r.1.length + (match r.2 with | none => 0 | some (rest, c) => rest.length + (if c.isSome then 1 else 0))

theorem normRules_measure (c : UInt8) (rest out : Bytes) : normMeasure (normRules c rest out) ≤ out.length + rest.length + 1 := by
  have hE : normMeasure (let (rest', out') := copySegment rest (c :: out); (out', some (rest', none))) ≤ out.length + rest.length + 1 := by
    have := copySegment_len rest (c :: out)
    simp only [normMeasure]
    simp at this ⊢
    omega
  have hD := dropLastSegment_len out
  unfold normRules
  simp only
  split
  · split <;> first | exact hE | (simp [normMeasure]; try omega)
  · split
    · split <;> first | exact hE | (simp [normMeasure]; try omega)
    · exact hE

theorem normLoop_len (fuel : Nat) (rest out : Bytes) (c : Option UInt8) :
    (normLoop fuel rest out c).length ≤ out.length + rest.length + (if c.isSome then 1 else 0) := by
  induction fuel generalizing rest out c with
  | zero => simp [normLoop]; omega
  | succ k ih =>
    unfold normLoop
    cases rest with
    | nil => simp
    | cons r rest' =>
      simp only
      cases c with
      | none =>
        simp only
        have hm := normRules_measure r rest' out
        cases hr : normRules r rest' out with
        | mk out' nxt =>
          rw [hr] at hm
          cases nxt with
          | none => simp [normMeasure] at hm ⊢; omega
          | some p =>
            obtain ⟨rest'', c'⟩ := p
            simp only
            have := ih rest'' out' c'
            simp [normMeasure] at hm ⊢
            omega
      | some c0 =>
        simp only
        have hm := normRules_measure c0 (r :: rest') out
        cases hr : normRules c0 (r :: rest') out with
        | mk out' nxt =>
          rw [hr] at hm
          cases nxt with
          | none => simp [normMeasure] at hm ⊢; omega
          | some p =>
            obtain ⟨rest'', c'⟩ := p
            simp only
            have := ih rest'' out' c'
            simp [normMeasure] at hm ⊢
            omega

theorem normalizePath_len (input : Bytes) : (normalizePath input).length ≤ input.length := by
  unfold normalizePath
  have := normLoop_len (2 * input.length + 2) input [] none
  simpa using this

/-- the whole path pipeline (decode, UTF-8 stage, dot-segment removal) never makes a path longer -/
theorem pipeline_len (cfg : DecoderCfg) (path : Bytes) (flags : Nat) (status : Int) :
    (pipeline cfg path flags status).1.length ≤ path.length := by
  unfold pipeline
  have h1 := decodePath_len cfg path flags status
  generalize decodePath cfg path flags status = d at h1
  obtain ⟨p1, f1, s1⟩ := d
  simp only at h1 ⊢
  split
  · have h2 := utf8DecodePath_len cfg p1 f1 s1
    generalize utf8DecodePath cfg p1 f1 s1 = e at h2
    obtain ⟨p2, f2, s2⟩ := e
    simp only at h2 ⊢
    have := normalizePath_len p2
    omega
  · simp only
    have := normalizePath_len p1
    omega

end Htp.Decode
