/- Post-conditions of the two driver loops (htp_connp_req_data / htp_connp_res_data): helper lemmas for Props/C09. -/
import HtpModel.Conn.Res
namespace Htp.C09
open Htp Htp.Conn Htp.Gen

def Documented (rc : Nat) : Prop :=
  rc = STREAM_CLOSED ∨ rc = STREAM_ERROR ∨ rc = STREAM_TUNNEL ∨ rc = STREAM_DATA_OTHER ∨ rc = STREAM_STOP ∨ rc = STREAM_DATA

/-- what the driver loop guarantees about the pair (state, code) it returns -/
def LoopPost (r : Conn × Nat) : Prop :=
  Documented r.2 ∧ (r.2 = STREAM_DATA_OTHER → r.1.inn.read < r.1.inn.len)

theorem post_const (c : Conn) (rc : Nat) (hd : Documented rc) (hn : rc ≠ STREAM_DATA_OTHER) : LoopPost (c, rc) :=
  ⟨hd, fun h => absurd h hn⟩

theorem reqDriverLoop_post (cfg : Cfg) (g : Bool) (fuel : Nat) (c : Conn) : LoopPost (reqDriverLoop cfg g fuel c) := by
  induction fuel generalizing c with
  | zero =>
    unfold reqDriverLoop
    exact post_const _ _ (Or.inr (Or.inl rfl)) (by decide)
  | succ k ih =>
    unfold reqDriverLoop
    simp only
    repeat' split
    all_goals first
      | exact ih _
      | exact post_const _ _ (Or.inl rfl) (by decide)
      | exact post_const _ _ (Or.inr (Or.inl rfl)) (by decide)
      | exact post_const _ _ (Or.inr (Or.inr (Or.inl rfl))) (by decide)
      | exact post_const _ _ (Or.inr (Or.inr (Or.inr (Or.inr (Or.inl rfl))))) (by decide)
      | exact post_const _ _ (Or.inr (Or.inr (Or.inr (Or.inr (Or.inr rfl))))) (by decide)
      | (refine ⟨Or.inr (Or.inr (Or.inr (Or.inl rfl))), ?_⟩; intro _; simp only [] at *; omega)

def LoopPostOut (r : Conn × Nat) : Prop :=
  Documented r.2 ∧ (r.2 = STREAM_DATA_OTHER → r.1.out.read < r.1.out.len)

theorem post_const_out (c : Conn) (rc : Nat) (hd : Documented rc) (hn : rc ≠ STREAM_DATA_OTHER) : LoopPostOut (c, rc) :=
  ⟨hd, fun h => absurd h hn⟩

theorem resDriverLoop_post (cfg : Cfg) (g : Bool) (fuel : Nat) (c : Conn) : LoopPostOut (resDriverLoop cfg g fuel c) := by
  induction fuel generalizing c with
  | zero =>
    unfold resDriverLoop
    exact post_const_out _ _ (Or.inr (Or.inl rfl)) (by decide)
  | succ k ih =>
    unfold resDriverLoop
    simp only
    repeat' split
    all_goals first
      | exact ih _
      | exact post_const_out _ _ (Or.inl rfl) (by decide)
      | exact post_const_out _ _ (Or.inr (Or.inl rfl)) (by decide)
      | exact post_const_out _ _ (Or.inr (Or.inr (Or.inl rfl))) (by decide)
      | exact post_const_out _ _ (Or.inr (Or.inr (Or.inr (Or.inr (Or.inl rfl))))) (by decide)
      | exact post_const_out _ _ (Or.inr (Or.inr (Or.inr (Or.inr (Or.inr rfl))))) (by decide)
      | (refine ⟨Or.inr (Or.inr (Or.inr (Or.inl rfl))), ?_⟩; intro _; simp only [] at *; omega)

end Htp.C09
