/- C08 "work is linear", the request driver: how many passes the `for (;;)` of htp_connp_req_data makes in one call.

   A potential `Phi c = 8 * (unread bytes) + rank(state, bytes available?, line pending?)` strictly decreases in every pass whose state
   function answers HTP_OK - the read cursor advanced, or the parser moved forward in a fixed order of the states
   (`reqStateFn_progress`). Hence the loop makes at most `Phi c` passes that go on (`reqDriverLoop_not_outOfFuel`,
   `reqDriverLoop_fuel_enough`), at most `8 * len + 8` for a whole call, and the fuel `8 * len + 64` of `reqDataCore` is never exhausted
   (`reqData_not_outOfFuel`, `reqData_fuel_enough`, `reqData_fuel_enough_hist`), for every callback policy.
   This holds for the REPAIRED REQ_IDLE (S45): before the repair REQ_IDLE ignored the answer of htp_tx_state_request_start, so a
   REQUEST_START callback answering HTP_STOP / HTP_ERROR left the parser in REQ_IDLE with HTP_OK and the loop created one transaction
   after the other without reading a byte (found by this proof; `idle_spin_witness` records what the same history does now). -/
import HtpModel.Lemmas.Owed
import HtpModel.Lemmas.EventsMono
import HtpModel.Lemmas.History
namespace Htp.Conn
open Htp Htp.Gen

/-! ### the potential -/

/-- a line is pending: bytes set aside by an earlier call, or bytes of this chunk read but not consumed -/
def pend (d : Dir) : Bool := d.buf.isSome || decide (d.consume < d.read)

/-- rank of a request state, given whether unread bytes are available (`a`) and whether a line is pending (`p`): every pass that answers
    HTP_OK without reading a byte moves to a state of smaller rank (the availability flag does not change then) -/
def rank (s : ReqState) (a p : Bool) : Nat :=
  match s with
  | .line => if a then 0 else 7 + p.toNat
  | .idle => a.toNat
  | .finalize => 1 + a.toNat + p.toNat
  | .connectProbeData => 1 + a.toNat
  | .connectWaitResponse => 3 + a.toNat
  | .bodyDetermine => 3 + a.toNat
  | .connectCheck => 4 + a.toNat
  | .headers => 5 + a.toNat
  | .protocol => 6 + a.toNat
  | _ => 0

/-- rank of a parser state -/
def rk (c : Conn) : Nat := rank c.inState (decide (c.inn.read < c.inn.len)) (pend c.inn)

/-- **the potential**: eight units per unread byte of the chunk, plus the rank of the state -/
def Phi (c : Conn) : Nat := 8 * (c.inn.len - c.inn.read).toNat + rk c

theorem rank_le8 (s : ReqState) (a p : Bool) : rank s a p ≤ 8 := by
  cases s <;> cases a <;> cases p <;> decide

theorem rank_le7 (s : ReqState) (a p : Bool) (h : s ≠ .line ∨ a = true ∨ p = false) : rank s a p ≤ 7 := by
  cases s <;> cases a <;> cases p <;> first | decide | (exfalso; rcases h with h | h | h <;> simp at h)

theorem rk_le8 (c : Conn) : rk c ≤ 8 := rank_le8 ..

theorem rk_le7 (c : Conn) (h : c.inState ≠ .line ∨ pend c.inn = false) : rk c ≤ 7 := by
  unfold rk
  apply rank_le7
  rcases h with h | h
  · exact Or.inl h
  · exact Or.inr (Or.inr h)

/-- the read cursor advanced (inside the chunk) and the new rank is at most 7: the potential went down -/
theorem phi_adv {c c' : Conn} (hl : c'.inn.len = c.inn.len) (hr : c.inn.read < c'.inn.read) (hrl : c'.inn.read ≤ c'.inn.len)
    (hk : rk c' ≤ 7) : Phi c' < Phi c := by
  unfold Phi
  rw [hl] at hrl ⊢
  omega

/-- the read cursor stayed and the rank went down -/
theorem phi_same {c c' : Conn} (hl : c'.inn.len = c.inn.len) (hr : c'.inn.read = c.inn.read) (hk : rk c' < rk c) : Phi c' < Phi c := by
  unfold Phi
  rw [hl, hr]
  omega

/-- at the start of a call the potential is at most 8 * len + 8 -/
theorem phi_le (c : Conn) (h0 : 0 ≤ c.inn.read) : Phi c ≤ 8 * c.inn.len.toNat + 8 := by
  unfold Phi
  have := rk_le8 c
  omega

/-! ### small facts about the direction record -/

theorem pend_clearBuffer (d : Dir) : pend d.clearBuffer = false := by
  unfold pend Dir.clearBuffer
  simp

theorem pend_peekSet (d : Dir) : pend (d.peekSet).1 = pend d := rfl

/-- consolidating yields data only when a line is pending -/
theorem consolidate_data_pend (d d2 : Dir) (hard : Nat) (s : Bool) (data : Bytes) (h : d.consolidate hard s = some (d2, data))
    (hne : data.length ≠ 0) : pend d = true := by
  unfold Dir.consolidate at h
  cases hb : d.buf with
  | some bb => unfold pend; rw [hb]; rfl
  | none =>
    rw [hb] at h
    simp only [Option.some.injEq, Prod.mk.injEq] at h
    unfold pend
    rw [hb]
    simp only [Option.isSome_none, Bool.false_or, decide_eq_true_eq]
    false_or_by_contra
    rename_i hlt
    apply hne
    rw [← h.2]
    unfold sliceCur
    have : (d.read - d.consume).toNat = 0 := by omega
    rw [this]
    simp

/-- a step inside one chunk: the length stays, the read cursor does not go back -/
structure Mv (d d' : Dir) : Prop where
  len : d'.len = d.len
  read : d.read ≤ d'.read

theorem Mv.refl (d : Dir) : Mv d d := ⟨rfl, Int.le_refl _⟩
theorem Mv.trans {a b c : Dir} (h1 : Mv a b) (h2 : Mv b c) : Mv a c := ⟨h2.len.trans h1.len, Int.le_trans h1.read h2.read⟩

/-- length and read cursor stay -/
def RL (d d' : Dir) : Prop := d'.len = d.len ∧ d'.read = d.read

theorem RL.refl (d : Dir) : RL d d := ⟨rfl, rfl⟩
theorem RL.trans {a b c : Dir} (h1 : RL a b) (h2 : RL b c) : RL a c := ⟨h2.1.trans h1.1, h2.2.trans h1.2⟩
theorem RL.mv {d d' : Dir} (h : RL d d') : Mv d d' := ⟨h.1, by rw [h.2]; exact Int.le_refl _⟩
theorem rl_keepIn {c c' : Conn} (k : KeepIn c c') : RL c.inn c'.inn := ⟨k.2.1, k.1⟩
theorem rl_modIn (f : Tx → Tx) (c : Conn) : RL c.inn (c.modIn f).inn := by rw [modIn_inn]; exact RL.refl _
theorem rl_consolidate (d d2 : Dir) (hard : Nat) (data : Bytes) (h : d.consolidate hard true = some (d2, data)) : RL d d2 :=
  ⟨(consolidate_read_len _ _ _ _ h).2, (consolidate_read_len _ _ _ _ h).1⟩
theorem rl_clearBuffer (d : Dir) : RL d d.clearBuffer := ⟨rfl, rfl⟩
theorem rl_peekSet (d : Dir) : RL d (d.peekSet).1 := ⟨rfl, rfl⟩

theorem copyByte_mv (d d' : Dir) (b : UInt8) (h : d.copyByte = some (d', b)) : d'.len = d.len ∧ d'.read = d.read + 1 := by
  unfold Dir.copyByte at h
  split at h
  · split at h <;> (simp only [Option.some.injEq, Prod.mk.injEq] at h; obtain ⟨h1, _⟩ := h; subst h1; exact ⟨rfl, rfl⟩)
  · simp at h

theorem pend_eq_of_keep {c c' : Conn} (k : KeepIn c c') (kb : KeepBuf c c') : pend c'.inn = pend c.inn := by
  unfold pend
  rw [kb, k.1, k.2.2.1]

theorem rk_eq_of_keep {c c' : Conn} (ks : KeepS c c') (k : KeepIn c c') (kb : KeepBuf c c') : rk c' = rk c := by
  unfold rk
  rw [pend_eq_of_keep k kb, ks, k.1, k.2.1]

theorem phi_eq_of_keep {c c' : Conn} (ks : KeepS c c') (k : KeepIn c c') (kb : KeepBuf c c') : Phi c' = Phi c := by
  unfold Phi
  rw [rk_eq_of_keep ks k kb, k.1, k.2.1]

/-! ### answers HTP_OK -/

/-- `P` holds of the state a step leaves when it answers HTP_OK -/
def OkP (P : Conn → Prop) (r : R) : Prop := r.2 = Rc.ok → P r.1

theorem okP_mk {P : Conn → Prop} {c : Conn} {rc : Rc} (h : P c) : OkP P (c, rc) := fun _ => h
theorem okP_ne {P : Conn → Prop} {r : R} (h : r.2 ≠ Rc.ok) : OkP P r := fun e => absurd e h
theorem okP_rc {P : Conn → Prop} {c : Conn} {rc : Rc} (h : rc ≠ Rc.ok) : OkP P (c, rc) := fun e => absurd e h
theorem okP_mono {P Q : Conn → Prop} {r : R} (h : OkP P r) (hpq : ∀ c, P c → Q c) : OkP Q r := fun e => hpq _ (h e)

theorem okP_andThen {P : Conn → Prop} (r : R) (f : Conn → R) (h : r.2 = Rc.ok → OkP P (f r.1)) : OkP P (r >>? f) := by
  unfold R.andThen
  split
  · rename_i hk
    exact h (by simpa using hk)
  · rename_i hk
    intro e
    rw [e] at hk
    exact absurd rfl hk

/-- htp_tx_state_request_line answers HTP_OK only after moving the parser to REQ_PROTOCOL -/
theorem ok_txStateRequestLine (cfg : Cfg) (uid : Nat) (c : Conn) :
    OkP (fun c' => c'.inState = .protocol) (txStateRequestLine cfg uid c) := by
  unfold txStateRequestLine
  extract_lets t0 hp fl1 fl2 src t1 t2 t3 c1
  split
  · exact okP_rc (by decide)
  · apply okP_andThen
    intro _
    apply okP_andThen
    intro _
    exact okP_mk rfl

/-- htp_tx_state_request_headers answers HTP_OK only after moving the parser to REQ_FINALIZE (trailers) or REQ_CONNECT_CHECK -/
theorem ok_txStateRequestHeaders (cfg : Cfg) (uid : Nat) (c : Conn) :
    OkP (fun c' => c'.inState = .finalize ∨ c'.inState = .connectCheck) (txStateRequestHeaders cfg uid c) := by
  unfold txStateRequestHeaders
  simp only
  split
  · apply okP_andThen
    intro _
    apply okP_andThen
    intro _
    exact okP_mk (Or.inl rfl)
  · split
    · apply okP_andThen
      intro _
      exact okP_mk (Or.inr rfl)
    · exact okP_rc (by decide)

/-- htp_tx_state_request_complete answers HTP_OK only after moving the parser to REQ_IDLE or REQ_IGNORE_DATA_AFTER_HTTP_0_9 -/
theorem ok_txStateRequestComplete (cfg : Cfg) (uid : Nat) (c : Conn) :
    OkP (fun c' => c'.inState = .idle ∨ c'.inState = .ignoreDataAfter09) (txStateRequestComplete cfg uid c) := by
  unfold txStateRequestComplete
  simp only
  apply okP_andThen
  intro _
  generalize (if ((c.findTx uid).getD { uid := uid }).reqProgress != 5 then txStateRequestCompletePartial cfg uid c else (c, Rc.ok)) = r
  intro _
  have kf := keepS_txFinalize cfg uid { r.1 with inState := if ((r.1.findTx uid).map (·.is09)).getD ((c.findTx uid).getD { uid := uid }).is09 then .ignoreDataAfter09 else .idle }
  show (txFinalize cfg uid _).1.inState = .idle ∨ (txFinalize cfg uid _).1.inState = .ignoreDataAfter09
  rw [kf]
  show (if _ then ReqState.ignoreDataAfter09 else ReqState.idle) = .idle ∨ (if _ then ReqState.ignoreDataAfter09 else ReqState.idle) = .ignoreDataAfter09
  split
  · exact Or.inr rfl
  · exact Or.inl rfl

/-! ### REQ_IDLE -/

/-- what a pass of REQ_IDLE that answers HTP_OK did: nothing to the cursors and the line buffer, a byte is available, and the parser is
    in REQ_LINE now (the answer of htp_tx_state_request_start is REQ_IDLE's answer) -/
def IdleP (c c' : Conn) : Prop :=
  KeepIn c c' ∧ KeepBuf c c' ∧ c.inn.read < c.inn.len ∧ c'.inState = .line

theorem idleP_reqIdle (cfg : Cfg) (c : Conn) : OkP (IdleP c) (reqIdle cfg c) := by
  unfold reqIdle
  split
  · exact okP_rc (by decide)
  · rename_i hlt
    have k := keepIn_txCreate cfg c
    have kb := keepBuf_txCreate cfg c
    rcases hx : txCreate cfg c with ⟨c1, u⟩
    rw [hx] at k kb
    simp only at k kb ⊢
    cases u with
    | none => exact okP_rc (by decide)
    | some uid =>
      show OkP _ (txStateRequestStart uid c1)
      intro hok
      refine ⟨k.trans (keepIn_txStateRequestStart uid c1), kb.trans (keepBuf_txStateRequestStart uid c1), by omega, ?_⟩
      unfold txStateRequestStart at hok ⊢
      by_cases hcb : (runCallback .requestStart (some uid) none false c1 0 false).2 = Rc.ok
      · unfold R.andThen
        rw [if_pos (by rw [hcb]; rfl)]
        exact keepS_modIn _ _
      · exfalso
        unfold R.andThen at hok
        rw [if_neg (by intro h; exact hcb (by simpa using h))] at hok
        exact hcb hok

/-! ### REQ_LINE -/

/-- REQ_LINE_complete answering HTP_OK: an ignorable line was dropped (a line was pending, none is now; the state stays), or the request
    line was accepted (REQ_PROTOCOL); the cursors stay -/
def LineC (c c' : Conn) : Prop :=
  RL c.inn c'.inn ∧ ((c'.inState = c.inState ∧ pend c'.inn = false ∧ pend c.inn = true) ∨ c'.inState = .protocol)

theorem lineC_reqLineComplete (cfg : Cfg) (c : Conn) : OkP (LineC c) (reqLineComplete cfg c) := by
  unfold reqLineComplete
  cases hc : c.inn.consolidate cfg.fieldLimitHard true with
  | none => exact okP_rc (by decide)
  | some p =>
    obtain ⟨d, data⟩ := p
    have r0 := rl_consolidate _ _ _ _ hc
    simp -zeta only
    extract_lets c0 ci line rl c1
    have ri : RL c.inn ci.inn := r0.trans (rl_modIn _ c0)
    have r1 : RL c.inn c1.inn := r0.trans (rl_modIn _ c0)
    have ki : KeepS c ci := keepS_modIn _ c0
    clear_value ci c1
    split
    · exact okP_rc (by decide)
    · rename_i hne
      have hp : pend c.inn = true := consolidate_data_pend _ _ _ _ _ hc (by simpa using hne)
      split
      · exact okP_mk ⟨ri.trans (rl_clearBuffer _), Or.inl ⟨ki, pend_clearBuffer _, hp⟩⟩
      · cases c1.inn.tx with
        | none => exact okP_rc (by decide)
        | some uid =>
          simp only
          have k2 := keepIn_txStateRequestLine cfg uid c1
          have o2 := ok_txStateRequestLine cfg uid c1
          rcases hx : txStateRequestLine cfg uid c1 with ⟨c2, rc2⟩
          rw [hx] at k2 o2
          simp only at k2 o2 ⊢
          split
          · exact okP_rc (by decide)
          · rename_i hrc
            have hrc' : rc2 = Rc.ok := by simpa using hrc
            exact okP_mk ⟨(r1.trans (rl_keepIn k2)).trans (rl_clearBuffer _), Or.inr (o2 hrc')⟩

/-- REQ_LINE answering HTP_OK: as `LineC`, the read cursor may have advanced; when it did not, the chunk had no unread byte -/
def LineL (c c' : Conn) : Prop :=
  Mv c.inn c'.inn ∧
  ((c'.inState = c.inState ∧ pend c'.inn = false ∧ (c'.inn.read = c.inn.read → pend c.inn = true ∧ c.inn.len ≤ c.inn.read)) ∨
   (c'.inState = .protocol ∧ (c'.inn.read = c.inn.read → c.inn.len ≤ c.inn.read)))

theorem lineL_reqLineLoop (cfg : Cfg) (fuel : Nat) (c : Conn) (w : WFCur c.inn) : OkP (LineL c) (reqLineLoop cfg fuel c) := by
  induction fuel generalizing c with
  | zero => unfold reqLineLoop; exact okP_rc (by decide)
  | succ k ih =>
    unfold reqLineLoop
    simp only
    have w0 := wf_peekSet _ w
    split
    · -- closed and nothing left
      rename_i hcl
      have hn : c.inn.peek = none := by
        simp only [Bool.and_eq_true] at hcl
        have := hcl.2
        rw [peekSet_snd] at this
        cases hp : c.inn.peek with
        | none => rfl
        | some b => rw [hp] at this; simp at this
      have hle := peek_none_wf c.inn w hn
      refine okP_mono (lineC_reqLineComplete cfg { c with inn := (c.inn.peekSet).1 }) ?_
      intro c' h
      obtain ⟨hrl, hs⟩ := h
      have hrl' : RL (c.inn.peekSet).1 c'.inn := hrl
      refine ⟨((rl_peekSet _).trans hrl').mv, ?_⟩
      rcases hs with ⟨h1, h2, h3⟩ | h1
      · exact Or.inl ⟨h1, h2, fun _ => ⟨h3, hle⟩⟩
      · exact Or.inr ⟨h1, fun _ => hle⟩
    · cases hcb : (c.inn.peekSet).1.copyByte with
      | none => exact okP_rc (by decide)
      | some p =>
        obtain ⟨d, b⟩ := p
        obtain ⟨wd, _, _⟩ := copyByte_some_wf _ d b w0 hcb
        obtain ⟨hl, hr⟩ := copyByte_mv _ _ _ hcb
        have hl' : d.len = c.inn.len := hl
        have hr' : d.read = c.inn.read + 1 := hr
        simp only
        split
        · refine okP_mono (lineC_reqLineComplete cfg { c with inn := d }) ?_
          intro c' h
          obtain ⟨hrl, hs⟩ := h
          have e1 : c'.inn.len = d.len := hrl.1
          have e2 : c'.inn.read = d.read := hrl.2
          refine ⟨⟨by rw [e1, hl'], by rw [e2, hr']; omega⟩, ?_⟩
          rcases hs with ⟨h1, h2, _⟩ | h1
          · exact Or.inl ⟨h1, h2, fun e => by rw [e2, hr'] at e; omega⟩
          · exact Or.inr ⟨h1, fun e => by rw [e2, hr'] at e; omega⟩
        · refine okP_mono (ih { c with inn := d } wd) ?_
          intro c' h
          obtain ⟨hm, hs⟩ := h
          have e1 : c'.inn.len = d.len := hm.len
          have e2 : d.read ≤ c'.inn.read := hm.read
          refine ⟨⟨by rw [e1, hl'], by omega⟩, ?_⟩
          rcases hs with ⟨h1, h2, _⟩ | ⟨h1, _⟩
          · exact Or.inl ⟨h1, h2, fun e => by omega⟩
          · exact Or.inr ⟨h1, fun e => by omega⟩

/-! ### the states that only decide -/

theorem reqProtocol_inn (c : Conn) : (reqProtocol c).1.inn = c.inn := by
  unfold reqProtocol
  simp only []
  repeat' split
  all_goals simp only [modIn_inn]

/-- REQ_PROTOCOL (always HTP_OK): to REQ_HEADERS or REQ_FINALIZE, cursors untouched -/
theorem fwd_reqProtocol (c : Conn) :
    (reqProtocol c).1.inn = c.inn ∧ ((reqProtocol c).1.inState = .headers ∨ (reqProtocol c).1.inState = .finalize) :=
  ⟨reqProtocol_inn c, st_reqProtocol c⟩

/-- REQ_CONNECT_CHECK answering HTP_OK: to REQ_BODY_DETERMINE, cursors untouched -/
theorem fwd_reqConnectCheck (c : Conn) : OkP (fun c' => c'.inn = c.inn ∧ c'.inState = .bodyDetermine) (reqConnectCheck c) := by
  unfold reqConnectCheck
  split
  · exact okP_rc (by decide)
  · exact okP_mk ⟨rfl, rfl⟩

/-- REQ_CONNECT_WAIT_RESPONSE answering HTP_OK: to REQ_CONNECT_PROBE_DATA or REQ_FINALIZE, cursors untouched -/
theorem fwd_reqConnectWaitResponse (c : Conn) :
    OkP (fun c' => c'.inn = c.inn ∧ (c'.inState = .connectProbeData ∨ c'.inState = .finalize)) (reqConnectWaitResponse c) := by
  unfold reqConnectWaitResponse
  simp only []
  split
  · exact okP_rc (by decide)
  · split
    · exact okP_mk ⟨rfl, Or.inl rfl⟩
    · exact okP_mk ⟨rfl, Or.inr rfl⟩

/-- REQ_BODY_DETERMINE answering HTP_OK: to a body state or REQ_FINALIZE, cursors untouched -/
theorem fwd_reqBodyDetermine (c : Conn) :
    OkP (fun c' => RL c.inn c'.inn ∧ (c'.inState = .bodyChunkedLength ∨ c'.inState = .bodyIdentity ∨ c'.inState = .finalize))
      (reqBodyDetermine c) := by
  unfold reqBodyDetermine
  simp only []
  split
  · refine okP_mk ⟨?_, Or.inl (keepS_modIn _ { c with inState := .bodyChunkedLength })⟩
    rw [modIn_inn]; exact RL.refl _
  · split
    · split
      · refine okP_mk ⟨?_, Or.inr (Or.inl (keepS_modIn _ _))⟩
        rw [modIn_inn]; exact ⟨rfl, rfl⟩
      · exact okP_mk ⟨⟨rfl, rfl⟩, Or.inr (Or.inr rfl)⟩
    · split
      · exact okP_mk ⟨RL.refl _, Or.inr (Or.inr rfl)⟩
      · exact okP_rc (by decide)

/-! ### REQ_HEADERS -/

/-- REQ_HEADERS answering HTP_OK: to REQ_CONNECT_CHECK, or (trailers) to REQ_FINALIZE; the read cursor did not go back -/
def HdrP (c c' : Conn) : Prop := Mv c.inn c'.inn ∧ (c'.inState = .finalize ∨ c'.inState = .connectCheck)

theorem rl_header (d : Dir) (h : Option Bytes) : RL d { d with header := h } := ⟨rfl, rfl⟩

theorem hdrP_reqHeadersLoop (cfg : Cfg) (fuel : Nat) (c : Conn) : OkP (HdrP c) (reqHeadersLoop cfg fuel c) := by
  induction fuel generalizing c with
  | zero => unfold reqHeadersLoop; exact okP_rc (by decide)
  | succ k ih =>
    unfold reqHeadersLoop
    cases c.inn.tx with
    | none => exact okP_rc (by decide)
    | some uid =>
      simp only
      have fin : ∀ (c0 : Conn) (g : Conn → Conn), Mv c.inn c0.inn → (∀ x, RL x.inn (g x).inn) →
          OkP (HdrP c) (reqFlushHeader c0 >>? fun c => txStateRequestHeaders cfg uid (g c)) := by
        intro c0 g m hg
        apply okP_andThen
        intro _
        have k1 := keepIn_reqFlushHeader c0
        generalize reqFlushHeader c0 = r at k1 ⊢
        have k2 := keepIn_txStateRequestHeaders cfg uid (g r.1)
        intro hok
        exact ⟨m.trans ((rl_keepIn k1).trans ((hg r.1).trans (rl_keepIn k2))).mv, ok_txStateRequestHeaders cfg uid (g r.1) hok⟩
      split
      · exact fin c (fun c => ({ c with inn := c.inn.clearBuffer }.modIn (fun t => { t with reqProgress := 4 }))) (Mv.refl _)
          (fun x => by rw [modIn_inn]; exact rl_clearBuffer _)
      · cases hn : c.inn.copyByte with
        | none => exact okP_rc (by decide)
        | some p =>
          obtain ⟨d, b⟩ := p
          obtain ⟨hl, hr⟩ := copyByte_mv _ _ _ hn
          have m1 : Mv c.inn d := ⟨hl, by omega⟩
          simp only
          split
          · exact okP_mono (ih { c with inn := d }) (fun c' h => ⟨m1.trans h.1, h.2⟩)
          · cases hc : d.consolidate cfg.fieldLimitHard true with
            | none => exact okP_rc (by decide)
            | some q =>
              obtain ⟨d2, data⟩ := q
              have m2 : Mv c.inn d2 := m1.trans (rl_consolidate _ _ _ _ hc).mv
              simp only
              split
              · exact fin { c with inn := d2 } (fun c => { c with inn := c.inn.clearBuffer }) m2 (fun x => rl_clearBuffer _)
              · have hline : ∀ (r : R), Mv c.inn r.1.inn →
                    OkP (HdrP c) (r >>? fun c => reqHeadersLoop cfg k { c with inn := c.inn.clearBuffer }) := by
                  intro r mr
                  apply okP_andThen
                  intro _
                  exact okP_mono (ih { r.1 with inn := r.1.inn.clearBuffer })
                    (fun c' h => ⟨(mr.trans (rl_clearBuffer r.1.inn).mv).trans h.1, h.2⟩)
                apply hline
                refine m2.trans (RL.mv ?_)
                split
                · have k1 := keepIn_reqFlushHeader { c with inn := d2 }
                  generalize reqFlushHeader { c with inn := d2 } = r1 at k1 ⊢
                  have e1 : RL d2 r1.1.inn := rl_keepIn k1
                  unfold R.andThen
                  split
                  · simp only
                    split
                    · split
                      · have kk := keepIn_processRequestHeader (Parse.chomp data).1 { r1.1 with inn := (r1.1.inn.peekSet).1 }
                        have e2 : RL r1.1.inn (processRequestHeader (Parse.chomp data).1 { r1.1 with inn := (r1.1.inn.peekSet).1 }).1.inn :=
                          (rl_peekSet r1.1.inn).trans (rl_keepIn kk)
                        split
                        · exact e1.trans e2
                        · exact e1.trans e2
                      · exact e1.trans ((rl_peekSet r1.1.inn).trans (rl_header _ _))
                    · exact e1.trans ((rl_peekSet r1.1.inn).trans (rl_header _ _))
                  · exact e1
                · split
                  · have e3 : RL d2 ({ c with inn := d2 }.modIn (fun t => { t with flags := t.flags ||| INVALID_FOLDING })).inn :=
                      rl_modIn _ { c with inn := d2 }
                    exact e3.trans (rl_header _ _)
                  · split
                    · exact rl_header _ _
                    · exact RL.refl _

/-! ### REQ_CONNECT_PROBE_DATA -/

/-- REQ_CONNECT_PROBE_DATA answering HTP_OK: the stream is a tunnel now (the call returns), or the request was completed -/
def ProbeP (c c' : Conn) : Prop :=
  Mv c.inn c'.inn ∧ (c'.inn.status = STREAM_TUNNEL ∨ c'.inState = .idle ∨ c'.inState = .ignoreDataAfter09)

theorem probeP_reqConnectProbeLoop (cfg : Cfg) (fuel : Nat) (c : Conn) : OkP (ProbeP c) (reqConnectProbeLoop cfg fuel c) := by
  induction fuel generalizing c with
  | zero => unfold reqConnectProbeLoop; exact okP_rc (by decide)
  | succ k ih =>
    unfold reqConnectProbeLoop
    simp only
    split
    · cases hc : (c.inn.peekSet).1.consolidate cfg.fieldLimitHard true with
      | none => exact okP_rc (by decide)
      | some q =>
        obtain ⟨d2, data⟩ := q
        have m2 : RL c.inn d2 := (rl_peekSet c.inn).trans (rl_consolidate _ _ _ _ hc)
        simp only
        split
        · split
          · rename_i uid _
            have k := keepIn_txStateRequestComplete cfg uid { c with inn := d2 }
            intro hok
            exact ⟨(m2.trans (rl_keepIn k)).mv, Or.inr (ok_txStateRequestComplete cfg uid { c with inn := d2 } hok)⟩
          · exact okP_rc (by decide)
        · exact okP_mk ⟨⟨m2.1, by rw [show ({ d2 with status := STREAM_TUNNEL } : Dir).read = d2.read from rfl, m2.2]; exact Int.le_refl _⟩, Or.inl rfl⟩
    · cases hn : (c.inn.peekSet).1.copyByte with
      | none => exact okP_rc (by decide)
      | some p =>
        obtain ⟨d, b⟩ := p
        obtain ⟨hl, hr⟩ := copyByte_mv _ _ _ hn
        have hl' : d.len = c.inn.len := hl
        have hr' : d.read = c.inn.read + 1 := hr
        refine okP_mono (ih { c with inn := d }) ?_
        intro c' h
        have e1 : c'.inn.len = d.len := h.1.len
        have e2 : d.read ≤ c'.inn.read := h.1.read
        exact ⟨⟨by rw [e1, hl'], by omega⟩, h.2⟩

/-! ### the body states: an HTP_OK answer has consumed at least one byte -/

/-- the read cursor advanced -/
def Adv (d d' : Dir) : Prop := d'.len = d.len ∧ d.read < d'.read

/-- REQ_BODY_IDENTITY answering HTP_OK: the rest of the body was consumed (at least one byte), to REQ_FINALIZE -/
theorem adv_reqBodyIdentity (cfg : Cfg) (c : Conn) (w : WFCur c.inn) (ho : 0 < c.inn.bodyDataLeft) :
    OkP (fun c' => Adv c.inn c'.inn ∧ c'.inState = .finalize) (reqBodyIdentity cfg c) := by
  unfold reqBodyIdentity
  extract_lets avail n data
  have hn0 : 0 ≤ n := by
    simp only [n, avail]
    have := w.rl
    split <;> omega
  clear_value n data
  split
  · exact okP_rc (by decide)
  · rename_i hnz
    have hnz' : n ≠ 0 := by simpa using hnz
    have k := keepIn_reqProcessBodyData cfg data (if c.inn.curNull then n.toNat else 0) c
    rcases hx : reqProcessBodyData cfg data (if c.inn.curNull then n.toNat else 0) c with ⟨c1, rc1⟩
    rw [hx] at k
    simp only at k ⊢
    split
    · rename_i hne
      intro e
      simp only at e
      rw [e] at hne
      exact absurd hne (by decide)
    · obtain ⟨kr, kl, _, _, _⟩ := k
      split
      · apply okP_mk
        refine ⟨?_, rfl⟩
        simp only [modIn_inn]
        exact ⟨kl, by show c.inn.read < c1.inn.read + n; rw [kr]; omega⟩
      · exact okP_rc (by decide)

/-- REQ_BODY_CHUNKED_DATA answering HTP_OK: the rest of the chunk was consumed (at least one byte), to REQ_BODY_CHUNKED_DATA_END -/
theorem adv_reqBodyChunkedData (cfg : Cfg) (c : Conn) (w : WFCur c.inn) (ho : 0 < c.inn.chunkedLength) :
    OkP (fun c' => Adv c.inn c'.inn ∧ c'.inState = .bodyChunkedDataEnd) (reqBodyChunkedData cfg c) := by
  unfold reqBodyChunkedData
  extract_lets avail n data
  have hn0 : 0 ≤ n := by
    simp only [n, avail]
    have := w.rl
    split <;> omega
  clear_value n data
  split
  · exact okP_rc (by decide)
  · rename_i hnz
    have hnz' : n ≠ 0 := by simpa using hnz
    have k := keepIn_reqProcessBodyData cfg (some data) 0 c
    rcases hx : reqProcessBodyData cfg (some data) 0 c with ⟨c1, rc1⟩
    rw [hx] at k
    simp only at k ⊢
    split
    · rename_i hne
      intro e
      simp only at e
      rw [e] at hne
      exact absurd hne (by decide)
    · obtain ⟨kr, kl, _, _, _⟩ := k
      split
      · apply okP_mk
        refine ⟨?_, rfl⟩
        simp only [modIn_inn]
        exact ⟨kl, by show c.inn.read < c1.inn.read + n; rw [kr]; omega⟩
      · exact okP_rc (by decide)

theorem nextByteConsume_mv (d d' : Dir) (b : UInt8) (h : d.nextByteConsume = some (d', b)) : d'.len = d.len ∧ d'.read = d.read + 1 := by
  unfold Dir.nextByteConsume at h
  cases hc : d.copyByte with
  | none => rw [hc] at h; simp at h
  | some p =>
    obtain ⟨d1, b1⟩ := p
    rw [hc] at h
    simp only [Option.some.injEq, Prod.mk.injEq] at h
    obtain ⟨h1, h2⟩ := copyByte_mv _ _ _ hc
    rw [← h.1]
    exact ⟨h1, h2⟩

/-- REQ_BODY_CHUNKED_DATA_END answering HTP_OK: the line end after the chunk was consumed, to REQ_BODY_CHUNKED_LENGTH -/
theorem adv_reqChunkedDataEndLoop (fuel : Nat) (c : Conn) :
    OkP (fun c' => Adv c.inn c'.inn ∧ c'.inState = .bodyChunkedLength) (reqChunkedDataEndLoop fuel c) := by
  induction fuel generalizing c with
  | zero => unfold reqChunkedDataEndLoop; exact okP_rc (by decide)
  | succ k ih =>
    unfold reqChunkedDataEndLoop
    cases hn : c.inn.nextByteConsume with
    | none => exact okP_rc (by decide)
    | some p =>
      obtain ⟨d, b⟩ := p
      obtain ⟨hl, hr⟩ := nextByteConsume_mv _ _ _ hn
      simp only
      split
      · apply okP_mk
        refine ⟨?_, rfl⟩
        simp only [modIn_inn]
        exact ⟨hl, by omega⟩
      · refine okP_mono (ih _) ?_
        intro c' h
        obtain ⟨⟨e1, e2⟩, e3⟩ := h
        simp only [modIn_inn] at e1 e2
        exact ⟨⟨by rw [e1, hl], by omega⟩, e3⟩

/-- REQ_BODY_CHUNKED_LENGTH answering HTP_OK: a chunk-length line was consumed, to REQ_BODY_CHUNKED_DATA or (last chunk) REQ_HEADERS -/
theorem adv_reqChunkedLengthLoop (cfg : Cfg) (fuel : Nat) (c : Conn) :
    OkP (fun c' => Adv c.inn c'.inn ∧ (c'.inState = .bodyChunkedData ∨ c'.inState = .headers)) (reqChunkedLengthLoop cfg fuel c) := by
  induction fuel generalizing c with
  | zero => unfold reqChunkedLengthLoop; exact okP_rc (by decide)
  | succ k ih =>
    unfold reqChunkedLengthLoop
    cases hn : c.inn.copyByte with
    | none => exact okP_rc (by decide)
    | some p =>
      obtain ⟨d, b⟩ := p
      obtain ⟨hl, hr⟩ := copyByte_mv _ _ _ hn
      simp -zeta only
      extract_lets c0
      have h0 : c0.inn = d := rfl
      split
      · refine okP_mono (ih c0) ?_
        intro c' h
        obtain ⟨⟨e1, e2⟩, e3⟩ := h
        rw [h0] at e1 e2
        exact ⟨⟨by rw [e1, hl], by omega⟩, e3⟩
      · cases hc : c0.inn.consolidate cfg.fieldLimitHard true with
        | none => exact okP_rc (by decide)
        | some q =>
          obtain ⟨d2, data⟩ := q
          have r2 := rl_consolidate _ _ _ _ hc
          rw [h0] at r2
          simp -zeta only
          extract_lets c1 line n c2
          have e2 : Adv c.inn c2.inn := by
            have hc1 : c1.inn = d2 := by simp only [c1, modIn_inn]
            refine ⟨?_, ?_⟩
            · show c1.inn.len = c.inn.len
              rw [hc1, r2.1, hl]
            · show c.inn.read < c1.inn.read
              rw [hc1, r2.2, hr]; omega
          clear_value c2
          split
          · exact okP_mk ⟨e2, Or.inl rfl⟩
          · split
            · apply okP_mk
              refine ⟨?_, Or.inr (keepS_modIn _ { c2 with inState := .headers })⟩
              rw [modIn_inn]
              exact e2
            · exact okP_rc (by decide)

/-- REQ_IGNORE_DATA_AFTER_HTTP_0_9 never answers HTP_OK -/
theorem reqIgnore_not_ok (c : Conn) : (reqIgnoreDataAfter09 c).2 ≠ Rc.ok := by
  unfold reqIgnoreDataAfter09
  simp only []
  decide

/-! ### REQ_FINALIZE -/

/-- the look-ahead of REQ_FINALIZE moves the read cursor forward only; when it does not move it, the pending line is what it was -/
theorem reqFinalizeScan_mv (fuel : Nat) (d d' : Dir) (h : reqFinalizeScan fuel d = some d') :
    Mv d d' ∧ (d'.read = d.read → pend d' = pend d) := by
  induction fuel generalizing d with
  | zero => unfold reqFinalizeScan at h; simp only [Option.some.injEq] at h; rw [← h]; exact ⟨Mv.refl _, fun _ => rfl⟩
  | succ k ih =>
    unfold reqFinalizeScan at h
    simp only at h
    split at h
    · simp only [Option.some.injEq] at h; rw [← h]; exact ⟨(rl_peekSet d).mv, fun _ => rfl⟩
    · cases hn : (d.peekSet).1.copyByte with
      | none => rw [hn] at h; simp at h
      | some p =>
        obtain ⟨d1, b1⟩ := p
        rw [hn] at h
        simp only at h
        obtain ⟨hl, hr⟩ := copyByte_mv _ _ _ hn
        have hl' : d1.len = d.len := hl
        have hr' : d1.read = d.read + 1 := hr
        obtain ⟨m, _⟩ := ih _ h
        have e1 := m.len
        have e2 := m.read
        exact ⟨⟨by rw [e1, hl'], by omega⟩, fun e => by omega⟩

/-- REQ_FINALIZE answering HTP_OK: the request was completed (REQ_IDLE / REQ_IGNORE_DATA_AFTER_HTTP_0_9), or a line of unexpected body
    data was handed on and the parser stays - then no line is pending any more, and if the read cursor did not move one was pending -/
def FinP (c c' : Conn) : Prop :=
  Mv c.inn c'.inn ∧
  ((c'.inState = c.inState ∧ pend c'.inn = false ∧ (c'.inn.read = c.inn.read → pend c.inn = true)) ∨
   c'.inState = .idle ∨ c'.inState = .ignoreDataAfter09)

theorem finP_reqFinalize (cfg : Cfg) (c : Conn) : OkP (FinP c) (reqFinalize cfg c) := by
  unfold reqFinalize
  cases c.inn.tx with
  | none => exact okP_rc (by decide)
  | some uid =>
    simp -zeta only
    extract_lets cp pre
    have hp : ∀ c' b, pre = some (c', b) →
        Mv c.inn c'.inn ∧ c'.inState = c.inState ∧ (c'.inn.read = c.inn.read → pend c'.inn = pend c.inn) := by
      intro c' b hpre
      simp only [pre] at hpre
      split at hpre
      · split at hpre
        · simp only [Option.some.injEq, Prod.mk.injEq] at hpre; rw [← hpre.1]
          exact ⟨(rl_peekSet c.inn).mv, rfl, fun _ => rfl⟩
        · split at hpre
          · split at hpre
            · simp at hpre
            · rename_i d hs
              simp only [Option.some.injEq, Prod.mk.injEq] at hpre
              rw [← hpre.1]
              obtain ⟨m, hq⟩ := reqFinalizeScan_mv _ _ _ hs
              exact ⟨(rl_peekSet c.inn).mv.trans m, rfl, hq⟩
          · simp only [Option.some.injEq, Prod.mk.injEq] at hpre; rw [← hpre.1]
            exact ⟨(rl_peekSet c.inn).mv, rfl, fun _ => rfl⟩
      · simp only [Option.some.injEq, Prod.mk.injEq] at hpre; rw [← hpre.1]
        exact ⟨Mv.refl _, rfl, fun _ => rfl⟩
    clear_value pre
    have viaComplete : ∀ c1 : Conn, Mv c.inn c1.inn → OkP (FinP c) (txStateRequestComplete cfg uid c1) := by
      intro c1 m hok
      exact ⟨m.trans (rl_keepIn (keepIn_txStateRequestComplete cfg uid c1)).mv, Or.inr (ok_txStateRequestComplete cfg uid c1 hok)⟩
    split
    · exact okP_rc (by decide)
    · rename_i _ c1
      exact viaComplete c1 (hp _ _ rfl).1
    · rename_i _ c1
      obtain ⟨m1, s1, q1⟩ := hp _ _ rfl
      clear hp
      cases hc : c1.inn.consolidate cfg.fieldLimitHard true with
      | none => exact okP_rc (by decide)
      | some q =>
        obtain ⟨d2, data⟩ := q
        have r2 := rl_consolidate _ _ _ _ hc
        simp -zeta only
        extract_lets c2
        have m2 : Mv c.inn c2.inn := m1.trans r2.mv
        have s2 : c2.inState = c.inState := s1
        have e2 : c2.inn.read = c1.inn.read := r2.2
        clear_value c2
        split
        · exact viaComplete c2 m2
        · rename_i src go hne
          have hpc1 : pend c1.inn = true := consolidate_data_pend _ _ _ _ _ hc (by simpa using hne)
          have hz : c2.inn.read = c.inn.read → pend c.inn = true := by
            intro e
            rw [← q1 (by rw [← e2]; exact e)]
            exact hpc1
          have hgo : ∀ c', go = some c' → RL c2.inn c'.inn ∧ c'.inState = c.inState := by
            intro c' hg
            simp only [go] at hg
            split at hg
            · split at hg
              · simp at hg
              · simp only [Option.some.injEq] at hg
                rw [← hg]
                split
                · exact ⟨RL.refl _, s2⟩
                · exact ⟨⟨rfl, rfl⟩, s2⟩
            · simp only [Option.some.injEq] at hg; rw [← hg]; exact ⟨RL.refl _, s2⟩
          clear_value go
          split
          · exact viaComplete _ (m2.trans (RL.mv ⟨rfl, rfl⟩))
          · rename_i c3
            obtain ⟨r3, s3⟩ := hgo _ rfl
            clear hgo
            extract_lets r
            have hr : ∀ c' dd, r = some (c', dd) → Mv c3.inn c'.inn ∧ c'.inState = c.inState := by
              intro c' dd hh
              simp only [r] at hh
              split at hh
              · cases hcb : c3.inn.copyByte with
                | none => rw [hcb] at hh; simp at hh
                | some p =>
                  obtain ⟨d4, b4⟩ := p
                  obtain ⟨hl4, hr4⟩ := copyByte_mv _ _ _ hcb
                  have m4 : Mv c3.inn d4 := ⟨hl4, by omega⟩
                  rw [hcb] at hh
                  simp only at hh
                  cases hc4 : d4.consolidate cfg.fieldLimitHard true with
                  | none =>
                    rw [hc4] at hh
                    simp only [Option.some.injEq, Prod.mk.injEq] at hh
                    rw [← hh.1]; exact ⟨m4, s3⟩
                  | some q4 =>
                    obtain ⟨d5, data5⟩ := q4
                    rw [hc4] at hh
                    simp only [Option.some.injEq, Prod.mk.injEq] at hh
                    rw [← hh.1]; exact ⟨m4.trans (rl_consolidate _ _ _ _ hc4).mv, s3⟩
              · simp only [Option.some.injEq, Prod.mk.injEq] at hh; rw [← hh.1]; exact ⟨Mv.refl _, s3⟩
            clear_value r
            split
            · exact okP_rc (by decide)
            · rename_i c6 data6
              obtain ⟨m6, s6⟩ := hr _ _ rfl
              have k := keepIn_reqProcessBodyData cfg (some data6) 0 c6
              have ks := keepS_reqProcessBodyData cfg (some data6) 0 c6
              rcases hx : reqProcessBodyData cfg (some data6) 0 c6 with ⟨c7, rc7⟩
              rw [hx] at k ks
              simp only at k ks ⊢
              apply okP_mk
              have mt : Mv c2.inn c7.inn.clearBuffer := (r3.mv.trans m6).trans ((rl_keepIn k).trans (rl_clearBuffer _)).mv
              refine ⟨m2.trans mt, Or.inl ⟨Eq.trans ks s6, pend_clearBuffer _, ?_⟩⟩
              intro e
              apply hz
              have h1 := m2.read
              have h2 := mt.read
              have e' : c7.inn.clearBuffer.read = c.inn.read := e
              omega

/-! ### one pass of the loop -/

/-- the potential goes down when the read cursor advanced to a state of rank at most 7, or stayed while the rank went down -/
theorem phi_lt_of_step {c c' : Conn} (w' : WFCur c'.inn) (m : Mv c.inn c'.inn)
    (h7 : c'.inState ≠ .line ∨ pend c'.inn = false) (hz : c'.inn.read = c.inn.read → rk c' < rk c) : Phi c' < Phi c := by
  have h := m.read
  by_cases he : c'.inn.read = c.inn.read
  · exact phi_same m.len he (hz he)
  · exact phi_adv m.len (by omega) w'.rl (rk_le7 c' h7)

theorem rk_lt_a {c c' : Conn} (hl : c'.inn.len = c.inn.len) (hr : c'.inn.read = c.inn.read)
    (h : rank c'.inState (decide (c.inn.read < c.inn.len)) (pend c'.inn) < rank c.inState (decide (c.inn.read < c.inn.len)) (pend c.inn)) :
    rk c' < rk c := by
  unfold rk
  rw [hl, hr]
  exact h

/-- a move between two states whose ranks are ordered whatever the flags -/
theorem rk_lt_states {c c' : Conn} {s s' : ReqState} (hs : c.inState = s) (hs' : c'.inState = s')
    (hl : c'.inn.len = c.inn.len) (hr : c'.inn.read = c.inn.read)
    (h : ∀ a p p', rank s' a p' < rank s a p) : rk c' < rk c := by
  apply rk_lt_a hl hr
  rw [hs, hs']
  exact h _ _ _

/-- what one pass that goes on did to the potential -/
def PassP (c : Conn) (r : R) : Prop :=
  WFCur r.1.inn → r.2 = Rc.ok → r.1.inn.status ≠ STREAM_TUNNEL → Phi r.1 < Phi c

theorem passP_of_okP {c : Conn} {r : R} {P : Conn → Prop} (h : OkP P r) (hp : ∀ c', P c' → WFCur c'.inn → Phi c' < Phi c) :
    PassP c r := fun w' hok _ => hp _ (h hok) w'

theorem passP_of_okP' {c : Conn} {r : R} {P : Conn → Prop} (h : OkP P r)
    (hp : ∀ c', P c' → WFCur c'.inn → c'.inn.status ≠ STREAM_TUNNEL → Phi c' < Phi c) :
    PassP c r := fun w' hok hnt => hp _ (h hok) w' hnt

/-- **every state function that answers HTP_OK made progress** - the read cursor advanced, or the parser moved to a state of lower
    rank: the potential went down -/
theorem reqStateFn_progress (cfg : Cfg) (c : Conn) (w : WFCur c.inn) (ho : OwedPos c)
    (hok : (reqStateFn cfg c).2 = Rc.ok) (hnt : (reqStateFn cfg c).1.inn.status ≠ STREAM_TUNNEL) :
    Phi (reqStateFn cfg c).1 < Phi c := by
  have w' := wfIn_reqStateFn cfg c w (owedOK_of_pos ho).1 (owedOK_of_pos ho).2
  suffices h : PassP c (reqStateFn cfg c) from h w' hok hnt
  unfold reqStateFn
  cases hs : c.inState with
  | idle =>
    simp only
    intro w' hok _
    obtain ⟨k, kb, hlt, h1⟩ := idleP_reqIdle cfg c hok
    apply phi_same k.2.1 k.1
    apply rk_lt_a k.2.1 k.1
    rw [h1, hs, decide_eq_true hlt]
    exact (by decide : ∀ p p', rank ReqState.line true p' < rank ReqState.idle true p) _ _
  | line =>
    simp only
    refine passP_of_okP (lineL_reqLineLoop cfg _ c w) ?_
    intro c' h w'
    obtain ⟨m, hst⟩ := h
    rcases hst with ⟨h1, h2, h3⟩ | ⟨h1, h3⟩
    · refine phi_lt_of_step w' m (Or.inr h2) ?_
      intro e
      obtain ⟨hp, hle⟩ := h3 e
      apply rk_lt_a m.len e
      rw [h1, hs, h2, hp, decide_eq_false (by omega)]
      decide
    · refine phi_lt_of_step w' m (Or.inl (by rw [h1]; decide)) ?_
      intro e
      have hle := h3 e
      apply rk_lt_a m.len e
      rw [h1, hs, decide_eq_false (by omega)]
      cases pend c.inn <;> cases pend c'.inn <;> decide
  | protocol =>
    simp only
    intro w' _ _
    obtain ⟨hi, hst⟩ := fwd_reqProtocol c
    have hl : (reqProtocol c).1.inn.len = c.inn.len := by rw [hi]
    have hr : (reqProtocol c).1.inn.read = c.inn.read := by rw [hi]
    apply phi_same hl hr
    rcases hst with h1 | h1
    · exact rk_lt_states hs h1 hl hr (by decide)
    · exact rk_lt_states hs h1 hl hr (by decide)
  | headers =>
    simp only
    refine passP_of_okP (hdrP_reqHeadersLoop cfg _ c) ?_
    intro c' h w'
    obtain ⟨m, hst⟩ := h
    rcases hst with h1 | h1
    · exact phi_lt_of_step w' m (Or.inl (by rw [h1]; decide)) (fun e => rk_lt_states hs h1 m.len e (by decide))
    · exact phi_lt_of_step w' m (Or.inl (by rw [h1]; decide)) (fun e => rk_lt_states hs h1 m.len e (by decide))
  | connectCheck =>
    simp only
    refine passP_of_okP (fwd_reqConnectCheck c) ?_
    intro c' h w'
    obtain ⟨hi, h1⟩ := h
    have hl : c'.inn.len = c.inn.len := by rw [hi]
    have hr : c'.inn.read = c.inn.read := by rw [hi]
    exact phi_same hl hr (rk_lt_states hs h1 hl hr (by decide))
  | connectWaitResponse =>
    simp only
    refine passP_of_okP (fwd_reqConnectWaitResponse c) ?_
    intro c' h w'
    obtain ⟨hi, hst⟩ := h
    have hl : c'.inn.len = c.inn.len := by rw [hi]
    have hr : c'.inn.read = c.inn.read := by rw [hi]
    apply phi_same hl hr
    rcases hst with h1 | h1
    · exact rk_lt_states hs h1 hl hr (by decide)
    · exact rk_lt_states hs h1 hl hr (by decide)
  | connectProbeData =>
    simp only
    refine passP_of_okP' (probeP_reqConnectProbeLoop cfg _ c) ?_
    intro c' h w' hnt
    obtain ⟨m, hst⟩ := h
    rcases hst with h1 | h1 | h1
    · exact absurd h1 hnt
    · exact phi_lt_of_step w' m (Or.inl (by rw [h1]; decide)) (fun e => rk_lt_states hs h1 m.len e (by decide))
    · exact phi_lt_of_step w' m (Or.inl (by rw [h1]; decide)) (fun e => rk_lt_states hs h1 m.len e (by decide))
  | bodyDetermine =>
    simp only
    refine passP_of_okP (fwd_reqBodyDetermine c) ?_
    intro c' h w'
    obtain ⟨⟨hl, hr⟩, hst⟩ := h
    apply phi_same hl hr
    rcases hst with h1 | h1 | h1
    · exact rk_lt_states hs h1 hl hr (by decide)
    · exact rk_lt_states hs h1 hl hr (by decide)
    · exact rk_lt_states hs h1 hl hr (by decide)
  | bodyIdentity =>
    simp only
    refine passP_of_okP (adv_reqBodyIdentity cfg c w (ho.1 hs)) ?_
    intro c' h w'
    obtain ⟨⟨hl, hr⟩, h1⟩ := h
    exact phi_adv hl hr w'.rl (rk_le7 c' (Or.inl (by rw [h1]; decide)))
  | bodyChunkedLength =>
    simp only
    refine passP_of_okP (adv_reqChunkedLengthLoop cfg _ c) ?_
    intro c' h w'
    obtain ⟨⟨hl, hr⟩, hst⟩ := h
    rcases hst with h1 | h1
    · exact phi_adv hl hr w'.rl (rk_le7 c' (Or.inl (by rw [h1]; decide)))
    · exact phi_adv hl hr w'.rl (rk_le7 c' (Or.inl (by rw [h1]; decide)))
  | bodyChunkedData =>
    simp only
    refine passP_of_okP (adv_reqBodyChunkedData cfg c w (ho.2 hs)) ?_
    intro c' h w'
    obtain ⟨⟨hl, hr⟩, h1⟩ := h
    exact phi_adv hl hr w'.rl (rk_le7 c' (Or.inl (by rw [h1]; decide)))
  | bodyChunkedDataEnd =>
    simp only
    refine passP_of_okP (adv_reqChunkedDataEndLoop _ c) ?_
    intro c' h w'
    obtain ⟨⟨hl, hr⟩, h1⟩ := h
    exact phi_adv hl hr w'.rl (rk_le7 c' (Or.inl (by rw [h1]; decide)))
  | finalize =>
    simp only
    refine passP_of_okP (finP_reqFinalize cfg c) ?_
    intro c' h w'
    obtain ⟨m, hst⟩ := h
    rcases hst with ⟨h1, h2, h3⟩ | h1 | h1
    · refine phi_lt_of_step w' m (Or.inr h2) ?_
      intro e
      apply rk_lt_a m.len e
      rw [h1, hs, h2, h3 e]
      cases decide (c.inn.read < c.inn.len) <;> decide
    · exact phi_lt_of_step w' m (Or.inl (by rw [h1]; decide)) (fun e => rk_lt_states hs h1 m.len e (by decide))
    · exact phi_lt_of_step w' m (Or.inl (by rw [h1]; decide)) (fun e => rk_lt_states hs h1 m.len e (by decide))
  | ignoreDataAfter09 =>
    simp only
    intro _ hok _
    exact absurd hok (reqIgnore_not_ok c)

/-! ### the state-change hook leaves the potential alone -/

theorem keepIn_reqHandleStateChange (c : Conn) : KeepIn c (reqHandleStateChange c).1 := by
  unfold reqHandleStateChange
  split
  · exact KeepIn.refl c
  · simp only
    have key : ∀ (r : R), KeepIn c r.1 → KeepIn c (r >>? fun c => ({ c with inStatePrev := some c.inState }, Rc.ok)).1 := by
      intro r kr
      unfold R.andThen
      split
      · exact kr
      · exact kr
    apply key
    repeat' split
    all_goals first | exact KeepIn.refl c | exact keepIn_reqReceiverSet _ c

theorem keepBuf_reqHandleStateChange (c : Conn) : KeepBuf c (reqHandleStateChange c).1 := by
  unfold reqHandleStateChange
  split
  · exact KeepBuf.refl c
  · simp only
    have key : ∀ (r : R), KeepBuf c r.1 → KeepBuf c (r >>? fun c => ({ c with inStatePrev := some c.inState }, Rc.ok)).1 := by
      intro r kr
      unfold R.andThen
      split
      · exact kr
      · exact kr
    apply key
    repeat' split
    all_goals first | exact KeepBuf.refl c | exact keepBuf_reqReceiverSet _ c

theorem phi_reqHandleStateChange (c : Conn) : Phi (reqHandleStateChange c).1 = Phi c :=
  phi_eq_of_keep (owedFields_reqHandleStateChange c).1 (keepIn_reqHandleStateChange c) (keepBuf_reqHandleStateChange c)

/-! ### the loop -/

/-- the state the next pass of the `for (;;)` starts from - `none` when this pass ends the call (the state function or the state-change
    hook answered something else than HTP_OK, or the stream became a tunnel) -/
def reqNext (cfg : Cfg) (c : Conn) : Option Conn :=
  if (reqStateFn cfg c).2 = Rc.ok ∧ ((reqStateFn cfg c).1.inn.status == STREAM_TUNNEL) = false then
    if (reqHandleStateChange (reqStateFn cfg c).1).2 = Rc.ok ∧
        ((reqHandleStateChange (reqStateFn cfg c).1).1.inn.status == STREAM_TUNNEL) = false then
      some (reqHandleStateChange (reqStateFn cfg c).1).1
    else none
  else none

/-- a pass that goes on: the loop continues from `reqNext` with one unit of fuel less -/
theorem reqDriverLoop_next (cfg : Cfg) (n : Nat) (c c2 : Conn) (h : reqNext cfg c = some c2) :
    reqDriverLoop cfg false (n + 1) c = reqDriverLoop cfg false n c2 := by
  unfold reqNext at h
  split at h
  · rename_i h1
    split at h
    · rename_i h2
      simp only [Option.some.injEq] at h
      rw [reqDriverLoop]
      simp only [Bool.false_eq_true, if_false]
      rcases hx : reqStateFn cfg c with ⟨c1, rc1⟩
      rw [hx] at h1 h2 h
      simp only at h1 h2 h ⊢
      obtain ⟨e1, t1⟩ := h1
      subst e1
      simp only [beq_self_eq_true, if_true, t1, Bool.false_eq_true, if_false]
      rcases hy : reqHandleStateChange c1 with ⟨c3, rc3⟩
      rw [hy] at h2 h
      simp only at h2 h ⊢
      obtain ⟨e2, t2⟩ := h2
      subst e2
      subst h
      simp only [beq_self_eq_true, if_true, t2, Bool.false_eq_true, if_false]
    · simp at h
  · simp at h

/-- a pass that ends the call does not look at the fuel that is left -/
theorem reqDriverLoop_last (cfg : Cfg) (a b : Nat) (c : Conn) (h : reqNext cfg c = none) :
    reqDriverLoop cfg false (a + 1) c = reqDriverLoop cfg false (b + 1) c := by
  unfold reqNext at h
  rw [reqDriverLoop, reqDriverLoop]
  simp only [Bool.false_eq_true, if_false]
  rcases hx : reqStateFn cfg c with ⟨c1, rc1⟩
  rw [hx] at h
  simp only at h ⊢
  by_cases e1 : rc1 = Rc.ok
  · subst e1
    simp only [beq_self_eq_true, if_true]
    by_cases t1 : (c1.inn.status == STREAM_TUNNEL) = true
    · simp only [t1, if_true, beq_self_eq_true]
    · have t1' : (c1.inn.status == STREAM_TUNNEL) = false := by simpa using t1
      simp only [t1', Bool.false_eq_true, if_false]
      rw [if_pos ⟨rfl, t1'⟩] at h
      rcases hy : reqHandleStateChange c1 with ⟨c3, rc3⟩
      rw [hy] at h
      simp only at h ⊢
      by_cases e2 : rc3 = Rc.ok
      · subst e2
        simp only [beq_self_eq_true, if_true]
        by_cases t2 : (c3.inn.status == STREAM_TUNNEL) = true
        · simp only [t2, if_true]
        · have t2' : (c3.inn.status == STREAM_TUNNEL) = false := by simpa using t2
          rw [if_pos ⟨rfl, t2'⟩] at h
          simp at h
      · have hnok : (rc3 == Rc.ok) = false := by cases rc3 <;> simp_all
        simp only [hnok, Bool.false_eq_true, if_false]
  · have hnok : (rc1 == Rc.ok) = false := by cases rc1 <;> simp_all
    simp only [hnok, Bool.false_eq_true, if_false]

/-- the loop has used up its fuel: `n` passes in a row went on -/
def OutOfFuel (cfg : Cfg) : Nat → Conn → Prop
  | 0, _ => True
  | n + 1, c => ∃ c2, reqNext cfg c = some c2 ∧ OutOfFuel cfg n c2

/-- ... which is exactly when the model gives up: the out-of-fuel case sets the marker and answers STREAM_ERROR -/
theorem outOfFuel_marker (cfg : Cfg) (n : Nat) (c : Conn) (h : OutOfFuel cfg n c) :
    (reqDriverLoop cfg false n c).1.unsupported = true ∧ (reqDriverLoop cfg false n c).2 = STREAM_ERROR := by
  induction n generalizing c with
  | zero => unfold reqDriverLoop; exact ⟨rfl, rfl⟩
  | succ k ih =>
    obtain ⟨c2, h1, h2⟩ := h
    rw [reqDriverLoop_next cfg k c c2 h1]
    exact ih c2 h2

/-- a loop that does not use up its fuel returns the same with more fuel -/
theorem reqDriverLoop_more_fuel (cfg : Cfg) (n : Nat) (c : Conn) (h : ¬ OutOfFuel cfg n c) (k : Nat) :
    reqDriverLoop cfg false (n + k) c = reqDriverLoop cfg false n c := by
  induction n generalizing c with
  | zero => exact absurd trivial h
  | succ m ih =>
    rw [Nat.add_right_comm]
    cases hn : reqNext cfg c with
    | none => exact reqDriverLoop_last cfg _ _ c hn
    | some c2 =>
      rw [reqDriverLoop_next cfg _ c c2 hn, reqDriverLoop_next cfg _ c c2 hn]
      exact ih c2 (fun h2 => h ⟨c2, hn, h2⟩)

/-- **a pass that goes on has paid for it**: the potential went down, and the
    invariants of the call (cursors inside the chunk, counted body states owing bytes) hold for the next pass -/
theorem reqNext_progress (cfg : Cfg) (c0 c c2 : Conn) (hr : CallReach cfg c0 c) (w : WFCur c.inn) (ho : OwedPos c)
    (hcl : ClAtDecision cfg c0) (h : reqNext cfg c = some c2) :
    CallReach cfg c0 c2 ∧ WFCur c2.inn ∧ OwedPos c2 ∧ Phi c2 < Phi c := by
  unfold reqNext at h
  split at h
  · rename_i h1
    split at h
    · rename_i h2
      simp only [Option.some.injEq] at h
      subst h
      have hnt : (reqStateFn cfg c).1.inn.status ≠ STREAM_TUNNEL := by
        intro e
        have := h1.2
        rw [e] at this
        exact absurd this (by decide)
      have w1 := wfIn_reqStateFn cfg c w (owedOK_of_pos ho).1 (owedOK_of_pos ho).2
      have o1 := owedPos_reqStateFn cfg c ho (hcl c hr)
      have f2 := phi_reqHandleStateChange (reqStateFn cfg c).1
      refine ⟨CallReach.step c hr h1.1 h1.2 h2.1, wfIn_reqHandleStateChange _ w1, owedPos_reqHandleStateChange _ o1, ?_⟩
      have hlt := reqStateFn_progress cfg c w ho h1.1 hnt
      omega
    · simp at h
  · simp at h

/-- **the request driver loop makes at most `Phi c` passes that go on**: with more fuel than that it does not run out,
    from any state a call passes through (cursors inside the chunk, counted body states owing bytes) -/
theorem reqDriverLoop_not_outOfFuel (cfg : Cfg) (n : Nat) (c0 c : Conn) (hr : CallReach cfg c0 c) (w : WFCur c.inn) (ho : OwedPos c)
    (hcl : ClAtDecision cfg c0) (hf : Phi c < n) : ¬ OutOfFuel cfg n c := by
  induction n generalizing c with
  | zero => omega
  | succ m ih =>
    intro ⟨c2, h1, h2⟩
    obtain ⟨hr2, w2, o2, hlt⟩ := reqNext_progress cfg c0 c c2 hr w ho hcl h1
    exact ih c2 hr2 w2 o2 (by omega) h2

/-- ... so its result does not depend on the fuel beyond that -/
theorem reqDriverLoop_fuel_enough (cfg : Cfg) (n : Nat) (c0 c : Conn) (hr : CallReach cfg c0 c) (w : WFCur c.inn) (ho : OwedPos c)
    (hcl : ClAtDecision cfg c0) (hf : Phi c < n) (k : Nat) :
    reqDriverLoop cfg false (n + k) c = reqDriverLoop cfg false n c :=
  reqDriverLoop_more_fuel cfg n c (reqDriverLoop_not_outOfFuel cfg n c0 c hr w ho hcl hf) k

/-! ### a whole request data call -/

/-- the loop of a data call starts with the cursors at 0: its potential is at most 8 * len + 8 -/
theorem phi_start (d : Bytes) (c : Conn) : Phi (reqWakeOther (reqStoreChunk (some d) d.length c)) ≤ 8 * d.length + 8 := by
  have h : Phi (reqStoreChunk (some d) d.length c) ≤ 8 * d.length + 8 := by
    have := phi_le (reqStoreChunk (some d) d.length c) (by unfold reqStoreChunk; exact Int.le_refl _)
    have e : (reqStoreChunk (some d) d.length c).inn.len.toNat = d.length := by unfold reqStoreChunk; simp
    rw [e] at this
    exact this
  unfold reqWakeOther
  split
  · exact h
  · exact h

theorem wf_start (d : Bytes) (c : Conn) (hs : (d.length : Int) < 18446744073709551616) :
    WFCur (reqWakeOther (reqStoreChunk (some d) d.length c)).inn := by
  have := wf_reqStoreChunk d c hs
  unfold reqWakeOther
  split
  · exact this
  · exact this

/-- **C08, the request driver is linear**: started by htp_connp_req_data on a chunk of `len` bytes - from any state with the call
    invariant of `reqData_invariant'` (counted body states owing bytes, identity bodies with a non-negative Content-Length), for every
    callback policy - the `for (;;)` makes at most `8 * len + 8` passes that go on -/
theorem reqData_passes_linear (cfg : Cfg) (d : Bytes) (c : Conn) (hs : (d.length : Int) < 18446744073709551616)
    (h0 : OwedPos c) (hcl : ClOK c) (n : Nat) (hn : 8 * d.length + 8 < n) :
    ¬ OutOfFuel cfg n (reqWakeOther (reqStoreChunk (some d) d.length c)) := by
  apply reqDriverLoop_not_outOfFuel cfg n _ _ CallReach.start (wf_start d c hs) (owedPos_reqStoreChunk d c h0)
    (clAtDecision_of_clOK cfg _ (clOK_reqStoreChunk d c hcl))
  have := phi_start d c
  omega

/-- **the fuel `8 * len + 64` of the model's request driver is never exhausted** -/
theorem reqData_not_outOfFuel (cfg : Cfg) (d : Bytes) (c : Conn) (hs : (d.length : Int) < 18446744073709551616)
    (h0 : OwedPos c) (hcl : ClOK c) :
    ¬ OutOfFuel cfg (8 * d.length + 64) (reqWakeOther (reqStoreChunk (some d) d.length c)) :=
  reqData_passes_linear cfg d c hs h0 hcl _ (by omega)

/-- ... the loop of the call returns what it would return with any larger amount of fuel -/
theorem reqData_fuel_enough (cfg : Cfg) (d : Bytes) (c : Conn) (hs : (d.length : Int) < 18446744073709551616)
    (h0 : OwedPos c) (hcl : ClOK c) (k : Nat) :
    reqDriverLoop cfg false (8 * d.length + 64 + k) (reqWakeOther (reqStoreChunk (some d) d.length c)) =
    reqDriverLoop cfg false (8 * d.length + 64) (reqWakeOther (reqStoreChunk (some d) d.length c)) :=
  reqDriverLoop_more_fuel cfg _ _ (reqData_not_outOfFuel cfg d c hs h0 hcl) k

/-- **from the invariant `HistInv` that every history from a fresh parser keeps, the fuel is never exhausted** -/
theorem reqData_fuel_enough_hist (cfg : Cfg) (d : Bytes) (c : Conn) (hs : (d.length : Int) < 18446744073709551616)
    (h : HistInv cfg c) :
    ¬ OutOfFuel cfg (8 * d.length + 64) (reqWakeOther (reqStoreChunk (some d) d.length c)) ∧
    ∀ k, reqDriverLoop cfg false (8 * d.length + 64 + k) (reqWakeOther (reqStoreChunk (some d) d.length c)) =
         reqDriverLoop cfg false (8 * d.length + 64) (reqWakeOther (reqStoreChunk (some d) d.length c)) :=
  ⟨reqData_not_outOfFuel cfg d c hs h.2.2.1 h.clOK, reqData_fuel_enough cfg d c hs h.2.2.1 h.clOK⟩

/-! ### the history that used to spin -/

/-- a parser that has not seen a call yet satisfies the invariant, whatever its callback policy -/
theorem histInv_fresh_policy (cfg : Cfg) (pol : List (Nat × CbAction)) : HistInv cfg ({ policy := pol } : Conn) :=
  ⟨Nat.zero_le _, Nat.zero_le _,
    ⟨fun e => absurd (show ReqState.idle = ReqState.bodyIdentity from e) (by decide),
     fun e => absurd (show ReqState.idle = ReqState.bodyChunkedData from e) (by decide)⟩,
    ⟨fun e => absurd (show ResState.idle = ResState.bodyIdentityClKnown from e) (by decide),
     fun e => absurd (show ResState.idle = ResState.bodyChunkedData from e) (by decide)⟩,
    fun t h => by
      have : some t ∈ ([] : List (Option Tx)) := h
      simp at this⟩

set_option maxRecDepth 100000 in
/-- **the REQ_IDLE spin is gone** (S45, repaired): a fresh parser, htp_connp_open, one request chunk of ONE byte, and a REQUEST_START
    callback that answers HTP_ERROR 72 times. Before the repair (REQ_IDLE ignored the answer of htp_tx_state_request_start) the loop
    stayed in REQ_IDLE, created 72 transactions without reading the byte and used up the model's fuel; now the first refusal ends the
    call: STREAM_ERROR after ONE transaction and ONE callback, the model did not give up. -/
theorem idle_spin_witness :
    let c0 : Conn := { policy := (List.range 72).map (fun i => (i, CbAction.error)) }
    let c := runCalls {} c0 [.open]
    (reqData {} (some [65]) 1 c).2 = STREAM_ERROR ∧ (reqData {} (some [65]) 1 c).1.unsupported = false ∧
    (reqData {} (some [65]) 1 c).1.txs.length = 1 ∧ (reqData {} (some [65]) 1 c).1.cbCount = 1 ∧
    (reqData {} (some [65]) 1 c).1.inState = .idle ∧ HistInv {} c := by
  intro c0 c
  refine ⟨by decide, by decide, by decide, by decide, by decide, ?_⟩
  exact histInv_open {} c0 (histInv_fresh_policy {} _)

/-- the same with HTP_STOP: STREAM_STOP after one transaction -/
example :
    let c : Conn := runCalls {} { policy := [(0, .stop)] } [.open]
    (reqData {} (some [65]) 1 c).2 = STREAM_STOP ∧ (reqData {} (some [65]) 1 c).1.txs.length = 1 ∧
    (reqData {} (some [65]) 1 c).1.unsupported = false := by
  decide

end Htp.Conn
