/- C08 "work is linear", the RESPONSE driver: how many passes the `for (;;)` of htp_connp_res_data makes in one call.

   Delivered here (time-boxed):
   * the loop machinery: `resNext` (the state the next pass starts from), `OutOfFuelO` (the model's loop uses up its fuel),
     `outOfFuelO_marker`, `resDriverLoop_more_fuel`;
   * `res_closed_with_data_spins`: a state-level witness - RES_LINE on a stream in HTP_STREAM_CLOSED that is handed a non-empty chunk
     never copies a byte (the copy is skipped on a closed stream), finds an empty line, treats it as body and stays in RES_LINE with
     HTP_OK: the loop does not end. Not reachable by calls of the API (htp_connp_close feeds a chunk of length 0 and the driver
     overwrites CLOSED when it returns), but the state invariants (`HistInv`) do not exclude it: a whole-call theorem needs
     `c.out.status ≠ STREAM_CLOSED` for a data chunk;
   * per-state-function progress lemmas for the states that only consume (`advO_*`), REQ_IDLE's counterpart `idleO_resIdle`, and
     `resStreamClose_ok_closed` (RES_BODY_IDENTITY_STREAM_CLOSE answers HTP_OK only on a closed stream - so the un-read of
     RES_BODY_CHUNKED_LENGTH, which leads there, is followed by no further pass on an open stream);
   * `resDriverLoop_not_outOfFuel_partial`: the loop theorem for ANY measure that every continuing pass decreases - the remaining
     hypothesis, stated explicitly; see the comment there for the measure that is expected to work and the invariant it needs. -/
import HtpModel.Lemmas.DriverFuel
import HtpModel.Lemmas.OwedOut
namespace Htp.Conn
open Htp Htp.Gen

/-! ### the loop -/

/-- the state the next pass of the `for (;;)` starts from - `none` when this pass ends the call (the state function or the state-change
    hook answered something else than HTP_OK, or the stream became a tunnel) -/
def resNext (cfg : Cfg) (c : Conn) : Option Conn :=
  if (resStateFn cfg c).2 = Rc.ok ∧ ((resStateFn cfg c).1.out.status == STREAM_TUNNEL) = false then
    if (resHandleStateChange (resStateFn cfg c).1).2 = Rc.ok ∧
        ((resHandleStateChange (resStateFn cfg c).1).1.out.status == STREAM_TUNNEL) = false then
      some (resHandleStateChange (resStateFn cfg c).1).1
    else none
  else none

/-- a pass that goes on: the loop continues from `resNext` with one unit of fuel less -/
theorem resDriverLoop_next (cfg : Cfg) (n : Nat) (c c2 : Conn) (h : resNext cfg c = some c2) :
    resDriverLoop cfg false (n + 1) c = resDriverLoop cfg false n c2 := by
  unfold resNext at h
  split at h
  · rename_i h1
    split at h
    · rename_i h2
      simp only [Option.some.injEq] at h
      rw [resDriverLoop]
      simp only [Bool.false_eq_true, if_false]
      rcases hx : resStateFn cfg c with ⟨c1, rc1⟩
      rw [hx] at h1 h2 h
      simp only at h1 h2 h ⊢
      obtain ⟨e1, t1⟩ := h1
      subst e1
      simp only [beq_self_eq_true, if_true, t1, Bool.false_eq_true, if_false]
      rcases hy : resHandleStateChange c1 with ⟨c3, rc3⟩
      rw [hy] at h2 h
      simp only at h2 h ⊢
      obtain ⟨e2, t2⟩ := h2
      subst e2
      subst h
      simp only [beq_self_eq_true, if_true, t2, Bool.false_eq_true, if_false]
    · simp at h
  · simp at h

/-- a pass that ends the call does not look at the fuel that is left -/
theorem resDriverLoop_last (cfg : Cfg) (a b : Nat) (c : Conn) (h : resNext cfg c = none) :
    resDriverLoop cfg false (a + 1) c = resDriverLoop cfg false (b + 1) c := by
  unfold resNext at h
  rw [resDriverLoop, resDriverLoop]
  simp only [Bool.false_eq_true, if_false]
  rcases hx : resStateFn cfg c with ⟨c1, rc1⟩
  rw [hx] at h
  simp only at h ⊢
  by_cases e1 : rc1 = Rc.ok
  · subst e1
    simp only [beq_self_eq_true, if_true]
    by_cases t1 : (c1.out.status == STREAM_TUNNEL) = true
    · simp only [t1, if_true, beq_self_eq_true]
    · have t1' : (c1.out.status == STREAM_TUNNEL) = false := by simpa using t1
      simp only [t1', Bool.false_eq_true, if_false]
      rw [if_pos ⟨rfl, t1'⟩] at h
      rcases hy : resHandleStateChange c1 with ⟨c3, rc3⟩
      rw [hy] at h
      simp only at h ⊢
      by_cases e2 : rc3 = Rc.ok
      · subst e2
        simp only [beq_self_eq_true, if_true]
        by_cases t2 : (c3.out.status == STREAM_TUNNEL) = true
        · simp only [t2, if_true]
        · have t2' : (c3.out.status == STREAM_TUNNEL) = false := by simpa using t2
          rw [if_pos ⟨rfl, t2'⟩] at h
          simp at h
      · have hnok : (rc3 == Rc.ok) = false := by cases rc3 <;> simp_all
        simp only [hnok, Bool.false_eq_true, if_false]
  · have hnok : (rc1 == Rc.ok) = false := by cases rc1 <;> simp_all
    simp only [hnok, Bool.false_eq_true, if_false]

/-- the loop has used up its fuel: `n` passes in a row went on -/
def OutOfFuelO (cfg : Cfg) : Nat → Conn → Prop
  | 0, _ => True
  | n + 1, c => ∃ c2, resNext cfg c = some c2 ∧ OutOfFuelO cfg n c2

/-- ... which is exactly when the model gives up: the out-of-fuel case sets the marker and answers STREAM_ERROR -/
theorem outOfFuelO_marker (cfg : Cfg) (n : Nat) (c : Conn) (h : OutOfFuelO cfg n c) :
    (resDriverLoop cfg false n c).1.unsupported = true ∧ (resDriverLoop cfg false n c).2 = STREAM_ERROR := by
  induction n generalizing c with
  | zero => unfold resDriverLoop; exact ⟨rfl, rfl⟩
  | succ k ih =>
    obtain ⟨c2, h1, h2⟩ := h
    rw [resDriverLoop_next cfg k c c2 h1]
    exact ih c2 h2

/-- a loop that does not use up its fuel returns the same with more fuel -/
theorem resDriverLoop_more_fuel (cfg : Cfg) (n : Nat) (c : Conn) (h : ¬ OutOfFuelO cfg n c) (k : Nat) :
    resDriverLoop cfg false (n + k) c = resDriverLoop cfg false n c := by
  induction n generalizing c with
  | zero => exact absurd trivial h
  | succ m ih =>
    rw [Nat.add_right_comm]
    cases hn : resNext cfg c with
    | none => exact resDriverLoop_last cfg _ _ c hn
    | some c2 =>
      rw [resDriverLoop_next cfg _ c c2 hn, resDriverLoop_next cfg _ c c2 hn]
      exact ih c2 (fun h2 => h ⟨c2, hn, h2⟩)

/-- **the loop theorem, given a measure** (`_partial`: the hypothesis `hdec` is what remains to be proved for a concrete potential):
    if every pass that goes on, from a state the call passes through, decreases `mu`, the loop started with more than `mu c` units of
    fuel does not run out, and returns the same with any larger amount.
    Expected measure: `8 * (len - read) + rank(outState, available, pending)` for every state but RES_BODY_IDENTITY_STREAM_CLOSE, whose
    measure is a constant (it answers HTP_OK only on a closed stream, `resStreamClose_ok_closed`; this pays for the un-read of
    RES_BODY_CHUNKED_LENGTH). The un-read of RES_FINALIZE goes back to `consume - |buf|` (or 0), so the measure needs the invariant
    "in RES_FINALIZE consume = read, and a buffered line only with read = 0" along the call, and `out.status ≠ STREAM_CLOSED` unless
    `len = 0` (see `res_closed_with_data_spins`). -/
theorem resDriverLoop_not_outOfFuel_partial (cfg : Cfg) (mu : Conn → Nat) (c0 : Conn)
    (hdec : ∀ c c2, CallReachO cfg c0 c → resNext cfg c = some c2 → mu c2 < mu c)
    (n : Nat) (c : Conn) (hr : CallReachO cfg c0 c) (hf : mu c < n) :
    ¬ OutOfFuelO cfg n c ∧ ∀ k, resDriverLoop cfg false (n + k) c = resDriverLoop cfg false n c := by
  have key : ∀ n c, CallReachO cfg c0 c → mu c < n → ¬ OutOfFuelO cfg n c := by
    intro n
    induction n with
    | zero => intro c _ h; omega
    | succ m ih =>
      intro c hr hf ⟨c2, h1, h2⟩
      have hlt := hdec c c2 hr h1
      have hr2 : CallReachO cfg c0 c2 := by
        unfold resNext at h1
        split at h1
        · rename_i a1
          split at h1
          · rename_i a2
            simp only [Option.some.injEq] at h1
            rw [← h1]
            exact CallReachO.step c hr a1.1 a1.2 a2.1
          · simp at h1
        · simp at h1
      exact ih c2 hr2 (by omega) h2
  exact ⟨key n c hr hf, resDriverLoop_more_fuel cfg n c (key n c hr hf)⟩

/-! ### a closed stream that is handed data -/

/-- `OutOfFuelO`, computed -/
def outOfFuelOB (cfg : Cfg) : Nat → Conn → Bool
  | 0, _ => true
  | n + 1, c => match resNext cfg c with | some c2 => outOfFuelOB cfg n c2 | none => false

theorem outOfFuelOB_iff (cfg : Cfg) (n : Nat) (c : Conn) : outOfFuelOB cfg n c = true ↔ OutOfFuelO cfg n c := by
  induction n generalizing c with
  | zero => unfold outOfFuelOB OutOfFuelO; simp
  | succ k ih =>
    unfold outOfFuelOB OutOfFuelO
    cases hn : resNext cfg c with
    | none => simp
    | some c2 => simp only [Option.some.injEq, exists_eq_left']; exact ih c2

set_option maxRecDepth 100000 in
/-- **RES_LINE on a closed stream with unread data does not end** (a state, not a history: htp_connp_open, then `out_status` set to
    HTP_STREAM_CLOSED by hand, then a response chunk of ONE byte): RES_IDLE starts a transaction, RES_LINE skips the byte copy because
    the stream is closed, completes an EMPTY line, treats it as body, and - the chunk is not used up - stays in RES_LINE with HTP_OK.
    All 72 passes of the model's fuel are spent, the byte is never read, one transaction exists. The state satisfies `HistInv`. -/
theorem res_closed_with_data_spins :
    let c1 : Conn := runCalls {} {} [.open]
    let c : Conn := { c1 with out := { c1.out with status := STREAM_CLOSED } }
    OutOfFuelO {} (8 * 1 + 64) (resStoreChunk (some [65]) 1 c) ∧
    (resData {} (some [65]) 1 c).1.unsupported = true ∧ (resData {} (some [65]) 1 c).2 = STREAM_ERROR ∧
    (resData {} (some [65]) 1 c).1.outState = .line ∧ (resData {} (some [65]) 1 c).1.out.read = 0 ∧
    (resData {} (some [65]) 1 c).1.txs.length = 1 ∧ HistInv {} c := by
  intro c1 c
  refine ⟨(outOfFuelOB_iff _ _ _).mp (by decide), by decide, by decide, by decide, by decide, by decide, ?_⟩
  have h := histInv_open {} {} (histInv_fresh {})
  exact ⟨h.1, h.2.1, h.2.2.1, h.2.2.2.1, h.2.2.2.2⟩

/-! ### per-state-function progress: the states that only consume, RES_IDLE, and the close-delimited body -/

/-- htp_tx_state_response_start answers HTP_OK only after moving the parser to RES_LINE or (HTTP/0.9) to the close-delimited body -/
theorem ok_txStateResponseStart (uid : Nat) (c : Conn) :
    OkP (fun c' => c'.outState = .line ∨ c'.outState = .bodyIdentityStreamClose) (txStateResponseStart uid c) := by
  unfold txStateResponseStart
  simp only
  apply okP_andThen
  intro _
  split
  · exact okP_mk (Or.inr rfl)
  · exact okP_mk (Or.inl rfl)

theorem ok_resIdleUnmatched (cfg : Cfg) (c : Conn) :
    OkP (fun c' => c'.outState = .line ∨ c'.outState = .bodyIdentityStreamClose) (resIdleUnmatched cfg c) := by
  unfold resIdleUnmatched
  rcases hx : txCreate cfg c with ⟨c2, u⟩
  simp only
  cases u with
  | none => exact okP_rc (by decide)
  | some uid =>
    simp only
    exact ok_txStateResponseStart uid _

/-- **RES_IDLE answering HTP_OK moved on** (its answer is the answer of htp_tx_state_response_start - nothing is ignored here, unlike
    the old REQ_IDLE), and a byte is available -/
theorem idleO_resIdle (cfg : Cfg) (c : Conn) :
    OkP (fun c' => c.out.read < c.out.len ∧ (c'.outState = .line ∨ c'.outState = .bodyIdentityStreamClose)) (resIdle cfg c) := by
  unfold resIdle
  split
  · exact okP_rc (by decide)
  · rename_i hlt
    have hlt' : c.out.read < c.out.len := by omega
    simp only
    split
    · exact okP_mono (ok_resIdleUnmatched cfg _) (fun _ h => ⟨hlt', h⟩)
    · exact okP_mono (ok_txStateResponseStart _ _) (fun _ h => ⟨hlt', h⟩)

/-- **RES_BODY_IDENTITY_STREAM_CLOSE answers HTP_OK only on a closed stream** (then the parser is in RES_FINALIZE): on an open stream it
    takes everything that is there and answers HTP_DATA - no pass follows the un-read of RES_BODY_CHUNKED_LENGTH -/
theorem resStreamClose_ok_closed (cfg : Cfg) (c : Conn) :
    OkP (fun c' => c'.outState = .finalize ∧ c'.out.status = STREAM_CLOSED) (resBodyIdentityStreamClose cfg c) := by
  have key : ∀ r : R, OkP (fun c' => c'.outState = .finalize ∧ c'.out.status = STREAM_CLOSED)
      (r >>? fun c => if c.out.status == STREAM_CLOSED then ({ c with outState := .finalize }, Rc.ok) else (c, Rc.data)) := by
    intro r
    apply okP_andThen
    intro _
    split
    · rename_i h
      exact okP_mk ⟨rfl, by simpa using h⟩
    · exact okP_rc (by decide)
  unfold resBodyIdentityStreamClose
  exact key _

/-- RES_BODY_CHUNKED_DATA_END answering HTP_OK: the line end after the chunk was consumed, to RES_BODY_CHUNKED_LENGTH -/
theorem advO_resChunkedDataEndLoop (fuel : Nat) (c : Conn) :
    OkP (fun c' => Adv c.out c'.out ∧ c'.outState = .bodyChunkedLength) (resChunkedDataEndLoop fuel c) := by
  induction fuel generalizing c with
  | zero => unfold resChunkedDataEndLoop; exact okP_rc (by decide)
  | succ k ih =>
    unfold resChunkedDataEndLoop
    cases hn : c.out.nextByteConsume with
    | none => exact okP_rc (by decide)
    | some p =>
      obtain ⟨d, b⟩ := p
      obtain ⟨hl, hr⟩ := nextByteConsume_mv _ _ _ hn
      simp only
      split
      · apply okP_mk
        refine ⟨?_, rfl⟩
        simp only [modOut_out]
        exact ⟨hl, by omega⟩
      · refine okP_mono (ih _) ?_
        intro c' h
        obtain ⟨⟨e1, e2⟩, e3⟩ := h
        simp only [modOut_out] at e1 e2
        exact ⟨⟨by rw [e1, hl], by omega⟩, e3⟩

/-- RES_BODY_CHUNKED_DATA answering HTP_OK: the rest of the chunk was consumed (at least one byte), to RES_BODY_CHUNKED_DATA_END -/
theorem advO_resBodyChunkedData (cfg : Cfg) (c : Conn) (hrl : c.out.read ≤ c.out.len)
    (ho : 0 < c.out.chunkedLength) :
    OkP (fun c' => Adv c.out c'.out ∧ c'.outState = .bodyChunkedDataEnd) (resBodyChunkedData cfg c) := by
  unfold resBodyChunkedData
  extract_lets avail n data
  have hn0 : 0 ≤ n := by
    simp only [n, avail]
    split <;> omega
  clear_value n data
  split
  · exact okP_rc (by decide)
  · rename_i hnz
    have hnz' : n ≠ 0 := by simpa using hnz
    have k := (keepO_resProcessBodyData cfg (some data) c).1
    rcases hx : resProcessBodyData cfg (some data) c with ⟨c1, rc1⟩
    rw [hx] at k
    simp only at k ⊢
    split
    · rename_i hne
      intro e
      simp only at e
      rw [e] at hne
      exact absurd hne (by decide)
    · obtain ⟨kr, kl, _, _, _⟩ := k
      split
      · apply okP_mk
        refine ⟨?_, rfl⟩
        exact ⟨kl, by show c.out.read < c1.out.read + n; rw [kr]; omega⟩
      · exact okP_rc (by decide)

/-- RES_BODY_IDENTITY_CL_KNOWN on an open stream answering HTP_OK: the rest of the body was consumed (at least one byte), to RES_FINALIZE -/
theorem advO_resBodyIdentityClKnown (cfg : Cfg) (c : Conn) (hrl : c.out.read ≤ c.out.len) (ho : 0 < c.out.bodyDataLeft)
    (hnc : (c.out.status == STREAM_CLOSED) = false) :
    OkP (fun c' => Adv c.out c'.out ∧ c'.outState = .finalize) (resBodyIdentityClKnown cfg c) := by
  unfold resBodyIdentityClKnown
  extract_lets avail n
  have hn0 : 0 ≤ n := by
    simp only [n, avail]
    split <;> omega
  clear_value n
  simp only [hnc, Bool.false_eq_true, if_false]
  split
  · exact okP_rc (by decide)
  · rename_i hnz
    have hnz' : n ≠ 0 := by simpa using hnz
    have kk := fun data g => (keepO_resProcessBodyDataGap cfg data g c).1
    generalize hP : resBodyIdentityClKnown.resProcessBodyDataGap cfg _ _ c = P
    have k : SameCur c.out P.1.out := by rw [← hP]; exact kk _ _
    clear kk hP
    obtain ⟨c1, rc1⟩ := P
    simp only at k ⊢
    split
    · rename_i hne
      intro e
      simp only at e
      rw [e] at hne
      exact absurd hne (by decide)
    · obtain ⟨kr, kl, _, _, _⟩ := k
      split
      · intro _
        have k2 := (keepO_resProcessBodyData cfg none { c1 with out := { c1.out.advance n with bodyDataLeft := c1.out.bodyDataLeft - n }, outState := .finalize }).1
        have ks := keepOS_resProcessBodyData cfg none { c1 with out := { c1.out.advance n with bodyDataLeft := c1.out.bodyDataLeft - n }, outState := .finalize }
        refine ⟨⟨?_, ?_⟩, ks⟩
        · rw [k2.2.1]; exact kl
        · rw [k2.1]; show c.out.read < c1.out.read + n; rw [kr]; omega
      · exact okP_rc (by decide)

/-! ### RES_BODY_DETERMINE -/

/-- the states RES_BODY_DETERMINE can hand over to -/
def AfterDetermine (s : ResState) : Prop :=
  s = .finalize ∨ s = .line ∨ s = .bodyIdentityClKnown ∨ s = .bodyIdentityStreamClose ∨ s = .bodyChunkedLength

theorem ok_resCl (cl ct : Option Parse.Header) (uid : Nat) (c : Conn) : OkP (fun c' => AfterDetermine c'.outState) (resCl cl ct uid c) := by
  unfold resCl
  cases cl with
  | some cl' =>
    simp only
    split
    · exact okP_rc (by decide)
    · split
      · exact okP_mk (Or.inr (Or.inr (Or.inl rfl)))
      · exact okP_mk (Or.inl rfl)
  | none =>
    cases ct with
    | none =>
      simp only [Bool.false_eq_true, if_false]
      exact okP_mk (Or.inr (Or.inr (Or.inr (Or.inl rfl))))
    | some ct' =>
      simp only
      split
      · exact okP_rc (by decide)
      · exact okP_mk (Or.inr (Or.inr (Or.inr (Or.inl rfl))))

theorem ok_resFraming (te cl ct : Option Parse.Header) (uid : Nat) (c : Conn) :
    OkP (fun c' => AfterDetermine c'.outState) (resFraming te cl ct uid c) := by
  unfold resFraming
  repeat' split
  all_goals first
    | exact okP_mk (Or.inr (Or.inr (Or.inr (Or.inr rfl))))
    | exact ok_resCl _ _ _ _

theorem ok_resFramingStep (uid : Nat) (t : Tx) (te cl : Option Parse.Header) (c : Conn) :
    OkP (fun c' => AfterDetermine c'.outState) (resFramingStep uid t te cl c) := by
  unfold resFramingStep
  split
  · simp only []
    exact ok_resFraming _ _ _ _ _
  · rename_i h
    exact okP_mk (Or.inl (by simpa using h))

/-- **RES_BODY_DETERMINE answering HTP_OK**: cursors and line buffer untouched, and the parser left RES_BODY_DETERMINE - to RES_FINALIZE,
    a body state, or (after an interim 100) back to RES_LINE -/
theorem fwdO_resBodyDetermine (cfg : Cfg) (c : Conn) :
    OkP (fun c' => KeepO c c' ∧ AfterDetermine c'.outState) (resBodyDetermine cfg c) := by
  intro hok
  refine ⟨keepO_resBodyDetermine cfg c, ?_⟩
  revert hok
  show OkP (fun c' => AfterDetermine c'.outState) (resBodyDetermine cfg c)
  unfold resBodyDetermine
  cases c.out.tx with
  | none => exact okP_rc (by decide)
  | some uid =>
    simp only
    split
    · intro _
      rw [keepOS_txStateResponseHeaders cfg uid { c with outState := .finalize }]
      exact Or.inl rfl
    · unfold resBodyDetermineRest
      extract_lets c1 cl te is100
      clear_value c1 is100
      split
      · intro _
        rw [keepOS_txStateResponseHeaders cfg uid (resSwitchTunnel c1)]
        left
        unfold resSwitchTunnel
        simp only []
        split <;> rfl
      · split
        · exact okP_mk (Or.inr (Or.inl rfl))
        · apply okP_andThen
          intro h1
          intro _
          rw [keepOS_txStateResponseHeaders cfg uid _]
          exact ok_resFramingStep uid _ te cl _ h1

/-! ### a helper for RES_LINE / RES_HEADERS / RES_FINALIZE (their progress lemmas are not done) -/

/-- consolidating (either flavour) leaves length and read cursor alone -/
theorem consolidate_rl (d d2 : Dir) (hard : Nat) (s : Bool) (data : Bytes) (h : d.consolidate hard s = some (d2, data)) : RL d d2 := by
  unfold Dir.consolidate at h
  cases hb : d.buf with
  | none => rw [hb] at h; simp only [Option.some.injEq, Prod.mk.injEq] at h; rw [← h.1]; exact RL.refl _
  | some bb =>
    rw [hb] at h
    simp only at h
    cases hbu : d.buffer hard s with
    | none => rw [hbu] at h; simp at h
    | some d' =>
      rw [hbu] at h
      simp only [Option.some.injEq, Prod.mk.injEq] at h
      rw [← h.1]
      exact ⟨(buffer_read_len _ _ _ _ hbu).2, (buffer_read_len _ _ _ _ hbu).1⟩

end Htp.Conn
