/- The callback log is append-only and the callback counter counts exactly the logged events: `Ext c c'` says that `c'.events` is
   `c.events` with new events consed in front (the log is newest first) and that `c'.cbCount` grew by exactly the number of new events.
   Only `runCallback` writes the two fields (one event and one count per invocation, `runCallback_log` in Lemmas/Conn.lean); every other
   function that runs inside a request data call leaves both alone or calls functions that satisfy `Ext`. The sweep follows
   Lemmas/StateFrame.lean / Lemmas/ClInv.lean function by function. The response direction, the six entry points and whole call
   histories are in Lemmas/EventsMonoOut.lean. -/
import HtpModel.Lemmas.Conn
namespace Htp.Conn
open Htp Htp.Gen

/-- the two fields of the callback log -/
@[reducible] def EV (c : Conn) : List Event × Nat := (c.events, c.cbCount)

/-- `c'` extends the callback log of `c`: the old events are a suffix of the new log (newest first), in the same order, and the
    counter grew by exactly the number of new events (one event per counted callback) -/
def Ext (c c' : Conn) : Prop := ∃ new : List Event, c'.events = new ++ c.events ∧ c'.cbCount = c.cbCount + new.length

theorem Ext.refl (c : Conn) : Ext c c := ⟨[], rfl, rfl⟩

theorem Ext.trans {a b c : Conn} (h1 : Ext a b) (h2 : Ext b c) : Ext a c := by
  obtain ⟨n1, e1, k1⟩ := h1
  obtain ⟨n2, e2, k2⟩ := h2
  refine ⟨n2 ++ n1, ?_, ?_⟩
  · rw [e2, e1, List.append_assoc]
  · rw [k2, k1, List.length_append]; omega

/-- a step that leaves both fields alone -/
theorem Ext.same {c c' : Conn} (h : EV c' = EV c) : Ext c c' := by
  have h1 : c'.events = c.events := congrArg (·.1) h
  have h2 : c'.cbCount = c.cbCount := congrArg (·.2) h
  exact ⟨[], h1, h2⟩

/-- the same fact from a start state with the same log -/
theorem Ext.from {a b c : Conn} (h2 : Ext b c) (h1 : EV b = EV a) : Ext a c := (Ext.same h1).trans h2

/-- the weaker form with the two components apart: the old log is a suffix of the new one, and the counter does not go down -/
theorem Ext.weak {c c' : Conn} (h : Ext c c') : (∃ new, c'.events = new ++ c.events) ∧ c.cbCount ≤ c'.cbCount := by
  obtain ⟨n, e, k⟩ := h
  exact ⟨⟨n, e⟩, by omega⟩

theorem Ext.cbCount_le {c c' : Conn} (h : Ext c c') : c.cbCount ≤ c'.cbCount := h.weak.2

theorem ext_destroyTx (u : Nat) (c : Conn) : Ext c (destroyTx u c) := Ext.same rfl
theorem ext_modTx (u : Nat) (f : Tx → Tx) (c : Conn) : Ext c (c.modTx u f) := Ext.same rfl
theorem ext_setTx (t : Tx) (c : Conn) : Ext c (c.setTx t) := Ext.same rfl
theorem ext_modIn (f : Tx → Tx) (c : Conn) : Ext c (c.modIn f) := by
  unfold Conn.modIn
  split <;> exact Ext.same rfl
theorem ext_modOut (f : Tx → Tx) (c : Conn) : Ext c (c.modOut f) := by
  unfold Conn.modOut
  split <;> exact Ext.same rfl

/-- **one callback invocation: exactly one event in front of the log, the counter up by one** - whatever the policy answers
    (OK, DECLINED, STOP, ERROR, destroy the transaction, register transaction hooks) -/
theorem ext_runCallback (h : Hook) (uid : Option Nat) (data : Option Bytes) (isLast : Bool) (c : Conn) (g : Nat) (s : Bool) :
    Ext c (runCallback h uid data isLast c g s).1 :=
  ⟨[eventOf h uid data isLast c g s], (runCallback_log h uid data isLast c g s).1, (runCallback_log h uid data isLast c g s).2⟩

/-- sequencing with `>>?` only appends -/
theorem ext_andThen (c0 : Conn) (r : R) (f : Conn → R) (h1 : Ext c0 r.1) (h2 : ∀ c, Ext c (f c).1) :
    Ext c0 (r >>? f).1 := by
  unfold R.andThen
  split
  · exact h1.trans (h2 r.1)
  · exact h1

theorem ext_runCallbackN (n : Nat) (h : Hook) (uid : Option Nat) (data : Option Bytes) (isLast : Bool) (g : Nat) (c : Conn) :
    Ext c (runCallbackN n h uid data isLast g c).1 := by
  induction n generalizing c with
  | zero => exact Ext.refl c
  | succ k ih =>
    unfold runCallbackN
    exact ext_andThen c _ _ (ext_runCallback ..) (fun c' => ih c')

theorem ext_urlencBodyCallback (cfg : Cfg) (uid : Nat) (data : Option Bytes) (c : Conn) :
    Ext c (urlencBodyCallback cfg uid data c).1 := by
  unfold urlencBodyCallback
  cases c.findTx uid with
  | none => exact Ext.refl c
  | some t =>
    simp only
    cases t.urlenBody with
    | none => exact Ext.refl c
    | some u =>
      simp only
      split
      · exact Ext.refl c
      · cases data with
        | some d => exact ext_setTx _ _
        | none => exact ext_setTx _ _

theorem ext_mpartFileEvents (uid : Nat) (evs : List (Nat × Option Bytes)) (c : Conn) :
    Ext c (mpartFileEvents uid evs c) := by
  induction evs generalizing c with
  | nil => exact Ext.refl c
  | cons e rest ih =>
    obtain ⟨i, d⟩ := e
    unfold mpartFileEvents
    exact (ext_runCallback ..).trans (ih _)

theorem ext_mpartBodyCallback (uid : Nat) (data : Option Bytes) (c : Conn) :
    Ext c (mpartBodyCallback uid data c).1 := by
  unfold mpartBodyCallback
  cases c.findTx uid with
  | none => exact Ext.refl c
  | some t =>
    simp only
    cases t.mpart with
    | none => exact Ext.refl c
    | some mp =>
      simp only
      split
      · exact Ext.refl c
      · cases data with
        | some d => exact (ext_setTx _ c).trans (ext_mpartFileEvents ..)
        | none => exact (ext_setTx _ c).trans (ext_mpartFileEvents ..)

theorem ext_runTxReqBodyHooks (cfg : Cfg) (uid : Nat) (data : Option Bytes) (isLast : Bool) (g : Nat) (hs : List TxHook) (c : Conn) :
    Ext c (runTxReqBodyHooks cfg uid data isLast g hs c).1 := by
  induction hs generalizing c with
  | nil => exact Ext.refl c
  | cons h rest ih =>
    unfold runTxReqBodyHooks
    apply ext_andThen
    · cases h with
      | user => exact ext_runCallback ..
      | urlenc => exact ext_urlencBodyCallback ..
      | mpart => exact ext_mpartBodyCallback ..
    · intro c'
      exact ih c'

theorem ext_reqRunHookBodyDataL (cfg : Cfg) (data : Option Bytes) (g : Nat) (l : Bool) (c : Conn) :
    Ext c (reqRunHookBodyDataL cfg data g l c).1 := by
  unfold reqRunHookBodyDataL
  split
  · exact Ext.refl c
  · cases c.inn.tx with
    | none => exact Ext.refl c
    | some uid =>
      simp only
      apply ext_andThen
      · exact ext_runTxReqBodyHooks ..
      · intro c2
        apply ext_andThen
        · exact ext_runCallback ..
        · intro c3
          split
          · exact ext_runCallback ..
          · exact Ext.refl c3

theorem ext_reqRunHookBodyData (cfg : Cfg) (data : Option Bytes) (g : Nat) (c : Conn) :
    Ext c (reqRunHookBodyData cfg data g c).1 := by
  unfold reqRunHookBodyData; exact ext_reqRunHookBodyDataL ..

theorem ext_unsupported (c : Conn) : Ext c { c with unsupported := true } := (Ext.same rfl)
theorem ext_zoracle (c : Conn) (zs : List ZRes) : Ext c { c with zoracle := zs } := (Ext.same rfl)

theorem ext_resRunHookBodyData (data : Option Bytes) (c : Conn) : Ext c (resRunHookBodyData data c).1 := by
  unfold resRunHookBodyData
  split
  · exact Ext.refl c
  · cases c.out.tx with
    | none => exact Ext.refl c
    | some uid =>
      simp only
      apply ext_andThen
      · exact ext_runCallbackN ..
      · intro c2; exact ext_runCallback ..

theorem ext_decFinalCallback (cfg : Cfg) (req : Bool) (uid : Nat) (l : Bool) (data : Option Bytes) (c : Conn) :
    Ext c (decFinalCallback cfg req uid l data c).1 := by
  unfold decFinalCallback
  simp only
  cases req with
  | true =>
    simp only [if_true]
    have h := ext_reqRunHookBodyDataL cfg data 0 l (c.modTx uid fun t => { t with reqEntityLen := t.reqEntityLen + (data.map (·.length)).getD 0 })
    have h0 := (ext_modTx uid (fun t => { t with reqEntityLen := t.reqEntityLen + (data.map (·.length)).getD 0 }) c).trans h
    split
    · exact h0
    · split <;> exact h0
  | false =>
    simp only [Bool.false_eq_true, if_false]
    have h := ext_resRunHookBodyData data (c.modTx uid fun t => { t with resEntityLen := t.resEntityLen + (data.map (·.length)).getD 0 })
    have h0 := (ext_modTx uid (fun t => { t with resEntityLen := t.resEntityLen + (data.map (·.length)).getD 0 }) c).trans h
    split
    · exact h0
    · split <;> exact h0


/-- the functions of the decompression driver only append to the log: they touch the oracle, the unsupported marker, and run the
    callback at the end of the chain -/
theorem ext_dec (cfg : Cfg) (req : Bool) (uid : Nat) : ∀ fuel : Nat,
    (∀ l useNext rest data c, Ext c (decSend cfg req uid l fuel useNext rest data c).2.1) ∧
    (∀ d drec rest inp c, Ext c (decLoop cfg req uid d fuel drec rest inp c).2.1) ∧
    (∀ d drec rest inp c, Ext c (decStep cfg req uid d fuel drec rest inp c).2.1) ∧
    (∀ ds data c, Ext c (decompress cfg req uid fuel ds data c).2.1) := by
  intro fuel
  induction fuel with
  | zero =>
    refine ⟨?_, ?_, ?_, ?_⟩
    · intro l useNext rest data c; unfold decSend; exact ext_unsupported c
    · intro d drec rest inp c; unfold decLoop; exact ext_unsupported c
    · intro d drec rest inp c; unfold decStep; exact ext_unsupported c
    · intro ds data c; unfold decompress; exact ext_unsupported c
  | succ k ih =>
    obtain ⟨ihS, ihL, ihT, ihD⟩ := ih
    refine ⟨?_, ?_, ?_, ?_⟩
    · intro l useNext rest data c
      unfold decSend
      split
      · exact ihD ..
      · exact ext_decFinalCallback ..
    · intro d drec rest inp c
      unfold decLoop
      split
      · exact Ext.refl c
      · by_cases hfull : (drec.buf.length == GZIP_BUF_SIZE) = true
        · simp only [hfull, if_true]
          rcases hx : decSend cfg req uid false k (drec.kind != 0) rest (some drec.buf) c with ⟨rest1, c1, rc1⟩
          have f1 : Ext c c1 := by have := ihS false (drec.kind != 0) rest (some drec.buf) c; rw [hx] at this; exact this
          simp only
          by_cases hrc : (rc1 != Rc.ok) = true
          · simp only [hrc, if_true]; exact f1
          · simp only [hrc, Bool.false_eq_true, if_false]
            exact f1.trans (ihT ..)
        · simp only [hfull, Bool.false_eq_true, if_false]
          exact ihT ..
    · intro d drec rest inp c
      unfold decStep
      split
      · exact ext_unsupported c
      split
      · exact Ext.refl c
      split
      · exact ext_unsupported c
      · rename_i z zs hz
        simp only
        generalize (if ((drec.buf ++ z.produced).length > 0 && z.rc == Z_DATA_ERROR) = true then Z_STREAM_END else z.rc) = rcv
        split
        · -- stream end: the buffer goes out
          rcases hx : decSend cfg req uid false k (drec.kind != 0) rest (some (drec.buf ++ z.produced)) { c with zoracle := zs } with ⟨rest1, c1, rc1⟩
          have f1 : Ext c c1 := by
            have := ihS false (drec.kind != 0) rest (some (drec.buf ++ z.produced)) { c with zoracle := zs }
            rw [hx] at this; exact (ext_zoracle c zs).trans this
          simp only
          split <;> exact f1
        · split
          · split
            · split
              · exact ext_zoracle c zs
              · exact (ext_zoracle c zs).trans (ihL ..)
            · rcases hx : decFinalCallback cfg req uid false (some d) { c with zoracle := zs } with ⟨c1, rc1⟩
              have f1 : Ext c c1 := by
                have := ext_decFinalCallback cfg req uid false (some d) { c with zoracle := zs }
                rw [hx] at this; exact (ext_zoracle c zs).trans this
              simp only
              split <;> exact f1
          · exact (ext_zoracle c zs).trans (ihL ..)
    · intro ds data c
      unfold decompress
      cases ds with
      | nil => exact Ext.refl c
      | cons drec rest =>
        simp only
        split
        · rcases hx : decFinalCallback cfg req uid data.isNone data c with ⟨c1, rc1⟩
          have f1 : Ext c c1 := by have := ext_decFinalCallback cfg req uid data.isNone data c; rw [hx] at this; exact this
          exact f1
        · cases data with
          | none =>
            simp only
            rcases hx : decSend cfg req uid true k (drec.kind != 0) rest (if drec.buf.length > 0 then some drec.buf else none) c with ⟨rest1, c1, rc1⟩
            have f1 : Ext c c1 := by
              have := ihS true (drec.kind != 0) rest (if drec.buf.length > 0 then some drec.buf else none) c; rw [hx] at this; exact this
            simp only
            split <;> exact f1
          | some d => exact ihL ..


/-- body processing only appends to the log - with or without the request decompressor in the way -/
theorem ext_reqProcessBodyData (cfg : Cfg) (data : Option Bytes) (g : Nat) (c : Conn) :
    Ext c (reqProcessBodyData cfg data g c).1 := by
  unfold reqProcessBodyData
  cases c.inn.tx with
  | none => exact Ext.refl c
  | some uid =>
    simp only
    split
    · split
      · exact Ext.refl c
      · split
        · exact ext_unsupported c
        split
        · exact ext_unsupported c
        · rcases hx : decompress cfg true uid (8 * (data.map (·.length)).getD g + 128) c.inDecs data c with ⟨ds, c1, rc1⟩
          have f1 : Ext c c1 := by
            have := (ext_dec cfg true uid (8 * (data.map (·.length)).getD g + 128)).2.2.2 c.inDecs data c
            rw [hx] at this; exact this
          simp only
          exact f1.trans (Ext.same rfl)
    · have h := ext_reqRunHookBodyData cfg data g
        (c.modTx uid fun t => { t with reqEntityLen := t.reqEntityLen + (data.map (·.length)).getD g })
      split <;> exact (ext_modTx _ _ c).trans h


/-! ### receivers and the transaction state functions of the request side -/

theorem ext_reqReceiverSend (l : Bool) (c : Conn) : Ext c (reqReceiverSend l c).1 := by
  unfold reqReceiverSend
  cases c.inn.receiverHook with
  | none => exact Ext.refl c
  | some h =>
    simp only
    apply ext_andThen
    · exact ext_runCallback ..
    · intro c2; exact (Ext.same rfl)

theorem ext_reqReceiverFinalizeClear (c : Conn) : Ext c (reqReceiverFinalizeClear c).1 := by
  unfold reqReceiverFinalizeClear
  cases c.inn.receiverHook with
  | none => exact Ext.refl c
  | some h =>
    simp only
    exact (ext_reqReceiverSend true c).trans (Ext.same rfl)

theorem ext_reqReceiverSet (h : Hook) (c : Conn) : Ext c (reqReceiverSet h c).1 := by
  unfold reqReceiverSet
  simp only
  exact (ext_reqReceiverFinalizeClear c).trans (Ext.same rfl)

theorem ext_txFinalize (cfg : Cfg) (uid : Nat) (c : Conn) : Ext c (txFinalize cfg uid c).1 := by
  unfold txFinalize
  cases c.findTx uid with
  | none => exact Ext.refl c
  | some t =>
    simp only
    split
    · exact Ext.refl c
    · apply ext_andThen
      · exact ext_runCallback ..
      · intro c1
        split
        · split
          · exact ext_destroyTx ..
          · exact Ext.refl _
        · exact Ext.refl _

theorem ext_txStateRequestCompletePartial (cfg : Cfg) (uid : Nat) (c : Conn) :
    Ext c (txStateRequestCompletePartial cfg uid c).1 := by
  unfold txStateRequestCompletePartial
  simp only
  apply ext_andThen
  · split
    · exact ext_reqProcessBodyData ..
    · exact Ext.refl c
  · intro c1
    apply ext_andThen
    · exact (ext_modTx _ _ c1).trans (ext_runCallback ..)
    · intro c2
      apply ext_andThen
      · exact ext_reqReceiverFinalizeClear c2
      · intro c3; exact (Ext.same rfl)

theorem ext_txStateRequestComplete (cfg : Cfg) (uid : Nat) (c : Conn) : Ext c (txStateRequestComplete cfg uid c).1 := by
  unfold txStateRequestComplete
  simp only
  apply ext_andThen
  · split
    · exact ext_txStateRequestCompletePartial ..
    · exact Ext.refl c
  · intro c1
    have kf := ext_txFinalize cfg uid { c1 with inState := if ((c1.findTx uid).map (·.is09)).getD ((c.findTx uid).getD { uid := uid }).is09 then .ignoreDataAfter09 else .idle }
    rcases hx : txFinalize cfg uid { c1 with inState := if ((c1.findTx uid).map (·.is09)).getD ((c.findTx uid).getD { uid := uid }).is09 then .ignoreDataAfter09 else .idle } with ⟨c2, rc2⟩
    rw [hx] at kf
    exact (Ext.from kf rfl).trans (Ext.same rfl)

theorem ext_txStateRequestStart (uid : Nat) (c : Conn) : Ext c (txStateRequestStart uid c).1 := by
  unfold txStateRequestStart
  apply ext_andThen
  · exact ext_runCallback ..
  · intro c1
    exact (Ext.from (ext_modIn _ { c1 with inState := .line }) rfl)

theorem ext_processRequestHeader (data : Bytes) (c : Conn) : Ext c (processRequestHeader data c).1 := by
  unfold processRequestHeader
  simp only
  exact (ext_modIn _ c).trans (ext_modIn _ _)

theorem ext_reqFlushHeader (c : Conn) : Ext c (reqFlushHeader c).1 := by
  unfold reqFlushHeader
  cases c.inn.header with
  | none => exact Ext.refl c
  | some h =>
    simp only
    have := ext_processRequestHeader h c
    split
    · exact this
    · exact this.trans (Ext.same rfl)

theorem ext_installUrlenc (cfg : Cfg) (uid : Nat) (t : Tx) (c : Conn) : Ext c (installUrlenc cfg uid t c) := by
  unfold installUrlenc
  simp only []
  repeat' split
  all_goals first | exact Ext.refl _ | exact ext_setTx _ _

theorem ext_installMpart (cfg : Cfg) (uid : Nat) (t : Tx) (c : Conn) : Ext c (installMpart cfg uid t c) := by
  unfold installMpart
  simp only []
  repeat' split
  all_goals first | exact Ext.refl _ | exact ext_setTx _ _

theorem ext_txProcessRequestHeadersTail (cfg : Cfg) (uid : Nat) (t : Tx) (ae : Bool) (c : Conn) :
    Ext c (txProcessRequestHeadersTail cfg uid t ae c).1 := by
  unfold txProcessRequestHeadersTail
  split
  · exact Ext.refl c
  · apply ext_andThen
    · exact ext_reqReceiverFinalizeClear _
    · intro c1
      exact ((ext_installUrlenc cfg uid t c1).trans (ext_installMpart ..)).trans (ext_runCallback ..)

theorem ext_txProcessRequestHeaders (cfg : Cfg) (uid : Nat) (c : Conn) : Ext c (txProcessRequestHeaders cfg uid c).1 := by
  unfold txProcessRequestHeaders
  extract_lets t0 ce enc c2 t1 c1 fr t2 hasBody c0 un
  have k2 : Ext c c2 := ext_modTx ..
  have k1 : Ext c2 c1 := by
    simp only [c1]
    split
    · exact Ext.same rfl
    · exact Ext.refl _
  have k0 : Ext c1 c0 := by
    simp only [c0]
    split
    · exact Ext.same rfl
    · exact Ext.refl _
  have k := (k2.trans k1).trans k0
  clear_value c0
  repeat' split
  all_goals exact k.trans ((ext_setTx _ _).trans (ext_txProcessRequestHeadersTail ..))

theorem ext_txStateRequestHeaders (cfg : Cfg) (uid : Nat) (c : Conn) : Ext c (txStateRequestHeaders cfg uid c).1 := by
  unfold txStateRequestHeaders
  simp only
  split
  · apply ext_andThen
    · exact ext_runCallback ..
    · intro c1
      apply ext_andThen
      · exact ext_reqReceiverFinalizeClear _
      · intro c2; exact Ext.same rfl
  · split
    · apply ext_andThen
      · refine Ext.trans ?_ (ext_txProcessRequestHeaders ..)
        split
        · exact ext_modTx ..
        · exact Ext.refl _
      · intro c1; exact Ext.same rfl
    · exact Ext.refl _

theorem ext_urlencQueryCallback (cfg : Cfg) (uid : Nat) (c : Conn) : Ext c (urlencQueryCallback cfg uid c) := by
  unfold urlencQueryCallback
  simp only []
  repeat' split
  all_goals first | exact Ext.refl _ | exact ext_setTx _ _

theorem ext_txStateRequestLine (cfg : Cfg) (uid : Nat) (c : Conn) : Ext c (txStateRequestLine cfg uid c).1 := by
  unfold txStateRequestLine
  extract_lets t0 hp fl1 fl2 src t1 t2 t3 c1
  split
  · exact Ext.refl c
  · have k1 : Ext c c1 := ext_setTx ..
    clear_value c1
    apply ext_andThen
    · exact k1.trans (ext_runCallback ..)
    · intro c2
      apply ext_andThen
      · refine Ext.trans ?_ (ext_runCallback ..)
        split
        · exact ext_urlencQueryCallback ..
        · exact Ext.refl _
      · intro c3; exact Ext.same rfl

theorem ext_txCreate (cfg : Cfg) (c : Conn) : Ext c (txCreate cfg c).1 := by
  unfold txCreate
  simp only []
  split <;> exact Ext.same rfl


/-! ### the fourteen request state functions -/

theorem ext_inn (c : Conn) (d : Dir) : Ext c { c with inn := d } := (Ext.same rfl)

theorem ext_reqIdle (cfg : Cfg) (c : Conn) : Ext c (reqIdle cfg c).1 := by
  unfold reqIdle
  split
  · exact Ext.refl c
  · have k := ext_txCreate cfg c
    rcases hx : txCreate cfg c with ⟨c1, u⟩
    rw [hx] at k
    simp only at k ⊢
    cases u with
    | none => exact k.trans (Ext.same rfl)
    | some uid =>
      simp only
      have k2 := ext_txStateRequestStart uid c1
      rcases hy : txStateRequestStart uid c1 with ⟨c2, rc2⟩
      rw [hy] at k2
      exact k.trans k2

theorem ext_reqLineComplete (cfg : Cfg) (c : Conn) : Ext c (reqLineComplete cfg c).1 := by
  unfold reqLineComplete
  cases hc : c.inn.consolidate cfg.fieldLimitHard true with
  | none => exact Ext.refl c
  | some p =>
    obtain ⟨d, data⟩ := p
    simp -zeta only
    extract_lets c0 ci line rl c1
    have ki : Ext c ci := (ext_inn c d).trans (ext_modIn _ c0)
    have k1 : Ext c c1 := (ext_inn c d).trans (ext_modIn _ c0)
    clear_value ci c1
    split
    · exact (Ext.same rfl)
    · split
      · exact ki.trans (Ext.same rfl)
      · cases c1.inn.tx with
        | none => exact k1
        | some uid =>
          simp only
          have k2 := ext_txStateRequestLine cfg uid c1
          rcases hy : txStateRequestLine cfg uid c1 with ⟨c2, rc2⟩
          rw [hy] at k2
          simp only at k2 ⊢
          split
          · exact k1.trans k2
          · exact (k1.trans k2).trans (Ext.same rfl)

theorem ext_reqLineLoop (cfg : Cfg) (fuel : Nat) (c : Conn) : Ext c (reqLineLoop cfg fuel c).1 := by
  induction fuel generalizing c with
  | zero => unfold reqLineLoop; exact Ext.refl c
  | succ k ih =>
    unfold reqLineLoop
    simp only
    split
    · exact (ext_inn c _).trans (ext_reqLineComplete cfg _)
    · cases hn : (c.inn.peekSet).1.copyByte with
      | none => exact (Ext.same rfl)
      | some p =>
        obtain ⟨d, b⟩ := p
        simp only
        split
        · exact (ext_inn c _).trans (ext_reqLineComplete cfg _)
        · exact (ext_inn c _).trans (ih _)

theorem ext_reqProtocol (c : Conn) : Ext c (reqProtocol c).1 := by
  have k1 : Ext c ({ c with inState := .headers }.modIn (fun t => { t with reqProgress := 2 })) :=
    (Ext.from (ext_modIn _ { c with inState := .headers }) rfl)
  unfold reqProtocol
  simp only []
  repeat' split
  all_goals first
    | exact (Ext.same rfl)
    | exact k1
    | exact k1.trans (ext_modIn _ _)

theorem ext_reqHeadersLoop (cfg : Cfg) (fuel : Nat) (c : Conn) : Ext c (reqHeadersLoop cfg fuel c).1 := by
  induction fuel generalizing c with
  | zero => unfold reqHeadersLoop; exact Ext.refl c
  | succ k ih =>
    unfold reqHeadersLoop
    cases c.inn.tx with
    | none => exact Ext.refl c
    | some uid =>
      simp only
      split
      · apply ext_andThen
        · exact ext_reqFlushHeader c
        · intro c1
          exact (ext_inn c1 c1.inn.clearBuffer).trans ((ext_modIn _ _).trans (ext_txStateRequestHeaders ..))
      · cases hn : c.inn.copyByte with
        | none => exact Ext.refl c
        | some p =>
          obtain ⟨d, b⟩ := p
          simp only
          split
          · exact (ext_inn c d).trans (ih _)
          · cases hc : d.consolidate cfg.fieldLimitHard true with
            | none => exact (Ext.same rfl)
            | some q =>
              obtain ⟨d2, data⟩ := q
              simp only
              split
              · apply ext_andThen
                · exact (ext_inn c d2).trans (ext_reqFlushHeader _)
                · intro c1
                  exact (ext_inn c1 _).trans (ext_txStateRequestHeaders ..)
              · apply ext_andThen
                · split
                  · apply ext_andThen
                    · exact (ext_inn c d2).trans (ext_reqFlushHeader _)
                    · intro c1
                      split
                      · split
                        · have kk := ext_processRequestHeader (Parse.chomp data).1 { c1 with inn := (c1.inn.peekSet).1 }
                          split
                          · exact (ext_inn c1 _).trans kk
                          · exact (ext_inn c1 _).trans kk
                        · exact (Ext.same rfl)
                      · exact (Ext.same rfl)
                  · split
                    · exact ((ext_inn c d2).trans (ext_modIn _ _)).trans (Ext.same rfl)
                    · split
                      · exact (Ext.same rfl)
                      · exact (Ext.same rfl)
                · intro c1
                  exact (ext_inn c1 _).trans (ih _)

theorem ext_reqConnectCheck (c : Conn) : Ext c (reqConnectCheck c).1 := by
  unfold reqConnectCheck
  split <;> exact (Ext.same rfl)

theorem ext_reqConnectWaitResponse (c : Conn) : Ext c (reqConnectWaitResponse c).1 := by
  unfold reqConnectWaitResponse
  simp only []
  repeat' split
  all_goals exact (Ext.same rfl)

theorem ext_reqConnectProbeLoop (cfg : Cfg) (fuel : Nat) (c : Conn) : Ext c (reqConnectProbeLoop cfg fuel c).1 := by
  induction fuel generalizing c with
  | zero => unfold reqConnectProbeLoop; exact Ext.refl c
  | succ k ih =>
    unfold reqConnectProbeLoop
    simp only
    split
    · cases hc : (c.inn.peekSet).1.consolidate cfg.fieldLimitHard true with
      | none => exact (Ext.same rfl)
      | some q =>
        obtain ⟨d2, data⟩ := q
        simp only
        split
        · split
          · rename_i uid _
            exact (ext_inn c d2).trans (ext_txStateRequestComplete cfg uid _)
          · exact (Ext.same rfl)
        · exact (Ext.same rfl)
    · cases hn : (c.inn.peekSet).1.copyByte with
      | none => exact (Ext.same rfl)
      | some p =>
        obtain ⟨d, b⟩ := p
        exact (ext_inn c d).trans (ih _)

theorem ext_reqBodyDetermine (c : Conn) : Ext c (reqBodyDetermine c).1 := by
  unfold reqBodyDetermine
  simp only []
  repeat' split
  all_goals first
    | exact (Ext.same rfl)
    | exact (Ext.from (ext_modIn _ { c with inState := .bodyChunkedLength }) rfl)
    | exact (Ext.from (ext_modIn _ { c with inn := { c.inn with contentLength := c.inTx.reqContentLength, bodyDataLeft := c.inTx.reqContentLength }, inState := ReqState.bodyIdentity }) rfl)

theorem ext_reqBodyIdentity (cfg : Cfg) (c : Conn) : Ext c (reqBodyIdentity cfg c).1 := by
  unfold reqBodyIdentity
  extract_lets avail n data
  clear_value n data
  split
  · exact Ext.refl c
  · have k := ext_reqProcessBodyData cfg data (if c.inn.curNull then n.toNat else 0) c
    rcases hx : reqProcessBodyData cfg data (if c.inn.curNull then n.toNat else 0) c with ⟨c1, rc1⟩
    rw [hx] at k
    simp only at k ⊢
    have k2 : Ext c ({ c1 with inn := { c1.inn.advance n with bodyDataLeft := c1.inn.bodyDataLeft - n } }.modIn
        (fun t => { t with reqMessageLen := t.reqMessageLen + n.toNat })) :=
      k.trans (Ext.from (ext_modIn _ { c1 with inn := { c1.inn.advance n with bodyDataLeft := c1.inn.bodyDataLeft - n } }) rfl)
    split
    · exact k
    · split
      · exact k2.trans (Ext.same rfl)
      · exact k2

theorem ext_reqChunkedDataEndLoop (fuel : Nat) (c : Conn) : Ext c (reqChunkedDataEndLoop fuel c).1 := by
  induction fuel generalizing c with
  | zero => unfold reqChunkedDataEndLoop; exact Ext.refl c
  | succ k ih =>
    unfold reqChunkedDataEndLoop
    cases hn : c.inn.nextByteConsume with
    | none => exact Ext.refl c
    | some p =>
      obtain ⟨d, b⟩ := p
      simp only
      have k1 : Ext c ({ c with inn := d }.modIn (fun t => { t with reqMessageLen := t.reqMessageLen + 1 })) :=
        (ext_inn c d).trans (ext_modIn _ _)
      split
      · exact k1.trans (Ext.same rfl)
      · exact k1.trans (ih _)

theorem ext_reqBodyChunkedData (cfg : Cfg) (c : Conn) : Ext c (reqBodyChunkedData cfg c).1 := by
  unfold reqBodyChunkedData
  extract_lets avail n data
  clear_value n data
  split
  · exact Ext.refl c
  · have k := ext_reqProcessBodyData cfg (some data) 0 c
    rcases hx : reqProcessBodyData cfg (some data) 0 c with ⟨c1, rc1⟩
    rw [hx] at k
    simp only at k ⊢
    have k2 : Ext c ({ c1 with inn := { c1.inn.advance n with chunkedLength := c1.inn.chunkedLength - n } }.modIn
        (fun t => { t with reqMessageLen := t.reqMessageLen + n.toNat })) :=
      k.trans (Ext.from (ext_modIn _ { c1 with inn := { c1.inn.advance n with chunkedLength := c1.inn.chunkedLength - n } }) rfl)
    split
    · exact k
    · split
      · exact k2.trans (Ext.same rfl)
      · exact k2

theorem ext_reqChunkedLengthLoop (cfg : Cfg) (fuel : Nat) (c : Conn) : Ext c (reqChunkedLengthLoop cfg fuel c).1 := by
  induction fuel generalizing c with
  | zero => unfold reqChunkedLengthLoop; exact Ext.refl c
  | succ k ih =>
    unfold reqChunkedLengthLoop
    cases hn : c.inn.copyByte with
    | none => exact Ext.refl c
    | some p =>
      obtain ⟨d, b⟩ := p
      simp -zeta only
      extract_lets c0
      have h0 : Ext c c0 := ext_inn c d
      split
      · exact h0.trans (ih _)
      · cases hc : c0.inn.consolidate cfg.fieldLimitHard true with
        | none => exact h0
        | some q =>
          obtain ⟨d2, data⟩ := q
          simp -zeta only
          extract_lets c1 line src c2
          have h1 : Ext c c1 := (h0.trans (ext_inn c0 d2)).trans (ext_modIn _ _)
          have h2 : Ext c c2 := h1.trans (Ext.same rfl)
          clear_value c2 c1
          split
          · exact h2.trans (Ext.same rfl)
          · split
            · exact h2.trans (Ext.from (ext_modIn _ { c2 with inState := .headers }) rfl)
            · exact h2

theorem ext_reqIgnore (c : Conn) : Ext c (reqIgnoreDataAfter09 c).1 := by
  unfold reqIgnoreDataAfter09
  simp only []
  split <;> exact (Ext.same rfl)

theorem ext_reqFinalize (cfg : Cfg) (c : Conn) : Ext c (reqFinalize cfg c).1 := by
  unfold reqFinalize
  cases c.inn.tx with
  | none => exact Ext.refl c
  | some uid =>
    simp -zeta only
    extract_lets cp pre
    have hp : ∀ c' b, pre = some (c', b) → EV c' = EV c := by
      intro c' b hpre
      simp only [pre] at hpre
      split at hpre
      · split at hpre
        · simp only [Option.some.injEq, Prod.mk.injEq] at hpre; rw [← hpre.1]
        · split at hpre
          · split at hpre
            · simp at hpre
            · simp only [Option.some.injEq, Prod.mk.injEq] at hpre
              rw [← hpre.1]
          · simp only [Option.some.injEq, Prod.mk.injEq] at hpre; rw [← hpre.1]
      · simp only [Option.some.injEq, Prod.mk.injEq] at hpre; rw [← hpre.1]
    clear_value pre
    have viaComplete : ∀ c' : Conn, EV c' = EV c →
        Ext c (txStateRequestComplete cfg uid c').1 :=
      fun c' h' => (Ext.same h').trans (ext_txStateRequestComplete ..)
    split
    · exact (Ext.same rfl)
    · rename_i _ c1
      exact viaComplete c1 (hp _ _ rfl)
    · rename_i _ c1
      have h1 := hp _ _ rfl
      clear hp
      cases hc : c1.inn.consolidate cfg.fieldLimitHard true with
      | none => exact Ext.same h1
      | some q =>
        obtain ⟨d2, data⟩ := q
        simp -zeta only
        extract_lets c2
        have h2 : EV c2 = EV c := h1
        clear_value c2
        split
        · exact viaComplete c2 h2
        · rename_i src go _
          have hgo : ∀ c', go = some c' → EV c' = EV c := by
            intro c' hg
            simp only [go] at hg
            split at hg
            · split at hg
              · simp at hg
              · simp only [Option.some.injEq] at hg
                rw [← hg]
                split
                · exact h2
                · exact h2
            · simp only [Option.some.injEq] at hg; rw [← hg]; exact h2
          clear_value go
          split
          · exact viaComplete _ h2
          · rename_i c3
            have h3 := hgo _ rfl
            clear hgo
            extract_lets r
            have hr : ∀ c' dd, r = some (c', dd) → EV c' = EV c := by
              intro c' dd hh
              simp only [r] at hh
              split at hh
              · cases hcb : c3.inn.copyByte with
                | none => rw [hcb] at hh; simp at hh
                | some p =>
                  obtain ⟨d4, b4⟩ := p
                  rw [hcb] at hh
                  simp only at hh
                  cases hc4 : d4.consolidate cfg.fieldLimitHard true with
                  | none =>
                    rw [hc4] at hh
                    simp only [Option.some.injEq, Prod.mk.injEq] at hh
                    rw [← hh.1]; exact h3
                  | some q4 =>
                    obtain ⟨d5, data5⟩ := q4
                    rw [hc4] at hh
                    simp only [Option.some.injEq, Prod.mk.injEq] at hh
                    rw [← hh.1]; exact h3
              · simp only [Option.some.injEq, Prod.mk.injEq] at hh; rw [← hh.1]; exact h3
            clear_value r
            split
            · exact Ext.same h3
            · rename_i c6 data6
              have h6 := hr _ _ rfl
              have k := ext_reqProcessBodyData cfg (some data6) 0 c6
              rcases hx : reqProcessBodyData cfg (some data6) 0 c6 with ⟨c7, rc7⟩
              rw [hx] at k
              simp only at k ⊢
              exact ((Ext.same h6).trans k).trans (Ext.same rfl)

theorem ext_reqHandleStateChange (c : Conn) : Ext c (reqHandleStateChange c).1 := by
  unfold reqHandleStateChange
  split
  · exact Ext.refl c
  · simp only
    apply ext_andThen
    · repeat' split
      all_goals first | exact Ext.refl c | exact ext_reqReceiverSet _ c
    · intro c1; exact (Ext.same rfl)

theorem ext_reqStateFn (cfg : Cfg) (c : Conn) : Ext c (reqStateFn cfg c).1 := by
  unfold reqStateFn
  cases c.inState with
  | idle => exact ext_reqIdle cfg c
  | line => exact ext_reqLineLoop cfg _ c
  | protocol => exact ext_reqProtocol c
  | headers => exact ext_reqHeadersLoop cfg _ c
  | connectCheck => exact ext_reqConnectCheck c
  | connectWaitResponse => exact ext_reqConnectWaitResponse c
  | connectProbeData => exact ext_reqConnectProbeLoop cfg _ c
  | bodyDetermine => exact ext_reqBodyDetermine c
  | bodyIdentity => exact ext_reqBodyIdentity cfg c
  | bodyChunkedLength => exact ext_reqChunkedLengthLoop cfg _ c
  | bodyChunkedData => exact ext_reqBodyChunkedData cfg c
  | bodyChunkedDataEnd => exact ext_reqChunkedDataEndLoop _ c
  | finalize => exact ext_reqFinalize cfg c
  | ignoreDataAfter09 => exact ext_reqIgnore c

theorem ext_reqStoreChunk (data : Option Bytes) (len : Nat) (c : Conn) : Ext c (reqStoreChunk data len c) := (Ext.same rfl)

theorem ext_reqWakeOther (c : Conn) : Ext c (reqWakeOther c) := by
  unfold reqWakeOther
  split <;> exact (Ext.same rfl)

/-- the for(;;) of htp_connp_req_data only appends to the log - data, gap or close, any fuel -/
theorem ext_reqDriverLoop (cfg : Cfg) (gap : Bool) (fuel : Nat) (c : Conn) : Ext c (reqDriverLoop cfg gap fuel c).1 := by
  induction fuel generalizing c with
  | zero => unfold reqDriverLoop; exact (Ext.same rfl)
  | succ k ih =>
    unfold reqDriverLoop
    simp only
    -- what happens with the answer of one pass
    have tail : ∀ (c1 : Conn) (rc1 : Rc), Ext c c1 → Ext c
        (match (if (rc1 == Rc.ok) = true then
                  if (c1.inn.status == STREAM_TUNNEL) = true then (c1, Rc.ok) else reqHandleStateChange c1
                else (c1, rc1) : R) with
         | (c, rc) =>
          if (rc == Rc.ok) = true then
            if (c.inn.status == STREAM_TUNNEL) = true then (c, STREAM_TUNNEL) else reqDriverLoop cfg gap k c
          else if (rc == Rc.data || rc == Rc.dataBuffer) = true then
            (match reqReceiverSend false c with
             | (c, _) =>
               if (rc == Rc.dataBuffer) = true then
                 (match c.inn.buffer cfg.fieldLimitHard true with
                  | none => (({ c with inn := { c.inn with status := STREAM_ERROR } }, STREAM_ERROR) : Conn × Nat)
                  | some d => ({ c with inn := { d with status := STREAM_DATA } }, STREAM_DATA))
               else ({ c with inn := { c.inn with status := STREAM_DATA } }, STREAM_DATA))
          else if (rc == Rc.dataOther) = true then
            (if c.inn.read ≥ c.inn.len then ({ c with inn := { c.inn with status := STREAM_DATA } }, STREAM_DATA)
             else ({ c with inn := { c.inn with status := STREAM_DATA_OTHER } }, STREAM_DATA_OTHER))
          else if (rc == Rc.stop) = true then ({ c with inn := { c.inn with status := STREAM_STOP } }, STREAM_STOP)
          else ({ c with inn := { c.inn with status := STREAM_ERROR } }, STREAM_ERROR)).1 := by
      intro c1 rc1 k1
      have k2 : Ext c (if (rc1 == Rc.ok) = true then
                  if (c1.inn.status == STREAM_TUNNEL) = true then (c1, Rc.ok) else reqHandleStateChange c1
                else (c1, rc1) : R).1 := by
        split
        · split
          · exact k1
          · exact k1.trans (ext_reqHandleStateChange c1)
        · exact k1
      generalize (if (rc1 == Rc.ok) = true then
                  if (c1.inn.status == STREAM_TUNNEL) = true then (c1, Rc.ok) else reqHandleStateChange c1
                else (c1, rc1) : R) = r2 at k2 ⊢
      obtain ⟨c2, rc2⟩ := r2
      simp only at k2 ⊢
      split
      · split
        · exact k2
        · exact k2.trans (ih c2)
      · split
        · have kk := ext_reqReceiverSend false c2
          rcases hz : reqReceiverSend false c2 with ⟨c3, rc3⟩
          rw [hz] at kk
          simp only at kk ⊢
          split
          · cases hb : c3.inn.buffer cfg.fieldLimitHard true with
            | none => exact (k2.trans kk).trans (Ext.same rfl)
            | some d => exact (k2.trans kk).trans (Ext.same rfl)
          · exact (k2.trans kk).trans (Ext.same rfl)
        · repeat' split
          all_goals exact k2.trans (Ext.same rfl)
    split
    · exact Ext.refl c
    · rename_i c1 rc1 hstep
      have k1 : Ext c c1 := by
        split at hstep
        · split at hstep
          · simp only [Option.some.injEq] at hstep
            have := ext_reqStateFn cfg c
            rw [hstep] at this; exact this
          · split at hstep
            · split at hstep
              · rename_i uid _
                simp only [Option.some.injEq] at hstep
                have := ext_txStateRequestComplete cfg uid c
                rw [hstep] at this; exact this
              · simp only [Option.some.injEq, Prod.mk.injEq] at hstep
                rw [← hstep.1]; exact Ext.refl c
            · simp at hstep
        · simp only [Option.some.injEq] at hstep
          have := ext_reqStateFn cfg c
          rw [hstep] at this; exact this
      exact tail c1 rc1 k1

/-- **a request data call only appends to the callback log** - data, gap or close, any chunk -/
theorem ext_reqData (cfg : Cfg) (data : Option Bytes) (len : Nat) (c : Conn) : Ext c (reqData cfg data len c).1 := by
  unfold reqData
  simp only
  have key : Ext c (reqDataCore cfg data len c).1 := by
    unfold reqDataCore
    split
    · exact Ext.refl c
    split
    · exact Ext.refl c
    split
    · exact Ext.same rfl
    split
    · exact Ext.refl c
    simp only
    split
    · exact Ext.same rfl
    · exact ((ext_reqStoreChunk data len c).trans (ext_reqWakeOther _)).trans (ext_reqDriverLoop cfg _ _ _)
  exact key.trans (Ext.same rfl)

end Htp.Conn
