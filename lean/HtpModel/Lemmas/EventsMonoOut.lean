/- The callback log is append-only (`Ext`, Lemmas/EventsMono.lean) in the response direction too, for the six entry points, and so
   over every call history: what has been delivered stays delivered, in the same order, whatever is called later. -/
import HtpModel.Lemmas.EventsMono
import HtpModel.Lemmas.History
namespace Htp.Conn
open Htp Htp.Gen

theorem ext_out (c : Conn) (d : Dir) : Ext c { c with out := d } := (Ext.same rfl)

/-! ### receivers, body data, transaction state functions of the response side -/

theorem ext_resReceiverSend (l : Bool) (c : Conn) : Ext c (resReceiverSend l c).1 := by
  unfold resReceiverSend
  cases c.out.receiverHook with
  | none => exact Ext.refl c
  | some h =>
    simp only
    apply ext_andThen
    · exact ext_runCallback ..
    · intro c2; exact (Ext.same rfl)

theorem ext_resReceiverFinalizeClear (c : Conn) : Ext c (resReceiverFinalizeClear c).1 := by
  unfold resReceiverFinalizeClear
  cases c.out.receiverHook with
  | none => exact Ext.refl c
  | some h =>
    simp only
    exact (ext_resReceiverSend true c).trans (Ext.same rfl)

theorem ext_resReceiverSet (h : Hook) (c : Conn) : Ext c (resReceiverSet h c).1 := by
  unfold resReceiverSet
  simp only
  exact (ext_resReceiverFinalizeClear c).trans (Ext.same rfl)

theorem ext_resProcessBodyData (cfg : Cfg) (data : Option Bytes) (c : Conn) : Ext c (resProcessBodyData cfg data c).1 := by
  unfold resProcessBodyData
  cases c.out.tx with
  | none => exact Ext.refl c
  | some uid =>
    simp only
    have f0 : Ext c (c.modTx uid fun t => { t with resMessageLen := t.resMessageLen + (data.map (·.length)).getD 0 }) := ext_modTx ..
    split
    · split
      · exact f0
      · split
        · exact f0.trans (ext_unsupported _)
        · rcases hx : decompress cfg false uid (8 * (data.map (·.length)).getD 0 + 128)
            (c.modTx uid fun t => { t with resMessageLen := t.resMessageLen + (data.map (·.length)).getD 0 }).outDecs data
            (c.modTx uid fun t => { t with resMessageLen := t.resMessageLen + (data.map (·.length)).getD 0 }) with ⟨ds, c1, rc1⟩
          have f1 := (ext_dec cfg false uid (8 * (data.map (·.length)).getD 0 + 128)).2.2.2
            (c.modTx uid fun t => { t with resMessageLen := t.resMessageLen + (data.map (·.length)).getD 0 }).outDecs data
            (c.modTx uid fun t => { t with resMessageLen := t.resMessageLen + (data.map (·.length)).getD 0 })
          rw [hx] at f1
          simp only at f1 ⊢
          exact (f0.trans f1).trans (Ext.same rfl)
    · split
      · have h := ext_resRunHookBodyData data
          ((c.modTx uid fun t => { t with resMessageLen := t.resMessageLen + (data.map (·.length)).getD 0 }).modTx uid
            fun t => { t with resEntityLen := t.resEntityLen + (data.map (·.length)).getD 0 })
        have f2 := (f0.trans (ext_modTx uid (fun t => { t with resEntityLen := t.resEntityLen + (data.map (·.length)).getD 0 }) _)).trans h
        split <;> exact f2
      · exact f0

theorem ext_resProcessBodyDataGap (cfg : Cfg) (data : Option Bytes) (g : Nat) (c : Conn) :
    Ext c (resBodyIdentityClKnown.resProcessBodyDataGap cfg data g c).1 := by
  unfold resBodyIdentityClKnown.resProcessBodyDataGap
  split
  · exact ext_resProcessBodyData ..
  · cases c.out.tx with
    | none => exact Ext.refl c
    | some uid =>
      simp only
      have f0 : Ext c (c.modTx uid fun t => { t with resMessageLen := t.resMessageLen + g }) := ext_modTx ..
      split
      · have f1 := f0.trans (ext_modTx uid (fun t => { t with resEntityLen := t.resEntityLen + g }) _)
        split
        · refine f1.trans ?_
          apply ext_andThen
          · exact ext_runCallbackN ..
          · intro c2; exact ext_runCallback ..
        · refine f1.trans ?_
          apply ext_andThen
          · exact ext_runCallbackN ..
          · intro c2; exact ext_runCallback ..
      · exact f0.trans (ext_unsupported _)

theorem ext_processResponseHeader (d : Bytes) (c : Conn) : Ext c (processResponseHeader d c).1 := by
  unfold processResponseHeader
  simp only
  exact (ext_modOut _ c).trans (ext_modOut _ _)

theorem ext_resFlushHeader (c : Conn) : Ext c (resFlushHeader c).1 := by
  unfold resFlushHeader
  cases c.out.header with
  | none => exact Ext.refl c
  | some h =>
    simp only
    have := ext_processResponseHeader h c
    split
    · exact this
    · exact this.trans (Ext.same rfl)

theorem ext_txStateResponseLine (uid : Nat) (c : Conn) : Ext c (txStateResponseLine uid c).1 := by
  unfold txStateResponseLine
  simp only
  refine Ext.trans ?_ (ext_runCallback ..)
  split
  · exact ext_modTx ..
  · exact Ext.refl c

theorem ext_txStateResponseHeaders (cfg : Cfg) (uid : Nat) (c : Conn) : Ext c (txStateResponseHeaders cfg uid c).1 := by
  unfold txStateResponseHeaders
  rcases responseNeedsDecompressor cfg ((c.findTx uid).getD { uid := uid }) with ⟨enc, needs⟩
  simp only
  apply ext_andThen
  · exact (ext_modTx uid _ c).trans (ext_resReceiverFinalizeClear _)
  · intro c1
    apply ext_andThen
    · exact ext_runCallback ..
    · intro c2
      split
      · split
        · exact (Ext.same rfl)
        · cases ceChain cfg ((getHeaderC ((c.findTx uid).getD { uid := uid }).resHeaders (b!"content-encoding")).map (·.value) |>.getD []) with
          | nil => exact (Ext.same rfl)
          | cons ty rest =>
            exact (Ext.from (ext_modTx uid _ { c2 with outDecs := (ty :: rest).map (decCreate cfg), outDecompressor := true }) rfl)
      · exact Ext.refl _

theorem ext_txStateResponseStart (uid : Nat) (c : Conn) : Ext c (txStateResponseStart uid c).1 := by
  unfold txStateResponseStart
  simp only
  apply ext_andThen
  · exact (ext_out c _).trans (ext_runCallback ..)
  · intro c1
    split
    · exact Ext.same rfl
    · exact Ext.same rfl

theorem ext_txStateResponseCompleteEx (cfg : Cfg) (uid : Nat) (c : Conn) : Ext c (txStateResponseCompleteEx cfg uid c).1 := by
  unfold txStateResponseCompleteEx
  simp only
  apply ext_andThen
  · split
    · apply ext_andThen
      · refine Ext.trans ?_ (ext_runCallback ..)
        split
        · exact (ext_modTx uid _ c).trans (ext_resProcessBodyData ..)
        · exact ext_modTx ..
      · intro c1; exact ext_resReceiverFinalizeClear _
    · exact Ext.refl c
  · intro c1
    split
    · exact Ext.refl _
    · split
      · exact (Ext.same rfl)
      · apply ext_andThen
        · exact ext_txFinalize ..
        · intro c2; exact (Ext.same rfl)

theorem ext_resIdleUnmatched (cfg : Cfg) (c : Conn) : Ext c (resIdleUnmatched cfg c).1 := by
  unfold resIdleUnmatched
  have k := ext_txCreate cfg c
  rcases hx : txCreate cfg c with ⟨c2, u⟩
  rw [hx] at k
  simp only at k ⊢
  cases u with
  | none => exact k.trans (Ext.same rfl)
  | some uid =>
    simp only
    exact Ext.trans (k.trans (Ext.same rfl)) (ext_txStateResponseStart ..)

theorem ext_resIdle (cfg : Cfg) (c : Conn) : Ext c (resIdle cfg c).1 := by
  unfold resIdle
  split
  · exact Ext.refl c
  · simp only []
    split
    · have hk : Ext c (if c.inState == .finalize then (match c.inn.tx with | some uid => (txStateRequestComplete cfg uid c).1 | none => c) else c) := by
        split
        · split
          · exact ext_txStateRequestComplete ..
          · exact Ext.refl c
        · exact Ext.refl c
      exact hk.trans (ext_resIdleUnmatched cfg _)
    · rename_i t _
      exact Ext.trans (b := { c with outNextTxIndex := c.outNextTxIndex + 1, out := { c.out with tx := some t.uid, contentLength := -1, bodyDataLeft := -1 } })
        (Ext.same rfl) (ext_txStateResponseStart t.uid _)

theorem ext_resLineAsBody (cfg : Cfg) (uid : Nat) (dn : Bool) (data line : Bytes) (cr : Nat) (c : Conn) :
    Ext c (resLineAsBody cfg uid dn data line cr c).1 := by
  unfold resLineAsBody
  extract_lets nextIsH rd1 ln1 c1 c2 src c3
  have k1 : Ext c c1 := ext_modTx ..
  have k3 : Ext c c3 := Ext.same rfl
  clear_value c1 c3
  split
  · exact k1.trans (Ext.same rfl)
  · have k := ext_resProcessBodyData cfg (if dn then none else some (data.take (line.length + cr))) c3
    rcases hx : resProcessBodyData cfg (if dn then none else some (data.take (line.length + cr))) c3 with ⟨c4, rc4⟩
    rw [hx] at k
    simp only at k ⊢
    split
    · exact (k3.trans k).trans (Ext.same rfl)
    · split
      · exact (k3.trans k).trans (Ext.same rfl)
      · exact (k3.trans k).trans (Ext.same rfl)

theorem ext_resLineComplete (cfg : Cfg) (uid : Nat) (closed : Bool) (c : Conn) : Ext c (resLineComplete cfg uid closed c).1 := by
  unfold resLineComplete
  cases hc : c.out.consolidate cfg.fieldLimitHard false with
  | none => exact Ext.refl c
  | some q =>
    obtain ⟨d2, data⟩ := q
    simp -zeta only
    extract_lets dataNull c0 c1 c2 c3 rl c4
    have h0 : Ext c c0 := ext_out c d2
    have h1 : Ext c c1 := by
      simp only [c1]
      split
      · exact h0.trans (Ext.same rfl)
      · exact h0
    have h2 : Ext c c2 := h1.trans (ext_modTx ..)
    have h3 : Ext c c3 := h0.trans (ext_modTx ..)
    have h4 : Ext c c4 := h3.trans (ext_modTx ..)
    clear_value c0 c1 c2 c3 c4 dataNull
    split
    · exact h2.trans (Ext.same rfl)
    · split
      · exact h3.trans (ext_resLineAsBody ..)
      · refine h4.trans ?_
        apply ext_andThen
        · exact ext_txStateResponseLine uid c4
        · intro c5
          exact (Ext.from (ext_modTx uid _ { c5 with out := c5.out.clearBuffer, outState := .headers }) rfl)

theorem ext_resLineLoop (cfg : Cfg) (fuel : Nat) (c : Conn) : Ext c (resLineLoop cfg fuel c).1 := by
  induction fuel generalizing c with
  | zero => unfold resLineLoop; exact Ext.refl c
  | succ k ih =>
    unfold resLineLoop
    cases c.out.tx with
    | none => exact Ext.refl c
    | some uid =>
      simp only
      split
      · exact Ext.refl c
      · rename_i c1 h1
        have e1 : EV c1 = EV c := by
          split at h1
          · cases hcb : c.out.copyByte with
            | none => rw [hcb] at h1; simp at h1
            | some p =>
              obtain ⟨d, b⟩ := p
              rw [hcb] at h1
              simp only [Option.some.injEq] at h1
              rw [← h1]
          · simp only [Option.some.injEq] at h1; rw [← h1]
        split
        · exact (Ext.same e1).trans (Ext.same rfl)
        · rename_i c2 h2
          have e2 : EV c2 = EV c := by
            split at h2
            · simp only [Dir.peekSet] at h2
              cases hp : c1.out.peek with
              | none => rw [hp] at h2; simp at h2
              | some b =>
                rw [hp] at h2
                simp only at h2
                split at h2
                · simp only [Except.ok.injEq, Prod.mk.injEq] at h2; rw [← h2.1]; exact e1
                · simp only [Except.ok.injEq, Prod.mk.injEq] at h2; simp at h2
            · simp only [Except.ok.injEq, Prod.mk.injEq] at h2; simp at h2
          exact (Ext.same e2).trans (ih c2)
        · rename_i c2 h2
          have e2 : EV c2 = EV c := by
            split at h2
            · simp only [Dir.peekSet] at h2
              cases hp : c1.out.peek with
              | none => rw [hp] at h2; simp at h2
              | some b =>
                rw [hp] at h2
                simp only at h2
                split at h2
                · simp only [Except.ok.injEq, Prod.mk.injEq] at h2; simp at h2
                · simp only [Except.ok.injEq, Prod.mk.injEq] at h2; rw [← h2.1]; exact e1
            · simp only [Except.ok.injEq, Prod.mk.injEq] at h2; rw [← h2.1]; exact e1
          split
          · exact (Ext.same e2).trans (ih c2)
          · exact (Ext.same e2).trans (ext_resLineComplete ..)

theorem eol_ev (b : UInt8) (lfcr : Bool) (c : Conn) :
    ∀ c2 l e a, resHeadersEol b lfcr c = .ok (c2, l, e, a) → EV c2 = EV c := by
  intro c2 l e a h
  unfold resHeadersEol at h
  simp only [] at h
  repeat' split at h
  all_goals first
    | (simp only [Except.ok.injEq, Prod.mk.injEq] at h; rw [← h.1])
    | (simp at h)

theorem ext_resHeaderLine (uid : Nat) (line : Bytes) (c : Conn) : Ext c (resHeaderLine uid line c).1 := by
  unfold resHeaderLine
  split
  · apply ext_andThen
    · exact ext_resFlushHeader c
    · intro c1
      simp only [Dir.peekSet]
      obtain hp | ⟨b, hp⟩ : c1.out.peek = none ∨ ∃ b, c1.out.peek = some b := by cases c1.out.peek <;> simp
      · simp only [hp, Bool.not_true, Bool.false_eq_true, if_false]
        exact (Ext.same rfl)
      · simp only [hp]
        by_cases hf : isFoldingChar b = true
        · simp only [hf, Bool.not_true, Bool.false_eq_true, if_false]
          exact (Ext.same rfl)
        · simp only [hf, Bool.not_false, if_true]
          have e := ext_processResponseHeader line { c1 with out := { c1.out with nextByte := (b.toNat : Int) } }
          rcases hy : processResponseHeader line { c1 with out := { c1.out with nextByte := (b.toNat : Int) } } with ⟨c2, rc2⟩
          rw [hy] at e
          simp only at e ⊢
          split
          · exact (ext_out c1 _).trans e
          · exact (ext_out c1 _).trans e
  · cases c.out.header with
    | none => exact Ext.same rfl
    | some h =>
      simp only
      split
      · have e := ext_processResponseHeader h (c.modTx uid fun t => { t with flags := t.flags ||| INVALID_FOLDING })
        rcases hy : processResponseHeader h (c.modTx uid fun t => { t with flags := t.flags ||| INVALID_FOLDING }) with ⟨c2, rc2⟩
        rw [hy] at e
        simp only at e ⊢
        split
        · exact (ext_modTx uid _ c).trans e
        · exact ((ext_modTx uid _ c).trans e).trans (Ext.same rfl)
      · split
        · exact (Ext.same rfl)
        · exact Ext.refl c

theorem ext_resHeadersLoop (cfg : Cfg) (fuel : Nat) (lfcr : Bool) (c : Conn) : Ext c (resHeadersLoop cfg fuel lfcr c).1 := by
  induction fuel generalizing c lfcr with
  | zero => unfold resHeadersLoop; exact Ext.refl c
  | succ k ih =>
    unfold resHeadersLoop
    cases c.out.tx with
    | none => exact Ext.refl c
    | some uid =>
      simp only
      have trailer : ∀ (c0 : Conn),
          Ext c0 (resReceiverFinalizeClear c0 >>? fun c => runCallback .responseTrailer (some uid) none false c >>? fun c => ({ c with outState := .finalize }, Rc.ok)).1 := by
        intro c0
        apply ext_andThen
        · exact ext_resReceiverFinalizeClear c0
        · intro c1
          apply ext_andThen
          · exact ext_runCallback ..
          · intro c2; exact (Ext.same rfl)
      split
      · exact trailer c
      · cases hn : c.out.copyByte with
        | none => exact Ext.refl c
        | some p =>
          obtain ⟨d, b⟩ := p
          simp only
          split
          · exact (ext_out c d).trans (ih _ _)
          · have he := eol_ev b lfcr { c with out := d }
            split
            · exact (Ext.same rfl)
            · rename_i heq
              have e2 := he _ _ _ _ heq
              exact ((ext_out c d).trans (Ext.same e2)).trans (ih _ _)
            · rename_i c2 lfcr2 ecr2 heq
              have e2 : EV c2 = EV c := he _ _ _ _ heq
              have k2 : Ext c c2 := Ext.same e2
              cases hc : c2.out.consolidate cfg.fieldLimitHard false with
              | none => exact k2
              | some q =>
                obtain ⟨d2, data⟩ := q
                simp only
                split
                · exact (k2.trans (ext_out c2 d2)).trans (ih lfcr2 _)
                · split
                  · refine (k2.trans (ext_out c2 d2)).trans ?_
                    apply ext_andThen
                    · exact ext_resFlushHeader _
                    · intro c3
                      split
                      · exact (Ext.same rfl)
                      · exact (ext_out c3 _).trans (trailer _)
                  · refine (k2.trans (ext_out c2 d2)).trans ?_
                    apply ext_andThen
                    · exact ext_resHeaderLine ..
                    · intro c3
                      exact (ext_out c3 _).trans (ih lfcr2 _)

theorem ext_resCl (cl ct : Option Parse.Header) (uid : Nat) (c : Conn) : Ext c (resCl cl ct uid c).1 := by
  unfold resCl
  cases cl with
  | some clh =>
    simp -zeta only
    extract_lets c1 n c2 src c3
    have h1 : Ext c c1 := ext_modTx ..
    have h2 : Ext c c2 := h1.trans (ext_modTx ..)
    have h3 : Ext c c3 := h2.trans (Ext.same rfl)
    clear_value c1 c2 c3
    split
    · exact h2
    · split
      · exact h3.trans (Ext.from (ext_modTx uid _ { c3 with outState := .bodyIdentityClKnown }) rfl)
      · exact h3.trans (Ext.same rfl)
  | none =>
    simp only
    repeat' split
    all_goals first
      | exact Ext.refl c
      | exact Ext.same rfl

theorem ext_resFraming (te cl ct : Option Parse.Header) (uid : Nat) (c : Conn) : Ext c (resFraming te cl ct uid c).1 := by
  unfold resFraming
  cases te with
  | some te' =>
    simp only
    split
    · exact Ext.same rfl
    · exact ext_resCl ..
  | none => exact ext_resCl ..

theorem ext_resRefusedConnect (t : Tx) (c : Conn) : Ext c (resRefusedConnect t c) := by
  unfold resRefusedConnect
  simp only []
  repeat' split
  all_goals exact (Ext.same rfl)

theorem ext_resSwitchTunnel (c : Conn) : Ext c (resSwitchTunnel c) := by
  unfold resSwitchTunnel
  simp only []
  repeat' split
  all_goals exact (Ext.same rfl)

theorem ext_resExpectShortcut (t : Tx) (c : Conn) : Ext c (resExpectShortcut t c) := by
  unfold resExpectShortcut
  repeat' split
  all_goals exact (Ext.same rfl)

theorem ext_resNoBody (uid : Nat) (t : Tx) (te cl : Option Parse.Header) (c : Conn) : Ext c (resNoBody uid t te cl c) := by
  unfold resNoBody
  repeat' split
  all_goals first
    | exact Ext.refl c
    | exact (Ext.from (ext_modTx uid _ { c with outState := .finalize }) rfl)

theorem ext_resFramingStep (uid : Nat) (t : Tx) (te cl : Option Parse.Header) (c : Conn) :
    Ext c (resFramingStep uid t te cl c).1 := by
  unfold resFramingStep
  split
  · simp only
    refine Ext.trans ?_ (ext_resFraming ..)
    split
    · exact ext_modTx ..
    · exact Ext.refl c
  · exact Ext.refl c

theorem ext_resBodyDetermineRest (cfg : Cfg) (uid : Nat) (t : Tx) (c : Conn) : Ext c (resBodyDetermineRest cfg uid t c).1 := by
  unfold resBodyDetermineRest
  extract_lets c1 cl te is100
  have k0 : Ext c c1 := ext_resRefusedConnect t c
  clear_value c1 is100
  split
  · exact (k0.trans (ext_resSwitchTunnel _)).trans (ext_txStateResponseHeaders ..)
  · split
    · exact k0.trans (Ext.same rfl)
    · apply ext_andThen
      · exact ((k0.trans (ext_resExpectShortcut t _)).trans (ext_resNoBody ..)).trans (ext_resFramingStep ..)
      · intro c1; exact ext_txStateResponseHeaders ..

theorem ext_resBodyDetermine (cfg : Cfg) (c : Conn) : Ext c (resBodyDetermine cfg c).1 := by
  unfold resBodyDetermine
  cases c.out.tx with
  | none => exact Ext.refl c
  | some uid =>
    simp only
    split
    · exact Ext.trans (b := { c with outState := .finalize }) (Ext.same rfl) (ext_txStateResponseHeaders ..)
    · exact ext_resBodyDetermineRest ..

theorem ext_resBodyIdentityClKnown (cfg : Cfg) (c : Conn) : Ext c (resBodyIdentityClKnown cfg c).1 := by
  unfold resBodyIdentityClKnown
  extract_lets avail n cfin data
  clear_value n data
  split
  · exact Ext.trans (b := cfin) (Ext.same rfl) (ext_resProcessBodyData ..)
  · split
    · exact Ext.refl c
    · have k := ext_resProcessBodyDataGap cfg data (if c.out.curNull then n.toNat else 0) c
      rcases hx : resBodyIdentityClKnown.resProcessBodyDataGap cfg data (if c.out.curNull then n.toNat else 0) c with ⟨c1, rc1⟩
      rw [hx] at k
      simp only at k ⊢
      split
      · exact k
      · split
        · exact k.trans (Ext.trans (b := { { c1 with out := { c1.out.advance n with bodyDataLeft := c1.out.bodyDataLeft - n } } with outState := .finalize }) (Ext.same rfl) (ext_resProcessBodyData ..))
        · exact k.trans (Ext.same rfl)

theorem ext_resBodyIdentityStreamClose (cfg : Cfg) (c : Conn) : Ext c (resBodyIdentityStreamClose cfg c).1 := by
  unfold resBodyIdentityStreamClose
  extract_lets n data r
  have hr : Ext c r.1 := by
    simp only [r]
    split
    · have k := ext_resProcessBodyDataGap cfg data (if c.out.curNull then n.toNat else 0) c
      rcases hx : resBodyIdentityClKnown.resProcessBodyDataGap cfg data (if c.out.curNull then n.toNat else 0) c with ⟨c1, rc1⟩
      rw [hx] at k
      simp only at k ⊢
      split
      · exact k
      · exact k.trans (Ext.same rfl)
    · exact Ext.refl c
  clear_value r
  apply ext_andThen
  · exact hr
  · intro c1
    split
    · exact (Ext.same rfl)
    · exact Ext.refl c1

theorem ext_resChunkedDataEndLoop (fuel : Nat) (c : Conn) : Ext c (resChunkedDataEndLoop fuel c).1 := by
  induction fuel generalizing c with
  | zero => unfold resChunkedDataEndLoop; exact Ext.refl c
  | succ k ih =>
    unfold resChunkedDataEndLoop
    cases hn : c.out.nextByteConsume with
    | none => exact Ext.refl c
    | some p =>
      obtain ⟨d, b⟩ := p
      simp only
      have k1 : Ext c ({ c with out := d }.modOut (fun t => { t with resMessageLen := t.resMessageLen + 1 })) :=
        (ext_out c d).trans (ext_modOut _ _)
      split
      · exact k1.trans (Ext.same rfl)
      · exact k1.trans (ih _)

theorem ext_resBodyChunkedData (cfg : Cfg) (c : Conn) : Ext c (resBodyChunkedData cfg c).1 := by
  unfold resBodyChunkedData
  extract_lets avail n data
  clear_value n data
  split
  · exact Ext.refl c
  · have k := ext_resProcessBodyData cfg (some data) c
    rcases hx : resProcessBodyData cfg (some data) c with ⟨c1, rc1⟩
    rw [hx] at k
    simp only at k ⊢
    split
    · exact k
    · split
      · exact k.trans (Ext.same rfl)
      · exact k.trans (Ext.same rfl)

theorem ext_resChunkedLengthLoop (cfg : Cfg) (fuel : Nat) (c : Conn) : Ext c (resChunkedLengthLoop cfg fuel c).1 := by
  induction fuel generalizing c with
  | zero => unfold resChunkedLengthLoop; exact Ext.refl c
  | succ k ih =>
    unfold resChunkedLengthLoop
    cases hn : c.out.copyByte with
    | none => exact Ext.refl c
    | some p =>
      obtain ⟨d, b⟩ := p
      simp -zeta only
      extract_lets c0
      have h0 : Ext c c0 := ext_out c d
      clear_value c0
      split
      · exact h0.trans (ih _)
      · cases hc : c0.out.consolidate cfg.fieldLimitHard false with
        | none => exact h0
        | some q =>
          obtain ⟨d2, data⟩ := q
          simp -zeta only
          extract_lets c1 s1 c2 s2 rd c3 c4
          have h1 : Ext c c1 := (h0.trans (ext_out c0 d2)).trans (ext_modOut _ _)
          have h2 : Ext c c2 := h1.trans (Ext.same rfl)
          have h4 : Ext c c4 := h2.trans (Ext.same rfl)
          have h3 : Ext c c3 := h2.trans (Ext.same rfl)
          clear_value c1 c2 c3 c4
          split
          · exact h2.trans (Ext.trans (b := { c2 with out := { c2.out with consume := c2.out.read } }) (Ext.same rfl) (ih _))
          · split
            · exact h3.trans (ext_modOut _ c3)
            · split
              · exact h4.trans (Ext.same rfl)
              · exact h4.trans (Ext.from (ext_modOut _ { c4 with outState := .headers }) rfl)

theorem ext_resFinalize (cfg : Cfg) (c : Conn) : Ext c (resFinalize cfg c).1 := by
  unfold resFinalize
  cases c.out.tx with
  | none => exact Ext.refl c
  | some uid =>
    simp -zeta only
    extract_lets cp pre
    have hp : ∀ c' b, pre = some (c', b) → EV c' = EV c := by
      intro c' b hpre
      simp only [pre] at hpre
      split at hpre
      · split at hpre
        · simp only [Option.some.injEq, Prod.mk.injEq] at hpre; rw [← hpre.1]
        · split at hpre
          · split at hpre
            · simp at hpre
            · simp only [Option.some.injEq, Prod.mk.injEq] at hpre
              rw [← hpre.1]
          · simp only [Option.some.injEq, Prod.mk.injEq] at hpre; rw [← hpre.1]
      · simp only [Option.some.injEq, Prod.mk.injEq] at hpre; rw [← hpre.1]
    clear_value pre
    have viaComplete : ∀ c' : Conn, EV c' = EV c → Ext c (txStateResponseCompleteEx cfg uid c').1 :=
      fun c' h' => (Ext.same h').trans (ext_txStateResponseCompleteEx ..)
    split
    · exact (Ext.same rfl)
    · rename_i _ c1
      exact viaComplete c1 (hp _ _ rfl)
    · rename_i _ c1
      have h1 := hp _ _ rfl
      clear hp
      cases hc : c1.out.consolidate cfg.fieldLimitHard false with
      | none => exact Ext.same h1
      | some q =>
        obtain ⟨d2, data⟩ := q
        simp -zeta only
        extract_lets dataNull c2 rd keep buf cs
        have h2 : EV c2 = EV c := h1
        clear_value c2 dataNull
        split
        · exact viaComplete c2 h2
        · split
          · have k := ext_resProcessBodyData cfg (some data) c2
            rcases hx : resProcessBodyData cfg (some data) c2 with ⟨c3, rc3⟩
            rw [hx] at k
            simp only at k ⊢
            exact ((Ext.same h2).trans k).trans (Ext.same rfl)
          · exact viaComplete _ h2

theorem ext_resStateFn (cfg : Cfg) (c : Conn) : Ext c (resStateFn cfg c).1 := by
  unfold resStateFn
  cases c.outState with
  | idle => exact ext_resIdle cfg c
  | line => exact ext_resLineLoop cfg _ c
  | headers => exact ext_resHeadersLoop cfg _ _ c
  | bodyDetermine => exact ext_resBodyDetermine cfg c
  | bodyIdentityClKnown => exact ext_resBodyIdentityClKnown cfg c
  | bodyIdentityStreamClose => exact ext_resBodyIdentityStreamClose cfg c
  | bodyChunkedLength => exact ext_resChunkedLengthLoop cfg _ c
  | bodyChunkedData => exact ext_resBodyChunkedData cfg c
  | bodyChunkedDataEnd => exact ext_resChunkedDataEndLoop _ c
  | finalize => exact ext_resFinalize cfg c

theorem ext_resHandleStateChange (c : Conn) : Ext c (resHandleStateChange c).1 := by
  unfold resHandleStateChange
  split
  · exact Ext.refl c
  · simp only
    apply ext_andThen
    · repeat' split
      all_goals first | exact Ext.refl c | exact ext_resReceiverSet _ c
    · intro c1; exact (Ext.same rfl)

/-! ### whole calls -/

/-- the for(;;) of htp_connp_res_data only appends to the log - data, gap or close, any fuel -/
theorem ext_resDriverLoop (cfg : Cfg) (gap : Bool) (fuel : Nat) (c : Conn) : Ext c (resDriverLoop cfg gap fuel c).1 := by
  induction fuel generalizing c with
  | zero => unfold resDriverLoop; exact (Ext.same rfl)
  | succ k ih =>
    unfold resDriverLoop
    simp only
    have tail : ∀ (c1 : Conn) (rc1 : Rc), Ext c c1 → Ext c
        (match (if (rc1 == Rc.ok) = true then
                  if (c1.out.status == STREAM_TUNNEL) = true then (c1, Rc.ok) else resHandleStateChange c1
                else (c1, rc1) : R) with
         | (c, rc) =>
          if (rc == Rc.ok) = true then
            if (c.out.status == STREAM_TUNNEL) = true then (c, STREAM_TUNNEL) else resDriverLoop cfg gap k c
          else if (rc == Rc.data || rc == Rc.dataBuffer) = true then
            (match resReceiverSend false c with
             | (c, _) =>
               if (rc == Rc.dataBuffer) = true then
                 (match c.out.buffer cfg.fieldLimitHard false with
                  | none => (({ c with out := { c.out with status := STREAM_ERROR } }, STREAM_ERROR) : Conn × Nat)
                  | some d => ({ c with out := { d with status := STREAM_DATA } }, STREAM_DATA))
               else ({ c with out := { c.out with status := STREAM_DATA } }, STREAM_DATA))
          else if (rc == Rc.stop) = true then ({ c with out := { c.out with status := STREAM_STOP } }, STREAM_STOP)
          else if (rc == Rc.dataOther) = true then
            (if c.out.read ≥ c.out.len then ({ c with out := { c.out with status := STREAM_DATA } }, STREAM_DATA)
             else ({ c with out := { c.out with status := STREAM_DATA_OTHER } }, STREAM_DATA_OTHER))
          else ({ c with out := { c.out with status := STREAM_ERROR } }, STREAM_ERROR)).1 := by
      intro c1 rc1 k1
      have k2 : Ext c (if (rc1 == Rc.ok) = true then
                  if (c1.out.status == STREAM_TUNNEL) = true then (c1, Rc.ok) else resHandleStateChange c1
                else (c1, rc1) : R).1 := by
        split
        · split
          · exact k1
          · exact k1.trans (ext_resHandleStateChange c1)
        · exact k1
      generalize (if (rc1 == Rc.ok) = true then
                  if (c1.out.status == STREAM_TUNNEL) = true then (c1, Rc.ok) else resHandleStateChange c1
                else (c1, rc1) : R) = r2 at k2 ⊢
      obtain ⟨c2, rc2⟩ := r2
      simp only at k2 ⊢
      split
      · split
        · exact k2
        · exact k2.trans (ih c2)
      · split
        · have kk := ext_resReceiverSend false c2
          rcases hz : resReceiverSend false c2 with ⟨c3, rc3⟩
          rw [hz] at kk
          simp only at kk ⊢
          split
          · cases hb : c3.out.buffer cfg.fieldLimitHard false with
            | none => exact (k2.trans kk).trans (Ext.same rfl)
            | some d => exact (k2.trans kk).trans (Ext.same rfl)
          · exact (k2.trans kk).trans (Ext.same rfl)
        · repeat' split
          all_goals exact k2.trans (Ext.same rfl)
    split
    · exact Ext.refl c
    · rename_i c1 rc1 hstep
      have k1 : Ext c c1 := by
        split at hstep
        · split at hstep
          · simp only [Option.some.injEq] at hstep
            have := ext_resStateFn cfg c
            rw [hstep] at this; exact this
          · split at hstep
            · split at hstep
              · rename_i uid _
                simp only [Option.some.injEq] at hstep
                have := ext_txStateResponseCompleteEx cfg uid c
                rw [hstep] at this; exact this
              · simp only [Option.some.injEq, Prod.mk.injEq] at hstep
                rw [← hstep.1]; exact Ext.refl c
            · simp at hstep
        · simp only [Option.some.injEq] at hstep
          have := ext_resStateFn cfg c
          rw [hstep] at this; exact this
      exact tail c1 rc1 k1

theorem ext_resStoreChunk (data : Option Bytes) (len : Nat) (c : Conn) : Ext c (resStoreChunk data len c) := Ext.same rfl

/-- **a response data call only appends to the callback log** - data, gap or close, any chunk -/
theorem ext_resData (cfg : Cfg) (data : Option Bytes) (len : Nat) (c : Conn) : Ext c (resData cfg data len c).1 := by
  unfold resData
  simp only
  have key : Ext c (resDataCore cfg data len c).1 := by
    unfold resDataCore
    split
    · exact Ext.refl c
    split
    · exact Ext.refl c
    split
    · exact Ext.same rfl
    split
    · exact Ext.refl c
    simp only
    split
    · exact Ext.same rfl
    · exact (ext_resStoreChunk data len c).trans (ext_resDriverLoop cfg _ _ _)
  exact key.trans (Ext.same rfl)

/-- htp_connp_open runs no callback -/
theorem ext_connOpen (c : Conn) : Ext c (connOpen c) := by
  unfold connOpen
  split <;> exact Ext.same rfl

theorem ext_markClosedIn (c : Conn) : Ext c (markClosedIn c) := by
  unfold markClosedIn
  split <;> exact Ext.same rfl

theorem ext_markClosedOut (c : Conn) : Ext c (markClosedOut c) := by
  unfold markClosedOut
  split <;> exact Ext.same rfl

/-- htp_connp_req_close -/
theorem ext_reqClose (cfg : Cfg) (c : Conn) : Ext c (reqClose cfg c).1 := by
  rw [reqClose_eq]
  exact (ext_markClosedIn c).trans (ext_reqData ..)

/-- htp_connp_close: the request direction, then the response direction -/
theorem ext_connClose (cfg : Cfg) (c : Conn) : Ext c (connClose cfg c).1 := by
  rw [connClose_fst]
  exact (((ext_markClosedIn c).trans (ext_markClosedOut _)).trans (ext_reqData ..)).trans (ext_resData ..)

theorem ext_txFreedLoop (fuel : Nat) (c : Conn) (r : Nat) : Ext c (txFreedLoop fuel c r).1 := by
  induction fuel generalizing c r with
  | zero => unfold txFreedLoop; exact Ext.refl c
  | succ k ih =>
    unfold txFreedLoop
    split
    · exact Ext.from (ih _ _) rfl
    · exact Ext.refl c

/-- htp_connp_tx_freed runs no callback -/
theorem ext_txFreed (c : Conn) : Ext c (txFreed c).1 := ext_txFreedLoop _ c 0

/-! ### whole call histories -/

/-- every call of the embedder only appends to the callback log -/
theorem ext_runCall (cfg : Cfg) (c : Conn) (call : Call) : Ext c (runCall cfg c call) := by
  cases call with
  | req d => exact ext_reqData ..
  | res d => exact ext_resData ..
  | close => exact ext_connClose ..
  | reqClose => exact ext_reqClose ..
  | «open» => exact ext_connOpen c
  | txFreed => exact ext_txFreed c

/-- **the callback log is append-only and the callback counter counts exactly the logged events, over every call history**: whatever
    the embedder calls, in whatever order, with whatever data and callback policy, the log after the history is the log before it with
    new events in front (newest first), and the counter grew by the number of new events -/
theorem history_events_append_only (cfg : Cfg) (c0 : Conn) (calls : List Call) : Ext c0 (runCalls cfg c0 calls) := by
  induction calls generalizing c0 with
  | nil => exact Ext.refl c0
  | cons call rest ih =>
    rw [runCalls_cons]
    exact (ext_runCall cfg c0 call).trans (ih _)

/-- **what has been delivered stays delivered, in the same order, whatever is called later**: the log after a prefix of a history is
    extended - never rewritten - by the rest of the history -/
theorem history_events_prefix (cfg : Cfg) (c0 : Conn) {pre calls : List Call} (hp : pre <+: calls) :
    Ext (runCalls cfg c0 pre) (runCalls cfg c0 calls) := by
  obtain ⟨rest, rfl⟩ := hp
  rw [runCalls_append]
  exact history_events_append_only cfg _ rest

/-- the form with the two components apart: the earlier log is a suffix of the later one (the log is newest first), and the counter
    does not go down -/
theorem history_events_prefix_weak (cfg : Cfg) (c0 : Conn) {pre calls : List Call} (hp : pre <+: calls) :
    (∃ new, (runCalls cfg c0 calls).events = new ++ (runCalls cfg c0 pre).events) ∧
    (runCalls cfg c0 pre).cbCount ≤ (runCalls cfg c0 calls).cbCount :=
  (history_events_prefix cfg c0 hp).weak

theorem Ext.suffix {c c' : Conn} (h : Ext c c') : c.events <:+ c'.events := by
  obtain ⟨n, e, _⟩ := h
  exact ⟨n, e.symm⟩

theorem Ext.sublist {c c' : Conn} (h : Ext c c') : c.events.Sublist c'.events := h.suffix.sublist

theorem Ext.mem {c c' : Conn} (h : Ext c c') {e : Event} (he : e ∈ c.events) : e ∈ c'.events := h.sublist.subset he

/-- the log in the order of delivery (oldest first) only grows at its end -/
theorem Ext.chrono {c c' : Conn} (h : Ext c c') : c.events.reverse <+: c'.events.reverse := List.reverse_prefix.mpr h.suffix

/-- the counter and the length of the log grow together -/
theorem Ext.count {c c' : Conn} (h : Ext c c') : c'.cbCount + c.events.length = c.cbCount + c'.events.length := by
  obtain ⟨n, e, k⟩ := h
  rw [e, k, List.length_append]; omega

/-- **membership is stable**: an event delivered during a prefix of the history is in the log after the whole history -/
theorem history_event_mem_stable (cfg : Cfg) (c0 : Conn) {pre calls : List Call} (hp : pre <+: calls) {e : Event}
    (he : e ∈ (runCalls cfg c0 pre).events) : e ∈ (runCalls cfg c0 calls).events :=
  (history_events_prefix cfg c0 hp).mem he

/-- **relative order is stable**: the log after a prefix of the history is a sublist (in fact a suffix) of the log after the whole
    history - two delivered events keep their relative order, and nothing is ever put between or behind them -/
theorem history_events_sublist (cfg : Cfg) (c0 : Conn) {pre calls : List Call} (hp : pre <+: calls) :
    (runCalls cfg c0 pre).events.Sublist (runCalls cfg c0 calls).events :=
  (history_events_prefix cfg c0 hp).sublist

theorem history_events_suffix (cfg : Cfg) (c0 : Conn) {pre calls : List Call} (hp : pre <+: calls) :
    (runCalls cfg c0 pre).events <:+ (runCalls cfg c0 calls).events :=
  (history_events_prefix cfg c0 hp).suffix

/-- the same for one pair of events: if `e1` was delivered after `e2` (it stands before it in the newest-first log) at some point of the
    history, the log after the whole history still has `e1` before `e2` -/
theorem history_event_order_stable (cfg : Cfg) (c0 : Conn) {pre calls : List Call} (hp : pre <+: calls) {e1 e2 : Event}
    (h : [e1, e2].Sublist (runCalls cfg c0 pre).events) : [e1, e2].Sublist (runCalls cfg c0 calls).events :=
  h.trans (history_events_sublist cfg c0 hp)

/-- by position, in the order of delivery: the `i`-th callback ever delivered is the same event after every longer history -/
theorem history_event_index_stable (cfg : Cfg) (c0 : Conn) {pre calls : List Call} (hp : pre <+: calls) {i : Nat}
    (hi : i < (runCalls cfg c0 pre).events.length) :
    (runCalls cfg c0 calls).events.reverse[i]? = (runCalls cfg c0 pre).events.reverse[i]? := by
  obtain ⟨t, ht⟩ := (history_events_prefix cfg c0 hp).chrono
  rw [← ht]
  exact List.getElem?_append_left (by rw [List.length_reverse]; exact hi)

/-- the callback counter is monotone over a history -/
theorem history_cbCount_mono (cfg : Cfg) (c0 : Conn) {pre calls : List Call} (hp : pre <+: calls) :
    (runCalls cfg c0 pre).cbCount ≤ (runCalls cfg c0 calls).cbCount :=
  (history_events_prefix cfg c0 hp).cbCount_le

/-- **one event per counted callback**: on a connection parser that started fresh the counter is the length of the log, after every
    history - no path counts without logging or logs without counting -/
theorem history_cbCount_eq_length (cfg : Cfg) (calls : List Call) :
    (runCalls cfg {} calls).cbCount = (runCalls cfg {} calls).events.length := by
  have h := (history_events_append_only cfg {} calls).count
  have e0 : ({} : Conn).events.length = 0 := rfl
  have k0 : ({} : Conn).cbCount = 0 := rfl
  omega

/-! ### non-vacuity -/

/-- a fresh connection parser, a complete GET request, then a complete response with a 5-byte body: fifteen callbacks, in this order of
    delivery (the body-data hook runs for the body and for the two end-of-body NULL calls); the log after the request alone is the first
    six of them, and the counter is the length of the log at both points -/
example :
    let calls : List Call := [.open, .req (b!"GET /index.html HTTP/1.1\r\nHost: example.com\r\n\r\n"),
      .res (b!"HTTP/1.1 200 OK\r\nContent-Length: 5\r\n\r\nhello")]
    let c := runCalls {} {} calls
    let c1 := runCalls {} {} (calls.take 2)
    c.events.reverse.map (·.hook) =
      [.requestStart, .requestUriNormalize, .requestLine, .requestHeaderData, .requestHeaders, .requestComplete,
       .responseStart, .responseLine, .responseHeaderData, .responseHeaders, .responseBodyData, .responseBodyData,
       .responseBodyData, .responseComplete, .transactionComplete] ∧
    c.cbCount = 15 ∧ c.events.length = 15 ∧
    c1.events.reverse.map (·.hook) =
      [.requestStart, .requestUriNormalize, .requestLine, .requestHeaderData, .requestHeaders, .requestComplete] ∧
    c1.cbCount = 6 ∧ c.events.drop 9 = c1.events := by decide

end Htp.Conn
