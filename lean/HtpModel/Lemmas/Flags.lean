/- Bit-mask lemmas for the flag words. -/
import HtpModel.Basic

namespace Htp

theorem hasFlag_or_right (f b : Nat) (hb : b ≠ 0) : hasFlag (f ||| b) b = true := by
  unfold hasFlag
  have h : (f ||| b) &&& b = (f &&& b) ||| b := by
    rw [Nat.and_or_distrib_right, Nat.and_self]
  rw [h]
  have : (f &&& b) ||| b ≠ 0 := by
    intro h0
    exact hb (Nat.or_eq_zero_iff.mp h0).2
  simpa using this

theorem hasFlag_or_left (f g b : Nat) (h : hasFlag f b = true) : hasFlag (f ||| g) b = true := by
  unfold hasFlag at *
  have hne : f &&& b ≠ 0 := by simpa using h
  have h2 : (f ||| g) &&& b = (f &&& b) ||| (g &&& b) := Nat.and_or_distrib_right ..
  rw [h2]
  have : (f &&& b) ||| (g &&& b) ≠ 0 := by
    intro h0
    exact hne (Nat.or_eq_zero_iff.mp h0).1
  simpa using this

theorem hasFlag_mono (f g b : Nat) (h : hasFlag f b = true) : hasFlag (f ||| g) b = true := hasFlag_or_left f g b h

/-- a flag not present in either operand is not present in the union -/
theorem hasFlag_or_false (f g b : Nat) (h1 : hasFlag f b = false) (h2 : hasFlag g b = false) : hasFlag (f ||| g) b = false := by
  unfold hasFlag at *
  have e1 : f &&& b = 0 := by simpa using h1
  have e2 : g &&& b = 0 := by simpa using h2
  have h3 : (f ||| g) &&& b = (f &&& b) ||| (g &&& b) := Nat.and_or_distrib_right ..
  simp [h3, e1, e2]

end Htp
