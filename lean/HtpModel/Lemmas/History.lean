/- Whole call histories: any interleaving of request data calls, response data calls, htp_connp_req_close, htp_connp_close, htp_connp_open
   and htp_connp_tx_freed keeps the two per-direction call invariants - so 'DATA means the whole chunk was consumed' and 'the line buffer
   stays within the hard limit' hold after every prefix of every history, not only call by call. The cross-direction frames are in
   Lemmas/HistoryFrames.lean, the NULL chunk of a close call in Lemmas/HistoryNull.lean. Stream gaps (NULL data with a length) are not
   among the calls. -/
import HtpModel.Lemmas.HistoryFrames
import HtpModel.Lemmas.HistoryNull
import HtpModel.Lemmas.ClInvOut
namespace Htp.Conn
open Htp Htp.Gen

/-! ### the calls an embedder can make, and running a list of them -/

/-- one call of the embedder on a connection parser -/
inductive Call where
  | req (d : Bytes)      -- htp_connp_req_data(connp, ts, d, |d|)
  | res (d : Bytes)      -- htp_connp_res_data(connp, ts, d, |d|)
  | close                -- htp_connp_close
  | reqClose             -- htp_connp_req_close
  | open                 -- htp_connp_open
  | txFreed              -- htp_connp_tx_freed
  deriving Repr, DecidableEq, Inhabited

def runCall (cfg : Cfg) (c : Conn) : Call → Conn
  | .req d => (reqData cfg (some d) d.length c).1
  | .res d => (resData cfg (some d) d.length c).1
  | .close => (connClose cfg c).1
  | .reqClose => (reqClose cfg c).1
  | .open => connOpen c
  | .txFreed => (txFreed c).1

def runCalls (cfg : Cfg) (c : Conn) (calls : List Call) : Conn := calls.foldl (runCall cfg) c

@[simp] theorem runCalls_nil (cfg : Cfg) (c : Conn) : runCalls cfg c [] = c := rfl
@[simp] theorem runCalls_cons (cfg : Cfg) (c : Conn) (call : Call) (rest : List Call) :
    runCalls cfg c (call :: rest) = runCalls cfg (runCall cfg c call) rest := rfl
theorem runCalls_append (cfg : Cfg) (c : Conn) (l1 l2 : List Call) :
    runCalls cfg c (l1 ++ l2) = runCalls cfg (runCalls cfg c l1) l2 := by
  unfold runCalls; exact List.foldl_append

/-- the combined invariant of a connection parser between calls, without the Content-Length part: both line buffers within the hard
    limit, and in both directions the counted body states still owe bytes. It is preserved by every call given `ClAtDecision` for the calls
    that run the request parser (`CallOK`); `HistInv` below adds the state invariant `ClOK` that discharges it. -/
def HistInv0 (cfg : Cfg) (c : Conn) : Prop :=
  inBufLen c ≤ cfg.fieldLimitHard ∧ outBufLen c ≤ cfg.fieldLimitHard ∧ OwedPos c ∧ OwedPosO c

theorem histInv0_of_views {cfg : Cfg} {c c' : Conn} (ki : XIn c c') (ko : KeepOV c c') (h : HistInv0 cfg c) : HistInv0 cfg c' :=
  ⟨by rw [inBufLen_of_xIn ki]; exact h.1, by rw [outBufLen_of_keepOV ko]; exact h.2.1, owedPos_of_xIn ki h.2.2.1,
    owedPosO_of_keepOV ko h.2.2.2⟩

/-- a freshly created connection parser satisfies it -/
theorem histInv0_fresh (cfg : Cfg) : HistInv0 cfg ({} : Conn) :=
  ⟨Nat.zero_le _, Nat.zero_le _, ⟨fun e => absurd e (by decide), fun e => absurd e (by decide)⟩,
    ⟨fun e => absurd e (by decide), fun e => absurd e (by decide)⟩⟩

/-! ### one call -/

/-- the NULL chunk of length 0 with which htp_connp_req_close / htp_connp_close drive the request parser: the stream is marked closed
    first (unless it is in error) -/
def markClosedIn (c : Conn) : Conn :=
  if c.inn.status != STREAM_ERROR then { c with inn := { c.inn with status := STREAM_CLOSED } } else c
def markClosedOut (c : Conn) : Conn :=
  if c.out.status != STREAM_ERROR then { c with out := { c.out with status := STREAM_CLOSED } } else c

theorem reqClose_eq (cfg : Cfg) (c : Conn) : reqClose cfg c = reqData cfg none 0 (markClosedIn c) := rfl
theorem connClose_fst (cfg : Cfg) (c : Conn) :
    (connClose cfg c).1 = (resData cfg none 0 (reqData cfg none 0 (markClosedOut (markClosedIn c))).1).1 := rfl

/-- the outside facts one call needs, in the state it starts from: a chunk length that fits a size_t, and for every call that runs the
    request parser `ClAtDecision` (the Content-Length recorded for an identity body is not negative when the framing decision is taken) -/
def CallOK (cfg : Cfg) (c : Conn) : Call → Prop
  | .req d => (d.length : Int) < 18446744073709551616 ∧ ClAtDecision cfg (reqWakeOther (reqStoreChunk (some d) d.length c))
  | .res d => (d.length : Int) < 18446744073709551616
  | .close => ClAtDecision cfg (reqWakeOther (reqStoreChunk none 0 (markClosedOut (markClosedIn c))))
  | .reqClose => ClAtDecision cfg (reqWakeOther (reqStoreChunk none 0 (markClosedIn c)))
  | .open => True
  | .txFreed => True

theorem histInv0_req (cfg : Cfg) (d : Bytes) (c : Conn) (h : HistInv0 cfg c) (hs : (d.length : Int) < 18446744073709551616)
    (hcl : ClAtDecision cfg (reqWakeOther (reqStoreChunk (some d) d.length c))) :
    HistInv0 cfg (reqData cfg (some d) d.length c).1 := by
  obtain ⟨h1, h2, h3, h4⟩ := h
  obtain ⟨a, b⟩ := reqData_invariant cfg d c hs h1 h3 hcl
  obtain ⟨a', b'⟩ := reqData_keeps_res_invariant cfg (some d) d.length c h2 h4
  exact ⟨a, a', b, b'⟩

theorem histInv0_res (cfg : Cfg) (d : Bytes) (c : Conn) (h : HistInv0 cfg c) (hs : (d.length : Int) < 18446744073709551616) :
    HistInv0 cfg (resData cfg (some d) d.length c).1 := by
  obtain ⟨h1, h2, h3, h4⟩ := h
  obtain ⟨a, b⟩ := resData_invariant cfg d c hs h2 h4
  obtain ⟨a', b'⟩ := resData_keeps_req_invariant cfg (some d) d.length c h1 h3
  exact ⟨a', a, b', b⟩

theorem histInv0_open (cfg : Cfg) (c : Conn) (h : HistInv0 cfg c) : HistInv0 cfg (connOpen c) := by
  unfold connOpen
  split
  · exact h
  · exact histInv0_of_views (XIn.of_keep rfl) rfl h

theorem txFreedLoop_views (fuel : Nat) (c : Conn) (r : Nat) : KeepIV c (txFreedLoop fuel c r).1 ∧ KeepOV c (txFreedLoop fuel c r).1 := by
  induction fuel generalizing c r with
  | zero => unfold txFreedLoop; exact ⟨rfl, rfl⟩
  | succ k ih =>
    unfold txFreedLoop
    split
    · rename_i rest _
      obtain ⟨a, b⟩ := ih { c with txs := rest, outNextTxIndex := c.outNextTxIndex - 1 } (r + 1)
      exact ⟨KeepIV.trans (b := { c with txs := rest, outNextTxIndex := c.outNextTxIndex - 1 }) rfl a,
        KeepOV.trans (b := { c with txs := rest, outNextTxIndex := c.outNextTxIndex - 1 }) rfl b⟩
    · exact ⟨rfl, rfl⟩

theorem histInv0_txFreed (cfg : Cfg) (c : Conn) (h : HistInv0 cfg c) : HistInv0 cfg (txFreed c).1 := by
  unfold txFreed
  obtain ⟨a, b⟩ := txFreedLoop_views c.txs.length c 0
  exact histInv0_of_views (XIn.of_keep a) b h

theorem histInv0_markClosedIn (cfg : Cfg) (c : Conn) (h : HistInv0 cfg c) : HistInv0 cfg (markClosedIn c) := by
  unfold markClosedIn
  split
  · exact histInv0_of_views (XIn.of_keep rfl) rfl h
  · exact h

theorem histInv0_markClosedOut (cfg : Cfg) (c : Conn) (h : HistInv0 cfg c) : HistInv0 cfg (markClosedOut c) := by
  unfold markClosedOut
  split
  · exact histInv0_of_views (XIn.of_keep rfl) rfl h
  · exact h

/-- the request half of a close: htp_connp_req_data(connp, ts, NULL, 0) -/
theorem histInv0_reqNull (cfg : Cfg) (c : Conn) (h : HistInv0 cfg c)
    (hcl : ClAtDecision cfg (reqWakeOther (reqStoreChunk none 0 c))) : HistInv0 cfg (reqData cfg none 0 c).1 := by
  obtain ⟨h1, h2, h3, h4⟩ := h
  obtain ⟨a', b'⟩ := reqData_keeps_res_invariant cfg none 0 c h2 h4
  exact ⟨reqData_null_buffer_bounded cfg 0 c h1, a', reqData_null_owedPos cfg c h3 hcl, b'⟩

/-- the response half of a close: htp_connp_res_data(connp, ts, NULL, 0) -/
theorem histInv0_resNull (cfg : Cfg) (c : Conn) (h : HistInv0 cfg c) : HistInv0 cfg (resData cfg none 0 c).1 := by
  obtain ⟨h1, h2, h3, h4⟩ := h
  obtain ⟨a', b'⟩ := resData_keeps_req_invariant cfg none 0 c h1 h3
  exact ⟨a', resData_null_buffer_bounded cfg 0 c h2, b', resData_null_owedPosO cfg c h4⟩

theorem histInv0_reqClose (cfg : Cfg) (c : Conn) (h : HistInv0 cfg c)
    (hcl : ClAtDecision cfg (reqWakeOther (reqStoreChunk none 0 (markClosedIn c)))) : HistInv0 cfg (reqClose cfg c).1 := by
  rw [reqClose_eq]
  exact histInv0_reqNull cfg _ (histInv0_markClosedIn cfg c h) hcl

theorem histInv0_close (cfg : Cfg) (c : Conn) (h : HistInv0 cfg c)
    (hcl : ClAtDecision cfg (reqWakeOther (reqStoreChunk none 0 (markClosedOut (markClosedIn c))))) : HistInv0 cfg (connClose cfg c).1 := by
  rw [connClose_fst]
  exact histInv0_resNull cfg _ (histInv0_reqNull cfg _ (histInv0_markClosedOut cfg _ (histInv0_markClosedIn cfg c h)) hcl)

/-- **one call of any kind keeps the combined invariant** -/
theorem runCall_inv0 (cfg : Cfg) (c : Conn) (call : Call) (h : HistInv0 cfg c) (hok : CallOK cfg c call) : HistInv0 cfg (runCall cfg c call) := by
  cases call with
  | req d => exact histInv0_req cfg d c h hok.1 hok.2
  | res d => exact histInv0_res cfg d c h hok
  | close => exact histInv0_close cfg c h hok
  | reqClose => exact histInv0_reqClose cfg c h hok
  | «open» => exact histInv0_open cfg c h
  | txFreed => exact histInv0_txFreed cfg c h

/-! ### a whole history -/

/-- the outside facts about a history: every call, in the state the calls before it lead to, satisfies `CallOK` -/
def HistOK (cfg : Cfg) (c0 : Conn) (calls : List Call) : Prop :=
  ∀ pre call, pre ++ [call] <+: calls → CallOK cfg (runCalls cfg c0 pre) call

theorem HistOK.head {cfg : Cfg} {c0 : Conn} {call : Call} {rest : List Call} (h : HistOK cfg c0 (call :: rest)) : CallOK cfg c0 call :=
  h [] call (by simp)

theorem HistOK.tail {cfg : Cfg} {c0 : Conn} {call : Call} {rest : List Call} (h : HistOK cfg c0 (call :: rest)) :
    HistOK cfg (runCall cfg c0 call) rest := by
  intro pre cl hp
  have := h (call :: pre) cl (by simpa [List.cons_prefix_cons] using hp)
  simpa using this

theorem HistOK.prefix {cfg : Cfg} {c0 : Conn} {pre calls : List Call} (h : HistOK cfg c0 calls) (hp : pre <+: calls) : HistOK cfg c0 pre :=
  fun p cl hq => h p cl (List.IsPrefix.trans hq hp)

/-- the way the hypotheses are usually at hand: a size bound for every data chunk of the history, and `ClAtDecision` for every call that
    runs the request parser, stated for the state the earlier calls lead to -/
theorem histOK_of (cfg : Cfg) (c0 : Conn) (calls : List Call)
    (hsz : ∀ call ∈ calls, ∀ d, (call = .req d ∨ call = .res d) → (d.length : Int) < 18446744073709551616)
    (hreq : ∀ pre d, pre ++ [.req d] <+: calls → ClAtDecision cfg (reqWakeOther (reqStoreChunk (some d) d.length (runCalls cfg c0 pre))))
    (hrc : ∀ pre, pre ++ [.reqClose] <+: calls → ClAtDecision cfg (reqWakeOther (reqStoreChunk none 0 (markClosedIn (runCalls cfg c0 pre)))))
    (hcl : ∀ pre, pre ++ [.close] <+: calls →
      ClAtDecision cfg (reqWakeOther (reqStoreChunk none 0 (markClosedOut (markClosedIn (runCalls cfg c0 pre)))))) :
    HistOK cfg c0 calls := by
  intro pre call hp
  have hmem : call ∈ calls := by
    obtain ⟨t, ht⟩ := hp
    rw [← ht]; simp
  cases call with
  | req d => exact ⟨hsz _ hmem d (Or.inl rfl), hreq pre d hp⟩
  | res d => exact hsz _ hmem d (Or.inr rfl)
  | close => exact hcl pre hp
  | reqClose => exact hrc pre hp
  | «open» => trivial
  | txFreed => trivial

/-! ### a whole history, with the outside facts as hypotheses (`HistOK`) -/

/-- **the combined invariant holds after any history of calls** (request and response data chunks, closes, open, tx_freed, in any order),
    started from a state that has it - for every callback policy, given for the data chunks a length that fits a size_t and for the calls
    that run the request parser the outside fact `ClAtDecision` -/
theorem history_inv0 (cfg : Cfg) (c0 : Conn) (calls : List Call) (h0 : HistInv0 cfg c0) (hok : HistOK cfg c0 calls) :
    HistInv0 cfg (runCalls cfg c0 calls) := by
  induction calls generalizing c0 with
  | nil => exact h0
  | cons call rest ih =>
    rw [runCalls_cons]
    exact ih _ (runCall_inv0 cfg c0 call h0 hok.head) hok.tail

/-- ... and after every prefix of it -/
theorem history_inv0_prefix (cfg : Cfg) (c0 : Conn) (calls pre : List Call) (h0 : HistInv0 cfg c0) (hok : HistOK cfg c0 calls)
    (hp : pre <+: calls) : HistInv0 cfg (runCalls cfg c0 pre) :=
  history_inv0 cfg c0 pre h0 (hok.prefix hp)

/-- **both line buffers are within the hard limit after every prefix of every history** -/
theorem history_buffer_bounded0 (cfg : Cfg) (c0 : Conn) (calls pre : List Call) (h0 : HistInv0 cfg c0) (hok : HistOK cfg c0 calls)
    (hp : pre <+: calls) :
    inBufLen (runCalls cfg c0 pre) ≤ cfg.fieldLimitHard ∧ outBufLen (runCalls cfg c0 pre) ≤ cfg.fieldLimitHard :=
  ⟨(history_inv0_prefix cfg c0 calls pre h0 hok hp).1, (history_inv0_prefix cfg c0 calls pre h0 hok hp).2.1⟩

/-- **DATA means the whole chunk was consumed, at every data call of every history**: whatever calls of either direction came before, a
    request (response) data call that returns HTP_STREAM_DATA leaves the read cursor of its direction at the end of the chunk -/
theorem history_data_means_consumed0 (cfg : Cfg) (c0 : Conn) (calls : List Call) (h0 : HistInv0 cfg c0) (hok : HistOK cfg c0 calls) :
    (∀ pre d, pre ++ [.req d] <+: calls → (reqData cfg (some d) d.length (runCalls cfg c0 pre)).2 = STREAM_DATA →
      (reqData cfg (some d) d.length (runCalls cfg c0 pre)).1.inn.read = (reqData cfg (some d) d.length (runCalls cfg c0 pre)).1.inn.len) ∧
    (∀ pre d, pre ++ [.res d] <+: calls → (resData cfg (some d) d.length (runCalls cfg c0 pre)).2 = STREAM_DATA →
      (resData cfg (some d) d.length (runCalls cfg c0 pre)).1.out.read = (resData cfg (some d) d.length (runCalls cfg c0 pre)).1.out.len) := by
  refine ⟨fun pre d hp hdata => ?_, fun pre d hp hdata => ?_⟩
  · have hinv := history_inv0_prefix cfg c0 calls pre h0 hok (List.IsPrefix.trans (List.prefix_append pre [Call.req d]) hp)
    have hc : CallOK cfg (runCalls cfg c0 pre) (.req d) := hok pre _ hp
    exact reqData_data_consumed_inv cfg d _ hc.1 hinv.1 hinv.2.2.1 hc.2 hdata
  · have hinv := history_inv0_prefix cfg c0 calls pre h0 hok (List.IsPrefix.trans (List.prefix_append pre [Call.res d]) hp)
    have hc : CallOK cfg (runCalls cfg c0 pre) (.res d) := hok pre _ hp
    exact resData_data_consumed_inv cfg d _ hc hinv.2.1 hinv.2.2.2 hdata

/-! ### closing the invariant: `ClOK` (Lemmas/ClInv.lean, Lemmas/ClInvOut.lean) discharges `ClAtDecision` -/

/-- **the combined invariant of a connection parser between calls**: both line buffers within the hard limit, in both directions the
    counted body states still owe bytes, and every transaction with an identity request body has a non-negative Content-Length -/
def HistInv (cfg : Cfg) (c : Conn) : Prop :=
  inBufLen c ≤ cfg.fieldLimitHard ∧ outBufLen c ≤ cfg.fieldLimitHard ∧ OwedPos c ∧ OwedPosO c ∧ ClOK c

theorem HistInv.inv0 {cfg : Cfg} {c : Conn} (h : HistInv cfg c) : HistInv0 cfg c := ⟨h.1, h.2.1, h.2.2.1, h.2.2.2.1⟩
theorem HistInv.clOK {cfg : Cfg} {c : Conn} (h : HistInv cfg c) : ClOK c := h.2.2.2.2
theorem HistInv.mk' {cfg : Cfg} {c : Conn} (h : HistInv0 cfg c) (hc : ClOK c) : HistInv cfg c := ⟨h.1, h.2.1, h.2.2.1, h.2.2.2, hc⟩

/-- **a freshly created connection parser satisfies it** -/
theorem histInv_fresh (cfg : Cfg) : HistInv cfg ({} : Conn) := HistInv.mk' (histInv0_fresh cfg) clOK_init

/-- the only hypothesis left on a call: the length of a data chunk fits a size_t -/
def CallSize : Call → Prop
  | .req d => (d.length : Int) < 18446744073709551616
  | .res d => (d.length : Int) < 18446744073709551616
  | _ => True

/-- ... on every call of a history -/
def SizesOK (calls : List Call) : Prop := ∀ call ∈ calls, CallSize call

theorem clOK_markClosedIn (c : Conn) (h : ClOK c) : ClOK (markClosedIn c) := by
  unfold markClosedIn
  split
  · exact h
  · exact h

theorem clOK_markClosedOut (c : Conn) (h : ClOK c) : ClOK (markClosedOut c) := by
  unfold markClosedOut
  split
  · exact h
  · exact h

theorem clAtDecision_store (cfg : Cfg) (data : Option Bytes) (len : Nat) (c : Conn) (h : ClOK c) :
    ClAtDecision cfg (reqWakeOther (reqStoreChunk data len c)) :=
  clAtDecision_of_clOK cfg _ ((keepCl_reqWakeOther _).keep ((keepCl_reqStoreChunk data len c).keep h))

/-- with `ClOK`, the outside facts of a call reduce to the size bound -/
theorem callOK_of_clOK (cfg : Cfg) (c : Conn) (call : Call) (h : ClOK c) (hs : CallSize call) : CallOK cfg c call := by
  cases call with
  | req d => exact ⟨hs, clAtDecision_store cfg _ _ c h⟩
  | res d => exact hs
  | close => exact clAtDecision_store cfg _ _ _ (clOK_markClosedOut _ (clOK_markClosedIn c h))
  | reqClose => exact clAtDecision_store cfg _ _ _ (clOK_markClosedIn c h)
  | «open» => trivial
  | txFreed => trivial

theorem clOK_runCall (cfg : Cfg) (c : Conn) (call : Call) (h : ClOK c) : ClOK (runCall cfg c call) := by
  cases call with
  | req d => exact clOK_reqData cfg _ _ c h
  | res d => exact clOK_resData cfg _ _ c h
  | close => exact clOK_connClose cfg c h
  | reqClose => exact clOK_reqClose cfg c h
  | «open» => exact clOK_connOpen c h
  | txFreed => exact clOK_txFreed c h

theorem clOK_runCalls (cfg : Cfg) (c : Conn) (calls : List Call) (h : ClOK c) : ClOK (runCalls cfg c calls) := by
  induction calls generalizing c with
  | nil => exact h
  | cons call rest ih => rw [runCalls_cons]; exact ih _ (clOK_runCall cfg c call h)

/-- **one call of any kind keeps the combined invariant**; the only hypothesis is the size bound of a data chunk -/
theorem runCall_inv (cfg : Cfg) (c : Conn) (call : Call) (h : HistInv cfg c) (hs : CallSize call) : HistInv cfg (runCall cfg c call) :=
  HistInv.mk' (runCall_inv0 cfg c call h.inv0 (callOK_of_clOK cfg c call h.clOK hs)) (clOK_runCall cfg c call h.clOK)

/-- the per-call statements, spelled out -/
theorem histInv_req (cfg : Cfg) (d : Bytes) (c : Conn) (h : HistInv cfg c) (hs : (d.length : Int) < 18446744073709551616) :
    HistInv cfg (reqData cfg (some d) d.length c).1 := runCall_inv cfg c (.req d) h hs
theorem histInv_res (cfg : Cfg) (d : Bytes) (c : Conn) (h : HistInv cfg c) (hs : (d.length : Int) < 18446744073709551616) :
    HistInv cfg (resData cfg (some d) d.length c).1 := runCall_inv cfg c (.res d) h hs
theorem histInv_close (cfg : Cfg) (c : Conn) (h : HistInv cfg c) : HistInv cfg (connClose cfg c).1 := runCall_inv cfg c .close h trivial
theorem histInv_reqClose (cfg : Cfg) (c : Conn) (h : HistInv cfg c) : HistInv cfg (reqClose cfg c).1 := runCall_inv cfg c .reqClose h trivial
theorem histInv_open (cfg : Cfg) (c : Conn) (h : HistInv cfg c) : HistInv cfg (connOpen c) := runCall_inv cfg c .open h trivial
theorem histInv_txFreed (cfg : Cfg) (c : Conn) (h : HistInv cfg c) : HistInv cfg (txFreed c).1 := runCall_inv cfg c .txFreed h trivial

/-- from `ClOK` at the start and the size bounds, the outside facts of the whole history -/
theorem histOK_of_clOK (cfg : Cfg) (c0 : Conn) (calls : List Call) (h : ClOK c0) (hsz : SizesOK calls) : HistOK cfg c0 calls := by
  intro pre call hp
  have hmem : call ∈ calls := by
    obtain ⟨t, ht⟩ := hp
    rw [← ht]; simp
  exact callOK_of_clOK cfg _ call (clOK_runCalls cfg c0 pre h) (hsz call hmem)

/-! ## the headline theorems: no outside fact - only the size bound of each data chunk and `HistInv` of the start state -/

/-- **the combined invariant holds after any history of calls** - request and response data chunks, htp_connp_req_close, htp_connp_close,
    htp_connp_open, htp_connp_tx_freed, in any order and number - started from a state that has it, for every configuration and every
    callback policy. (Stream gaps are not among the calls.) -/
theorem history_inv (cfg : Cfg) (c0 : Conn) (calls : List Call) (h0 : HistInv cfg c0) (hsz : SizesOK calls) :
    HistInv cfg (runCalls cfg c0 calls) :=
  HistInv.mk' (history_inv0 cfg c0 calls h0.inv0 (histOK_of_clOK cfg c0 calls h0.clOK hsz)) (clOK_runCalls cfg c0 calls h0.clOK)

/-- ... and after every prefix of it -/
theorem history_inv_prefix (cfg : Cfg) (c0 : Conn) (calls pre : List Call) (h0 : HistInv cfg c0) (hsz : SizesOK calls)
    (hp : pre <+: calls) : HistInv cfg (runCalls cfg c0 pre) :=
  history_inv cfg c0 pre h0 (fun call hm => hsz call (hp.subset hm))

/-- **both line buffers are within the hard limit after every prefix of every history** -/
theorem history_buffer_bounded (cfg : Cfg) (c0 : Conn) (calls pre : List Call) (h0 : HistInv cfg c0) (hsz : SizesOK calls)
    (hp : pre <+: calls) :
    inBufLen (runCalls cfg c0 pre) ≤ cfg.fieldLimitHard ∧ outBufLen (runCalls cfg c0 pre) ≤ cfg.fieldLimitHard :=
  ⟨(history_inv_prefix cfg c0 calls pre h0 hsz hp).1, (history_inv_prefix cfg c0 calls pre h0 hsz hp).2.1⟩

/-- **DATA means the whole chunk was consumed, at every data call of every history**: whatever calls of either direction came before, a
    request (response) data call that returns HTP_STREAM_DATA leaves the read cursor of its direction at the end of the chunk -/
theorem history_data_means_consumed (cfg : Cfg) (c0 : Conn) (calls : List Call) (h0 : HistInv cfg c0) (hsz : SizesOK calls) :
    (∀ pre d, pre ++ [.req d] <+: calls → (reqData cfg (some d) d.length (runCalls cfg c0 pre)).2 = STREAM_DATA →
      (reqData cfg (some d) d.length (runCalls cfg c0 pre)).1.inn.read = (reqData cfg (some d) d.length (runCalls cfg c0 pre)).1.inn.len) ∧
    (∀ pre d, pre ++ [.res d] <+: calls → (resData cfg (some d) d.length (runCalls cfg c0 pre)).2 = STREAM_DATA →
      (resData cfg (some d) d.length (runCalls cfg c0 pre)).1.out.read = (resData cfg (some d) d.length (runCalls cfg c0 pre)).1.out.len) :=
  history_data_means_consumed0 cfg c0 calls h0.inv0 (histOK_of_clOK cfg c0 calls h0.clOK hsz)

/-- **the same for a connection parser from its creation**: every history of calls on a fresh connection parser -/
theorem history_fresh (cfg : Cfg) (calls : List Call) (hsz : SizesOK calls) :
    HistInv cfg (runCalls cfg {} calls) ∧
    (∀ pre, pre <+: calls → inBufLen (runCalls cfg {} pre) ≤ cfg.fieldLimitHard ∧ outBufLen (runCalls cfg {} pre) ≤ cfg.fieldLimitHard) ∧
    (∀ pre d, pre ++ [.req d] <+: calls → (reqData cfg (some d) d.length (runCalls cfg {} pre)).2 = STREAM_DATA →
      (reqData cfg (some d) d.length (runCalls cfg {} pre)).1.inn.read = (reqData cfg (some d) d.length (runCalls cfg {} pre)).1.inn.len) ∧
    (∀ pre d, pre ++ [.res d] <+: calls → (resData cfg (some d) d.length (runCalls cfg {} pre)).2 = STREAM_DATA →
      (resData cfg (some d) d.length (runCalls cfg {} pre)).1.out.read = (resData cfg (some d) d.length (runCalls cfg {} pre)).1.out.len) :=
  ⟨history_inv cfg {} calls (histInv_fresh cfg) hsz,
   fun pre hp => history_buffer_bounded cfg {} calls pre (histInv_fresh cfg) hsz hp,
   (history_data_means_consumed cfg {} calls (histInv_fresh cfg) hsz).1,
   (history_data_means_consumed cfg {} calls (histInv_fresh cfg) hsz).2⟩

/-- the size hypothesis is met by every history whose chunks are shorter than 2^64 bytes - e.g. all of these -/
example : SizesOK [.open, .req (b!"GET /"), .res (b!"HTTP/1.1 2"), .close, .txFreed] := by
  intro call hm
  simp only [List.mem_cons, List.mem_nil_iff, or_false] at hm
  rcases hm with h | h | h | h | h <;> subst h <;> first | trivial | (show ((_ : Nat) : Int) < _; decide)

/-! ### non-vacuity -/

/-- an interleaved history from a fresh connection parser: an unterminated request line, then an unterminated status line. Both data calls
    return HTP_STREAM_DATA with the read cursor at the end of the chunk, and both line buffers hold what was set aside (5 and 10 bytes) -/
example :
    let calls : List Call := [.open, .req (b!"GET /"), .res (b!"HTTP/1.1 2")]
    let c := runCalls {} {} calls
    inBufLen c = 5 ∧ outBufLen c = 10 ∧ c.inState = .line ∧ c.outState = .line ∧
    (reqData {} (some (b!"GET /")) 5 (runCalls {} {} [.open])).2 = STREAM_DATA ∧
    (resData {} (some (b!"HTTP/1.1 2")) 10 (runCalls {} {} [.open, .req (b!"GET /")])).2 = STREAM_DATA ∧
    c.inn.read = c.inn.len ∧ c.out.read = c.out.len := by decide

/-- a history that ends inside a counted body state: a complete request, then a response whose Content-Length body is cut after 2 of 5
    bytes - the response parser waits in RES_BODY_IDENTITY_CL_KNOWN still owing 3 bytes (`OwedPosO` is not vacuous) -/
example :
    let calls : List Call := [.open, .req (b!"GET / HTTP/1.0\r\n\r\n"), .res (b!"HTTP/1.0 200 OK\r\nContent-Length: 5\r\n\r\nok")]
    let c := runCalls {} {} calls
    c.outState = .bodyIdentityClKnown ∧ c.out.bodyDataLeft = 3 ∧ c.inState = .idle ∧ inBufLen c = 0 ∧ outBufLen c = 0 := by decide

end Htp.Conn
