/- C09, the byte-counter clause: the per-connection byte counters equal the bytes offered. Part 1: frames - nothing below the two drivers
   writes `inDataCounter` / `outDataCounter` (the `KeepCtr` family, function by function after Lemmas/StateFrame.lean and the `KeepU` family
   of Lemmas/TunnelFrames.lean); only the two store-chunk steps (htp_conn_track_inbound_data / _outbound_data) do. Part 2: one call, exactly.
   Part 3: whole histories. -/
import HtpModel.Lemmas.History
namespace Htp.Conn
open Htp Htp.Gen

/-! ## Part 1: frames -/

/-- `f` leaves the two byte counters alone -/
def KeepCtr (c c' : Conn) : Prop := c'.inDataCounter = c.inDataCounter ∧ c'.outDataCounter = c.outDataCounter

@[refl] theorem KeepCtr.refl (c : Conn) : KeepCtr c c := ⟨rfl, rfl⟩
theorem KeepCtr.trans {a b c : Conn} (h1 : KeepCtr a b) (h2 : KeepCtr b c) : KeepCtr a c :=
  ⟨h2.1.trans h1.1, h2.2.trans h1.2⟩

/-- a step that rebuilds the record on other fields -/
macro "ku" : tactic => `(tactic| first | exact ⟨rfl, rfl⟩ | exact KeepCtr.refl _)

theorem keepCtr_destroyTx (u : Nat) (c : Conn) : KeepCtr c (destroyTx u c) := by
  unfold destroyTx
  exact ⟨rfl, rfl⟩

theorem keepCtr_modTx (u : Nat) (f : Tx → Tx) (c : Conn) : KeepCtr c (c.modTx u f) := ⟨rfl, rfl⟩
theorem keepCtr_setTx (t : Tx) (c : Conn) : KeepCtr c (c.setTx t) := ⟨rfl, rfl⟩

theorem keepCtr_runCallback (h : Hook) (uid : Option Nat) (data : Option Bytes) (isLast : Bool) (c : Conn) (g : Nat) (s : Bool) :
    KeepCtr c (runCallback h uid data isLast c g s).1 := by
  unfold runCallback
  simp only
  cases lookupAction c.policy c.cbCount with
  | ok => exact ⟨rfl, rfl⟩
  | declined => exact ⟨rfl, rfl⟩
  | stop => exact ⟨rfl, rfl⟩
  | error => exact ⟨rfl, rfl⟩
  | destroyTx =>
    simp only
    cases uid.bind c.findTx with
    | none => exact ⟨rfl, rfl⟩
    | some t =>
      simp only
      split
      · exact keepCtr_destroyTx _ _
      · exact ⟨rfl, rfl⟩
  | regTxHooks =>
    simp only
    cases uid with
    | none => exact ⟨rfl, rfl⟩
    | some u => exact ⟨rfl, rfl⟩

/-- sequencing with `>>?` preserves the frame -/
theorem keepCtr_andThen (c0 : Conn) (r : R) (f : Conn → R) (h1 : KeepCtr c0 r.1) (h2 : ∀ c, KeepCtr c (f c).1) :
    KeepCtr c0 (r >>? f).1 := by
  unfold R.andThen
  split
  · exact h1.trans (h2 r.1)
  · exact h1

theorem keepCtr_runCallbackN (n : Nat) (h : Hook) (uid : Option Nat) (data : Option Bytes) (isLast : Bool) (g : Nat) (c : Conn) :
    KeepCtr c (runCallbackN n h uid data isLast g c).1 := by
  induction n generalizing c with
  | zero => exact KeepCtr.refl c
  | succ k ih =>
    unfold runCallbackN
    exact keepCtr_andThen c _ _ (keepCtr_runCallback ..) (fun c' => ih c')

theorem keepCtr_urlencBodyCallback (cfg : Cfg) (uid : Nat) (data : Option Bytes) (c : Conn) :
    KeepCtr c (urlencBodyCallback cfg uid data c).1 := by
  unfold urlencBodyCallback
  cases c.findTx uid with
  | none => exact KeepCtr.refl c
  | some t =>
    simp only
    cases t.urlenBody with
    | none => exact KeepCtr.refl c
    | some u =>
      simp only
      split
      · exact KeepCtr.refl c
      · cases data with
        | some d => exact keepCtr_setTx _ _
        | none => exact keepCtr_setTx _ _

theorem keepCtr_mpartFileEvents (uid : Nat) (evs : List (Nat × Option Bytes)) (c : Conn) :
    KeepCtr c (mpartFileEvents uid evs c) := by
  induction evs generalizing c with
  | nil => exact KeepCtr.refl c
  | cons e rest ih =>
    obtain ⟨i, d⟩ := e
    unfold mpartFileEvents
    exact (keepCtr_runCallback ..).trans (ih _)

theorem keepCtr_mpartBodyCallback (uid : Nat) (data : Option Bytes) (c : Conn) :
    KeepCtr c (mpartBodyCallback uid data c).1 := by
  unfold mpartBodyCallback
  cases c.findTx uid with
  | none => exact KeepCtr.refl c
  | some t =>
    simp only
    cases t.mpart with
    | none => exact KeepCtr.refl c
    | some mp =>
      simp only
      split
      · exact KeepCtr.refl c
      · cases data with
        | some d => exact (keepCtr_setTx _ c).trans (keepCtr_mpartFileEvents ..)
        | none => exact (keepCtr_setTx _ c).trans (keepCtr_mpartFileEvents ..)

theorem keepCtr_runTxReqBodyHooks (cfg : Cfg) (uid : Nat) (data : Option Bytes) (isLast : Bool) (g : Nat) (hs : List TxHook) (c : Conn) :
    KeepCtr c (runTxReqBodyHooks cfg uid data isLast g hs c).1 := by
  induction hs generalizing c with
  | nil => exact KeepCtr.refl c
  | cons h rest ih =>
    unfold runTxReqBodyHooks
    apply keepCtr_andThen
    · cases h with
      | user => exact keepCtr_runCallback ..
      | urlenc => exact keepCtr_urlencBodyCallback ..
      | mpart => exact keepCtr_mpartBodyCallback ..
    · intro c'
      exact ih c'

theorem keepCtr_reqRunHookBodyDataL (cfg : Cfg) (data : Option Bytes) (g : Nat) (l : Bool) (c : Conn) :
    KeepCtr c (reqRunHookBodyDataL cfg data g l c).1 := by
  unfold reqRunHookBodyDataL
  split
  · exact KeepCtr.refl c
  · cases c.inn.tx with
    | none => exact KeepCtr.refl c
    | some uid =>
      simp only
      apply keepCtr_andThen
      · exact keepCtr_runTxReqBodyHooks ..
      · intro c2
        apply keepCtr_andThen
        · exact keepCtr_runCallback ..
        · intro c3
          split
          · exact keepCtr_runCallback ..
          · exact KeepCtr.refl c3

theorem keepCtr_reqRunHookBodyData (cfg : Cfg) (data : Option Bytes) (g : Nat) (c : Conn) :
    KeepCtr c (reqRunHookBodyData cfg data g c).1 := by
  unfold reqRunHookBodyData; exact keepCtr_reqRunHookBodyDataL ..

theorem keepCtr_unsupported (c : Conn) : KeepCtr c { c with unsupported := true } := ⟨rfl, rfl⟩
theorem keepCtr_zoracle (c : Conn) (zs : List ZRes) : KeepCtr c { c with zoracle := zs } := ⟨rfl, rfl⟩

theorem keepCtr_resRunHookBodyData (data : Option Bytes) (c : Conn) : KeepCtr c (resRunHookBodyData data c).1 := by
  unfold resRunHookBodyData
  split
  · exact KeepCtr.refl c
  · cases c.out.tx with
    | none => exact KeepCtr.refl c
    | some uid =>
      simp only
      apply keepCtr_andThen
      · exact keepCtr_runCallbackN ..
      · intro c2; exact keepCtr_runCallback ..

theorem keepCtr_decFinalCallback (cfg : Cfg) (req : Bool) (uid : Nat) (l : Bool) (data : Option Bytes) (c : Conn) :
    KeepCtr c (decFinalCallback cfg req uid l data c).1 := by
  unfold decFinalCallback
  simp only
  cases req with
  | true =>
    simp only [if_true]
    have h := keepCtr_reqRunHookBodyDataL cfg data 0 l (c.modTx uid fun t => { t with reqEntityLen := t.reqEntityLen + (data.map (·.length)).getD 0 })
    have h0 := (keepCtr_modTx uid (fun t => { t with reqEntityLen := t.reqEntityLen + (data.map (·.length)).getD 0 }) c).trans h
    split
    · exact h0
    · split <;> exact h0
  | false =>
    simp only [Bool.false_eq_true, if_false]
    have h := keepCtr_resRunHookBodyData data (c.modTx uid fun t => { t with resEntityLen := t.resEntityLen + (data.map (·.length)).getD 0 })
    have h0 := (keepCtr_modTx uid (fun t => { t with resEntityLen := t.resEntityLen + (data.map (·.length)).getD 0 }) c).trans h
    split
    · exact h0
    · split <;> exact h0


/-- the functions of the decompression driver leave both direction records alone (apart from cleared tx references): they only
    touch the oracle, the unsupported marker, and what the callbacks touch -/
theorem keepCtr_dec (cfg : Cfg) (req : Bool) (uid : Nat) : ∀ fuel : Nat,
    (∀ l useNext rest data c, KeepCtr c (decSend cfg req uid l fuel useNext rest data c).2.1) ∧
    (∀ d drec rest inp c, KeepCtr c (decLoop cfg req uid d fuel drec rest inp c).2.1) ∧
    (∀ d drec rest inp c, KeepCtr c (decStep cfg req uid d fuel drec rest inp c).2.1) ∧
    (∀ ds data c, KeepCtr c (decompress cfg req uid fuel ds data c).2.1) := by
  intro fuel
  induction fuel with
  | zero =>
    refine ⟨?_, ?_, ?_, ?_⟩
    · intro l useNext rest data c; unfold decSend; exact keepCtr_unsupported c
    · intro d drec rest inp c; unfold decLoop; exact keepCtr_unsupported c
    · intro d drec rest inp c; unfold decStep; exact keepCtr_unsupported c
    · intro ds data c; unfold decompress; exact keepCtr_unsupported c
  | succ k ih =>
    obtain ⟨ihS, ihL, ihT, ihD⟩ := ih
    refine ⟨?_, ?_, ?_, ?_⟩
    · intro l useNext rest data c
      unfold decSend
      split
      · exact ihD ..
      · exact keepCtr_decFinalCallback ..
    · intro d drec rest inp c
      unfold decLoop
      split
      · exact KeepCtr.refl c
      · by_cases hfull : (drec.buf.length == GZIP_BUF_SIZE) = true
        · simp only [hfull, if_true]
          rcases hx : decSend cfg req uid false k (drec.kind != 0) rest (some drec.buf) c with ⟨rest1, c1, rc1⟩
          have f1 : KeepCtr c c1 := by have := ihS false (drec.kind != 0) rest (some drec.buf) c; rw [hx] at this; exact this
          simp only
          by_cases hrc : (rc1 != Rc.ok) = true
          · simp only [hrc, if_true]; exact f1
          · simp only [hrc, Bool.false_eq_true, if_false]
            exact f1.trans (ihT ..)
        · simp only [hfull, Bool.false_eq_true, if_false]
          exact ihT ..
    · intro d drec rest inp c
      unfold decStep
      split
      · exact keepCtr_unsupported c
      split
      · exact KeepCtr.refl c
      split
      · exact keepCtr_unsupported c
      · rename_i z zs hz
        simp only
        generalize (if ((drec.buf ++ z.produced).length > 0 && z.rc == Z_DATA_ERROR) = true then Z_STREAM_END else z.rc) = rcv
        split
        · -- stream end: the buffer goes out
          rcases hx : decSend cfg req uid false k (drec.kind != 0) rest (some (drec.buf ++ z.produced)) { c with zoracle := zs } with ⟨rest1, c1, rc1⟩
          have f1 : KeepCtr c c1 := by
            have := ihS false (drec.kind != 0) rest (some (drec.buf ++ z.produced)) { c with zoracle := zs }
            rw [hx] at this; exact (keepCtr_zoracle c zs).trans this
          simp only
          split <;> exact f1
        · split
          · split
            · split
              · exact keepCtr_zoracle c zs
              · exact (keepCtr_zoracle c zs).trans (ihL ..)
            · rcases hx : decFinalCallback cfg req uid false (some d) { c with zoracle := zs } with ⟨c1, rc1⟩
              have f1 : KeepCtr c c1 := by
                have := keepCtr_decFinalCallback cfg req uid false (some d) { c with zoracle := zs }
                rw [hx] at this; exact (keepCtr_zoracle c zs).trans this
              simp only
              split <;> exact f1
          · exact (keepCtr_zoracle c zs).trans (ihL ..)
    · intro ds data c
      unfold decompress
      cases ds with
      | nil => exact KeepCtr.refl c
      | cons drec rest =>
        simp only
        split
        · rcases hx : decFinalCallback cfg req uid data.isNone data c with ⟨c1, rc1⟩
          have f1 : KeepCtr c c1 := by have := keepCtr_decFinalCallback cfg req uid data.isNone data c; rw [hx] at this; exact this
          exact f1
        · cases data with
          | none =>
            simp only
            rcases hx : decSend cfg req uid true k (drec.kind != 0) rest (if drec.buf.length > 0 then some drec.buf else none) c with ⟨rest1, c1, rc1⟩
            have f1 : KeepCtr c c1 := by
              have := ihS true (drec.kind != 0) rest (if drec.buf.length > 0 then some drec.buf else none) c; rw [hx] at this; exact this
            simp only
            split <;> exact f1
          | some d => exact ihL ..


/-- body processing leaves both direction records alone - with or without the request decompressor in the way -/
theorem keepCtr_reqProcessBodyData (cfg : Cfg) (data : Option Bytes) (g : Nat) (c : Conn) :
    KeepCtr c (reqProcessBodyData cfg data g c).1 := by
  unfold reqProcessBodyData
  cases c.inn.tx with
  | none => exact KeepCtr.refl c
  | some uid =>
    simp only
    split
    · split
      · exact KeepCtr.refl c
      · split
        · exact keepCtr_unsupported c
        split
        · exact keepCtr_unsupported c
        · rcases hx : decompress cfg true uid (8 * (data.map (·.length)).getD g + 128) c.inDecs data c with ⟨ds, c1, rc1⟩
          have f1 : KeepCtr c c1 := by
            have := (keepCtr_dec cfg true uid (8 * (data.map (·.length)).getD g + 128)).2.2.2 c.inDecs data c
            rw [hx] at this; exact this
          simp only
          exact f1.trans ⟨rfl, rfl⟩
    · have h := keepCtr_reqRunHookBodyData cfg data g
        (c.modTx uid fun t => { t with reqEntityLen := t.reqEntityLen + (data.map (·.length)).getD g })
      split <;> exact (keepCtr_modTx _ _ c).trans h



theorem keepCtr_resProcessBodyData (cfg : Cfg) (data : Option Bytes) (c : Conn) : KeepCtr c (resProcessBodyData cfg data c).1 := by
  unfold resProcessBodyData
  cases c.out.tx with
  | none => exact KeepCtr.refl c
  | some uid =>
    simp only
    have f0 : KeepCtr c (c.modTx uid fun t => { t with resMessageLen := t.resMessageLen + (data.map (·.length)).getD 0 }) := keepCtr_modTx ..
    split
    · split
      · exact f0
      · split
        · exact f0.trans (keepCtr_unsupported _)
        · rcases hx : decompress cfg false uid (8 * (data.map (·.length)).getD 0 + 128)
            (c.modTx uid fun t => { t with resMessageLen := t.resMessageLen + (data.map (·.length)).getD 0 }).outDecs data
            (c.modTx uid fun t => { t with resMessageLen := t.resMessageLen + (data.map (·.length)).getD 0 }) with ⟨ds, c1, rc1⟩
          have f1 := (keepCtr_dec cfg false uid (8 * (data.map (·.length)).getD 0 + 128)).2.2.2
            (c.modTx uid fun t => { t with resMessageLen := t.resMessageLen + (data.map (·.length)).getD 0 }).outDecs data
            (c.modTx uid fun t => { t with resMessageLen := t.resMessageLen + (data.map (·.length)).getD 0 })
          rw [hx] at f1
          simp only at f1 ⊢
          exact (f0.trans f1).trans ⟨rfl, rfl⟩
    · split
      · have h := keepCtr_resRunHookBodyData data
          ((c.modTx uid fun t => { t with resMessageLen := t.resMessageLen + (data.map (·.length)).getD 0 }).modTx uid
            fun t => { t with resEntityLen := t.resEntityLen + (data.map (·.length)).getD 0 })
        have f2 := (f0.trans (keepCtr_modTx uid (fun t => { t with resEntityLen := t.resEntityLen + (data.map (·.length)).getD 0 }) _)).trans h
        split <;> exact f2
      · exact f0

theorem keepCtr_resProcessBodyDataGap (cfg : Cfg) (data : Option Bytes) (g : Nat) (c : Conn) :
    KeepCtr c (resBodyIdentityClKnown.resProcessBodyDataGap cfg data g c).1 := by
  unfold resBodyIdentityClKnown.resProcessBodyDataGap
  split
  · exact keepCtr_resProcessBodyData ..
  · cases c.out.tx with
    | none => exact KeepCtr.refl c
    | some uid =>
      simp only
      have f0 : KeepCtr c (c.modTx uid fun t => { t with resMessageLen := t.resMessageLen + g }) := keepCtr_modTx ..
      split
      · have f1 := f0.trans (keepCtr_modTx uid (fun t => { t with resEntityLen := t.resEntityLen + g }) _)
        split
        · refine f1.trans ?_
          apply keepCtr_andThen
          · exact keepCtr_runCallbackN ..
          · intro c2; exact keepCtr_runCallback ..
        · refine f1.trans ?_
          apply keepCtr_andThen
          · exact keepCtr_runCallbackN ..
          · intro c2; exact keepCtr_runCallback ..
      · exact f0.trans (keepCtr_unsupported _)


theorem keepCtr_modIn (f : Tx → Tx) (c : Conn) : KeepCtr c (c.modIn f) := by
  unfold Conn.modIn
  split <;> ku

theorem keepCtr_reqReceiverSend (l : Bool) (c : Conn) : KeepCtr c (reqReceiverSend l c).1 := by
  unfold reqReceiverSend
  cases c.inn.receiverHook with
  | none => exact KeepCtr.refl c
  | some h =>
    simp only
    apply keepCtr_andThen
    · exact keepCtr_runCallback ..
    · intro c2; ku

theorem keepCtr_reqReceiverFinalizeClear (c : Conn) : KeepCtr c (reqReceiverFinalizeClear c).1 := by
  unfold reqReceiverFinalizeClear
  cases c.inn.receiverHook with
  | none => exact KeepCtr.refl c
  | some h =>
    simp only
    exact (keepCtr_reqReceiverSend true c).trans (by ku)

theorem keepCtr_reqReceiverSet (h : Hook) (c : Conn) : KeepCtr c (reqReceiverSet h c).1 := by
  unfold reqReceiverSet
  simp only
  exact (keepCtr_reqReceiverFinalizeClear c).trans (by ku)

theorem keepCtr_txFinalize (cfg : Cfg) (uid : Nat) (c : Conn) : KeepCtr c (txFinalize cfg uid c).1 := by
  unfold txFinalize
  cases c.findTx uid with
  | none => exact KeepCtr.refl c
  | some t =>
    simp only
    split
    · exact KeepCtr.refl c
    · apply keepCtr_andThen
      · exact keepCtr_runCallback ..
      · intro c1
        split
        · split
          · exact keepCtr_destroyTx ..
          · exact KeepCtr.refl _
        · exact KeepCtr.refl _

theorem keepCtr_txStateRequestCompletePartial (cfg : Cfg) (uid : Nat) (c : Conn) : KeepCtr c (txStateRequestCompletePartial cfg uid c).1 := by
  unfold txStateRequestCompletePartial
  simp only
  apply keepCtr_andThen
  · split
    · exact keepCtr_reqProcessBodyData ..
    · exact KeepCtr.refl c
  · intro c1
    apply keepCtr_andThen
    · exact (keepCtr_modTx _ _ c1).trans (keepCtr_runCallback ..)
    · intro c2
      apply keepCtr_andThen
      · exact keepCtr_reqReceiverFinalizeClear c2
      · intro c3; ku

theorem keepCtr_txStateRequestComplete (cfg : Cfg) (uid : Nat) (c : Conn) : KeepCtr c (txStateRequestComplete cfg uid c).1 := by
  unfold txStateRequestComplete
  simp only
  apply keepCtr_andThen
  · split
    · exact keepCtr_txStateRequestCompletePartial ..
    · exact KeepCtr.refl c
  · intro c1
    have h := keepCtr_txFinalize cfg uid { c1 with inState := if ((c1.findTx uid).map (·.is09)).getD ((c.findTx uid).getD { uid := uid }).is09 then .ignoreDataAfter09 else .idle }
    exact (KeepCtr.trans (by ku) h).trans (by ku)

theorem keepCtr_txStateRequestStart (uid : Nat) (c : Conn) : KeepCtr c (txStateRequestStart uid c).1 := by
  unfold txStateRequestStart
  apply keepCtr_andThen
  · exact keepCtr_runCallback ..
  · intro c1
    exact KeepCtr.trans (b := { c1 with inState := .line }) (by ku) (keepCtr_modIn _ _)

theorem keepCtr_processRequestHeader (data : Bytes) (c : Conn) : KeepCtr c (processRequestHeader data c).1 := by
  unfold processRequestHeader
  simp only
  exact (keepCtr_modIn _ c).trans (keepCtr_modIn _ _)

theorem keepCtr_reqFlushHeader (c : Conn) : KeepCtr c (reqFlushHeader c).1 := by
  unfold reqFlushHeader
  cases c.inn.header with
  | none => exact KeepCtr.refl c
  | some h =>
    simp only
    have := keepCtr_processRequestHeader h c
    split
    · exact this
    · exact this.trans (by ku)

theorem keepCtr_installUrlenc (cfg : Cfg) (uid : Nat) (t : Tx) (c : Conn) : KeepCtr c (installUrlenc cfg uid t c) := by
  unfold installUrlenc
  simp only []
  repeat' split
  all_goals first | exact KeepCtr.refl _ | exact keepCtr_setTx _ _

theorem keepCtr_installMpart (cfg : Cfg) (uid : Nat) (t : Tx) (c : Conn) : KeepCtr c (installMpart cfg uid t c) := by
  unfold installMpart
  simp only []
  repeat' split
  all_goals first | exact KeepCtr.refl _ | exact keepCtr_setTx _ _

theorem keepCtr_txProcessRequestHeadersTail (cfg : Cfg) (uid : Nat) (t : Tx) (ae : Bool) (c : Conn) :
    KeepCtr c (txProcessRequestHeadersTail cfg uid t ae c).1 := by
  unfold txProcessRequestHeadersTail
  split
  · exact KeepCtr.refl c
  · apply keepCtr_andThen
    · exact keepCtr_reqReceiverFinalizeClear _
    · intro c1
      exact ((keepCtr_installUrlenc cfg uid t c1).trans (keepCtr_installMpart ..)).trans (keepCtr_runCallback ..)

theorem keepCtr_txProcessRequestHeaders (cfg : Cfg) (uid : Nat) (c : Conn) : KeepCtr c (txProcessRequestHeaders cfg uid c).1 := by
  unfold txProcessRequestHeaders
  extract_lets t0 ce enc c2 t1 c1 fr t2 hasBody c0 un
  have k2 : KeepCtr c c2 := keepCtr_modTx ..
  have k1 : KeepCtr c2 c1 := by
    simp only [c1]
    split
    · ku
    · exact KeepCtr.refl _
  have k0 : KeepCtr c1 c0 := by
    simp only [c0]
    split
    · ku
    · exact KeepCtr.refl _
  have k := (k2.trans k1).trans k0
  clear_value c0
  repeat' split
  all_goals exact k.trans ((keepCtr_setTx _ _).trans (keepCtr_txProcessRequestHeadersTail ..))

theorem keepCtr_txStateRequestHeaders (cfg : Cfg) (uid : Nat) (c : Conn) : KeepCtr c (txStateRequestHeaders cfg uid c).1 := by
  unfold txStateRequestHeaders
  simp only
  split
  · apply keepCtr_andThen
    · exact keepCtr_runCallback ..
    · intro c1
      apply keepCtr_andThen
      · exact keepCtr_reqReceiverFinalizeClear _
      · intro c2; ku
  · split
    · apply keepCtr_andThen
      · refine KeepCtr.trans ?_ (keepCtr_txProcessRequestHeaders ..)
        split
        · exact keepCtr_modTx ..
        · exact KeepCtr.refl _
      · intro c1; ku
    · exact KeepCtr.refl _

theorem keepCtr_urlencQueryCallback (cfg : Cfg) (uid : Nat) (c : Conn) : KeepCtr c (urlencQueryCallback cfg uid c) := by
  unfold urlencQueryCallback
  simp only []
  repeat' split
  all_goals first | exact KeepCtr.refl _ | exact keepCtr_setTx _ _

theorem keepCtr_txStateRequestLine (cfg : Cfg) (uid : Nat) (c : Conn) : KeepCtr c (txStateRequestLine cfg uid c).1 := by
  unfold txStateRequestLine
  extract_lets t0 hp fl1 fl2 src t1 t2 t3 c1
  split
  · exact KeepCtr.refl c
  · have k1 : KeepCtr c c1 := keepCtr_setTx ..
    clear_value c1
    apply keepCtr_andThen
    · exact k1.trans (keepCtr_runCallback ..)
    · intro c2
      apply keepCtr_andThen
      · refine KeepCtr.trans ?_ (keepCtr_runCallback ..)
        split
        · exact keepCtr_urlencQueryCallback ..
        · exact KeepCtr.refl _
      · intro c3; ku

theorem keepCtr_txCreate (cfg : Cfg) (c : Conn) : KeepCtr c (txCreate cfg c).1 := by
  unfold txCreate
  simp only []
  split <;> ku



/-! ### the fourteen request state functions -/

theorem keepCtr_reqIdle (cfg : Cfg) (c : Conn) : KeepCtr c (reqIdle cfg c).1 := by
  unfold reqIdle
  split
  · ku
  · have k := keepCtr_txCreate cfg c
    rcases hx : txCreate cfg c with ⟨c1, u⟩
    rw [hx] at k
    simp only at k ⊢
    cases u with
    | none => exact k.trans (by ku)
    | some uid =>
      simp only
      exact k.trans (keepCtr_txStateRequestStart uid c1)

theorem keepCtr_reqLineComplete (cfg : Cfg) (c : Conn) : KeepCtr c (reqLineComplete cfg c).1 := by
  unfold reqLineComplete
  cases hc : c.inn.consolidate cfg.fieldLimitHard true with
  | none => ku
  | some p =>
    obtain ⟨d, data⟩ := p
    simp -zeta only
    extract_lets c0 ci line rl c1
    have k0 : KeepCtr c c0 := by ku
    have ki : KeepCtr c ci := k0.trans (keepCtr_modIn _ c0)
    have k1 : KeepCtr c c1 := k0.trans (keepCtr_modIn _ c0)
    clear_value c0 ci c1
    split
    · exact k0.trans (by ku)
    · split
      · exact ki.trans (by ku)
      · cases c1.inn.tx with
        | none => exact k1
        | some uid =>
          simp only
          have k2 := k1.trans (keepCtr_txStateRequestLine cfg uid c1)
          split
          · exact k2
          · exact k2.trans (by ku)

theorem keepCtr_reqLineLoop (cfg : Cfg) (fuel : Nat) (c : Conn) : KeepCtr c (reqLineLoop cfg fuel c).1 := by
  induction fuel generalizing c with
  | zero => unfold reqLineLoop; ku
  | succ k ih =>
    unfold reqLineLoop
    simp only
    split
    · exact KeepCtr.trans (b := { c with inn := (c.inn.peekSet).1 }) (by ku) (keepCtr_reqLineComplete cfg _)
    · cases hn : (c.inn.peekSet).1.copyByte with
      | none => ku
      | some p =>
        obtain ⟨d, b⟩ := p
        simp only
        split
        · exact KeepCtr.trans (b := { c with inn := d }) (by ku) (keepCtr_reqLineComplete cfg _)
        · exact KeepCtr.trans (b := { c with inn := d }) (by ku) (ih _)

theorem keepCtr_reqProtocol (c : Conn) : KeepCtr c (reqProtocol c).1 := by
  unfold reqProtocol
  simp only []
  repeat' split
  all_goals first
    | ku
    | exact KeepCtr.trans (b := { c with inState := .headers }) (by ku) (keepCtr_modIn _ _)
    | exact (KeepCtr.trans (b := { c with inState := .headers }) (by ku) (keepCtr_modIn _ _)).trans (keepCtr_modIn _ _)

theorem keepCtr_reqHeadersLoop (cfg : Cfg) (fuel : Nat) (c : Conn) : KeepCtr c (reqHeadersLoop cfg fuel c).1 := by
  induction fuel generalizing c with
  | zero => unfold reqHeadersLoop; ku
  | succ k ih =>
    unfold reqHeadersLoop
    cases c.inn.tx with
    | none => ku
    | some uid =>
      simp only
      split
      · apply keepCtr_andThen
        · exact keepCtr_reqFlushHeader c
        · intro c1
          exact (KeepCtr.trans (b := { c1 with inn := c1.inn.clearBuffer }) (by ku) (keepCtr_modIn _ _)).trans (keepCtr_txStateRequestHeaders ..)
      · cases hn : c.inn.copyByte with
        | none => ku
        | some p =>
          obtain ⟨d, b⟩ := p
          simp only
          split
          · exact KeepCtr.trans (b := { c with inn := d }) (by ku) (ih _)
          · cases hc : d.consolidate cfg.fieldLimitHard true with
            | none => ku
            | some q =>
              obtain ⟨d2, data⟩ := q
              simp only
              refine KeepCtr.trans (b := { c with inn := d2 }) (by ku) ?_
              split
              · apply keepCtr_andThen
                · exact keepCtr_reqFlushHeader _
                · intro c1
                  exact KeepCtr.trans (b := { c1 with inn := c1.inn.clearBuffer }) (by ku) (keepCtr_txStateRequestHeaders ..)
              · apply keepCtr_andThen
                · split
                  · apply keepCtr_andThen
                    · exact keepCtr_reqFlushHeader _
                    · intro c1
                      split
                      · split
                        · have kk := keepCtr_processRequestHeader (Parse.chomp data).1 { c1 with inn := (c1.inn.peekSet).1 }
                          split
                          · exact KeepCtr.trans (b := { c1 with inn := (c1.inn.peekSet).1 }) (by ku) kk
                          · exact KeepCtr.trans (b := { c1 with inn := (c1.inn.peekSet).1 }) (by ku) kk
                        · ku
                      · ku
                  · split
                    · exact (keepCtr_modIn _ { c with inn := d2 }).trans (by ku)
                    · split
                      · ku
                      · ku
                · intro c1
                  exact KeepCtr.trans (b := { c1 with inn := c1.inn.clearBuffer }) (by ku) (ih _)

theorem keepCtr_reqBodyIdentity (cfg : Cfg) (c : Conn) : KeepCtr c (reqBodyIdentity cfg c).1 := by
  unfold reqBodyIdentity
  extract_lets avail n data
  clear_value n data
  split
  · ku
  · have k := keepCtr_reqProcessBodyData cfg data (if c.inn.curNull then n.toNat else 0) c
    rcases hx : reqProcessBodyData cfg data (if c.inn.curNull then n.toNat else 0) c with ⟨c1, rc1⟩
    rw [hx] at k
    simp only at k ⊢
    split
    · exact k
    · have k2 : KeepCtr c ({ c1 with inn := { c1.inn.advance n with bodyDataLeft := c1.inn.bodyDataLeft - n } }.modIn
          (fun t => { t with reqMessageLen := t.reqMessageLen + n.toNat })) :=
        k.trans (KeepCtr.trans (b := { c1 with inn := { c1.inn.advance n with bodyDataLeft := c1.inn.bodyDataLeft - n } }) (by ku) (keepCtr_modIn _ _))
      split
      · exact k2.trans (by ku)
      · exact k2

theorem keepCtr_reqChunkedDataEndLoop (fuel : Nat) (c : Conn) : KeepCtr c (reqChunkedDataEndLoop fuel c).1 := by
  induction fuel generalizing c with
  | zero => unfold reqChunkedDataEndLoop; ku
  | succ k ih =>
    unfold reqChunkedDataEndLoop
    cases hn : c.inn.nextByteConsume with
    | none => ku
    | some p =>
      obtain ⟨d, b⟩ := p
      simp only
      have k1 : KeepCtr c ({ c with inn := d }.modIn (fun t => { t with reqMessageLen := t.reqMessageLen + 1 })) :=
        KeepCtr.trans (b := { c with inn := d }) (by ku) (keepCtr_modIn _ _)
      split
      · exact k1.trans (by ku)
      · exact k1.trans (ih _)

theorem keepCtr_reqBodyChunkedData (cfg : Cfg) (c : Conn) : KeepCtr c (reqBodyChunkedData cfg c).1 := by
  unfold reqBodyChunkedData
  extract_lets avail n data
  clear_value n data
  split
  · ku
  · have k := keepCtr_reqProcessBodyData cfg (some data) 0 c
    rcases hx : reqProcessBodyData cfg (some data) 0 c with ⟨c1, rc1⟩
    rw [hx] at k
    simp only at k ⊢
    split
    · exact k
    · have k2 : KeepCtr c ({ c1 with inn := { c1.inn.advance n with chunkedLength := c1.inn.chunkedLength - n } }.modIn
          (fun t => { t with reqMessageLen := t.reqMessageLen + n.toNat })) :=
        k.trans (KeepCtr.trans (b := { c1 with inn := { c1.inn.advance n with chunkedLength := c1.inn.chunkedLength - n } }) (by ku) (keepCtr_modIn _ _))
      split
      · exact k2.trans (by ku)
      · exact k2

theorem keepCtr_reqChunkedLengthLoop (cfg : Cfg) (fuel : Nat) (c : Conn) : KeepCtr c (reqChunkedLengthLoop cfg fuel c).1 := by
  induction fuel generalizing c with
  | zero => unfold reqChunkedLengthLoop; ku
  | succ k ih =>
    unfold reqChunkedLengthLoop
    cases hn : c.inn.copyByte with
    | none => ku
    | some p =>
      obtain ⟨d, b⟩ := p
      simp -zeta only
      extract_lets c0
      have h0 : KeepCtr c c0 := by ku
      clear_value c0
      split
      · exact h0.trans (ih _)
      · cases hc : c0.inn.consolidate cfg.fieldLimitHard true with
        | none => exact h0
        | some q =>
          obtain ⟨d2, data⟩ := q
          simp -zeta only
          extract_lets c1 line src c2
          have h1 : KeepCtr c c1 := h0.trans (KeepCtr.trans (b := { c0 with inn := d2 }) (by ku) (keepCtr_modIn _ _))
          have h2 : KeepCtr c c2 := h1.trans (by ku)
          clear_value c2 c1
          split
          · exact h2.trans (by ku)
          · split
            · exact h2.trans (KeepCtr.trans (b := { c2 with inState := .headers }) (by ku) (keepCtr_modIn _ _))
            · exact h2

theorem keepCtr_reqIgnore (c : Conn) : KeepCtr c (reqIgnoreDataAfter09 c).1 := by
  unfold reqIgnoreDataAfter09
  simp only []
  split <;> ku

theorem keepCtr_reqFinalize (cfg : Cfg) (c : Conn) : KeepCtr c (reqFinalize cfg c).1 := by
  unfold reqFinalize
  cases c.inn.tx with
  | none => ku
  | some uid =>
    simp -zeta only
    extract_lets cp pre
    have hp : ∀ c' b, pre = some (c', b) → KeepCtr c c' := by
      intro c' b hpre
      simp only [pre] at hpre
      split at hpre
      · split at hpre
        · simp only [Option.some.injEq, Prod.mk.injEq] at hpre; obtain ⟨e, _⟩ := hpre; subst e; ku
        · split at hpre
          · split at hpre
            · simp at hpre
            · simp only [Option.some.injEq, Prod.mk.injEq] at hpre; obtain ⟨e, _⟩ := hpre; subst e; ku
          · simp only [Option.some.injEq, Prod.mk.injEq] at hpre; obtain ⟨e, _⟩ := hpre; subst e; ku
      · simp only [Option.some.injEq, Prod.mk.injEq] at hpre; obtain ⟨e, _⟩ := hpre; subst e; ku
    clear_value pre
    split
    · ku
    · rename_i _ c1
      exact (hp _ _ rfl).trans (keepCtr_txStateRequestComplete ..)
    · rename_i _ c1
      have h1 := hp _ _ rfl
      clear hp
      cases hc : c1.inn.consolidate cfg.fieldLimitHard true with
      | none => exact h1
      | some q =>
        obtain ⟨d2, data⟩ := q
        simp -zeta only
        extract_lets c2
        have h2 : KeepCtr c c2 := h1.trans (by ku)
        clear_value c2
        split
        · exact h2.trans (keepCtr_txStateRequestComplete ..)
        · rename_i src go _
          have hgo : ∀ c', go = some c' → KeepCtr c c' := by
            intro c' hg
            simp only [go] at hg
            split at hg
            · split at hg
              · simp at hg
              · simp only [Option.some.injEq] at hg
                rw [← hg]
                split
                · exact h2
                · exact h2.trans (by ku)
            · simp only [Option.some.injEq] at hg; rw [← hg]; exact h2
          clear_value go
          split
          · exact KeepCtr.trans (h2.trans (c := { c2 with inn := { c2.inn with bodyDataLeft := -1 } }) (by ku)) (keepCtr_txStateRequestComplete ..)
          · rename_i c3
            have h3 := hgo _ rfl
            clear hgo
            extract_lets r
            have hr : ∀ c' dd, r = some (c', dd) → KeepCtr c c' := by
              intro c' dd hh
              simp only [r] at hh
              split at hh
              · cases hcb : c3.inn.copyByte with
                | none => rw [hcb] at hh; simp at hh
                | some p =>
                  obtain ⟨d4, b4⟩ := p
                  rw [hcb] at hh
                  simp only at hh
                  cases hc4 : d4.consolidate cfg.fieldLimitHard true with
                  | none =>
                    rw [hc4] at hh
                    simp only [Option.some.injEq, Prod.mk.injEq] at hh
                    rw [← hh.1]; exact h3.trans (by ku)
                  | some q4 =>
                    obtain ⟨d5, data5⟩ := q4
                    rw [hc4] at hh
                    simp only [Option.some.injEq, Prod.mk.injEq] at hh
                    rw [← hh.1]; exact h3.trans (by ku)
              · simp only [Option.some.injEq, Prod.mk.injEq] at hh; rw [← hh.1]; exact h3
            clear_value r
            split
            · exact h3
            · rename_i c6 data6
              have h6 := hr _ _ rfl
              have k := keepCtr_reqProcessBodyData cfg (some data6) 0 c6
              rcases hx : reqProcessBodyData cfg (some data6) 0 c6 with ⟨c7, rc7⟩
              rw [hx] at k
              simp only at k ⊢
              exact (h6.trans k).trans (by ku)

theorem keepCtr_reqHandleStateChange (c : Conn) : KeepCtr c (reqHandleStateChange c).1 := by
  unfold reqHandleStateChange
  split
  · ku
  · simp only
    apply keepCtr_andThen
    · repeat' split
      all_goals first | exact KeepCtr.refl c | exact keepCtr_reqReceiverSet _ c
    · intro c1; ku


/-! ### the response-direction functions -/

theorem keepCtr_modOut (f : Tx → Tx) (c : Conn) : KeepCtr c (c.modOut f) := by
  unfold Conn.modOut
  split <;> ku

theorem keepCtr_resReceiverSend (l : Bool) (c : Conn) : KeepCtr c (resReceiverSend l c).1 := by
  unfold resReceiverSend
  cases c.out.receiverHook with
  | none => exact KeepCtr.refl c
  | some h =>
    simp only
    apply keepCtr_andThen
    · exact keepCtr_runCallback ..
    · intro c2; ku

theorem keepCtr_resReceiverFinalizeClear (c : Conn) : KeepCtr c (resReceiverFinalizeClear c).1 := by
  unfold resReceiverFinalizeClear
  cases c.out.receiverHook with
  | none => exact KeepCtr.refl c
  | some h =>
    simp only
    exact (keepCtr_resReceiverSend true c).trans (by ku)

theorem keepCtr_resReceiverSet (h : Hook) (c : Conn) : KeepCtr c (resReceiverSet h c).1 := by
  unfold resReceiverSet
  simp only
  exact (keepCtr_resReceiverFinalizeClear c).trans (by ku)

theorem keepCtr_processResponseHeader (d : Bytes) (c : Conn) : KeepCtr c (processResponseHeader d c).1 := by
  unfold processResponseHeader
  simp only
  exact (keepCtr_modOut _ c).trans (keepCtr_modOut _ _)

theorem keepCtr_resFlushHeader (c : Conn) : KeepCtr c (resFlushHeader c).1 := by
  unfold resFlushHeader
  cases c.out.header with
  | none => exact KeepCtr.refl c
  | some h =>
    simp only
    have := keepCtr_processResponseHeader h c
    split
    · exact this
    · exact this.trans (by ku)

theorem keepCtr_txStateResponseStart (uid : Nat) (c : Conn) : KeepCtr c (txStateResponseStart uid c).1 := by
  unfold txStateResponseStart
  simp only
  refine KeepCtr.trans (b := { c with out := { c.out with tx := some uid } }) (by ku) ?_
  apply keepCtr_andThen
  · exact keepCtr_runCallback ..
  · intro c1
    split
    · ku
    · ku

theorem keepCtr_txStateResponseLine (uid : Nat) (c : Conn) : KeepCtr c (txStateResponseLine uid c).1 := by
  unfold txStateResponseLine
  simp only
  refine KeepCtr.trans ?_ (keepCtr_runCallback ..)
  split
  · exact keepCtr_modTx ..
  · exact KeepCtr.refl c

theorem keepCtr_txStateResponseHeaders (cfg : Cfg) (uid : Nat) (c : Conn) : KeepCtr c (txStateResponseHeaders cfg uid c).1 := by
  unfold txStateResponseHeaders
  rcases responseNeedsDecompressor cfg ((c.findTx uid).getD { uid := uid }) with ⟨enc, needs⟩
  simp only
  apply keepCtr_andThen
  · exact KeepCtr.trans (b := c.modTx uid _) (by ku) (keepCtr_resReceiverFinalizeClear _)
  · intro c1
    apply keepCtr_andThen
    · exact keepCtr_runCallback ..
    · intro c2
      split
      · split
        · ku
        · cases ceChain cfg ((getHeaderC ((c.findTx uid).getD { uid := uid }).resHeaders (b!"content-encoding")).map (·.value) |>.getD []) with
          | nil => ku
          | cons ty rest => ku
      · exact KeepCtr.refl _

theorem keepCtr_txStateResponseCompleteEx (cfg : Cfg) (uid : Nat) (c : Conn) : KeepCtr c (txStateResponseCompleteEx cfg uid c).1 := by
  unfold txStateResponseCompleteEx
  simp only
  apply keepCtr_andThen
  · split
    · apply keepCtr_andThen
      · refine KeepCtr.trans ?_ (keepCtr_runCallback ..)
        split
        · exact KeepCtr.trans (b := c.modTx uid _) (by ku) (keepCtr_resProcessBodyData ..)
        · ku
      · intro c1; exact keepCtr_resReceiverFinalizeClear _
    · exact KeepCtr.refl _
  · intro c1
    split
    · exact KeepCtr.refl _
    · split
      · ku
      · apply keepCtr_andThen
        · exact keepCtr_txFinalize ..
        · intro c2; ku

theorem keepCtr_resCl (cl ct : Option Parse.Header) (uid : Nat) (c : Conn) : KeepCtr c (resCl cl ct uid c).1 := by
  unfold resCl
  cases cl with
  | some cl' =>
    simp only
    repeat' split
    all_goals ku
  | none =>
    simp only
    repeat' split
    all_goals ku

theorem keepCtr_resFraming (te cl ct : Option Parse.Header) (uid : Nat) (c : Conn) : KeepCtr c (resFraming te cl ct uid c).1 := by
  unfold resFraming
  repeat' split
  all_goals first | ku | exact keepCtr_resCl ..

theorem keepCtr_resNoBody (uid : Nat) (t : Tx) (te cl : Option Parse.Header) (c : Conn) : KeepCtr c (resNoBody uid t te cl c) := by
  unfold resNoBody
  repeat' split
  all_goals ku

theorem keepCtr_resFramingStep (uid : Nat) (t : Tx) (te cl : Option Parse.Header) (c : Conn) : KeepCtr c (resFramingStep uid t te cl c).1 := by
  unfold resFramingStep
  split
  · simp only []
    refine KeepCtr.trans ?_ (keepCtr_resFraming ..)
    split
    · exact keepCtr_modTx ..
    · exact KeepCtr.refl _
  · exact KeepCtr.refl _

/-! ### the response state functions that never touch the request-direction facts -/

theorem keepCtr_resLineAsBody (cfg : Cfg) (uid : Nat) (dn : Bool) (data line : Bytes) (cr : Nat) (c : Conn) :
    KeepCtr c (resLineAsBody cfg uid dn data line cr c).1 := by
  unfold resLineAsBody
  extract_lets nextIsH rd1 ln1 c1 c2 src c3
  have k3 : KeepCtr c c3 := by ku
  have k1 : KeepCtr c c1 := by ku
  clear_value c1 c3
  split
  · exact k1
  · have k := keepCtr_resProcessBodyData cfg (if dn then none else some (data.take (line.length + cr))) c3
    rcases hx : resProcessBodyData cfg (if dn then none else some (data.take (line.length + cr))) c3 with ⟨c4, rc4⟩
    rw [hx] at k
    simp only at k ⊢
    have k4 : KeepCtr c c4 := k3.trans k
    split
    · exact k4
    · split
      · exact k4
      · exact k4

theorem keepCtr_resLineComplete (cfg : Cfg) (uid : Nat) (closed : Bool) (c : Conn) :
    KeepCtr c (resLineComplete cfg uid closed c).1 := by
  unfold resLineComplete
  cases hc : c.out.consolidate cfg.fieldLimitHard false with
  | none => ku
  | some q =>
    obtain ⟨d2, data⟩ := q
    simp -zeta only
    extract_lets dataNull c0 c1 c2 c3 rl c4
    have h0 : KeepCtr c c0 := ⟨rfl, rfl⟩
    have h3 : KeepCtr c c3 := h0.trans ⟨rfl, rfl⟩
    have h4 : KeepCtr c c4 := h0.trans ⟨rfl, rfl⟩
    have h2 : KeepCtr c c2 := by
      show KeepCtr c (c1.modTx uid _)
      simp only [c1]
      split
      · exact h0.trans ⟨rfl, rfl⟩
      · exact h0.trans ⟨rfl, rfl⟩
    clear_value c0 c1 c2 c3 c4 dataNull
    split
    · exact h2
    · split
      · exact h3.trans (keepCtr_resLineAsBody ..)
      · have k := keepCtr_txStateResponseLine uid c4
        generalize txStateResponseLine uid c4 = r at k ⊢
        unfold R.andThen
        split
        · exact (h4.trans k).trans (by ku)
        · exact h4.trans k

theorem keepCtr_resLineLoop (cfg : Cfg) (fuel : Nat) (c : Conn) : KeepCtr c (resLineLoop cfg fuel c).1 := by
  induction fuel generalizing c with
  | zero => unfold resLineLoop; ku
  | succ k ih =>
    unfold resLineLoop
    cases c.out.tx with
    | none => ku
    | some uid =>
      simp only
      split
      · ku
      · rename_i c1 h1
        have e1 : KeepCtr c c1 := by
          split at h1
          · cases hcb : c.out.copyByte with
            | none => rw [hcb] at h1; simp at h1
            | some p =>
              obtain ⟨d, b⟩ := p
              rw [hcb] at h1
              simp only [Option.some.injEq] at h1
              rw [← h1]
              exact ⟨rfl, rfl⟩
          · simp only [Option.some.injEq] at h1; rw [← h1]
        split
        · exact e1
        · rename_i c2 h2
          have e2 : KeepCtr c c2 := by
            split at h2
            · simp only [Dir.peekSet] at h2
              cases hp : c1.out.peek with
              | none => rw [hp] at h2; simp at h2
              | some b =>
                rw [hp] at h2
                simp only at h2
                split at h2
                · simp only [Except.ok.injEq, Prod.mk.injEq] at h2; rw [← h2.1]; exact e1
                · simp only [Except.ok.injEq, Prod.mk.injEq] at h2; simp at h2
            · simp only [Except.ok.injEq, Prod.mk.injEq] at h2; simp at h2
          exact e2.trans (ih c2)
        · rename_i c2 h2
          have e2 : KeepCtr c c2 := by
            split at h2
            · simp only [Dir.peekSet] at h2
              cases hp : c1.out.peek with
              | none => rw [hp] at h2; simp at h2
              | some b =>
                rw [hp] at h2
                simp only at h2
                split at h2
                · simp only [Except.ok.injEq, Prod.mk.injEq] at h2; simp at h2
                · simp only [Except.ok.injEq, Prod.mk.injEq] at h2; rw [← h2.1]; exact e1
            · simp only [Except.ok.injEq, Prod.mk.injEq] at h2; rw [← h2.1]; exact e1
          split
          · exact e2.trans (ih c2)
          · exact e2.trans (keepCtr_resLineComplete ..)

theorem eol_keepCtr (b : UInt8) (lfcr : Bool) (c : Conn) :
    ∀ c2 l e a, resHeadersEol b lfcr c = .ok (c2, l, e, a) → KeepCtr c c2 := by
  intro c2 l e a h
  unfold resHeadersEol at h
  simp only [] at h
  repeat' split at h
  all_goals first
    | (simp at h; done)
    | (simp only [Except.ok.injEq, Prod.mk.injEq] at h; obtain ⟨e, _⟩ := h; subst e; exact ⟨rfl, rfl⟩)
    | (simp only [Except.ok.injEq, Prod.mk.injEq] at h; obtain ⟨e, -⟩ := h; subst e; exact ⟨rfl, rfl⟩)

theorem keepCtr_resHeaderLine (uid : Nat) (line : Bytes) (c : Conn) : KeepCtr c (resHeaderLine uid line c).1 := by
  unfold resHeaderLine
  split
  · apply keepCtr_andThen
    · exact keepCtr_resFlushHeader c
    · intro c1
      simp only [Dir.peekSet]
      obtain hp | ⟨b, hp⟩ : c1.out.peek = none ∨ ∃ b, c1.out.peek = some b := by cases c1.out.peek <;> simp
      · simp only [hp, Bool.not_true, Bool.false_eq_true, if_false]; ku
      · simp only [hp]
        by_cases hf : isFoldingChar b = true
        · simp only [hf, Bool.not_true, Bool.false_eq_true, if_false]; ku
        · simp only [hf, Bool.not_false, if_true]
          have e := keepCtr_processResponseHeader line { c1 with out := { c1.out with nextByte := (b.toNat : Int) } }
          rcases hy : processResponseHeader line { c1 with out := { c1.out with nextByte := (b.toNat : Int) } } with ⟨c2, rc2⟩
          rw [hy] at e
          simp only at e ⊢
          split
          · exact KeepCtr.trans (b := { c1 with out := { c1.out with nextByte := (b.toNat : Int) } }) (by ku) e
          · exact KeepCtr.trans (b := { c1 with out := { c1.out with nextByte := (b.toNat : Int) } }) (by ku) e
  · cases c.out.header with
    | none => ku
    | some h =>
      simp only
      split
      · have e := keepCtr_processResponseHeader h (c.modTx uid fun t => { t with flags := t.flags ||| INVALID_FOLDING })
        rcases hy : processResponseHeader h (c.modTx uid fun t => { t with flags := t.flags ||| INVALID_FOLDING }) with ⟨c2, rc2⟩
        rw [hy] at e
        simp only at e ⊢
        split
        · exact KeepCtr.trans (b := c.modTx uid _) (by ku) e
        · exact KeepCtr.trans (b := c.modTx uid _) (by ku) e
      · split
        · ku
        · ku

theorem keepCtr_resHeadersLoop (cfg : Cfg) (fuel : Nat) (lfcr : Bool) (c : Conn) :
    KeepCtr c (resHeadersLoop cfg fuel lfcr c).1 := by
  induction fuel generalizing c lfcr with
  | zero => unfold resHeadersLoop; ku
  | succ k ih =>
    unfold resHeadersLoop
    cases c.out.tx with
    | none => ku
    | some uid =>
      simp only
      have trailer : ∀ (c0 : Conn),
          KeepCtr c0 (resReceiverFinalizeClear c0 >>? fun c => runCallback .responseTrailer (some uid) none false c >>? fun c => ({ c with outState := .finalize }, Rc.ok)).1 := by
        intro c0
        apply keepCtr_andThen
        · exact keepCtr_resReceiverFinalizeClear c0
        · intro c1
          apply keepCtr_andThen
          · exact keepCtr_runCallback ..
          · intro c2; ku
      split
      · exact trailer c
      · cases hn : c.out.copyByte with
        | none => ku
        | some p =>
          obtain ⟨d, b⟩ := p
          simp only
          split
          · exact KeepCtr.trans (b := { c with out := d }) (by ku) (ih _ _)
          · have he := eol_keepCtr b lfcr { c with out := d }
            split
            · ku
            · rename_i heq
              have e2 := he _ _ _ _ heq
              exact KeepCtr.trans (KeepCtr.trans (b := { c with out := d }) (by ku) e2) (ih _ _)
            · rename_i c2 lfcr2 ecr2 heq
              have e2 : KeepCtr c c2 := KeepCtr.trans (b := { c with out := d }) (by ku) (he _ _ _ _ heq)
              cases hc : c2.out.consolidate cfg.fieldLimitHard false with
              | none => exact e2
              | some q =>
                obtain ⟨d2, data⟩ := q
                simp only
                have e3 : KeepCtr c { c2 with out := d2 } := e2.trans (by ku)
                split
                · exact e3.trans (ih lfcr2 { c2 with out := d2 })
                · split
                  · refine e3.trans ?_
                    apply keepCtr_andThen
                    · exact keepCtr_resFlushHeader _
                    · intro c5
                      split
                      · ku
                      · exact KeepCtr.trans (b := { c5 with out := c5.out.clearBuffer }) (by ku) (trailer _)
                  · refine e3.trans ?_
                    apply keepCtr_andThen
                    · exact keepCtr_resHeaderLine ..
                    · intro c5
                      exact KeepCtr.trans (b := { c5 with out := c5.out.clearBuffer }) (by ku) (ih _ _)

theorem keepCtr_resBodyIdentityClKnown (cfg : Cfg) (c : Conn) : KeepCtr c (resBodyIdentityClKnown cfg c).1 := by
  unfold resBodyIdentityClKnown
  extract_lets avail n cfin data
  clear_value n data
  split
  · exact KeepCtr.trans (b := cfin) (by ku) (keepCtr_resProcessBodyData ..)
  · split
    · ku
    · have k := keepCtr_resProcessBodyDataGap cfg data (if c.out.curNull then n.toNat else 0) c
      rcases hx : resBodyIdentityClKnown.resProcessBodyDataGap cfg data (if c.out.curNull then n.toNat else 0) c with ⟨c1, rc1⟩
      rw [hx] at k
      simp only at k ⊢
      split
      · exact k
      · split
        · exact KeepCtr.trans (KeepCtr.trans k (b := c1) (c := { { c1 with out := { c1.out.advance n with bodyDataLeft := c1.out.bodyDataLeft - n } } with outState := .finalize }) (by ku)) (keepCtr_resProcessBodyData ..)
        · exact k.trans (by ku)

theorem keepCtr_resBodyIdentityStreamClose (cfg : Cfg) (c : Conn) : KeepCtr c (resBodyIdentityStreamClose cfg c).1 := by
  unfold resBodyIdentityStreamClose
  extract_lets n data r
  have hr : KeepCtr c r.1 := by
    simp only [r]
    split
    · have k := keepCtr_resProcessBodyDataGap cfg data (if c.out.curNull then n.toNat else 0) c
      rcases hx : resBodyIdentityClKnown.resProcessBodyDataGap cfg data (if c.out.curNull then n.toNat else 0) c with ⟨c1, rc1⟩
      rw [hx] at k
      simp only at k ⊢
      split
      · exact k
      · exact k.trans (by ku)
    · ku
  clear_value r
  apply keepCtr_andThen
  · exact hr
  · intro c1
    split
    · ku
    · ku

theorem keepCtr_resChunkedDataEndLoop (fuel : Nat) (c : Conn) : KeepCtr c (resChunkedDataEndLoop fuel c).1 := by
  induction fuel generalizing c with
  | zero => unfold resChunkedDataEndLoop; ku
  | succ k ih =>
    unfold resChunkedDataEndLoop
    cases hn : c.out.nextByteConsume with
    | none => ku
    | some p =>
      obtain ⟨d, b⟩ := p
      simp only
      have k1 : KeepCtr c ({ c with out := d }.modOut (fun t => { t with resMessageLen := t.resMessageLen + 1 })) :=
        KeepCtr.trans (b := { c with out := d }) (by ku) (keepCtr_modOut _ _)
      split
      · exact k1.trans (by ku)
      · exact k1.trans (ih _)

theorem keepCtr_resBodyChunkedData (cfg : Cfg) (c : Conn) : KeepCtr c (resBodyChunkedData cfg c).1 := by
  unfold resBodyChunkedData
  extract_lets avail n data
  clear_value n data
  split
  · ku
  · have k := keepCtr_resProcessBodyData cfg (some data) c
    rcases hx : resProcessBodyData cfg (some data) c with ⟨c1, rc1⟩
    rw [hx] at k
    simp only at k ⊢
    split
    · exact k
    · split
      · exact k.trans (by ku)
      · exact k.trans (by ku)

theorem keepCtr_resChunkedLengthLoop (cfg : Cfg) (fuel : Nat) (c : Conn) : KeepCtr c (resChunkedLengthLoop cfg fuel c).1 := by
  induction fuel generalizing c with
  | zero => unfold resChunkedLengthLoop; ku
  | succ k ih =>
    unfold resChunkedLengthLoop
    cases hn : c.out.copyByte with
    | none => ku
    | some p =>
      obtain ⟨d, b⟩ := p
      simp -zeta only
      extract_lets c0
      have h0 : KeepCtr c c0 := by ku
      clear_value c0
      split
      · exact h0.trans (ih _)
      · cases hc : c0.out.consolidate cfg.fieldLimitHard false with
        | none => exact h0
        | some q =>
          obtain ⟨d2, data⟩ := q
          simp -zeta only
          extract_lets c1 s1 c2 s2 rd c3 c4
          have h1 : KeepCtr c c1 := h0.trans (KeepCtr.trans (b := { c0 with out := d2 }) (by ku) (keepCtr_modOut _ _))
          have h2 : KeepCtr c c2 := h1.trans (by ku)
          have h4 : KeepCtr c c4 := h2.trans (by ku)
          have h3 : KeepCtr c c3 := h2.trans (by ku)
          clear_value c1 c2 c3 c4
          split
          · exact KeepCtr.trans (h2.trans (c := { c2 with out := { c2.out with consume := c2.out.read } }) (by ku)) (ih _)
          · split
            · exact h3.trans (keepCtr_modOut _ _)
            · split
              · exact h4.trans (by ku)
              · exact h4.trans (KeepCtr.trans (b := { c4 with outState := .headers }) (by ku) (keepCtr_modOut _ _))

theorem keepCtr_resFinalize (cfg : Cfg) (c : Conn) : KeepCtr c (resFinalize cfg c).1 := by
  unfold resFinalize
  cases c.out.tx with
  | none => ku
  | some uid =>
    simp -zeta only
    extract_lets cp pre
    have hp : ∀ c' b, pre = some (c', b) → KeepCtr c c' := by
      intro c' b hpre
      simp only [pre] at hpre
      split at hpre
      · split at hpre
        · simp only [Option.some.injEq, Prod.mk.injEq] at hpre; obtain ⟨e, _⟩ := hpre; subst e; ku
        · split at hpre
          · split at hpre
            · simp at hpre
            · simp only [Option.some.injEq, Prod.mk.injEq] at hpre; obtain ⟨e, _⟩ := hpre; subst e; ku
          · simp only [Option.some.injEq, Prod.mk.injEq] at hpre; obtain ⟨e, _⟩ := hpre; subst e; ku
      · simp only [Option.some.injEq, Prod.mk.injEq] at hpre; obtain ⟨e, _⟩ := hpre; subst e; ku
    clear_value pre
    split
    · ku
    · rename_i _ c1
      exact (hp _ _ rfl).trans (keepCtr_txStateResponseCompleteEx ..)
    · rename_i _ c1
      have h1 := hp _ _ rfl
      clear hp
      cases hc : c1.out.consolidate cfg.fieldLimitHard false with
      | none => exact h1
      | some q =>
        obtain ⟨d2, data⟩ := q
        simp -zeta only
        extract_lets dataNull c2 rd keep buf cs
        have h2 : KeepCtr c c2 := h1.trans (by ku)
        clear_value c2 dataNull
        split
        · exact h2.trans (keepCtr_txStateResponseCompleteEx ..)
        · split
          · have k := keepCtr_resProcessBodyData cfg (some data) c2
            rcases hx : resProcessBodyData cfg (some data) c2 with ⟨c3, rc3⟩
            rw [hx] at k
            simp only at k ⊢
            exact (h2.trans k).trans (by ku)
          · exact KeepCtr.trans (h2.trans (c := { c2 with out := { c2.out with read := rd, consume := cs, buf := buf } }) (by ku)) (keepCtr_txStateResponseCompleteEx ..)

theorem keepCtr_resHandleStateChange (c : Conn) : KeepCtr c (resHandleStateChange c).1 := by
  unfold resHandleStateChange
  split
  · ku
  · simp only
    apply keepCtr_andThen
    · repeat' split
      all_goals first | exact KeepCtr.refl c | exact keepCtr_resReceiverSet _ c
    · intro c1; ku

theorem keepCtr_reqConnectWaitResponse (c : Conn) : KeepCtr c (reqConnectWaitResponse c).1 := by
  unfold reqConnectWaitResponse
  simp only []
  repeat' split
  all_goals exact ⟨rfl, rfl⟩

theorem keepCtr_reqBodyDetermine (c : Conn) : KeepCtr c (reqBodyDetermine c).1 := by
  unfold reqBodyDetermine
  simp only []
  repeat' split
  all_goals first
    | exact ⟨rfl, rfl⟩
    | exact KeepCtr.trans (b := { c with inState := .bodyChunkedLength }) ⟨rfl, rfl⟩ (keepCtr_modIn _ _)
    | exact KeepCtr.trans (b := { { c with inn := { c.inn with contentLength := c.inTx.reqContentLength, bodyDataLeft := c.inTx.reqContentLength } } with inState := .bodyIdentity }) ⟨rfl, rfl⟩ (keepCtr_modIn _ _)


/-! ### the functions that write a stream status (`KeepU` does not hold for them, `KeepCtr` does) -/

theorem keepCtr_reqConnectCheck (c : Conn) : KeepCtr c (reqConnectCheck c).1 := by
  unfold reqConnectCheck
  split <;> ku

theorem keepCtr_reqConnectProbeLoop (cfg : Cfg) (fuel : Nat) (c : Conn) : KeepCtr c (reqConnectProbeLoop cfg fuel c).1 := by
  induction fuel generalizing c with
  | zero => unfold reqConnectProbeLoop; ku
  | succ k ih =>
    unfold reqConnectProbeLoop
    simp only
    split
    · cases hc : (c.inn.peekSet).1.consolidate cfg.fieldLimitHard true with
      | none => ku
      | some q =>
        obtain ⟨d2, data⟩ := q
        have k2 : KeepCtr c { c with inn := d2 } := ⟨rfl, rfl⟩
        simp only
        split
        · split
          · exact k2.trans (keepCtr_txStateRequestComplete cfg _ _)
          · exact k2
        · ku
    · cases hn : (c.inn.peekSet).1.copyByte with
      | none => ku
      | some p =>
        obtain ⟨d, b⟩ := p
        exact KeepCtr.trans (b := { c with inn := d }) ⟨rfl, rfl⟩ (ih _)

/-- **every request state function** leaves both byte counters alone -/
theorem keepCtr_reqStateFn (cfg : Cfg) (c : Conn) : KeepCtr c (reqStateFn cfg c).1 := by
  unfold reqStateFn
  cases c.inState with
  | idle => exact keepCtr_reqIdle cfg c
  | line => exact keepCtr_reqLineLoop cfg _ c
  | protocol => exact keepCtr_reqProtocol c
  | headers => exact keepCtr_reqHeadersLoop cfg _ c
  | connectCheck => exact keepCtr_reqConnectCheck c
  | connectWaitResponse => exact keepCtr_reqConnectWaitResponse c
  | connectProbeData => exact keepCtr_reqConnectProbeLoop cfg _ c
  | bodyDetermine => exact keepCtr_reqBodyDetermine c
  | bodyIdentity => exact keepCtr_reqBodyIdentity cfg c
  | bodyChunkedLength => exact keepCtr_reqChunkedLengthLoop cfg _ c
  | bodyChunkedData => exact keepCtr_reqBodyChunkedData cfg c
  | bodyChunkedDataEnd => exact keepCtr_reqChunkedDataEndLoop _ c
  | finalize => exact keepCtr_reqFinalize cfg c
  | ignoreDataAfter09 => exact keepCtr_reqIgnore c

/-- the for(;;) of htp_connp_req_data (gap or not, any fuel - the out-of-fuel exit included) -/
theorem keepCtr_reqDriverLoop (cfg : Cfg) (g : Bool) (fuel : Nat) (c : Conn) : KeepCtr c (reqDriverLoop cfg g fuel c).1 := by
  induction fuel generalizing c with
  | zero => unfold reqDriverLoop; ku
  | succ k ih =>
    unfold reqDriverLoop
    extract_lets stepR
    have hs : ∀ r, stepR = some r → KeepCtr c r.1 := by
      intro r hr
      simp only [stepR] at hr
      split at hr
      · split at hr
        · simp only [Option.some.injEq] at hr; rw [← hr]; exact keepCtr_reqStateFn ..
        · split at hr
          · split at hr
            · simp only [Option.some.injEq] at hr; rw [← hr]; exact keepCtr_txStateRequestComplete ..
            · simp only [Option.some.injEq] at hr; rw [← hr]
          · simp at hr
      · simp only [Option.some.injEq] at hr; rw [← hr]; exact keepCtr_reqStateFn ..
    clear_value stepR
    split
    · ku
    · rename_i _ c1 rc1
      have h1 : KeepCtr c c1 := hs _ rfl
      have h2 : KeepCtr c (if rc1 == Rc.ok then (if c1.inn.status == STREAM_TUNNEL then (c1, Rc.ok) else reqHandleStateChange c1) else (c1, rc1)).1 := by
        split
        · split
          · exact h1
          · exact h1.trans (keepCtr_reqHandleStateChange c1)
        · exact h1
      rcases hy : (if rc1 == Rc.ok then (if c1.inn.status == STREAM_TUNNEL then (c1, Rc.ok) else reqHandleStateChange c1) else (c1, rc1)) with ⟨c2, rc2⟩
      rw [hy] at h2
      simp only at h2 ⊢
      split
      · split
        · exact h2
        · exact h2.trans (ih c2)
      · split
        · have kk := keepCtr_reqReceiverSend false c2
          rcases hz : reqReceiverSend false c2 with ⟨c3, rc3⟩
          rw [hz] at kk
          simp only at kk ⊢
          have h3 : KeepCtr c c3 := h2.trans kk
          split
          · cases hb : c3.inn.buffer cfg.fieldLimitHard true with
            | none => exact h3.trans ⟨rfl, rfl⟩
            | some d => exact h3.trans ⟨rfl, rfl⟩
          · exact h3.trans ⟨rfl, rfl⟩
        · repeat' split
          all_goals exact h2.trans ⟨rfl, rfl⟩

theorem keepCtr_reqWakeOther (c : Conn) : KeepCtr c (reqWakeOther c) := by
  unfold reqWakeOther
  split <;> ku

theorem keepCtr_resRefusedConnect (t : Tx) (c : Conn) : KeepCtr c (resRefusedConnect t c) := by
  unfold resRefusedConnect
  split
  · split <;> ku
  · ku

theorem keepCtr_resSwitchTunnel (c : Conn) : KeepCtr c (resSwitchTunnel c) := by
  unfold resSwitchTunnel
  simp only
  split <;> ku

theorem keepCtr_resExpectShortcut (t : Tx) (c : Conn) : KeepCtr c (resExpectShortcut t c) := by
  unfold resExpectShortcut
  repeat' split
  all_goals ku

theorem keepCtr_resBodyDetermineRest (cfg : Cfg) (uid : Nat) (t : Tx) (c : Conn) :
    KeepCtr c (resBodyDetermineRest cfg uid t c).1 := by
  unfold resBodyDetermineRest
  extract_lets c1 cl te is100
  have h1 : KeepCtr c c1 := keepCtr_resRefusedConnect t c
  clear_value c1 is100
  split
  · exact (h1.trans (keepCtr_resSwitchTunnel c1)).trans (keepCtr_txStateResponseHeaders ..)
  · split
    · exact h1.trans ⟨rfl, rfl⟩
    · refine h1.trans ?_
      apply keepCtr_andThen
      · exact ((keepCtr_resExpectShortcut t c1).trans (keepCtr_resNoBody ..)).trans (keepCtr_resFramingStep ..)
      · intro c9; exact keepCtr_txStateResponseHeaders ..

theorem keepCtr_resBodyDetermine (cfg : Cfg) (c : Conn) : KeepCtr c (resBodyDetermine cfg c).1 := by
  unfold resBodyDetermine
  cases c.out.tx with
  | none => ku
  | some uid =>
    simp only
    split
    · exact KeepCtr.trans (b := { c with outState := .finalize }) ⟨rfl, rfl⟩ (keepCtr_txStateResponseHeaders ..)
    · exact keepCtr_resBodyDetermineRest cfg uid _ c

theorem keepCtr_resIdleUnmatched (cfg : Cfg) (c : Conn) : KeepCtr c (resIdleUnmatched cfg c).1 := by
  unfold resIdleUnmatched
  have k := keepCtr_txCreate cfg c
  rcases hx : txCreate cfg c with ⟨c2, u⟩
  rw [hx] at k
  simp only at k ⊢
  cases u with
  | none => exact k.trans ⟨rfl, rfl⟩
  | some uid =>
    simp only
    exact KeepCtr.trans (k.trans ⟨rfl, rfl⟩) (keepCtr_txStateResponseStart ..)

theorem keepCtr_resIdle (cfg : Cfg) (c : Conn) : KeepCtr c (resIdle cfg c).1 := by
  unfold resIdle
  split
  · ku
  · simp only []
    split
    · have hk : KeepCtr c (if c.inState == .finalize then (match c.inn.tx with | some uid => (txStateRequestComplete cfg uid c).1 | none => c) else c) := by
        split
        · split
          · exact keepCtr_txStateRequestComplete ..
          · ku
        · ku
      exact hk.trans (keepCtr_resIdleUnmatched ..)
    · rename_i t _
      exact KeepCtr.trans (b := { c with outNextTxIndex := c.outNextTxIndex + 1, out := { c.out with tx := some t.uid, contentLength := -1, bodyDataLeft := -1 } }) ⟨rfl, rfl⟩ (keepCtr_txStateResponseStart ..)

/-- **every response state function** leaves both byte counters alone -/
theorem keepCtr_resStateFn (cfg : Cfg) (c : Conn) : KeepCtr c (resStateFn cfg c).1 := by
  unfold resStateFn
  cases c.outState with
  | idle => exact keepCtr_resIdle cfg c
  | line => exact keepCtr_resLineLoop ..
  | headers => exact keepCtr_resHeadersLoop ..
  | bodyDetermine => exact keepCtr_resBodyDetermine cfg c
  | bodyIdentityClKnown => exact keepCtr_resBodyIdentityClKnown ..
  | bodyIdentityStreamClose => exact keepCtr_resBodyIdentityStreamClose ..
  | bodyChunkedLength => exact keepCtr_resChunkedLengthLoop ..
  | bodyChunkedData => exact keepCtr_resBodyChunkedData ..
  | bodyChunkedDataEnd => exact keepCtr_resChunkedDataEndLoop ..
  | finalize => exact keepCtr_resFinalize ..

/-- the for(;;) of htp_connp_res_data -/
theorem keepCtr_resDriverLoop (cfg : Cfg) (g : Bool) (fuel : Nat) (c : Conn) : KeepCtr c (resDriverLoop cfg g fuel c).1 := by
  induction fuel generalizing c with
  | zero => unfold resDriverLoop; ku
  | succ k ih =>
    unfold resDriverLoop
    extract_lets stepR
    have hs : ∀ r, stepR = some r → KeepCtr c r.1 := by
      intro r hr
      simp only [stepR] at hr
      split at hr
      · split at hr
        · simp only [Option.some.injEq] at hr; rw [← hr]; exact keepCtr_resStateFn ..
        · split at hr
          · split at hr
            · simp only [Option.some.injEq] at hr; rw [← hr]; exact keepCtr_txStateResponseCompleteEx ..
            · simp only [Option.some.injEq] at hr; rw [← hr]
          · simp at hr
      · simp only [Option.some.injEq] at hr; rw [← hr]; exact keepCtr_resStateFn ..
    clear_value stepR
    split
    · ku
    · rename_i _ c1 rc1
      have h1 : KeepCtr c c1 := hs _ rfl
      have h2 : KeepCtr c (if rc1 == Rc.ok then (if c1.out.status == STREAM_TUNNEL then (c1, Rc.ok) else resHandleStateChange c1) else (c1, rc1)).1 := by
        split
        · split
          · exact h1
          · exact h1.trans (keepCtr_resHandleStateChange c1)
        · exact h1
      rcases hy : (if rc1 == Rc.ok then (if c1.out.status == STREAM_TUNNEL then (c1, Rc.ok) else resHandleStateChange c1) else (c1, rc1)) with ⟨c2, rc2⟩
      rw [hy] at h2
      simp only at h2 ⊢
      split
      · split
        · exact h2
        · exact h2.trans (ih c2)
      · split
        · have kk := keepCtr_resReceiverSend false c2
          rcases hz : resReceiverSend false c2 with ⟨c3, rc3⟩
          rw [hz] at kk
          simp only at kk ⊢
          have h3 : KeepCtr c c3 := h2.trans kk
          split
          · cases hb : c3.out.buffer cfg.fieldLimitHard false with
            | none => exact h3.trans ⟨rfl, rfl⟩
            | some d => exact h3.trans ⟨rfl, rfl⟩
          · exact h3.trans ⟨rfl, rfl⟩
        · repeat' split
          all_goals exact h2.trans ⟨rfl, rfl⟩


/-! ## Part 2: one call, exactly -/

/-- the request data call gets past its four early returns (status STOP, status ERROR, no transaction outside REQ_IDLE, zero length on a
    stream that is not CLOSED) and reaches htp_conn_track_inbound_data -/
def reqCounted (c : Conn) (len : Nat) : Bool :=
  !(c.inn.status == STREAM_STOP) && !(c.inn.status == STREAM_ERROR) && !(c.inn.tx.isNone && c.inState != .idle) &&
  !(len == 0 && c.inn.status != STREAM_CLOSED)

/-- the same for htp_connp_res_data / htp_conn_track_outbound_data -/
def resCounted (c : Conn) (len : Nat) : Bool :=
  !(c.out.status == STREAM_STOP) && !(c.out.status == STREAM_ERROR) && !(c.out.tx.isNone && c.outState != .idle) &&
  !(len == 0 && c.out.status != STREAM_CLOSED)

/-- a data call that was not answered by an early return: the codes the early returns cannot produce are those of the parser loop and
    of the tunnel return -/
def Accepted (rc : Nat) : Prop := rc = STREAM_DATA ∨ rc = STREAM_DATA_OTHER ∨ rc = STREAM_TUNNEL

instance (rc : Nat) : Decidable (Accepted rc) := by unfold Accepted; infer_instance

theorem not_accepted_stop : ¬ Accepted STREAM_STOP := by decide
theorem not_accepted_error : ¬ Accepted STREAM_ERROR := by decide
theorem not_accepted_closed : ¬ Accepted STREAM_CLOSED := by decide

theorem reqDataCore_counters (cfg : Cfg) (data : Option Bytes) (len : Nat) (c : Conn) :
    (reqDataCore cfg data len c).1.inDataCounter = c.inDataCounter + (if reqCounted c len = true then len else 0) ∧
    (reqDataCore cfg data len c).1.outDataCounter = c.outDataCounter ∧
    (Accepted (reqDataCore cfg data len c).2 → reqCounted c len = true) := by
  unfold reqDataCore
  split
  · rename_i h
    have e : reqCounted c len = false := by simp [reqCounted, h]
    rw [e]; exact ⟨rfl, rfl, fun a => absurd a not_accepted_stop⟩
  split
  · rename_i h
    have e : reqCounted c len = false := by simp [reqCounted, h]
    rw [e]; exact ⟨rfl, rfl, fun a => absurd a not_accepted_error⟩
  split
  · rename_i h
    have e : reqCounted c len = false := by simp [reqCounted, h]
    rw [e]; exact ⟨rfl, rfl, fun a => absurd a not_accepted_error⟩
  split
  · rename_i h
    have e : reqCounted c len = false := by simp [reqCounted, h]
    rw [e]; exact ⟨rfl, rfl, fun a => absurd a not_accepted_closed⟩
  rename_i h1 h2 h3 h4
  have e : reqCounted c len = true := by simp [reqCounted, h1, h2, h3, h4]
  rw [e]
  simp only [if_true]
  split
  · exact ⟨rfl, rfl, fun _ => trivial⟩
  · have k := (keepCtr_reqWakeOther (reqStoreChunk data len c)).trans
      (keepCtr_reqDriverLoop cfg (data.isNone && decide (len > 0)) (8 * len + 64) (reqWakeOther (reqStoreChunk data len c)))
    exact ⟨k.1, k.2, fun _ => trivial⟩

/-- **one request data call, exactly** (any chunk, a gap, the NULL chunk of a close; any state; any callback policy): the inbound counter
    grows by the length offered iff the call gets past its early returns, the outbound counter does not move -/
theorem reqData_counters (cfg : Cfg) (data : Option Bytes) (len : Nat) (c : Conn) :
    (reqData cfg data len c).1.inDataCounter = c.inDataCounter + (if reqCounted c len = true then len else 0) ∧
    (reqData cfg data len c).1.outDataCounter = c.outDataCounter :=
  ⟨(reqDataCore_counters cfg data len c).1, (reqDataCore_counters cfg data len c).2.1⟩

/-- a request data call that returns STREAM_DATA, STREAM_DATA_OTHER or STREAM_TUNNEL was counted -/
theorem reqData_accepted_counted (cfg : Cfg) (data : Option Bytes) (len : Nat) (c : Conn)
    (h : Accepted (reqData cfg data len c).2) : reqCounted c len = true :=
  (reqDataCore_counters cfg data len c).2.2 h

theorem resDataCore_counters (cfg : Cfg) (data : Option Bytes) (len : Nat) (c : Conn) :
    (resDataCore cfg data len c).1.outDataCounter = c.outDataCounter + (if resCounted c len = true then len else 0) ∧
    (resDataCore cfg data len c).1.inDataCounter = c.inDataCounter ∧
    (Accepted (resDataCore cfg data len c).2 → resCounted c len = true) := by
  unfold resDataCore
  split
  · rename_i h
    have e : resCounted c len = false := by simp [resCounted, h]
    rw [e]; exact ⟨rfl, rfl, fun a => absurd a not_accepted_stop⟩
  split
  · rename_i h
    have e : resCounted c len = false := by simp [resCounted, h]
    rw [e]; exact ⟨rfl, rfl, fun a => absurd a not_accepted_error⟩
  split
  · rename_i h
    have e : resCounted c len = false := by simp [resCounted, h]
    rw [e]; exact ⟨rfl, rfl, fun a => absurd a not_accepted_error⟩
  split
  · rename_i h
    have e : resCounted c len = false := by simp [resCounted, h]
    rw [e]; exact ⟨rfl, rfl, fun a => absurd a not_accepted_closed⟩
  rename_i h1 h2 h3 h4
  have e : resCounted c len = true := by simp [resCounted, h1, h2, h3, h4]
  rw [e]
  simp only [if_true]
  split
  · exact ⟨rfl, rfl, fun _ => trivial⟩
  · have k := keepCtr_resDriverLoop cfg (data.isNone && decide (len > 0)) (8 * len + 64) (resStoreChunk data len c)
    exact ⟨k.2, k.1, fun _ => trivial⟩

/-- **one response data call, exactly** -/
theorem resData_counters (cfg : Cfg) (data : Option Bytes) (len : Nat) (c : Conn) :
    (resData cfg data len c).1.outDataCounter = c.outDataCounter + (if resCounted c len = true then len else 0) ∧
    (resData cfg data len c).1.inDataCounter = c.inDataCounter :=
  ⟨(resDataCore_counters cfg data len c).1, (resDataCore_counters cfg data len c).2.1⟩

theorem resData_accepted_counted (cfg : Cfg) (data : Option Bytes) (len : Nat) (c : Conn)
    (h : Accepted (resData cfg data len c).2) : resCounted c len = true :=
  (resDataCore_counters cfg data len c).2.2 h

/-- a data call with length 0 (the NULL chunk of a close) moves neither counter, counted or not -/
theorem keepCtr_reqData_zero (cfg : Cfg) (data : Option Bytes) (c : Conn) : KeepCtr c (reqData cfg data 0 c).1 := by
  obtain ⟨a, b⟩ := reqData_counters cfg data 0 c
  refine ⟨?_, b⟩
  rw [a]; split <;> rfl

theorem keepCtr_resData_zero (cfg : Cfg) (data : Option Bytes) (c : Conn) : KeepCtr c (resData cfg data 0 c).1 := by
  obtain ⟨a, b⟩ := resData_counters cfg data 0 c
  refine ⟨b, ?_⟩
  rw [a]; split <;> rfl

theorem keepCtr_markClosedIn (c : Conn) : KeepCtr c (markClosedIn c) := by
  unfold markClosedIn
  split <;> ku

theorem keepCtr_markClosedOut (c : Conn) : KeepCtr c (markClosedOut c) := by
  unfold markClosedOut
  split <;> ku

/-- htp_connp_req_close changes neither counter -/
theorem keepCtr_reqClose (cfg : Cfg) (c : Conn) : KeepCtr c (reqClose cfg c).1 := by
  rw [reqClose_eq]
  exact (keepCtr_markClosedIn c).trans (keepCtr_reqData_zero ..)

/-- htp_connp_close changes neither counter -/
theorem keepCtr_connClose (cfg : Cfg) (c : Conn) : KeepCtr c (connClose cfg c).1 := by
  rw [connClose_fst]
  exact (((keepCtr_markClosedIn c).trans (keepCtr_markClosedOut _)).trans (keepCtr_reqData_zero ..)).trans (keepCtr_resData_zero ..)

/-- htp_connp_open changes neither counter -/
theorem keepCtr_connOpen (c : Conn) : KeepCtr c (connOpen c) := by
  unfold connOpen
  split <;> ku

theorem keepCtr_txFreedLoop (fuel : Nat) (c : Conn) (r : Nat) : KeepCtr c (txFreedLoop fuel c r).1 := by
  induction fuel generalizing c r with
  | zero => unfold txFreedLoop; ku
  | succ k ih =>
    unfold txFreedLoop
    split
    · rename_i rest _
      exact KeepCtr.trans (b := { c with txs := rest, outNextTxIndex := c.outNextTxIndex - 1 }) ⟨rfl, rfl⟩ (ih _ _)
    · ku

/-- htp_connp_tx_freed changes neither counter -/
theorem keepCtr_txFreed (c : Conn) : KeepCtr c (txFreed c).1 := by
  unfold txFreed
  exact keepCtr_txFreedLoop ..

/-! ## Part 3: whole histories -/

/-- what one call adds to the inbound counter, in the state it is issued in -/
def callCountedReq (c : Conn) : Call → Nat
  | .req d => if reqCounted c d.length = true then d.length else 0
  | _ => 0

def callCountedRes (c : Conn) : Call → Nat
  | .res d => if resCounted c d.length = true then d.length else 0
  | _ => 0

/-- **one call of a history, exactly** -/
theorem runCall_counters (cfg : Cfg) (c : Conn) (call : Call) :
    (runCall cfg c call).inDataCounter = c.inDataCounter + callCountedReq c call ∧
    (runCall cfg c call).outDataCounter = c.outDataCounter + callCountedRes c call := by
  cases call with
  | req d => exact ⟨(reqData_counters cfg (some d) d.length c).1, (reqData_counters cfg (some d) d.length c).2⟩
  | res d => exact ⟨(resData_counters cfg (some d) d.length c).2, (resData_counters cfg (some d) d.length c).1⟩
  | close => exact keepCtr_connClose cfg c
  | reqClose => exact keepCtr_reqClose cfg c
  | «open» => exact keepCtr_connOpen c
  | txFreed => exact keepCtr_txFreed c

/-- the request bytes COUNTED along a history from `c` (each request data call looked at in the state it is issued in) -/
def countedReq (cfg : Cfg) : Conn → List Call → Nat
  | _, [] => 0
  | c, call :: rest => callCountedReq c call + countedReq cfg (runCall cfg c call) rest

def countedRes (cfg : Cfg) : Conn → List Call → Nat
  | _, [] => 0
  | c, call :: rest => callCountedRes c call + countedRes cfg (runCall cfg c call) rest

/-- **headline, inbound**: after any history - any byte streams, chunkings, interleavings of the six calls, callback return values, from
    any state - the inbound counter is the start value plus the request bytes counted along the history -/
theorem history_inDataCounter (cfg : Cfg) (c0 : Conn) (calls : List Call) :
    (runCalls cfg c0 calls).inDataCounter = c0.inDataCounter + countedReq cfg c0 calls := by
  induction calls generalizing c0 with
  | nil => rfl
  | cons call rest ih =>
    rw [runCalls_cons, ih, (runCall_counters cfg c0 call).1]
    exact Nat.add_assoc ..

/-- **headline, outbound** -/
theorem history_outDataCounter (cfg : Cfg) (c0 : Conn) (calls : List Call) :
    (runCalls cfg c0 calls).outDataCounter = c0.outDataCounter + countedRes cfg c0 calls := by
  induction calls generalizing c0 with
  | nil => rfl
  | cons call rest ih =>
    rw [runCalls_cons, ih, (runCall_counters cfg c0 call).2]
    exact Nat.add_assoc ..

/-- the bytes OFFERED to the request / response direction by a history -/
def offeredReq : List Call → Nat
  | [] => 0
  | .req d :: rest => d.length + offeredReq rest
  | _ :: rest => offeredReq rest

def offeredRes : List Call → Nat
  | [] => 0
  | .res d :: rest => d.length + offeredRes rest
  | _ :: rest => offeredRes rest

/-- every request data call of the history is counted in the state it is issued in (none is answered by an early return) -/
def AllReqCounted (cfg : Cfg) : Conn → List Call → Prop
  | _, [] => True
  | c, .req d :: rest => reqCounted c d.length = true ∧ AllReqCounted cfg (runCall cfg c (.req d)) rest
  | c, call :: rest => AllReqCounted cfg (runCall cfg c call) rest

def AllResCounted (cfg : Cfg) : Conn → List Call → Prop
  | _, [] => True
  | c, .res d :: rest => resCounted c d.length = true ∧ AllResCounted cfg (runCall cfg c (.res d)) rest
  | c, call :: rest => AllResCounted cfg (runCall cfg c call) rest

/-- every request data call of the history returns STREAM_DATA, STREAM_DATA_OTHER or STREAM_TUNNEL -/
def AllReqAccepted (cfg : Cfg) : Conn → List Call → Prop
  | _, [] => True
  | c, .req d :: rest => Accepted (reqData cfg (some d) d.length c).2 ∧ AllReqAccepted cfg (runCall cfg c (.req d)) rest
  | c, call :: rest => AllReqAccepted cfg (runCall cfg c call) rest

def AllResAccepted (cfg : Cfg) : Conn → List Call → Prop
  | _, [] => True
  | c, .res d :: rest => Accepted (resData cfg (some d) d.length c).2 ∧ AllResAccepted cfg (runCall cfg c (.res d)) rest
  | c, call :: rest => AllResAccepted cfg (runCall cfg c call) rest

theorem countedReq_eq_offered (cfg : Cfg) (c0 : Conn) (calls : List Call) (h : AllReqCounted cfg c0 calls) :
    countedReq cfg c0 calls = offeredReq calls := by
  induction calls generalizing c0 with
  | nil => rfl
  | cons call rest ih =>
    cases call with
    | req d =>
      obtain ⟨h1, h2⟩ := h
      show callCountedReq c0 (.req d) + countedReq cfg (runCall cfg c0 (.req d)) rest = d.length + offeredReq rest
      rw [ih _ h2]
      show (if reqCounted c0 d.length = true then d.length else 0) + offeredReq rest = d.length + offeredReq rest
      rw [if_pos h1]
    | res d => show 0 + countedReq cfg (runCall cfg c0 _) rest = offeredReq rest; rw [ih _ h]; exact Nat.zero_add _
    | close => show 0 + countedReq cfg (runCall cfg c0 _) rest = offeredReq rest; rw [ih _ h]; exact Nat.zero_add _
    | reqClose => show 0 + countedReq cfg (runCall cfg c0 _) rest = offeredReq rest; rw [ih _ h]; exact Nat.zero_add _
    | «open» => show 0 + countedReq cfg (runCall cfg c0 _) rest = offeredReq rest; rw [ih _ h]; exact Nat.zero_add _
    | txFreed => show 0 + countedReq cfg (runCall cfg c0 _) rest = offeredReq rest; rw [ih _ h]; exact Nat.zero_add _

theorem countedRes_eq_offered (cfg : Cfg) (c0 : Conn) (calls : List Call) (h : AllResCounted cfg c0 calls) :
    countedRes cfg c0 calls = offeredRes calls := by
  induction calls generalizing c0 with
  | nil => rfl
  | cons call rest ih =>
    cases call with
    | res d =>
      obtain ⟨h1, h2⟩ := h
      show callCountedRes c0 (.res d) + countedRes cfg (runCall cfg c0 (.res d)) rest = d.length + offeredRes rest
      rw [ih _ h2]
      show (if resCounted c0 d.length = true then d.length else 0) + offeredRes rest = d.length + offeredRes rest
      rw [if_pos h1]
    | req d => show 0 + countedRes cfg (runCall cfg c0 _) rest = offeredRes rest; rw [ih _ h]; exact Nat.zero_add _
    | close => show 0 + countedRes cfg (runCall cfg c0 _) rest = offeredRes rest; rw [ih _ h]; exact Nat.zero_add _
    | reqClose => show 0 + countedRes cfg (runCall cfg c0 _) rest = offeredRes rest; rw [ih _ h]; exact Nat.zero_add _
    | «open» => show 0 + countedRes cfg (runCall cfg c0 _) rest = offeredRes rest; rw [ih _ h]; exact Nat.zero_add _
    | txFreed => show 0 + countedRes cfg (runCall cfg c0 _) rest = offeredRes rest; rw [ih _ h]; exact Nat.zero_add _

/-- **C09, byte counters, inbound**: in a history none of whose request data calls is answered by an early return, the inbound counter
    of the final state is the start value plus the sum of the lengths of all request chunks offered -/
theorem history_inDataCounter_offered (cfg : Cfg) (c0 : Conn) (calls : List Call) (h : AllReqCounted cfg c0 calls) :
    (runCalls cfg c0 calls).inDataCounter = c0.inDataCounter + offeredReq calls := by
  rw [history_inDataCounter, countedReq_eq_offered cfg c0 calls h]

/-- **C09, byte counters, outbound** -/
theorem history_outDataCounter_offered (cfg : Cfg) (c0 : Conn) (calls : List Call) (h : AllResCounted cfg c0 calls) :
    (runCalls cfg c0 calls).outDataCounter = c0.outDataCounter + offeredRes calls := by
  rw [history_outDataCounter, countedRes_eq_offered cfg c0 calls h]

theorem allReqCounted_of_accepted (cfg : Cfg) (c0 : Conn) (calls : List Call) (h : AllReqAccepted cfg c0 calls) :
    AllReqCounted cfg c0 calls := by
  induction calls generalizing c0 with
  | nil => trivial
  | cons call rest ih =>
    cases call with
    | req d => exact ⟨reqData_accepted_counted cfg (some d) d.length c0 h.1, ih _ h.2⟩
    | res d => exact ih _ h
    | close => exact ih _ h
    | reqClose => exact ih _ h
    | «open» => exact ih _ h
    | txFreed => exact ih _ h

theorem allResCounted_of_accepted (cfg : Cfg) (c0 : Conn) (calls : List Call) (h : AllResAccepted cfg c0 calls) :
    AllResCounted cfg c0 calls := by
  induction calls generalizing c0 with
  | nil => trivial
  | cons call rest ih =>
    cases call with
    | res d => exact ⟨resData_accepted_counted cfg (some d) d.length c0 h.1, ih _ h.2⟩
    | req d => exact ih _ h
    | close => exact ih _ h
    | reqClose => exact ih _ h
    | «open» => exact ih _ h
    | txFreed => exact ih _ h

/-- **in the property's words**: in a history whose request data calls all return STREAM_DATA, STREAM_DATA_OTHER or STREAM_TUNNEL, the
    inbound counter equals the bytes offered (no hypothesis on the chunk lengths is needed: an empty chunk on a stream that is not CLOSED
    returns STREAM_CLOSED, and a counted empty chunk adds 0) -/
theorem history_inDataCounter_accepted (cfg : Cfg) (c0 : Conn) (calls : List Call) (h : AllReqAccepted cfg c0 calls) :
    (runCalls cfg c0 calls).inDataCounter = c0.inDataCounter + offeredReq calls :=
  history_inDataCounter_offered cfg c0 calls (allReqCounted_of_accepted cfg c0 calls h)

theorem history_outDataCounter_accepted (cfg : Cfg) (c0 : Conn) (calls : List Call) (h : AllResAccepted cfg c0 calls) :
    (runCalls cfg c0 calls).outDataCounter = c0.outDataCounter + offeredRes calls :=
  history_outDataCounter_offered cfg c0 calls (allResCounted_of_accepted cfg c0 calls h)

/-- counted bytes never exceed the bytes offered: the counter is a lower bound of what was offered, in every history -/
theorem countedReq_le_offered (cfg : Cfg) (c0 : Conn) (calls : List Call) : countedReq cfg c0 calls ≤ offeredReq calls := by
  induction calls generalizing c0 with
  | nil => exact Nat.le_refl _
  | cons call rest ih =>
    cases call with
    | req d =>
      show (if reqCounted c0 d.length = true then d.length else 0) + countedReq cfg (runCall cfg c0 (.req d)) rest ≤ d.length + offeredReq rest
      have := ih (runCall cfg c0 (.req d))
      split <;> omega
    | res d => show 0 + countedReq cfg (runCall cfg c0 (.res d)) rest ≤ offeredReq rest; have := ih (runCall cfg c0 (.res d)); omega
    | close => show 0 + countedReq cfg (runCall cfg c0 .close) rest ≤ offeredReq rest; have := ih (runCall cfg c0 .close); omega
    | reqClose => show 0 + countedReq cfg (runCall cfg c0 .reqClose) rest ≤ offeredReq rest; have := ih (runCall cfg c0 .reqClose); omega
    | «open» => show 0 + countedReq cfg (runCall cfg c0 .open) rest ≤ offeredReq rest; have := ih (runCall cfg c0 .open); omega
    | txFreed => show 0 + countedReq cfg (runCall cfg c0 .txFreed) rest ≤ offeredReq rest; have := ih (runCall cfg c0 .txFreed); omega


/-! ## Part 4: a run, and what the hypothesis of the corollary excludes -/

/-- a fresh connection parser, htp_connp_open, two request chunks (5 and 7 bytes) and one response chunk (10 bytes): the counters are
    5 + 7 and 10 -/
example :
    (runCalls {} {} [.open, .req (b!"GET /"), .req (b!" HTTP/1"), .res (b!"HTTP/1.1 2")]).inDataCounter = 5 + 7 ∧
    (runCalls {} {} [.open, .req (b!"GET /"), .req (b!" HTTP/1"), .res (b!"HTTP/1.1 2")]).outDataCounter = 10 := by decide

/-- **the clause without the hypothesis is false** (in the model as in the library, where htp_connp_req_data returns before
    htp_conn_track_inbound_data): once a request call has put the stream into ERROR (here: the REQUEST_URI_NORMALIZE callback, callback
    number 1, returns HTP_ERROR - the call itself is still counted), the bytes of every later request call are offered but not counted -
    21 bytes offered, 18 counted -/
theorem inDataCounter_lt_offered_after_error :
    let c0 : Conn := { policy := [(1, .error)] }
    let calls : List Call := [.open, .req (b!"GET / HTTP/1.0\r\n\r\n"), .req (b!"abc")]
    (reqData {} (some (b!"GET / HTTP/1.0\r\n\r\n")) 18 (runCalls {} c0 [.open])).2 = STREAM_ERROR ∧
    (reqData {} (some (b!"abc")) 3 (runCalls {} c0 (calls.take 2))).2 = STREAM_ERROR ∧
    offeredReq calls = 21 ∧ (runCalls {} c0 calls).inDataCounter = 18 := by decide

/-- `AllReqAccepted` is sufficient, not necessary: the call that ENTERS the error state is counted although it returns STREAM_ERROR
    (what has to be excluded is only a call ISSUED on a stream in ERROR / STOP, on a parser without transaction outside REQ_IDLE, or an
    empty chunk on a stream that is not CLOSED - and the last adds nothing to the sum) -/
example :
    let c0 : Conn := { policy := [(1, .error)] }
    reqCounted (runCalls {} c0 [.open]) 18 = true ∧ reqCounted (runCalls {} c0 [.open, .req (b!"GET / HTTP/1.0\r\n\r\n")]) 3 = false := by
  decide

end Htp.Conn
