/- Whole call histories, part 1 and 2: calls of the two directions interleave, so each direction's call invariant (line buffer within the hard
   limit, counted body states owing bytes) must survive the calls of the OTHER direction. Part 1: what a response-direction function can do
   to the request-direction facts (`KeepIV`: nothing; `XIn`: nothing, or it moves the request parser to a state that counts no body bytes).
   Part 2: what a request-direction function can do to the response-direction facts (`KeepOV`: nothing). -/
import HtpModel.Lemmas.OwedOut
namespace Htp.Conn
open Htp Htp.Gen

/-! ### the request-direction facts, as seen from a response-direction function -/

/-- what the request direction's call invariant looks at: the line buffer, the parser state and the two amounts owed -/
@[reducible] def InView (c : Conn) : Option Bytes × ReqState × Int × Int :=
  (c.inn.buf, c.inState, c.inn.bodyDataLeft, c.inn.chunkedLength)

/-- `f` leaves the request direction's line buffer, parser state and amounts owed alone -/
@[reducible] def KeepIV (c c' : Conn) : Prop := InView c' = InView c

theorem KeepIV.refl (c : Conn) : KeepIV c c := rfl
theorem KeepIV.trans {a b c : Conn} (h1 : KeepIV a b) (h2 : KeepIV b c) : KeepIV a c := Eq.trans h2 h1

theorem KeepIV.buf {c c' : Conn} (h : KeepIV c c') : c'.inn.buf = c.inn.buf := congrArg (·.1) h
theorem KeepIV.st {c c' : Conn} (h : KeepIV c c') : c'.inState = c.inState := congrArg (·.2.1) h
theorem KeepIV.left {c c' : Conn} (h : KeepIV c c') : c'.inn.bodyDataLeft = c.inn.bodyDataLeft := congrArg (·.2.2.1) h
theorem KeepIV.chunked {c c' : Conn} (h : KeepIV c c') : c'.inn.chunkedLength = c.inn.chunkedLength := congrArg (·.2.2.2) h

theorem keepIV_of_frame {c c' : Conn} (h : FrameDirs c c') (k : KeepSt c c') : KeepIV c c' := by
  obtain ⟨_, _, _, _, h5, _, h7, h8, _⟩ := h.inn_fields
  show (c'.inn.buf, c'.inState, c'.inn.bodyDataLeft, c'.inn.chunkedLength) = (c.inn.buf, c.inState, c.inn.bodyDataLeft, c.inn.chunkedLength)
  rw [h5, h7, h8, k.1]

theorem keepIV_andThen (c0 : Conn) (r : R) (f : Conn → R) (h1 : KeepIV c0 r.1) (h2 : ∀ c, KeepIV c (f c).1) :
    KeepIV c0 (r >>? f).1 := by
  unfold R.andThen
  split
  · exact h1.trans (h2 _)
  · exact h1

theorem keepIV_runCallback (h : Hook) (uid : Option Nat) (data : Option Bytes) (l : Bool) (c : Conn) (g : Nat) (s : Bool) :
    KeepIV c (runCallback h uid data l c g s).1 := keepIV_of_frame (frame_runCallback ..) (keepSt_runCallback ..)
theorem keepIV_runCallbackN (n : Nat) (h : Hook) (uid : Option Nat) (data : Option Bytes) (l : Bool) (g : Nat) (c : Conn) :
    KeepIV c (runCallbackN n h uid data l g c).1 := keepIV_of_frame (frame_runCallbackN ..) (keepSt_runCallbackN ..)

theorem keepIV_modTx (u : Nat) (f : Tx → Tx) (c : Conn) : KeepIV c (c.modTx u f) := rfl
theorem keepIV_setTx (t : Tx) (c : Conn) : KeepIV c (c.setTx t) := rfl
theorem keepIV_modOut (f : Tx → Tx) (c : Conn) : KeepIV c (c.modOut f) := by
  unfold Conn.modOut
  split <;> exact rfl

theorem keepIV_resReceiverSend (l : Bool) (c : Conn) : KeepIV c (resReceiverSend l c).1 := by
  unfold resReceiverSend
  cases c.out.receiverHook with
  | none => exact KeepIV.refl c
  | some h =>
    simp only
    apply keepIV_andThen
    · exact keepIV_runCallback ..
    · intro c2; exact rfl

theorem keepIV_resReceiverFinalizeClear (c : Conn) : KeepIV c (resReceiverFinalizeClear c).1 := by
  unfold resReceiverFinalizeClear
  cases c.out.receiverHook with
  | none => exact KeepIV.refl c
  | some h =>
    simp only
    exact (keepIV_resReceiverSend true c).trans rfl

theorem keepIV_resReceiverSet (h : Hook) (c : Conn) : KeepIV c (resReceiverSet h c).1 := by
  unfold resReceiverSet
  simp only
  exact (keepIV_resReceiverFinalizeClear c).trans rfl

theorem keepIV_resProcessBodyData (cfg : Cfg) (data : Option Bytes) (c : Conn) :
    KeepIV c (resProcessBodyData cfg data c).1 := keepIV_of_frame (frame_resProcessBodyData ..) (keepSt_resProcessBodyData ..)
theorem keepIV_resProcessBodyDataGap (cfg : Cfg) (data : Option Bytes) (g : Nat) (c : Conn) :
    KeepIV c (resBodyIdentityClKnown.resProcessBodyDataGap cfg data g c).1 :=
  keepIV_of_frame (frame_resProcessBodyDataGap ..) (keepSt_resProcessBodyDataGap ..)

theorem keepIV_txFinalize (cfg : Cfg) (uid : Nat) (c : Conn) : KeepIV c (txFinalize cfg uid c).1 := by
  unfold txFinalize
  cases c.findTx uid with
  | none => exact KeepIV.refl c
  | some t =>
    simp only
    split
    · exact KeepIV.refl c
    · apply keepIV_andThen
      · exact keepIV_runCallback ..
      · intro c1
        split
        · split
          · exact keepIV_of_frame (frame_destroyTx ..) (keepSt_destroyTx ..)
          · exact KeepIV.refl _
        · exact KeepIV.refl _

theorem keepIV_processResponseHeader (d : Bytes) (c : Conn) : KeepIV c (processResponseHeader d c).1 := by
  unfold processResponseHeader
  simp only
  exact (keepIV_modOut _ c).trans (keepIV_modOut _ _)

theorem keepIV_resFlushHeader (c : Conn) : KeepIV c (resFlushHeader c).1 := by
  unfold resFlushHeader
  cases c.out.header with
  | none => exact KeepIV.refl c
  | some h =>
    simp only
    have := keepIV_processResponseHeader h c
    split
    · exact this
    · exact this.trans rfl

theorem keepIV_txStateResponseStart (uid : Nat) (c : Conn) : KeepIV c (txStateResponseStart uid c).1 := by
  unfold txStateResponseStart
  simp only
  refine KeepIV.trans (b := { c with out := { c.out with tx := some uid } }) rfl ?_
  apply keepIV_andThen
  · exact keepIV_runCallback ..
  · intro c1
    split
    · exact rfl
    · exact rfl

theorem keepIV_txStateResponseLine (uid : Nat) (c : Conn) : KeepIV c (txStateResponseLine uid c).1 := by
  unfold txStateResponseLine
  simp only
  refine KeepIV.trans ?_ (keepIV_runCallback ..)
  split
  · exact keepIV_modTx ..
  · exact KeepIV.refl c

theorem keepIV_txStateResponseHeaders (cfg : Cfg) (uid : Nat) (c : Conn) : KeepIV c (txStateResponseHeaders cfg uid c).1 := by
  unfold txStateResponseHeaders
  rcases responseNeedsDecompressor cfg ((c.findTx uid).getD { uid := uid }) with ⟨enc, needs⟩
  simp only
  apply keepIV_andThen
  · exact KeepIV.trans (b := c.modTx uid _) rfl (keepIV_resReceiverFinalizeClear _)
  · intro c1
    apply keepIV_andThen
    · exact keepIV_runCallback ..
    · intro c2
      split
      · split
        · exact rfl
        · cases ceChain cfg ((getHeaderC ((c.findTx uid).getD { uid := uid }).resHeaders (b!"content-encoding")).map (·.value) |>.getD []) with
          | nil => exact rfl
          | cons ty rest => exact rfl
      · exact KeepIV.refl _

theorem keepIV_txStateResponseCompleteEx (cfg : Cfg) (uid : Nat) (c : Conn) : KeepIV c (txStateResponseCompleteEx cfg uid c).1 := by
  unfold txStateResponseCompleteEx
  simp only
  apply keepIV_andThen
  · split
    · apply keepIV_andThen
      · refine KeepIV.trans ?_ (keepIV_runCallback ..)
        split
        · exact KeepIV.trans (b := c.modTx uid _) rfl (keepIV_resProcessBodyData ..)
        · exact rfl
      · intro c1; exact keepIV_resReceiverFinalizeClear _
    · exact KeepIV.refl _
  · intro c1
    split
    · exact KeepIV.refl _
    · split
      · exact rfl
      · apply keepIV_andThen
        · exact keepIV_txFinalize ..
        · intro c2; exact rfl

theorem keepIV_resCl (cl ct : Option Parse.Header) (uid : Nat) (c : Conn) : KeepIV c (resCl cl ct uid c).1 := by
  unfold resCl
  cases cl with
  | some cl' =>
    simp only
    repeat' split
    all_goals exact rfl
  | none =>
    simp only
    repeat' split
    all_goals exact rfl

theorem keepIV_resFraming (te cl ct : Option Parse.Header) (uid : Nat) (c : Conn) : KeepIV c (resFraming te cl ct uid c).1 := by
  unfold resFraming
  repeat' split
  all_goals first | exact rfl | exact keepIV_resCl ..

/-- a refused CONNECT changes the request direction's stream status only -/
theorem keepIV_resRefusedConnect (t : Tx) (c : Conn) : KeepIV c (resRefusedConnect t c) := by
  unfold resRefusedConnect
  simp only []
  repeat' split
  all_goals exact rfl

/-- 101 Switching Protocols changes the request direction's stream status only -/
theorem keepIV_resSwitchTunnel (c : Conn) : KeepIV c (resSwitchTunnel c) := by
  unfold resSwitchTunnel
  simp only []
  repeat' split
  all_goals exact rfl

theorem keepIV_resNoBody (uid : Nat) (t : Tx) (te cl : Option Parse.Header) (c : Conn) : KeepIV c (resNoBody uid t te cl c) := by
  unfold resNoBody
  repeat' split
  all_goals exact rfl

theorem keepIV_resFramingStep (uid : Nat) (t : Tx) (te cl : Option Parse.Header) (c : Conn) : KeepIV c (resFramingStep uid t te cl c).1 := by
  unfold resFramingStep
  split
  · simp only []
    refine KeepIV.trans ?_ (keepIV_resFraming ..)
    split
    · exact keepIV_modTx ..
    · exact KeepIV.refl _
  · exact KeepIV.refl _

/-! ### the response state functions that never touch the request-direction facts -/

theorem keepIV_resLineAsBody (cfg : Cfg) (uid : Nat) (dn : Bool) (data line : Bytes) (cr : Nat) (c : Conn) :
    KeepIV c (resLineAsBody cfg uid dn data line cr c).1 := by
  unfold resLineAsBody
  extract_lets nextIsH rd1 ln1 c1 c2 src c3
  have k3 : KeepIV c c3 := rfl
  have k1 : KeepIV c c1 := rfl
  clear_value c1 c3
  split
  · exact k1
  · have k := keepIV_resProcessBodyData cfg (if dn then none else some (data.take (line.length + cr))) c3
    rcases hx : resProcessBodyData cfg (if dn then none else some (data.take (line.length + cr))) c3 with ⟨c4, rc4⟩
    rw [hx] at k
    simp only at k ⊢
    have k4 : KeepIV c c4 := k3.trans k
    split
    · exact k4
    · split
      · exact k4
      · exact k4

theorem keepIV_resLineComplete (cfg : Cfg) (uid : Nat) (closed : Bool) (c : Conn) :
    KeepIV c (resLineComplete cfg uid closed c).1 := by
  unfold resLineComplete
  cases hc : c.out.consolidate cfg.fieldLimitHard false with
  | none => exact rfl
  | some q =>
    obtain ⟨d2, data⟩ := q
    simp -zeta only
    extract_lets dataNull c0 c1 c2 c3 rl c4
    have h3 : KeepIV c c3 := rfl
    have h4 : KeepIV c c4 := rfl
    have h2 : KeepIV c c2 := by
      show KeepIV c (c1.modTx uid _)
      simp only [c1]
      split
      · exact rfl
      · exact rfl
    clear_value c0 c1 c2 c3 c4 dataNull
    split
    · exact h2
    · split
      · exact h3.trans (keepIV_resLineAsBody ..)
      · have k := keepIV_txStateResponseLine uid c4
        generalize txStateResponseLine uid c4 = r at k ⊢
        unfold R.andThen
        split
        · exact (h4.trans k).trans rfl
        · exact h4.trans k

theorem keepIV_resLineLoop (cfg : Cfg) (fuel : Nat) (c : Conn) : KeepIV c (resLineLoop cfg fuel c).1 := by
  induction fuel generalizing c with
  | zero => unfold resLineLoop; exact rfl
  | succ k ih =>
    unfold resLineLoop
    cases c.out.tx with
    | none => exact rfl
    | some uid =>
      simp only
      split
      · exact rfl
      · rename_i c1 h1
        have e1 : KeepIV c c1 := by
          split at h1
          · cases hcb : c.out.copyByte with
            | none => rw [hcb] at h1; simp at h1
            | some p =>
              obtain ⟨d, b⟩ := p
              rw [hcb] at h1
              simp only [Option.some.injEq] at h1
              rw [← h1]
          · simp only [Option.some.injEq] at h1; rw [← h1]
        split
        · exact e1
        · rename_i c2 h2
          have e2 : KeepIV c c2 := by
            split at h2
            · simp only [Dir.peekSet] at h2
              cases hp : c1.out.peek with
              | none => rw [hp] at h2; simp at h2
              | some b =>
                rw [hp] at h2
                simp only at h2
                split at h2
                · simp only [Except.ok.injEq, Prod.mk.injEq] at h2; rw [← h2.1]; exact e1
                · simp only [Except.ok.injEq, Prod.mk.injEq] at h2; simp at h2
            · simp only [Except.ok.injEq, Prod.mk.injEq] at h2; simp at h2
          exact e2.trans (ih c2)
        · rename_i c2 h2
          have e2 : KeepIV c c2 := by
            split at h2
            · simp only [Dir.peekSet] at h2
              cases hp : c1.out.peek with
              | none => rw [hp] at h2; simp at h2
              | some b =>
                rw [hp] at h2
                simp only at h2
                split at h2
                · simp only [Except.ok.injEq, Prod.mk.injEq] at h2; simp at h2
                · simp only [Except.ok.injEq, Prod.mk.injEq] at h2; rw [← h2.1]; exact e1
            · simp only [Except.ok.injEq, Prod.mk.injEq] at h2; rw [← h2.1]; exact e1
          split
          · exact e2.trans (ih c2)
          · exact e2.trans (keepIV_resLineComplete ..)

theorem eol_keepIV (b : UInt8) (lfcr : Bool) (c : Conn) :
    ∀ c2 l e a, resHeadersEol b lfcr c = .ok (c2, l, e, a) → KeepIV c c2 := by
  intro c2 l e a h
  unfold resHeadersEol at h
  simp only [] at h
  repeat' split at h
  all_goals first
    | (simp only [Except.ok.injEq, Prod.mk.injEq] at h; rw [← h.1])
    | (simp at h)

theorem keepIV_resHeaderLine (uid : Nat) (line : Bytes) (c : Conn) : KeepIV c (resHeaderLine uid line c).1 := by
  unfold resHeaderLine
  split
  · apply keepIV_andThen
    · exact keepIV_resFlushHeader c
    · intro c1
      simp only [Dir.peekSet]
      obtain hp | ⟨b, hp⟩ : c1.out.peek = none ∨ ∃ b, c1.out.peek = some b := by cases c1.out.peek <;> simp
      · simp only [hp, Bool.not_true, Bool.false_eq_true, if_false]
      · simp only [hp]
        by_cases hf : isFoldingChar b = true
        · simp only [hf, Bool.not_true, Bool.false_eq_true, if_false]
        · simp only [hf, Bool.not_false, if_true]
          have e := keepIV_processResponseHeader line { c1 with out := { c1.out with nextByte := (b.toNat : Int) } }
          rcases hy : processResponseHeader line { c1 with out := { c1.out with nextByte := (b.toNat : Int) } } with ⟨c2, rc2⟩
          rw [hy] at e
          simp only at e ⊢
          split
          · exact KeepIV.trans (b := { c1 with out := { c1.out with nextByte := (b.toNat : Int) } }) rfl e
          · exact KeepIV.trans (b := { c1 with out := { c1.out with nextByte := (b.toNat : Int) } }) rfl e
  · cases c.out.header with
    | none => exact rfl
    | some h =>
      simp only
      split
      · have e := keepIV_processResponseHeader h (c.modTx uid fun t => { t with flags := t.flags ||| INVALID_FOLDING })
        rcases hy : processResponseHeader h (c.modTx uid fun t => { t with flags := t.flags ||| INVALID_FOLDING }) with ⟨c2, rc2⟩
        rw [hy] at e
        simp only at e ⊢
        split
        · exact KeepIV.trans (b := c.modTx uid _) rfl e
        · exact KeepIV.trans (b := c.modTx uid _) rfl e
      · split
        · exact rfl
        · exact rfl

theorem keepIV_resHeadersLoop (cfg : Cfg) (fuel : Nat) (lfcr : Bool) (c : Conn) :
    KeepIV c (resHeadersLoop cfg fuel lfcr c).1 := by
  induction fuel generalizing c lfcr with
  | zero => unfold resHeadersLoop; exact rfl
  | succ k ih =>
    unfold resHeadersLoop
    cases c.out.tx with
    | none => exact rfl
    | some uid =>
      simp only
      have trailer : ∀ (c0 : Conn),
          KeepIV c0 (resReceiverFinalizeClear c0 >>? fun c => runCallback .responseTrailer (some uid) none false c >>? fun c => ({ c with outState := .finalize }, Rc.ok)).1 := by
        intro c0
        apply keepIV_andThen
        · exact keepIV_resReceiverFinalizeClear c0
        · intro c1
          apply keepIV_andThen
          · exact keepIV_runCallback ..
          · intro c2; exact rfl
      split
      · exact trailer c
      · cases hn : c.out.copyByte with
        | none => exact rfl
        | some p =>
          obtain ⟨d, b⟩ := p
          simp only
          split
          · exact KeepIV.trans (b := { c with out := d }) rfl (ih _ _)
          · have he := eol_keepIV b lfcr { c with out := d }
            split
            · exact rfl
            · rename_i heq
              have e2 := he _ _ _ _ heq
              exact KeepIV.trans (KeepIV.trans (b := { c with out := d }) rfl e2) (ih _ _)
            · rename_i c2 lfcr2 ecr2 heq
              have e2 : KeepIV c c2 := KeepIV.trans (b := { c with out := d }) rfl (he _ _ _ _ heq)
              cases hc : c2.out.consolidate cfg.fieldLimitHard false with
              | none => exact e2
              | some q =>
                obtain ⟨d2, data⟩ := q
                simp only
                have e3 : KeepIV c { c2 with out := d2 } := e2.trans rfl
                split
                · exact e3.trans (ih lfcr2 { c2 with out := d2 })
                · split
                  · refine e3.trans ?_
                    apply keepIV_andThen
                    · exact keepIV_resFlushHeader _
                    · intro c5
                      split
                      · exact rfl
                      · exact KeepIV.trans (b := { c5 with out := c5.out.clearBuffer }) rfl (trailer _)
                  · refine e3.trans ?_
                    apply keepIV_andThen
                    · exact keepIV_resHeaderLine ..
                    · intro c5
                      exact KeepIV.trans (b := { c5 with out := c5.out.clearBuffer }) rfl (ih _ _)

theorem keepIV_resBodyIdentityClKnown (cfg : Cfg) (c : Conn) : KeepIV c (resBodyIdentityClKnown cfg c).1 := by
  unfold resBodyIdentityClKnown
  extract_lets avail n cfin data
  clear_value n data
  split
  · exact KeepIV.trans (b := cfin) rfl (keepIV_resProcessBodyData ..)
  · split
    · exact rfl
    · have k := keepIV_resProcessBodyDataGap cfg data (if c.out.curNull then n.toNat else 0) c
      rcases hx : resBodyIdentityClKnown.resProcessBodyDataGap cfg data (if c.out.curNull then n.toNat else 0) c with ⟨c1, rc1⟩
      rw [hx] at k
      simp only at k ⊢
      split
      · exact k
      · split
        · exact KeepIV.trans (KeepIV.trans k (b := c1) (c := { { c1 with out := { c1.out.advance n with bodyDataLeft := c1.out.bodyDataLeft - n } } with outState := .finalize }) rfl) (keepIV_resProcessBodyData ..)
        · exact k.trans rfl

theorem keepIV_resBodyIdentityStreamClose (cfg : Cfg) (c : Conn) : KeepIV c (resBodyIdentityStreamClose cfg c).1 := by
  unfold resBodyIdentityStreamClose
  extract_lets n data r
  have hr : KeepIV c r.1 := by
    simp only [r]
    split
    · have k := keepIV_resProcessBodyDataGap cfg data (if c.out.curNull then n.toNat else 0) c
      rcases hx : resBodyIdentityClKnown.resProcessBodyDataGap cfg data (if c.out.curNull then n.toNat else 0) c with ⟨c1, rc1⟩
      rw [hx] at k
      simp only at k ⊢
      split
      · exact k
      · exact k.trans rfl
    · exact rfl
  clear_value r
  apply keepIV_andThen
  · exact hr
  · intro c1
    split
    · exact rfl
    · exact rfl

theorem keepIV_resChunkedDataEndLoop (fuel : Nat) (c : Conn) : KeepIV c (resChunkedDataEndLoop fuel c).1 := by
  induction fuel generalizing c with
  | zero => unfold resChunkedDataEndLoop; exact rfl
  | succ k ih =>
    unfold resChunkedDataEndLoop
    cases hn : c.out.nextByteConsume with
    | none => exact rfl
    | some p =>
      obtain ⟨d, b⟩ := p
      simp only
      have k1 : KeepIV c ({ c with out := d }.modOut (fun t => { t with resMessageLen := t.resMessageLen + 1 })) :=
        KeepIV.trans (b := { c with out := d }) rfl (keepIV_modOut _ _)
      split
      · exact k1.trans rfl
      · exact k1.trans (ih _)

theorem keepIV_resBodyChunkedData (cfg : Cfg) (c : Conn) : KeepIV c (resBodyChunkedData cfg c).1 := by
  unfold resBodyChunkedData
  extract_lets avail n data
  clear_value n data
  split
  · exact rfl
  · have k := keepIV_resProcessBodyData cfg (some data) c
    rcases hx : resProcessBodyData cfg (some data) c with ⟨c1, rc1⟩
    rw [hx] at k
    simp only at k ⊢
    split
    · exact k
    · split
      · exact k.trans rfl
      · exact k.trans rfl

theorem keepIV_resChunkedLengthLoop (cfg : Cfg) (fuel : Nat) (c : Conn) : KeepIV c (resChunkedLengthLoop cfg fuel c).1 := by
  induction fuel generalizing c with
  | zero => unfold resChunkedLengthLoop; exact rfl
  | succ k ih =>
    unfold resChunkedLengthLoop
    cases hn : c.out.copyByte with
    | none => exact rfl
    | some p =>
      obtain ⟨d, b⟩ := p
      simp -zeta only
      extract_lets c0
      have h0 : KeepIV c c0 := rfl
      clear_value c0
      split
      · exact h0.trans (ih _)
      · cases hc : c0.out.consolidate cfg.fieldLimitHard false with
        | none => exact h0
        | some q =>
          obtain ⟨d2, data⟩ := q
          simp -zeta only
          extract_lets c1 s1 c2 s2 rd c3 c4
          have h1 : KeepIV c c1 := h0.trans (KeepIV.trans (b := { c0 with out := d2 }) rfl (keepIV_modOut _ _))
          have h2 : KeepIV c c2 := h1.trans rfl
          have h4 : KeepIV c c4 := h2.trans rfl
          have h3 : KeepIV c c3 := h2.trans rfl
          clear_value c1 c2 c3 c4
          split
          · exact KeepIV.trans (h2.trans (c := { c2 with out := { c2.out with consume := c2.out.read } }) rfl) (ih _)
          · split
            · exact h3.trans (keepIV_modOut _ _)
            · split
              · exact h4.trans rfl
              · exact h4.trans (KeepIV.trans (b := { c4 with outState := .headers }) rfl (keepIV_modOut _ _))

theorem keepIV_resFinalize (cfg : Cfg) (c : Conn) : KeepIV c (resFinalize cfg c).1 := by
  unfold resFinalize
  cases c.out.tx with
  | none => exact rfl
  | some uid =>
    simp -zeta only
    extract_lets cp pre
    have hp : ∀ c' b, pre = some (c', b) → KeepIV c c' := by
      intro c' b hpre
      simp only [pre] at hpre
      split at hpre
      · split at hpre
        · simp only [Option.some.injEq, Prod.mk.injEq] at hpre; rw [← hpre.1]
        · split at hpre
          · split at hpre
            · simp at hpre
            · simp only [Option.some.injEq, Prod.mk.injEq] at hpre
              rw [← hpre.1]
          · simp only [Option.some.injEq, Prod.mk.injEq] at hpre; rw [← hpre.1]
      · simp only [Option.some.injEq, Prod.mk.injEq] at hpre; rw [← hpre.1]
    clear_value pre
    split
    · exact rfl
    · rename_i _ c1
      exact (hp _ _ rfl).trans (keepIV_txStateResponseCompleteEx ..)
    · rename_i _ c1
      have h1 := hp _ _ rfl
      clear hp
      cases hc : c1.out.consolidate cfg.fieldLimitHard false with
      | none => exact h1
      | some q =>
        obtain ⟨d2, data⟩ := q
        simp -zeta only
        extract_lets dataNull c2 rd keep buf cs
        have h2 : KeepIV c c2 := h1.trans rfl
        clear_value c2 dataNull
        split
        · exact h2.trans (keepIV_txStateResponseCompleteEx ..)
        · split
          · have k := keepIV_resProcessBodyData cfg (some data) c2
            rcases hx : resProcessBodyData cfg (some data) c2 with ⟨c3, rc3⟩
            rw [hx] at k
            simp only at k ⊢
            exact (h2.trans k).trans rfl
          · exact KeepIV.trans (h2.trans (c := { c2 with out := { c2.out with read := rd, consume := cs, buf := buf } }) rfl) (keepIV_txStateResponseCompleteEx ..)

theorem keepIV_resHandleStateChange (c : Conn) : KeepIV c (resHandleStateChange c).1 := by
  unfold resHandleStateChange
  split
  · exact rfl
  · simp only
    apply keepIV_andThen
    · repeat' split
      all_goals first | exact KeepIV.refl c | exact keepIV_resReceiverSet _ c
    · intro c1; exact rfl

/-! ### ... and the three that do: RES_IDLE completes a request waiting in REQ_FINALIZE and, for an unmatched response, makes up a
    transaction (htp_connp_tx_create resets `in_body_data_left` to -1) and forces REQ_FINALIZE; RES_BODY_DETERMINE forces REQ_FINALIZE on
    a 4xx answer to `Expect: 100-continue`. All of them leave the request parser in a state that counts no body bytes. -/

/-- `f` leaves the request direction's line buffer alone, and either the parser state and the amounts owed as well, or the request parser
    in a state that counts no body bytes -/
def XIn (c c' : Conn) : Prop := c'.inn.buf = c.inn.buf ∧ (KeepIV c c' ∨ NotOwing c'.inState)

theorem XIn.of_keep {c c' : Conn} (h : KeepIV c c') : XIn c c' := ⟨h.buf, Or.inl h⟩
theorem XIn.refl (c : Conn) : XIn c c := XIn.of_keep rfl
theorem XIn.trans {a b c : Conn} (h1 : XIn a b) (h2 : XIn b c) : XIn a c := by
  refine ⟨h2.1.trans h1.1, ?_⟩
  rcases h2.2 with k2 | n2
  · rcases h1.2 with k1 | n1
    · exact Or.inl (k1.trans k2)
    · right; rw [k2.st]; exact n1
  · exact Or.inr n2

theorem xIn_andThen (c0 : Conn) (r : R) (f : Conn → R) (h1 : XIn c0 r.1) (h2 : ∀ c, XIn c (f c).1) :
    XIn c0 (r >>? f).1 := by
  unfold R.andThen
  split
  · exact h1.trans (h2 _)
  · exact h1

/-- the request direction's call invariant survives such a function -/
theorem owedPos_of_xIn {c c' : Conn} (x : XIn c c') (h : OwedPos c) : OwedPos c' := by
  rcases x.2 with k | n
  · exact ⟨fun e => by rw [k.left]; exact h.1 (by rw [← k.st]; exact e), fun e => by rw [k.chunked]; exact h.2 (by rw [← k.st]; exact e)⟩
  · exact owedPos_of_notOwing n

theorem inBufLen_of_xIn {c c' : Conn} (x : XIn c c') : inBufLen c' = inBufLen c := by
  unfold inBufLen; rw [x.1]

theorem xIn_resExpectShortcut (t : Tx) (c : Conn) : XIn c (resExpectShortcut t c) := by
  unfold resExpectShortcut
  repeat' split
  all_goals first
    | exact XIn.refl _
    | exact ⟨rfl, Or.inr (notOwing_of_eq (s := .finalize) rfl ⟨by decide, by decide⟩)⟩

theorem xIn_resBodyDetermineRest (cfg : Cfg) (uid : Nat) (t : Tx) (c : Conn) : XIn c (resBodyDetermineRest cfg uid t c).1 := by
  unfold resBodyDetermineRest
  extract_lets c1 cl te is100
  have k1 : KeepIV c c1 := keepIV_resRefusedConnect t c
  clear_value c1 is100
  split
  · exact XIn.of_keep ((k1.trans (keepIV_resSwitchTunnel c1)).trans (keepIV_txStateResponseHeaders ..))
  · split
    · exact XIn.of_keep (k1.trans rfl)
    · apply xIn_andThen
      · exact (((XIn.of_keep k1).trans (xIn_resExpectShortcut t c1)).trans (XIn.of_keep (keepIV_resNoBody ..))).trans
          (XIn.of_keep (keepIV_resFramingStep ..))
      · intro c9; exact XIn.of_keep (keepIV_txStateResponseHeaders ..)

theorem xIn_resBodyDetermine (cfg : Cfg) (c : Conn) : XIn c (resBodyDetermine cfg c).1 := by
  unfold resBodyDetermine
  cases c.out.tx with
  | none => exact XIn.refl c
  | some uid =>
    simp only
    split
    · exact XIn.of_keep (KeepIV.trans (b := { c with outState := .finalize }) rfl (keepIV_txStateResponseHeaders ..))
    · exact xIn_resBodyDetermineRest ..

/-- htp_connp_tx_create: the line buffer is not touched; when no transaction is created, nothing of the request direction is -/
theorem txCreate_view (cfg : Cfg) (c : Conn) :
    (txCreate cfg c).1.inn.buf = c.inn.buf ∧ ((txCreate cfg c).2 = none → KeepIV c (txCreate cfg c).1) := by
  unfold txCreate
  simp only []
  split
  · exact ⟨rfl, fun _ => rfl⟩
  · exact ⟨rfl, fun h => by simp at h⟩

theorem xIn_resIdleUnmatched (cfg : Cfg) (c : Conn) : XIn c (resIdleUnmatched cfg c).1 := by
  unfold resIdleUnmatched
  obtain ⟨hb, hn⟩ := txCreate_view cfg c
  rcases hx : txCreate cfg c with ⟨c2, u⟩
  rw [hx] at hb hn
  simp only at hb hn ⊢
  cases u with
  | none => exact XIn.of_keep ((hn rfl).trans rfl)
  | some uid =>
    simp only
    refine XIn.trans ?_ (XIn.of_keep (keepIV_txStateResponseStart ..))
    exact ⟨hb, Or.inr (notOwing_of_eq (s := .finalize) rfl ⟨by decide, by decide⟩)⟩

theorem xIn_resIdle (cfg : Cfg) (c : Conn) : XIn c (resIdle cfg c).1 := by
  unfold resIdle
  split
  · exact XIn.refl c
  · simp only []
    split
    · have hk : XIn c (if c.inState == .finalize then (match c.inn.tx with | some uid => (txStateRequestComplete cfg uid c).1 | none => c) else c) := by
        split
        · rename_i hf
          have hf' : c.inState = .finalize := by simpa using hf
          split
          · rename_i uid _
            refine ⟨keepBuf_txStateRequestComplete cfg uid c, Or.inr ?_⟩
            rcases st_txStateRequestComplete cfg uid c with h | h
            · exact notOwing_of_eq (h.trans hf') ⟨by decide, by decide⟩
            · exact ⟨h.1, h.2.1⟩
          · exact XIn.refl c
        · exact XIn.refl c
      exact hk.trans (xIn_resIdleUnmatched ..)
    · rename_i t _
      exact XIn.of_keep (KeepIV.trans (b := { c with outNextTxIndex := c.outNextTxIndex + 1, out := { c.out with tx := some t.uid, contentLength := -1, bodyDataLeft := -1 } }) rfl (keepIV_txStateResponseStart ..))

/-- **every response state function** leaves the request direction's line buffer alone and its counted body states as they were, or not
    counting -/
theorem xIn_resStateFn (cfg : Cfg) (c : Conn) : XIn c (resStateFn cfg c).1 := by
  unfold resStateFn
  cases c.outState with
  | idle => exact xIn_resIdle cfg c
  | line => exact XIn.of_keep (keepIV_resLineLoop ..)
  | headers => exact XIn.of_keep (keepIV_resHeadersLoop ..)
  | bodyDetermine => exact xIn_resBodyDetermine cfg c
  | bodyIdentityClKnown => exact XIn.of_keep (keepIV_resBodyIdentityClKnown ..)
  | bodyIdentityStreamClose => exact XIn.of_keep (keepIV_resBodyIdentityStreamClose ..)
  | bodyChunkedLength => exact XIn.of_keep (keepIV_resChunkedLengthLoop ..)
  | bodyChunkedData => exact XIn.of_keep (keepIV_resBodyChunkedData ..)
  | bodyChunkedDataEnd => exact XIn.of_keep (keepIV_resChunkedDataEndLoop ..)
  | finalize => exact XIn.of_keep (keepIV_resFinalize ..)

theorem buffer_keepIV_out (c : Conn) (d : Dir) : KeepIV c { c with out := d } := rfl

/-- the loop of a response data call (gap or not) -/
theorem xIn_resDriverLoop (cfg : Cfg) (g : Bool) (fuel : Nat) (c : Conn) : XIn c (resDriverLoop cfg g fuel c).1 := by
  induction fuel generalizing c with
  | zero => unfold resDriverLoop; exact XIn.of_keep rfl
  | succ k ih =>
    unfold resDriverLoop
    extract_lets stepR
    have hs : ∀ r, stepR = some r → XIn c r.1 := by
      intro r hr
      simp only [stepR] at hr
      split at hr
      · split at hr
        · simp only [Option.some.injEq] at hr; rw [← hr]; exact xIn_resStateFn ..
        · split at hr
          · split at hr
            · simp only [Option.some.injEq] at hr; rw [← hr]; exact XIn.of_keep (keepIV_txStateResponseCompleteEx ..)
            · simp only [Option.some.injEq] at hr; rw [← hr]; exact XIn.refl c
          · simp at hr
      · simp only [Option.some.injEq] at hr; rw [← hr]; exact xIn_resStateFn ..
    clear_value stepR
    split
    · exact XIn.refl c
    · rename_i _ c1 rc1
      have h1 : XIn c c1 := hs _ rfl
      have h2 : XIn c (if rc1 == Rc.ok then (if c1.out.status == STREAM_TUNNEL then (c1, Rc.ok) else resHandleStateChange c1) else (c1, rc1)).1 := by
        split
        · split
          · exact h1
          · exact h1.trans (XIn.of_keep (keepIV_resHandleStateChange c1))
        · exact h1
      rcases hy : (if rc1 == Rc.ok then (if c1.out.status == STREAM_TUNNEL then (c1, Rc.ok) else resHandleStateChange c1) else (c1, rc1)) with ⟨c2, rc2⟩
      rw [hy] at h2
      simp only at h2 ⊢
      split
      · split
        · exact h2
        · exact h2.trans (ih c2)
      · split
        · have kk := keepIV_resReceiverSend false c2
          rcases hz : resReceiverSend false c2 with ⟨c3, rc3⟩
          rw [hz] at kk
          simp only at kk ⊢
          have h3 : XIn c c3 := h2.trans (XIn.of_keep kk)
          split
          · cases hb : c3.out.buffer cfg.fieldLimitHard false with
            | none => exact h3.trans (XIn.of_keep rfl)
            | some d => exact h3.trans (XIn.of_keep rfl)
          · exact h3.trans (XIn.of_keep rfl)
        · repeat' split
          all_goals exact h2.trans (XIn.of_keep rfl)

/-- **a whole response data call** - any chunk, a stream gap or the NULL chunk of a close, any state, any callback policy - leaves the
    request direction's line buffer alone and its counted body states as they were, or not counting -/
theorem xIn_resData (cfg : Cfg) (data : Option Bytes) (len : Nat) (c : Conn) : XIn c (resData cfg data len c).1 := by
  unfold resData
  simp only
  have key : XIn c (resDataCore cfg data len c).1 := by
    unfold resDataCore
    split
    · exact XIn.refl c
    split
    · exact XIn.refl c
    split
    · exact XIn.of_keep rfl
    split
    · exact XIn.refl c
    simp only
    split
    · exact XIn.of_keep rfl
    · exact XIn.trans (b := resStoreChunk data len c) (XIn.of_keep rfl) (xIn_resDriverLoop ..)
  exact key.trans (XIn.of_keep rfl)

/-- **cross-direction frame, response call**: the request direction's call invariant survives a response data call -/
theorem resData_keeps_req_invariant (cfg : Cfg) (data : Option Bytes) (len : Nat) (c : Conn)
    (hb : inBufLen c ≤ cfg.fieldLimitHard) (h0 : OwedPos c) :
    inBufLen (resData cfg data len c).1 ≤ cfg.fieldLimitHard ∧ OwedPos (resData cfg data len c).1 := by
  have x := xIn_resData cfg data len c
  exact ⟨by rw [inBufLen_of_xIn x]; exact hb, owedPos_of_xIn x h0⟩

/-! ## Part 2: what a request-direction function can do to the response-direction facts - nothing -/

/-- what the response direction's call invariant looks at: the line buffer, the parser state and the two amounts owed -/
@[reducible] def OutView (c : Conn) : Option Bytes × ResState × Int × Int :=
  (c.out.buf, c.outState, c.out.bodyDataLeft, c.out.chunkedLength)

/-- `f` leaves the response direction's line buffer, parser state and amounts owed alone -/
@[reducible] def KeepOV (c c' : Conn) : Prop := OutView c' = OutView c

theorem KeepOV.refl (c : Conn) : KeepOV c c := rfl
theorem KeepOV.trans {a b c : Conn} (h1 : KeepOV a b) (h2 : KeepOV b c) : KeepOV a c := Eq.trans h2 h1

theorem KeepOV.buf {c c' : Conn} (h : KeepOV c c') : c'.out.buf = c.out.buf := congrArg (·.1) h
theorem KeepOV.st {c c' : Conn} (h : KeepOV c c') : c'.outState = c.outState := congrArg (·.2.1) h
theorem KeepOV.left {c c' : Conn} (h : KeepOV c c') : c'.out.bodyDataLeft = c.out.bodyDataLeft := congrArg (·.2.2.1) h
theorem KeepOV.chunked {c c' : Conn} (h : KeepOV c c') : c'.out.chunkedLength = c.out.chunkedLength := congrArg (·.2.2.2) h

theorem keepOV_of_frame {c c' : Conn} (h : FrameDirs c c') (k : KeepSt c c') : KeepOV c c' := by
  obtain ⟨_, _, _, h4, h5, _⟩ := h.out_fields
  have hb : c'.out.buf = c.out.buf := (keepO_of_frame h).2
  show (c'.out.buf, c'.outState, c'.out.bodyDataLeft, c'.out.chunkedLength) = (c.out.buf, c.outState, c.out.bodyDataLeft, c.out.chunkedLength)
  rw [h4, h5, hb, k.2]

/-- the response direction's call invariant survives such a function -/
theorem owedPosO_of_keepOV {c c' : Conn} (k : KeepOV c c') (h : OwedPosO c) : OwedPosO c' :=
  owedPosO_of_same ⟨k.st, k.left, k.chunked⟩ h

theorem outBufLen_of_keepOV {c c' : Conn} (k : KeepOV c c') : outBufLen c' = outBufLen c := by
  unfold outBufLen; rw [k.buf]

theorem keepOV_andThen (c0 : Conn) (r : R) (f : Conn → R) (h1 : KeepOV c0 r.1) (h2 : ∀ c, KeepOV c (f c).1) :
    KeepOV c0 (r >>? f).1 := by
  unfold R.andThen
  split
  · exact h1.trans (h2 _)
  · exact h1

theorem keepOV_runCallback (h : Hook) (uid : Option Nat) (data : Option Bytes) (l : Bool) (c : Conn) (g : Nat) (s : Bool) :
    KeepOV c (runCallback h uid data l c g s).1 := keepOV_of_frame (frame_runCallback ..) (keepSt_runCallback ..)

theorem keepOV_modTx (u : Nat) (f : Tx → Tx) (c : Conn) : KeepOV c (c.modTx u f) := rfl
theorem keepOV_modIn (f : Tx → Tx) (c : Conn) : KeepOV c (c.modIn f) := by
  unfold Conn.modIn
  split <;> exact rfl

theorem keepOV_reqReceiverSend (l : Bool) (c : Conn) : KeepOV c (reqReceiverSend l c).1 := by
  unfold reqReceiverSend
  cases c.inn.receiverHook with
  | none => exact KeepOV.refl c
  | some h =>
    simp only
    apply keepOV_andThen
    · exact keepOV_runCallback ..
    · intro c2; exact rfl

theorem keepOV_reqReceiverFinalizeClear (c : Conn) : KeepOV c (reqReceiverFinalizeClear c).1 := by
  unfold reqReceiverFinalizeClear
  cases c.inn.receiverHook with
  | none => exact KeepOV.refl c
  | some h =>
    simp only
    exact (keepOV_reqReceiverSend true c).trans rfl

theorem keepOV_reqReceiverSet (h : Hook) (c : Conn) : KeepOV c (reqReceiverSet h c).1 := by
  unfold reqReceiverSet
  simp only
  exact (keepOV_reqReceiverFinalizeClear c).trans rfl

theorem keepOV_reqProcessBodyData (cfg : Cfg) (data : Option Bytes) (g : Nat) (c : Conn) :
    KeepOV c (reqProcessBodyData cfg data g c).1 := keepOV_of_frame (frame_reqProcessBodyData ..) (keepSt_reqProcessBodyData ..)

theorem keepOV_txFinalize (cfg : Cfg) (uid : Nat) (c : Conn) : KeepOV c (txFinalize cfg uid c).1 := by
  unfold txFinalize
  cases c.findTx uid with
  | none => exact KeepOV.refl c
  | some t =>
    simp only
    split
    · exact KeepOV.refl c
    · apply keepOV_andThen
      · exact keepOV_runCallback ..
      · intro c1
        split
        · split
          · exact keepOV_of_frame (frame_destroyTx ..) (keepSt_destroyTx ..)
          · exact KeepOV.refl _
        · exact KeepOV.refl _

theorem keepOV_txStateRequestCompletePartial (cfg : Cfg) (uid : Nat) (c : Conn) : KeepOV c (txStateRequestCompletePartial cfg uid c).1 := by
  unfold txStateRequestCompletePartial
  simp only
  apply keepOV_andThen
  · split
    · exact keepOV_reqProcessBodyData ..
    · exact KeepOV.refl c
  · intro c1
    apply keepOV_andThen
    · exact (keepOV_modTx _ _ c1).trans (keepOV_runCallback ..)
    · intro c2
      apply keepOV_andThen
      · exact keepOV_reqReceiverFinalizeClear c2
      · intro c3; exact rfl

theorem keepOV_txStateRequestComplete (cfg : Cfg) (uid : Nat) (c : Conn) : KeepOV c (txStateRequestComplete cfg uid c).1 := by
  unfold txStateRequestComplete
  simp only
  apply keepOV_andThen
  · split
    · exact keepOV_txStateRequestCompletePartial ..
    · exact KeepOV.refl c
  · intro c1
    have h := keepOV_txFinalize cfg uid { c1 with inState := if ((c1.findTx uid).map (·.is09)).getD ((c.findTx uid).getD { uid := uid }).is09 then .ignoreDataAfter09 else .idle }
    exact (KeepOV.trans rfl h).trans rfl

theorem keepOV_txStateRequestStart (uid : Nat) (c : Conn) : KeepOV c (txStateRequestStart uid c).1 := by
  unfold txStateRequestStart
  apply keepOV_andThen
  · exact keepOV_runCallback ..
  · intro c1
    exact KeepOV.trans (b := { c1 with inState := .line }) rfl (keepOV_modIn _ _)

theorem keepOV_processRequestHeader (data : Bytes) (c : Conn) : KeepOV c (processRequestHeader data c).1 := by
  unfold processRequestHeader
  simp only
  exact (keepOV_modIn _ c).trans (keepOV_modIn _ _)

theorem keepOV_reqFlushHeader (c : Conn) : KeepOV c (reqFlushHeader c).1 := by
  unfold reqFlushHeader
  cases c.inn.header with
  | none => exact KeepOV.refl c
  | some h =>
    simp only
    have := keepOV_processRequestHeader h c
    split
    · exact this
    · exact this.trans rfl

theorem keepOV_setTx (t : Tx) (c : Conn) : KeepOV c (c.setTx t) := rfl

theorem keepOV_installUrlenc (cfg : Cfg) (uid : Nat) (t : Tx) (c : Conn) : KeepOV c (installUrlenc cfg uid t c) := by
  unfold installUrlenc
  simp only []
  repeat' split
  all_goals first | exact KeepOV.refl _ | exact keepOV_setTx _ _

theorem keepOV_installMpart (cfg : Cfg) (uid : Nat) (t : Tx) (c : Conn) : KeepOV c (installMpart cfg uid t c) := by
  unfold installMpart
  simp only []
  repeat' split
  all_goals first | exact KeepOV.refl _ | exact keepOV_setTx _ _

theorem keepOV_txProcessRequestHeadersTail (cfg : Cfg) (uid : Nat) (t : Tx) (ae : Bool) (c : Conn) :
    KeepOV c (txProcessRequestHeadersTail cfg uid t ae c).1 := by
  unfold txProcessRequestHeadersTail
  split
  · exact KeepOV.refl c
  · apply keepOV_andThen
    · exact keepOV_reqReceiverFinalizeClear _
    · intro c1
      exact ((keepOV_installUrlenc cfg uid t c1).trans (keepOV_installMpart ..)).trans (keepOV_runCallback ..)

theorem keepOV_txProcessRequestHeaders (cfg : Cfg) (uid : Nat) (c : Conn) : KeepOV c (txProcessRequestHeaders cfg uid c).1 := by
  unfold txProcessRequestHeaders
  extract_lets t0 ce enc c2 t1 c1 fr t2 hasBody c0 un
  have k2 : KeepOV c c2 := keepOV_modTx ..
  have k1 : KeepOV c2 c1 := by
    simp only [c1]
    split
    · exact rfl
    · exact KeepOV.refl _
  have k0 : KeepOV c1 c0 := by
    simp only [c0]
    split
    · exact rfl
    · exact KeepOV.refl _
  have k := (k2.trans k1).trans k0
  clear_value c0
  repeat' split
  all_goals exact k.trans ((keepOV_setTx _ _).trans (keepOV_txProcessRequestHeadersTail ..))

theorem keepOV_txStateRequestHeaders (cfg : Cfg) (uid : Nat) (c : Conn) : KeepOV c (txStateRequestHeaders cfg uid c).1 := by
  unfold txStateRequestHeaders
  simp only
  split
  · apply keepOV_andThen
    · exact keepOV_runCallback ..
    · intro c1
      apply keepOV_andThen
      · exact keepOV_reqReceiverFinalizeClear _
      · intro c2; exact rfl
  · split
    · apply keepOV_andThen
      · refine KeepOV.trans ?_ (keepOV_txProcessRequestHeaders ..)
        split
        · exact keepOV_modTx ..
        · exact KeepOV.refl _
      · intro c1; exact rfl
    · exact KeepOV.refl _

theorem keepOV_urlencQueryCallback (cfg : Cfg) (uid : Nat) (c : Conn) : KeepOV c (urlencQueryCallback cfg uid c) := by
  unfold urlencQueryCallback
  simp only []
  repeat' split
  all_goals first | exact KeepOV.refl _ | exact keepOV_setTx _ _

theorem keepOV_txStateRequestLine (cfg : Cfg) (uid : Nat) (c : Conn) : KeepOV c (txStateRequestLine cfg uid c).1 := by
  unfold txStateRequestLine
  extract_lets t0 hp fl1 fl2 src t1 t2 t3 c1
  split
  · exact KeepOV.refl c
  · have k1 : KeepOV c c1 := keepOV_setTx ..
    clear_value c1
    apply keepOV_andThen
    · exact k1.trans (keepOV_runCallback ..)
    · intro c2
      apply keepOV_andThen
      · refine KeepOV.trans ?_ (keepOV_runCallback ..)
        split
        · exact keepOV_urlencQueryCallback ..
        · exact KeepOV.refl _
      · intro c3; exact rfl

theorem keepOV_txCreate (cfg : Cfg) (c : Conn) : KeepOV c (txCreate cfg c).1 := by
  unfold txCreate
  simp only []
  split <;> exact rfl



/-! ### the fourteen request state functions -/

theorem keepOV_reqIdle (cfg : Cfg) (c : Conn) : KeepOV c (reqIdle cfg c).1 := by
  unfold reqIdle
  split
  · exact rfl
  · have k := keepOV_txCreate cfg c
    rcases hx : txCreate cfg c with ⟨c1, u⟩
    rw [hx] at k
    simp only at k ⊢
    cases u with
    | none => exact k.trans rfl
    | some uid =>
      simp only
      exact k.trans (keepOV_txStateRequestStart uid c1)

theorem keepOV_reqLineComplete (cfg : Cfg) (c : Conn) : KeepOV c (reqLineComplete cfg c).1 := by
  unfold reqLineComplete
  cases hc : c.inn.consolidate cfg.fieldLimitHard true with
  | none => exact rfl
  | some p =>
    obtain ⟨d, data⟩ := p
    simp -zeta only
    extract_lets c0 ci line rl c1
    have k0 : KeepOV c c0 := rfl
    have ki : KeepOV c ci := k0.trans (keepOV_modIn _ c0)
    have k1 : KeepOV c c1 := k0.trans (keepOV_modIn _ c0)
    clear_value c0 ci c1
    split
    · exact k0.trans rfl
    · split
      · exact ki.trans rfl
      · cases c1.inn.tx with
        | none => exact k1
        | some uid =>
          simp only
          have k2 := k1.trans (keepOV_txStateRequestLine cfg uid c1)
          split
          · exact k2
          · exact k2.trans rfl

theorem keepOV_reqLineLoop (cfg : Cfg) (fuel : Nat) (c : Conn) : KeepOV c (reqLineLoop cfg fuel c).1 := by
  induction fuel generalizing c with
  | zero => unfold reqLineLoop; exact rfl
  | succ k ih =>
    unfold reqLineLoop
    simp only
    split
    · exact KeepOV.trans (b := { c with inn := (c.inn.peekSet).1 }) rfl (keepOV_reqLineComplete cfg _)
    · cases hn : (c.inn.peekSet).1.copyByte with
      | none => exact rfl
      | some p =>
        obtain ⟨d, b⟩ := p
        simp only
        split
        · exact KeepOV.trans (b := { c with inn := d }) rfl (keepOV_reqLineComplete cfg _)
        · exact KeepOV.trans (b := { c with inn := d }) rfl (ih _)

theorem keepOV_reqProtocol (c : Conn) : KeepOV c (reqProtocol c).1 := by
  unfold reqProtocol
  simp only []
  repeat' split
  all_goals first
    | exact rfl
    | exact KeepOV.trans (b := { c with inState := .headers }) rfl (keepOV_modIn _ _)
    | exact (KeepOV.trans (b := { c with inState := .headers }) rfl (keepOV_modIn _ _)).trans (keepOV_modIn _ _)

theorem keepOV_reqHeadersLoop (cfg : Cfg) (fuel : Nat) (c : Conn) : KeepOV c (reqHeadersLoop cfg fuel c).1 := by
  induction fuel generalizing c with
  | zero => unfold reqHeadersLoop; exact rfl
  | succ k ih =>
    unfold reqHeadersLoop
    cases c.inn.tx with
    | none => exact rfl
    | some uid =>
      simp only
      split
      · apply keepOV_andThen
        · exact keepOV_reqFlushHeader c
        · intro c1
          exact (KeepOV.trans (b := { c1 with inn := c1.inn.clearBuffer }) rfl (keepOV_modIn _ _)).trans (keepOV_txStateRequestHeaders ..)
      · cases hn : c.inn.copyByte with
        | none => exact rfl
        | some p =>
          obtain ⟨d, b⟩ := p
          simp only
          split
          · exact KeepOV.trans (b := { c with inn := d }) rfl (ih _)
          · cases hc : d.consolidate cfg.fieldLimitHard true with
            | none => exact rfl
            | some q =>
              obtain ⟨d2, data⟩ := q
              simp only
              refine KeepOV.trans (b := { c with inn := d2 }) rfl ?_
              split
              · apply keepOV_andThen
                · exact keepOV_reqFlushHeader _
                · intro c1
                  exact KeepOV.trans (b := { c1 with inn := c1.inn.clearBuffer }) rfl (keepOV_txStateRequestHeaders ..)
              · apply keepOV_andThen
                · split
                  · apply keepOV_andThen
                    · exact keepOV_reqFlushHeader _
                    · intro c1
                      split
                      · split
                        · have kk := keepOV_processRequestHeader (Parse.chomp data).1 { c1 with inn := (c1.inn.peekSet).1 }
                          split
                          · exact KeepOV.trans (b := { c1 with inn := (c1.inn.peekSet).1 }) rfl kk
                          · exact KeepOV.trans (b := { c1 with inn := (c1.inn.peekSet).1 }) rfl kk
                        · exact rfl
                      · exact rfl
                  · split
                    · exact (keepOV_modIn _ { c with inn := d2 }).trans rfl
                    · split
                      · exact rfl
                      · exact rfl
                · intro c1
                  exact KeepOV.trans (b := { c1 with inn := c1.inn.clearBuffer }) rfl (ih _)

theorem keepOV_connect_states (c : Conn) :
    KeepOV c (reqConnectCheck c).1 ∧ KeepOV c (reqConnectWaitResponse c).1 ∧ KeepOV c (reqBodyDetermine c).1 := by
  refine ⟨?_, ?_, ?_⟩
  · unfold reqConnectCheck
    split
    · exact rfl
    · exact rfl
  · unfold reqConnectWaitResponse
    simp only []
    repeat' split
    all_goals exact rfl
  · unfold reqBodyDetermine
    simp only []
    repeat' split
    all_goals first
      | exact rfl
      | exact KeepOV.trans (b := { c with inState := .bodyChunkedLength }) rfl (keepOV_modIn _ _)
      | exact KeepOV.trans (b := { { c with inn := { c.inn with contentLength := c.inTx.reqContentLength, bodyDataLeft := c.inTx.reqContentLength } } with inState := .bodyIdentity }) rfl (keepOV_modIn _ _)

/-- REQ_CONNECT_PROBE_DATA changes the response direction's stream status only -/
theorem keepOV_reqConnectProbeLoop (cfg : Cfg) (fuel : Nat) (c : Conn) : KeepOV c (reqConnectProbeLoop cfg fuel c).1 := by
  induction fuel generalizing c with
  | zero => unfold reqConnectProbeLoop; exact rfl
  | succ k ih =>
    unfold reqConnectProbeLoop
    simp only
    split
    · cases hc : (c.inn.peekSet).1.consolidate cfg.fieldLimitHard true with
      | none => exact rfl
      | some q =>
        obtain ⟨d2, data⟩ := q
        simp only
        split
        · split
          · exact KeepOV.trans (b := { c with inn := d2 }) rfl (keepOV_txStateRequestComplete cfg _ _)
          · exact rfl
        · exact rfl
    · cases hn : (c.inn.peekSet).1.copyByte with
      | none => exact rfl
      | some p =>
        obtain ⟨d, b⟩ := p
        exact KeepOV.trans (b := { c with inn := d }) rfl (ih _)

theorem keepOV_reqBodyIdentity (cfg : Cfg) (c : Conn) : KeepOV c (reqBodyIdentity cfg c).1 := by
  unfold reqBodyIdentity
  extract_lets avail n data
  clear_value n data
  split
  · exact rfl
  · have k := keepOV_reqProcessBodyData cfg data (if c.inn.curNull then n.toNat else 0) c
    rcases hx : reqProcessBodyData cfg data (if c.inn.curNull then n.toNat else 0) c with ⟨c1, rc1⟩
    rw [hx] at k
    simp only at k ⊢
    split
    · exact k
    · have k2 : KeepOV c ({ c1 with inn := { c1.inn.advance n with bodyDataLeft := c1.inn.bodyDataLeft - n } }.modIn
          (fun t => { t with reqMessageLen := t.reqMessageLen + n.toNat })) :=
        k.trans (KeepOV.trans (b := { c1 with inn := { c1.inn.advance n with bodyDataLeft := c1.inn.bodyDataLeft - n } }) rfl (keepOV_modIn _ _))
      split
      · exact k2.trans rfl
      · exact k2

theorem keepOV_reqChunkedDataEndLoop (fuel : Nat) (c : Conn) : KeepOV c (reqChunkedDataEndLoop fuel c).1 := by
  induction fuel generalizing c with
  | zero => unfold reqChunkedDataEndLoop; exact rfl
  | succ k ih =>
    unfold reqChunkedDataEndLoop
    cases hn : c.inn.nextByteConsume with
    | none => exact rfl
    | some p =>
      obtain ⟨d, b⟩ := p
      simp only
      have k1 : KeepOV c ({ c with inn := d }.modIn (fun t => { t with reqMessageLen := t.reqMessageLen + 1 })) :=
        KeepOV.trans (b := { c with inn := d }) rfl (keepOV_modIn _ _)
      split
      · exact k1.trans rfl
      · exact k1.trans (ih _)

theorem keepOV_reqBodyChunkedData (cfg : Cfg) (c : Conn) : KeepOV c (reqBodyChunkedData cfg c).1 := by
  unfold reqBodyChunkedData
  extract_lets avail n data
  clear_value n data
  split
  · exact rfl
  · have k := keepOV_reqProcessBodyData cfg (some data) 0 c
    rcases hx : reqProcessBodyData cfg (some data) 0 c with ⟨c1, rc1⟩
    rw [hx] at k
    simp only at k ⊢
    split
    · exact k
    · have k2 : KeepOV c ({ c1 with inn := { c1.inn.advance n with chunkedLength := c1.inn.chunkedLength - n } }.modIn
          (fun t => { t with reqMessageLen := t.reqMessageLen + n.toNat })) :=
        k.trans (KeepOV.trans (b := { c1 with inn := { c1.inn.advance n with chunkedLength := c1.inn.chunkedLength - n } }) rfl (keepOV_modIn _ _))
      split
      · exact k2.trans rfl
      · exact k2

theorem keepOV_reqChunkedLengthLoop (cfg : Cfg) (fuel : Nat) (c : Conn) : KeepOV c (reqChunkedLengthLoop cfg fuel c).1 := by
  induction fuel generalizing c with
  | zero => unfold reqChunkedLengthLoop; exact rfl
  | succ k ih =>
    unfold reqChunkedLengthLoop
    cases hn : c.inn.copyByte with
    | none => exact rfl
    | some p =>
      obtain ⟨d, b⟩ := p
      simp -zeta only
      extract_lets c0
      have h0 : KeepOV c c0 := rfl
      clear_value c0
      split
      · exact h0.trans (ih _)
      · cases hc : c0.inn.consolidate cfg.fieldLimitHard true with
        | none => exact h0
        | some q =>
          obtain ⟨d2, data⟩ := q
          simp -zeta only
          extract_lets c1 line src c2
          have h1 : KeepOV c c1 := h0.trans (KeepOV.trans (b := { c0 with inn := d2 }) rfl (keepOV_modIn _ _))
          have h2 : KeepOV c c2 := h1.trans rfl
          clear_value c2 c1
          split
          · exact h2.trans rfl
          · split
            · exact h2.trans (KeepOV.trans (b := { c2 with inState := .headers }) rfl (keepOV_modIn _ _))
            · exact h2

theorem keepOV_reqIgnore (c : Conn) : KeepOV c (reqIgnoreDataAfter09 c).1 := by
  unfold reqIgnoreDataAfter09
  simp only []
  split <;> exact rfl

theorem keepOV_reqFinalize (cfg : Cfg) (c : Conn) : KeepOV c (reqFinalize cfg c).1 := by
  unfold reqFinalize
  cases c.inn.tx with
  | none => exact rfl
  | some uid =>
    simp -zeta only
    extract_lets cp pre
    have hp : ∀ c' b, pre = some (c', b) → KeepOV c c' := by
      intro c' b hpre
      simp only [pre] at hpre
      split at hpre
      · split at hpre
        · simp only [Option.some.injEq, Prod.mk.injEq] at hpre; rw [← hpre.1]
        · split at hpre
          · split at hpre
            · simp at hpre
            · simp only [Option.some.injEq, Prod.mk.injEq] at hpre
              rw [← hpre.1]
          · simp only [Option.some.injEq, Prod.mk.injEq] at hpre; rw [← hpre.1]
      · simp only [Option.some.injEq, Prod.mk.injEq] at hpre; rw [← hpre.1]
    clear_value pre
    split
    · exact rfl
    · rename_i _ c1
      exact (hp _ _ rfl).trans (keepOV_txStateRequestComplete ..)
    · rename_i _ c1
      have h1 := hp _ _ rfl
      clear hp
      cases hc : c1.inn.consolidate cfg.fieldLimitHard true with
      | none => exact h1
      | some q =>
        obtain ⟨d2, data⟩ := q
        simp -zeta only
        extract_lets c2
        have h2 : KeepOV c c2 := h1.trans rfl
        clear_value c2
        split
        · exact h2.trans (keepOV_txStateRequestComplete ..)
        · rename_i src go _
          have hgo : ∀ c', go = some c' → KeepOV c c' := by
            intro c' hg
            simp only [go] at hg
            split at hg
            · split at hg
              · simp at hg
              · simp only [Option.some.injEq] at hg
                rw [← hg]
                split
                · exact h2
                · exact h2.trans rfl
            · simp only [Option.some.injEq] at hg; rw [← hg]; exact h2
          clear_value go
          split
          · exact KeepOV.trans (h2.trans (c := { c2 with inn := { c2.inn with bodyDataLeft := -1 } }) rfl) (keepOV_txStateRequestComplete ..)
          · rename_i c3
            have h3 := hgo _ rfl
            clear hgo
            extract_lets r
            have hr : ∀ c' dd, r = some (c', dd) → KeepOV c c' := by
              intro c' dd hh
              simp only [r] at hh
              split at hh
              · cases hcb : c3.inn.copyByte with
                | none => rw [hcb] at hh; simp at hh
                | some p =>
                  obtain ⟨d4, b4⟩ := p
                  rw [hcb] at hh
                  simp only at hh
                  cases hc4 : d4.consolidate cfg.fieldLimitHard true with
                  | none =>
                    rw [hc4] at hh
                    simp only [Option.some.injEq, Prod.mk.injEq] at hh
                    rw [← hh.1]; exact h3.trans rfl
                  | some q4 =>
                    obtain ⟨d5, data5⟩ := q4
                    rw [hc4] at hh
                    simp only [Option.some.injEq, Prod.mk.injEq] at hh
                    rw [← hh.1]; exact h3.trans rfl
              · simp only [Option.some.injEq, Prod.mk.injEq] at hh; rw [← hh.1]; exact h3
            clear_value r
            split
            · exact h3
            · rename_i c6 data6
              have h6 := hr _ _ rfl
              have k := keepOV_reqProcessBodyData cfg (some data6) 0 c6
              rcases hx : reqProcessBodyData cfg (some data6) 0 c6 with ⟨c7, rc7⟩
              rw [hx] at k
              simp only at k ⊢
              exact (h6.trans k).trans rfl

/-- **every request state function** leaves the response direction's line buffer, parser state and amounts owed alone -/
theorem keepOV_reqStateFn (cfg : Cfg) (c : Conn) : KeepOV c (reqStateFn cfg c).1 := by
  unfold reqStateFn
  cases c.inState with
  | idle => exact keepOV_reqIdle cfg c
  | line => exact keepOV_reqLineLoop cfg _ c
  | protocol => exact keepOV_reqProtocol c
  | headers => exact keepOV_reqHeadersLoop cfg _ c
  | connectCheck => exact (keepOV_connect_states c).1
  | connectWaitResponse => exact (keepOV_connect_states c).2.1
  | connectProbeData => exact keepOV_reqConnectProbeLoop cfg _ c
  | bodyDetermine => exact (keepOV_connect_states c).2.2
  | bodyIdentity => exact keepOV_reqBodyIdentity cfg c
  | bodyChunkedLength => exact keepOV_reqChunkedLengthLoop cfg _ c
  | bodyChunkedData => exact keepOV_reqBodyChunkedData cfg c
  | bodyChunkedDataEnd => exact keepOV_reqChunkedDataEndLoop _ c
  | finalize => exact keepOV_reqFinalize cfg c
  | ignoreDataAfter09 => exact keepOV_reqIgnore c

theorem keepOV_reqHandleStateChange (c : Conn) : KeepOV c (reqHandleStateChange c).1 := by
  unfold reqHandleStateChange
  split
  · exact rfl
  · simp only
    apply keepOV_andThen
    · repeat' split
      all_goals first | exact KeepOV.refl c | exact keepOV_reqReceiverSet _ c
    · intro c1; exact rfl

/-- the loop of a request data call (gap or not) -/
theorem keepOV_reqDriverLoop (cfg : Cfg) (g : Bool) (fuel : Nat) (c : Conn) : KeepOV c (reqDriverLoop cfg g fuel c).1 := by
  induction fuel generalizing c with
  | zero => unfold reqDriverLoop; exact rfl
  | succ k ih =>
    unfold reqDriverLoop
    extract_lets stepR
    have hs : ∀ r, stepR = some r → KeepOV c r.1 := by
      intro r hr
      simp only [stepR] at hr
      split at hr
      · split at hr
        · simp only [Option.some.injEq] at hr; rw [← hr]; exact keepOV_reqStateFn ..
        · split at hr
          · split at hr
            · simp only [Option.some.injEq] at hr; rw [← hr]; exact keepOV_txStateRequestComplete ..
            · simp only [Option.some.injEq] at hr; rw [← hr]
          · simp at hr
      · simp only [Option.some.injEq] at hr; rw [← hr]; exact keepOV_reqStateFn ..
    clear_value stepR
    split
    · exact rfl
    · rename_i _ c1 rc1
      have h1 : KeepOV c c1 := hs _ rfl
      have h2 : KeepOV c (if rc1 == Rc.ok then (if c1.inn.status == STREAM_TUNNEL then (c1, Rc.ok) else reqHandleStateChange c1) else (c1, rc1)).1 := by
        split
        · split
          · exact h1
          · exact h1.trans (keepOV_reqHandleStateChange c1)
        · exact h1
      rcases hy : (if rc1 == Rc.ok then (if c1.inn.status == STREAM_TUNNEL then (c1, Rc.ok) else reqHandleStateChange c1) else (c1, rc1)) with ⟨c2, rc2⟩
      rw [hy] at h2
      simp only at h2 ⊢
      split
      · split
        · exact h2
        · exact h2.trans (ih c2)
      · split
        · have kk := keepOV_reqReceiverSend false c2
          rcases hz : reqReceiverSend false c2 with ⟨c3, rc3⟩
          rw [hz] at kk
          simp only at kk ⊢
          have h3 : KeepOV c c3 := h2.trans kk
          split
          · cases hb : c3.inn.buffer cfg.fieldLimitHard true with
            | none => exact h3.trans rfl
            | some d => exact h3.trans rfl
          · exact h3.trans rfl
        · repeat' split
          all_goals exact h2.trans rfl

/-- **a whole request data call** - any chunk, a stream gap or the NULL chunk of a close, any state, any callback policy - leaves the
    response direction's line buffer, parser state and amounts owed alone (it may change the response direction's stream status:
    DATA_OTHER is woken up, a CONNECT probe switches to tunnel mode) -/
theorem keepOV_reqData (cfg : Cfg) (data : Option Bytes) (len : Nat) (c : Conn) : KeepOV c (reqData cfg data len c).1 := by
  unfold reqData
  simp only
  have key : KeepOV c (reqDataCore cfg data len c).1 := by
    unfold reqDataCore
    split
    · exact rfl
    split
    · exact rfl
    split
    · exact rfl
    split
    · exact rfl
    simp only
    split
    · exact rfl
    · refine KeepOV.trans (b := reqWakeOther (reqStoreChunk data len c)) ?_ (keepOV_reqDriverLoop ..)
      unfold reqWakeOther
      split
      · exact rfl
      · exact rfl
  exact key.trans rfl

/-- **cross-direction frame, request call**: the response direction's call invariant survives a request data call -/
theorem reqData_keeps_res_invariant (cfg : Cfg) (data : Option Bytes) (len : Nat) (c : Conn)
    (hb : outBufLen c ≤ cfg.fieldLimitHard) (h0 : OwedPosO c) :
    outBufLen (reqData cfg data len c).1 ≤ cfg.fieldLimitHard ∧ OwedPosO (reqData cfg data len c).1 := by
  have k := keepOV_reqData cfg data len c
  exact ⟨by rw [outBufLen_of_keepOV k]; exact hb, owedPosO_of_keepOV k h0⟩

end Htp.Conn
