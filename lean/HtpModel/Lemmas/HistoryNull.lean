/- The NULL chunk of length 0 (htp_connp_req_close, htp_connp_close), request direction: with a NULL chunk nothing is ever set aside
   (htp_connp_req_buffer returns at once), so the line buffer cannot grow - per state function and for the whole call. The proofs follow
   Lemmas/BufInv.lean, with the cursor part of the invariant replaced by 'the chunk is NULL'. -/
import HtpModel.Lemmas.HistoryFrames
namespace Htp.Conn
open Htp Htp.Gen

/-- the current chunk is NULL and the line buffer is within `hard` -/
def NB (hard : Nat) (d : Dir) : Prop := d.curNull = true ∧ (d.buf.map (·.length)).getD 0 ≤ hard

theorem nb_keep {hard : Nat} {c c' : Conn} (k : KeepIn c c') (kb : KeepBuf c c') (w : NB hard c.inn) : NB hard c'.inn :=
  ⟨by rw [k.2.2.2.2]; exact w.1, by rw [kb]; exact w.2⟩

theorem nb_same {hard : Nat} {d d' : Dir} (w : NB hard d) (h : SameCur d d') (hb : d'.buf = d.buf) : NB hard d' :=
  ⟨by rw [h.2.2.2.2]; exact w.1, by rw [hb]; exact w.2⟩

theorem nb_peekSet (hard : Nat) (d : Dir) (w : NB hard d) : NB hard (d.peekSet).1 := ⟨w.1, w.2⟩

theorem copyByte_some_nb (hard : Nat) (d d' : Dir) (b : UInt8) (w : NB hard d) (h : d.copyByte = some (d', b)) : NB hard d' := by
  unfold Dir.copyByte at h
  split at h
  · split at h
    · simp only [Option.some.injEq, Prod.mk.injEq] at h; rw [← h.1]; exact ⟨w.1, w.2⟩
    · simp only [Option.some.injEq, Prod.mk.injEq] at h; rw [← h.1]; exact ⟨w.1, w.2⟩
  · simp at h

theorem nb_clearBuffer (hard : Nat) (d : Dir) (w : NB hard d) : NB hard d.clearBuffer :=
  ⟨w.1, by unfold Dir.clearBuffer; simp⟩

/-- htp_connp_req_buffer / htp_connp_res_buffer with a NULL chunk: nothing happens -/
theorem buffer_nb (hard : Nat) (s : Bool) (d d' : Dir) (w : NB hard d) (h : d.buffer hard s = some d') : NB hard d' := by
  unfold Dir.buffer at h
  rw [if_pos w.1] at h
  simp only [Option.some.injEq] at h
  rw [← h]; exact w

theorem consolidate_nb (hard : Nat) (s : Bool) (d d2 : Dir) (data : Bytes) (w : NB hard d) (h : d.consolidate hard s = some (d2, data)) :
    NB hard d2 := by
  unfold Dir.consolidate at h
  cases hb : d.buf with
  | none => rw [hb] at h; simp only [Option.some.injEq, Prod.mk.injEq] at h; rw [← h.1]; exact w
  | some bb =>
    rw [hb] at h
    simp only at h
    cases hbu : d.buffer hard s with
    | none => rw [hbu] at h; simp at h
    | some d' =>
      rw [hbu] at h
      simp only [Option.some.injEq, Prod.mk.injEq] at h
      rw [← h.1]
      exact buffer_nb hard s d d' w hbu

/-! ### every request state function, on a NULL chunk -/

theorem nbIn_reqIdle (cfg : Cfg) (c : Conn) (w : NB cfg.fieldLimitHard c.inn) : NB cfg.fieldLimitHard (reqIdle cfg c).1.inn := by
  unfold reqIdle
  split
  · exact w
  · have k := keepIn_txCreate cfg c
    have kb := keepBuf_txCreate cfg c
    rcases hx : txCreate cfg c with ⟨c1, u⟩
    rw [hx] at k kb
    simp only at k kb ⊢
    have w1 := nb_keep k kb w
    cases u with
    | none => exact nb_keep (c := c1) ⟨rfl, rfl, rfl, rfl, rfl⟩ rfl w1
    | some uid =>
      simp only
      exact nb_keep (keepIn_txStateRequestStart uid c1) (keepBuf_txStateRequestStart uid c1) w1

theorem nbIn_reqLineComplete (cfg : Cfg) (c : Conn) (w : NB cfg.fieldLimitHard c.inn) : NB cfg.fieldLimitHard (reqLineComplete cfg c).1.inn := by
  unfold reqLineComplete
  cases hc : c.inn.consolidate cfg.fieldLimitHard true with
  | none => exact w
  | some p =>
    obtain ⟨d, data⟩ := p
    have wd := consolidate_nb _ _ _ _ _ w hc
    simp -zeta only
    extract_lets c0 ci line rl c1
    have w0 : NB _ c0.inn := wd
    have wi : NB _ ci.inn := nb_keep (keepIn_modIn _ c0) (keepBuf_modIn _ c0) w0
    have w1 : NB _ c1.inn := nb_keep (keepIn_modIn _ c0) (keepBuf_modIn _ c0) w0
    clear_value ci c1
    split
    · exact nb_clearBuffer _ _ w0
    · split
      · exact nb_clearBuffer _ _ wi
      · cases c1.inn.tx with
        | none => exact w1
        | some uid =>
          simp only
          have w2 := nb_keep (keepIn_txStateRequestLine cfg uid c1) (keepBuf_txStateRequestLine cfg uid c1) w1
          split
          · exact w2
          · exact nb_clearBuffer _ _ w2

theorem nbIn_reqLineLoop (cfg : Cfg) (fuel : Nat) (c : Conn) (w : NB cfg.fieldLimitHard c.inn) : NB cfg.fieldLimitHard (reqLineLoop cfg fuel c).1.inn := by
  induction fuel generalizing c with
  | zero => unfold reqLineLoop; exact w
  | succ k ih =>
    unfold reqLineLoop
    simp only
    have w0 := nb_peekSet _ _ w
    split
    · exact nbIn_reqLineComplete cfg _ w0
    · cases hn : (c.inn.peekSet).1.copyByte with
      | none => exact w0
      | some p =>
        obtain ⟨d, b⟩ := p
        have wd := copyByte_some_nb _ _ d b w0 hn
        simp only
        split
        · exact nbIn_reqLineComplete cfg _ wd
        · exact ih _ wd

theorem nbIn_reqProtocol (hard : Nat) (c : Conn) (w : NB hard c.inn) : NB hard (reqProtocol c).1.inn := by
  unfold reqProtocol
  simp only []
  repeat' split
  all_goals first
    | exact w
    | exact nb_keep (c := { c with inState := .headers }) (keepIn_modIn _ _) (keepBuf_modIn _ _) w
    | exact nb_keep (keepIn_modIn _ _) (keepBuf_modIn _ _) (nb_keep (c := { c with inState := .headers }) (keepIn_modIn _ _) (keepBuf_modIn _ _) w)

theorem nb_header (hard : Nat) (d : Dir) (h : Option Bytes) (w : NB hard d) : NB hard { d with header := h } :=
  nb_same w ⟨rfl, rfl, rfl, rfl, rfl⟩ rfl

/-- the per-line step of REQ_HEADERS (start a header, continue a folded one) keeps the cursors -/
theorem nbIn_reqHeadersLoop (cfg : Cfg) (fuel : Nat) (c : Conn) (w : NB cfg.fieldLimitHard c.inn) : NB cfg.fieldLimitHard (reqHeadersLoop cfg fuel c).1.inn := by
  induction fuel generalizing c with
  | zero => unfold reqHeadersLoop; exact w
  | succ k ih =>
    unfold reqHeadersLoop
    cases c.inn.tx with
    | none => exact w
    | some uid =>
      simp only
      split
      · -- closed
        have k1 := keepIn_reqFlushHeader c
        have k1b := keepBuf_reqFlushHeader c
        rcases hx : reqFlushHeader c with ⟨c1, rc1⟩
        rw [hx] at k1 k1b
        simp only at k1 k1b
        have w1 := nb_keep k1 k1b w
        unfold R.andThen
        simp only
        split
        · refine nb_keep (keepIn_txStateRequestHeaders cfg uid _) (keepBuf_txStateRequestHeaders cfg uid _) ?_
          exact nb_keep (keepIn_modIn _ _) (keepBuf_modIn _ _) (nb_clearBuffer _ _ w1)
        · exact w1
      · cases hn : c.inn.copyByte with
        | none => exact w
        | some p =>
          obtain ⟨d, b⟩ := p
          have wd := copyByte_some_nb _ _ d b w hn
          simp only
          split
          · exact ih _ wd
          · cases hc : d.consolidate cfg.fieldLimitHard true with
            | none => exact wd
            | some q =>
              obtain ⟨d2, data⟩ := q
              have w2 := consolidate_nb _ _ _ _ _ wd hc
              simp only
              split
              · have k1 := keepIn_reqFlushHeader { c with inn := d2 }
                have k1b := keepBuf_reqFlushHeader { c with inn := d2 }
                rcases hx : reqFlushHeader { c with inn := d2 } with ⟨c1, rc1⟩
                rw [hx] at k1 k1b
                simp only at k1 k1b
                have w1 : NB _ c1.inn := nb_keep k1 k1b w2
                unfold R.andThen
                simp only
                split
                · exact nb_keep (keepIn_txStateRequestHeaders cfg uid _) (keepBuf_txStateRequestHeaders cfg uid _) (nb_clearBuffer _ _ w1)
                · exact w1
              · -- a header line
                have key : ∀ (r : R), NB cfg.fieldLimitHard r.1.inn → NB cfg.fieldLimitHard (r >>? fun c => reqHeadersLoop cfg k { c with inn := c.inn.clearBuffer }).1.inn := by
                  intro r wr
                  unfold R.andThen
                  split
                  · exact ih _ (nb_clearBuffer _ _ wr)
                  · exact wr
                apply key
                split
                · have k1 := keepIn_reqFlushHeader { c with inn := d2 }
                  have k1b := keepBuf_reqFlushHeader { c with inn := d2 }
                  rcases hx : reqFlushHeader { c with inn := d2 } with ⟨c1, rc1⟩
                  rw [hx] at k1 k1b
                  simp only at k1 k1b
                  have w1 : NB _ c1.inn := nb_keep k1 k1b w2
                  unfold R.andThen
                  simp only
                  split
                  · have wp := nb_peekSet _ _ w1
                    split
                    · split
                      · have kk := keepIn_processRequestHeader (Parse.chomp data).1 { c1 with inn := (c1.inn.peekSet).1 }
                        have kkb := keepBuf_processRequestHeader (Parse.chomp data).1 { c1 with inn := (c1.inn.peekSet).1 }
                        split
                        · exact nb_keep kk kkb wp
                        · exact nb_keep kk kkb wp
                      · exact nb_header _ _ _ wp
                    · exact nb_header _ _ _ wp
                  · exact w1
                · split
                  · exact nb_header _ _ _ (nb_keep (c := { c with inn := d2 }) (keepIn_modIn _ _) (keepBuf_modIn _ _) w2)
                  · split
                    · exact nb_header _ _ _ w2
                    · exact w2

theorem nbIn_connect_states (hard : Nat) (c : Conn) (w : NB hard c.inn) :
    NB hard (reqConnectCheck c).1.inn ∧ NB hard (reqConnectWaitResponse c).1.inn ∧ NB hard (reqBodyDetermine c).1.inn := by
  refine ⟨?_, ?_, ?_⟩
  · unfold reqConnectCheck
    split
    · exact (nb_same w ⟨rfl, rfl, rfl, rfl, rfl⟩ rfl)
    · exact w
  · unfold reqConnectWaitResponse
    simp only []
    repeat' split
    all_goals exact w
  · unfold reqBodyDetermine
    simp only []
    repeat' split
    all_goals first
      | exact w
      | exact nb_keep (c := { c with inState := .bodyChunkedLength }) (keepIn_modIn _ _) (keepBuf_modIn _ _) w
      | exact (nb_same w ⟨rfl, rfl, rfl, rfl, rfl⟩ rfl)
      | (refine nb_keep (keepIn_modIn _ _) (keepBuf_modIn _ _) ?_; exact (nb_same w ⟨rfl, rfl, rfl, rfl, rfl⟩ rfl))

theorem nbIn_reqConnectProbeLoop (cfg : Cfg) (fuel : Nat) (c : Conn) (w : NB cfg.fieldLimitHard c.inn) :
    NB cfg.fieldLimitHard (reqConnectProbeLoop cfg fuel c).1.inn := by
  induction fuel generalizing c with
  | zero => unfold reqConnectProbeLoop; exact w
  | succ k ih =>
    unfold reqConnectProbeLoop
    simp only
    have w0 := nb_peekSet _ _ w
    split
    · cases hc : (c.inn.peekSet).1.consolidate cfg.fieldLimitHard true with
      | none => exact w0
      | some q =>
        obtain ⟨d2, data⟩ := q
        have w2 := consolidate_nb _ _ _ _ _ w0 hc
        simp only
        split
        · split
          · exact nb_keep (keepIn_txStateRequestComplete cfg _ _) (keepBuf_txStateRequestComplete cfg _ _) w2
          · exact w2
        · exact (nb_same w2 ⟨rfl, rfl, rfl, rfl, rfl⟩ rfl)
    · cases hn : (c.inn.peekSet).1.copyByte with
      | none => exact w0
      | some p =>
        obtain ⟨d, b⟩ := p
        have wd := copyByte_some_nb _ _ d b w0 hn
        exact ih _ wd

theorem nb_advance (hard : Nat) (d : Dir) (n : Int) (w : NB hard d) : NB hard (d.advance n) := ⟨w.1, w.2⟩

theorem nbIn_reqBodyIdentity (cfg : Cfg) (c : Conn) (w : NB cfg.fieldLimitHard c.inn) :
    NB cfg.fieldLimitHard (reqBodyIdentity cfg c).1.inn := by
  unfold reqBodyIdentity
  extract_lets avail n data
  clear_value n
  split
  · exact w
  · have k := keepIn_reqProcessBodyData cfg data (if c.inn.curNull then n.toNat else 0) c
    have kb := keepBuf_reqProcessBodyData cfg data (if c.inn.curNull then n.toNat else 0) c
    rcases hx : reqProcessBodyData cfg data (if c.inn.curNull then n.toNat else 0) c with ⟨c1, rc1⟩
    rw [hx] at k kb
    simp only at k kb ⊢
    have w1 := nb_keep k kb w
    split
    · exact w1
    · clear k
      have wa : NB _ (c1.inn.advance n) := nb_advance _ _ _ w1
      have wb : NB _ { c1.inn.advance n with bodyDataLeft := c1.inn.bodyDataLeft - n } :=
        (nb_same wa ⟨rfl, rfl, rfl, rfl, rfl⟩ rfl)
      split
      · exact nb_keep (c := { c1 with inn := { c1.inn.advance n with bodyDataLeft := c1.inn.bodyDataLeft - n } }) (keepIn_modIn _ _) (keepBuf_modIn _ _) wb
      · exact nb_keep (c := { c1 with inn := { c1.inn.advance n with bodyDataLeft := c1.inn.bodyDataLeft - n } }) (keepIn_modIn _ _) (keepBuf_modIn _ _) wb

theorem nextByteConsume_some_nb (hard : Nat) (d d' : Dir) (b : UInt8) (w : NB hard d) (h : d.nextByteConsume = some (d', b)) : NB hard d' := by
  refine ⟨?_, ?_⟩
  · unfold Dir.nextByteConsume at h
    cases hc : d.copyByte with
    | none => rw [hc] at h; simp at h
    | some p =>
      obtain ⟨d1, b1⟩ := p
      rw [hc] at h
      simp only [Option.some.injEq, Prod.mk.injEq] at h
      have w1 := copyByte_some_nb hard d d1 b1 w hc
      rw [← h.1]
      exact w1.1
  unfold Dir.nextByteConsume at h
  cases hc : d.copyByte with
  | none => rw [hc] at h; simp at h
  | some p =>
    obtain ⟨d1, b1⟩ := p
    rw [hc] at h
    simp only [Option.some.injEq, Prod.mk.injEq] at h
    have w1 := copyByte_some_nb hard d d1 b1 w hc
    rw [← h.1]
    exact w1.2

theorem nbIn_reqChunkedDataEndLoop (hard : Nat) (fuel : Nat) (c : Conn) (w : NB hard c.inn) : NB hard (reqChunkedDataEndLoop fuel c).1.inn := by
  induction fuel generalizing c with
  | zero => unfold reqChunkedDataEndLoop; exact w
  | succ k ih =>
    unfold reqChunkedDataEndLoop
    cases hn : c.inn.nextByteConsume with
    | none => exact w
    | some p =>
      obtain ⟨d, b⟩ := p
      have wd := nextByteConsume_some_nb _ _ d b w hn
      simp only
      have w1 : NB _ ({ c with inn := d }.modIn (fun t => { t with reqMessageLen := t.reqMessageLen + 1 })).inn :=
        nb_keep (c := { c with inn := d }) (keepIn_modIn _ _) (keepBuf_modIn _ _) wd
      split
      · exact w1
      · exact ih _ w1

theorem nbIn_reqBodyChunkedData (cfg : Cfg) (c : Conn) (w : NB cfg.fieldLimitHard c.inn) :
    NB cfg.fieldLimitHard (reqBodyChunkedData cfg c).1.inn := by
  unfold reqBodyChunkedData
  extract_lets avail n data
  clear_value n
  split
  · exact w
  · have k := keepIn_reqProcessBodyData cfg (some data) 0 c
    have kb := keepBuf_reqProcessBodyData cfg (some data) 0 c
    rcases hx : reqProcessBodyData cfg (some data) 0 c with ⟨c1, rc1⟩
    rw [hx] at k kb
    simp only at k kb ⊢
    have w1 := nb_keep k kb w
    split
    · exact w1
    · clear k
      have wa : NB _ (c1.inn.advance n) := nb_advance _ _ _ w1
      have wb : NB _ { c1.inn.advance n with chunkedLength := c1.inn.chunkedLength - n } :=
        (nb_same wa ⟨rfl, rfl, rfl, rfl, rfl⟩ rfl)
      split
      · exact nb_keep (c := { c1 with inn := { c1.inn.advance n with chunkedLength := c1.inn.chunkedLength - n } }) (keepIn_modIn _ _) (keepBuf_modIn _ _) wb
      · exact nb_keep (c := { c1 with inn := { c1.inn.advance n with chunkedLength := c1.inn.chunkedLength - n } }) (keepIn_modIn _ _) (keepBuf_modIn _ _) wb

theorem nbIn_reqChunkedLengthLoop (cfg : Cfg) (fuel : Nat) (c : Conn) (w : NB cfg.fieldLimitHard c.inn) :
    NB cfg.fieldLimitHard (reqChunkedLengthLoop cfg fuel c).1.inn := by
  induction fuel generalizing c with
  | zero => unfold reqChunkedLengthLoop; exact w
  | succ k ih =>
    unfold reqChunkedLengthLoop
    cases hn : c.inn.copyByte with
    | none => exact w
    | some p =>
      obtain ⟨d, b⟩ := p
      have wd := copyByte_some_nb _ _ d b w hn
      simp -zeta only
      extract_lets c0
      have w0 : NB _ c0.inn := wd
      split
      · exact ih _ w0
      · cases hc : c0.inn.consolidate cfg.fieldLimitHard true with
        | none => exact w0
        | some q =>
          obtain ⟨d2, data⟩ := q
          have w2 := consolidate_nb _ _ _ _ _ w0 hc
          simp -zeta only
          extract_lets c1 line n c2
          have w1 : NB _ c1.inn := nb_keep (c := { c0 with inn := d2 }) (keepIn_modIn _ _) (keepBuf_modIn _ _) w2
          have wc := nb_clearBuffer _ _ w1
          have w2' : NB _ c2.inn := (nb_same wc ⟨rfl, rfl, rfl, rfl, rfl⟩ rfl)
          clear_value c2
          repeat' split
          all_goals first
            | exact w2'
            | exact nb_keep (c := { c2 with inState := .headers }) (keepIn_modIn _ _) (keepBuf_modIn _ _) w2'

theorem nbIn_reqIgnore (hard : Nat) (c : Conn) (w : NB hard c.inn) : NB hard (reqIgnoreDataAfter09 c).1.inn := by
  unfold reqIgnoreDataAfter09
  simp only []
  have h := nb_advance hard c.inn (c.inn.len - c.inn.read) w
  split <;> exact h

theorem reqFinalizeScan_nb (hard : Nat) (fuel : Nat) (d d' : Dir) (w : NB hard d) (h : reqFinalizeScan fuel d = some d') : NB hard d' := by
  induction fuel generalizing d with
  | zero => unfold reqFinalizeScan at h; simp only [Option.some.injEq] at h; rw [← h]; exact w
  | succ k ih =>
    unfold reqFinalizeScan at h
    simp only at h
    have w0 := nb_peekSet _ _ w
    split at h
    · simp only [Option.some.injEq] at h; rw [← h]; exact w0
    · cases hn : (d.peekSet).1.copyByte with
      | none => rw [hn] at h; simp at h
      | some p =>
        obtain ⟨d1, b1⟩ := p
        rw [hn] at h
        simp only at h
        have w1 := copyByte_some_nb _ _ d1 b1 w0 hn
        exact ih _ w1 h

theorem nbIn_reqFinalize (cfg : Cfg) (c : Conn) (w : NB cfg.fieldLimitHard c.inn) : NB cfg.fieldLimitHard (reqFinalize cfg c).1.inn := by
  unfold reqFinalize
  cases c.inn.tx with
  | none => exact w
  | some uid =>
    simp -zeta only
    extract_lets cp pre
    have w0 : NB _ cp.inn := nb_peekSet _ _ w
    have hp : ∀ c' b, pre = some (c', b) → NB cfg.fieldLimitHard c'.inn := by
      intro c' b hpre
      simp only [pre] at hpre
      split at hpre
      · split at hpre
        · simp only [Option.some.injEq, Prod.mk.injEq] at hpre; rw [← hpre.1]; exact w0
        · split at hpre
          · split at hpre
            · simp at hpre
            · rename_i d hs
              simp only [Option.some.injEq, Prod.mk.injEq] at hpre
              rw [← hpre.1]
              exact reqFinalizeScan_nb _ _ _ _ w0 hs
          · simp only [Option.some.injEq, Prod.mk.injEq] at hpre; rw [← hpre.1]; exact w0
      · simp only [Option.some.injEq, Prod.mk.injEq] at hpre; rw [← hpre.1]; exact w
    clear_value pre
    split
    · exact ⟨w.1, w.2⟩
    · rename_i _ c1
      exact nb_keep (keepIn_txStateRequestComplete cfg uid c1) (keepBuf_txStateRequestComplete cfg uid c1) (hp _ _ rfl)
    · rename_i _ c1
      have w1 := hp _ _ rfl
      clear hp
      cases hc : c1.inn.consolidate cfg.fieldLimitHard true with
      | none => exact w1
      | some q =>
        obtain ⟨d2, data⟩ := q
        have w2 := consolidate_nb _ _ _ _ _ w1 hc
        simp -zeta only
        extract_lets c2
        have wc2 : NB _ c2.inn := w2
        clear_value c2
        split
        · exact nb_keep (keepIn_txStateRequestComplete cfg uid c2) (keepBuf_txStateRequestComplete cfg uid c2) wc2
        · rename_i src go _
          have hgo : ∀ c', go = some c' → NB cfg.fieldLimitHard c'.inn := by
            intro c' hg
            simp only [go] at hg
            split at hg
            · split at hg
              · simp at hg
              · simp only [Option.some.injEq] at hg
                rw [← hg]
                split
                · exact wc2
                · exact (nb_same wc2 ⟨rfl, rfl, rfl, rfl, rfl⟩ rfl)
            · simp only [Option.some.injEq] at hg; rw [← hg]; exact wc2
          clear_value go
          split
          · exact nb_keep (keepIn_txStateRequestComplete cfg uid _) (keepBuf_txStateRequestComplete cfg uid _) (nb_same wc2 ⟨rfl, rfl, rfl, rfl, rfl⟩ rfl)
          · rename_i c3
            have w3 := hgo _ rfl
            clear hgo
            extract_lets r
            have hr : ∀ c' dd, r = some (c', dd) → NB cfg.fieldLimitHard c'.inn := by
              intro c' dd hh
              simp only [r] at hh
              split at hh
              · cases hcb : c3.inn.copyByte with
                | none => rw [hcb] at hh; simp at hh
                | some p =>
                  obtain ⟨d4, b4⟩ := p
                  have w4 := copyByte_some_nb _ _ d4 b4 w3 hcb
                  rw [hcb] at hh
                  simp only at hh
                  cases hc4 : d4.consolidate cfg.fieldLimitHard true with
                  | none =>
                    rw [hc4] at hh
                    simp only [Option.some.injEq, Prod.mk.injEq] at hh
                    rw [← hh.1]; exact w4
                  | some q4 =>
                    obtain ⟨d5, data5⟩ := q4
                    rw [hc4] at hh
                    simp only [Option.some.injEq, Prod.mk.injEq] at hh
                    rw [← hh.1]
                    exact consolidate_nb _ _ _ _ _ w4 hc4
              · simp only [Option.some.injEq, Prod.mk.injEq] at hh; rw [← hh.1]; exact w3
            clear_value r
            split
            · exact w3
            · rename_i c6 data6
              have w6 := hr _ _ rfl
              have k := keepIn_reqProcessBodyData cfg (some data6) 0 c6
              have kb := keepBuf_reqProcessBodyData cfg (some data6) 0 c6
              rcases hx : reqProcessBodyData cfg (some data6) 0 c6 with ⟨c7, rc7⟩
              rw [hx] at k kb
              simp only at k kb ⊢
              exact nb_clearBuffer _ _ (nb_keep k kb w6)

/-- **every request state function keeps the line buffer within the hard limit** (and the cursors inside the chunk), whatever it answers -/
theorem nbIn_reqStateFn (cfg : Cfg) (c : Conn) (w : NB cfg.fieldLimitHard c.inn)
 : NB cfg.fieldLimitHard (reqStateFn cfg c).1.inn := by
  unfold reqStateFn
  cases hs : c.inState with
  | idle => exact nbIn_reqIdle cfg c w
  | line => exact nbIn_reqLineLoop cfg _ c w
  | protocol => exact nbIn_reqProtocol _ c w
  | headers => exact nbIn_reqHeadersLoop cfg _ c w
  | connectCheck => exact (nbIn_connect_states _ c w).1
  | connectWaitResponse => exact (nbIn_connect_states _ c w).2.1
  | connectProbeData => exact nbIn_reqConnectProbeLoop cfg _ c w
  | bodyDetermine => exact (nbIn_connect_states _ c w).2.2
  | bodyIdentity => exact nbIn_reqBodyIdentity cfg c w
  | bodyChunkedLength => exact nbIn_reqChunkedLengthLoop cfg _ c w
  | bodyChunkedData => exact nbIn_reqBodyChunkedData cfg c w
  | bodyChunkedDataEnd => exact nbIn_reqChunkedDataEndLoop _ _ c w
  | finalize => exact nbIn_reqFinalize cfg c w
  | ignoreDataAfter09 => exact nbIn_reqIgnore _ c w

theorem nbIn_reqHandleStateChange (hard : Nat) (c : Conn) (w : NB hard c.inn) : NB hard (reqHandleStateChange c).1.inn := by
  unfold reqHandleStateChange
  split
  · exact w
  · simp only
    have key : ∀ (r : R), NB hard r.1.inn → NB hard (r >>? fun c => ({ c with inStatePrev := some c.inState }, Rc.ok)).1.inn := by
      intro r wr
      unfold R.andThen
      split
      · exact wr
      · exact wr
    apply key
    repeat' split
    all_goals first | exact w | exact nb_keep (keepIn_reqReceiverSet _ c) (keepBuf_reqReceiverSet _ c) w


/-! ### every response state function, on a NULL chunk (the proofs follow Lemmas/OutInv.lean) -/

theorem nbo_keep {hard : Nat} {c c' : Conn} (k : KeepO c c') (w : NB hard c.out) : NB hard c'.out := nb_same w k.1 k.2

theorem nboOut_resIdleUnmatched (cfg : Cfg) (c : Conn) (w : NB cfg.fieldLimitHard c.out) :
    NB cfg.fieldLimitHard (resIdleUnmatched cfg c).1.out := by
  unfold resIdleUnmatched
  have k := keepO_txCreate cfg c
  rcases hx : txCreate cfg c with ⟨c2, u⟩
  rw [hx] at k
  simp only at k ⊢
  have w2 := nbo_keep k w
  cases u with
  | none => exact nb_same w2 ⟨rfl, rfl, rfl, rfl, rfl⟩ rfl
  | some uid =>
    simp only
    refine nbo_keep (keepO_txStateResponseStart uid _) ?_
    exact nb_same w2 ⟨rfl, rfl, rfl, rfl, rfl⟩ rfl

theorem nboOut_resIdle (cfg : Cfg) (c : Conn) (w : NB cfg.fieldLimitHard c.out) : NB cfg.fieldLimitHard (resIdle cfg c).1.out := by
  unfold resIdle
  split
  · exact w
  · simp only []
    split
    · apply nboOut_resIdleUnmatched
      split
      · split
        · exact nbo_keep (keepO_txStateRequestComplete cfg _ c) w
        · exact w
      · exact w
    · refine nbo_keep (keepO_txStateResponseStart _ _) ?_
      exact nb_same w ⟨rfl, rfl, rfl, rfl, rfl⟩ rfl

theorem nboOut_resChunkedDataEndLoop (hard : Nat) (fuel : Nat) (c : Conn) (w : NB hard c.out) : NB hard (resChunkedDataEndLoop fuel c).1.out := by
  induction fuel generalizing c with
  | zero => unfold resChunkedDataEndLoop; exact w
  | succ k ih =>
    unfold resChunkedDataEndLoop
    cases hn : c.out.nextByteConsume with
    | none => exact w
    | some p =>
      obtain ⟨d, b⟩ := p
      have wd := nextByteConsume_some_nb _ _ d b w hn
      simp only
      have w1 : NB hard ({ c with out := d }.modOut (fun t => { t with resMessageLen := t.resMessageLen + 1 })).out :=
        nbo_keep (c := { c with out := d }) (keepO_modOut _ _) wd
      split
      · exact w1
      · exact ih _ w1

theorem nboOut_resBodyChunkedData (cfg : Cfg) (c : Conn) (w : NB cfg.fieldLimitHard c.out) :
    NB cfg.fieldLimitHard (resBodyChunkedData cfg c).1.out := by
  unfold resBodyChunkedData
  extract_lets avail n data
  clear_value n
  split
  · exact w
  · have k := keepO_resProcessBodyData cfg (some data) c
    rcases hx : resProcessBodyData cfg (some data) c with ⟨c1, rc1⟩
    rw [hx] at k
    simp only at k ⊢
    have w1 := nbo_keep k w
    split
    · exact w1
    · clear k
      have wa : NB _ (c1.out.advance n) := nb_advance _ _ _ w1
      have wb : NB _ { c1.out.advance n with chunkedLength := c1.out.chunkedLength - n } := nb_same wa ⟨rfl, rfl, rfl, rfl, rfl⟩ rfl
      split
      · exact wb
      · exact wb

theorem nboOut_resBodyIdentityClKnown (cfg : Cfg) (c : Conn) (w : NB cfg.fieldLimitHard c.out) :
    NB cfg.fieldLimitHard (resBodyIdentityClKnown cfg c).1.out := by
  unfold resBodyIdentityClKnown
  extract_lets avail n cfin data
  clear_value n
  split
  · exact nbo_keep (KeepO.trans (KeepO.rfl5 rfl) (keepO_resProcessBodyData ..)) w
  · split
    · exact w
    · have k := keepO_resProcessBodyDataGap cfg data (if c.out.curNull then n.toNat else 0) c
      rcases hx : resBodyIdentityClKnown.resProcessBodyDataGap cfg data (if c.out.curNull then n.toNat else 0) c with ⟨c1, rc1⟩
      rw [hx] at k
      simp only at k ⊢
      have w1 := nbo_keep k w
      split
      · exact w1
      · clear k
        have wa : NB _ (c1.out.advance n) := nb_advance _ _ _ w1
        have wb : NB cfg.fieldLimitHard { c1.out.advance n with bodyDataLeft := c1.out.bodyDataLeft - n } := nb_same wa ⟨rfl, rfl, rfl, rfl, rfl⟩ rfl
        split
        · exact nbo_keep (KeepO.trans (KeepO.rfl5 rfl) (keepO_resProcessBodyData ..)) wb
        · exact wb

theorem nboOut_resBodyIdentityStreamClose (cfg : Cfg) (c : Conn) (w : NB cfg.fieldLimitHard c.out) :
    NB cfg.fieldLimitHard (resBodyIdentityStreamClose cfg c).1.out := by
  unfold resBodyIdentityStreamClose
  extract_lets n data r
  have wr : NB cfg.fieldLimitHard r.1.out := by
    simp only [r]
    split
    · have k := keepO_resProcessBodyDataGap cfg data (if c.out.curNull then n.toNat else 0) c
      rcases hx : resBodyIdentityClKnown.resProcessBodyDataGap cfg data (if c.out.curNull then n.toNat else 0) c with ⟨c1, rc1⟩
      rw [hx] at k
      simp only at k ⊢
      have w1 := nbo_keep k w
      split
      · exact w1
      · clear k
        exact nb_advance _ _ _ w1
    · exact w
  clear_value r
  unfold R.andThen
  split
  · simp only
    split
    · exact wr
    · exact wr
  · exact wr

theorem nboOut_resChunkedLengthLoop (cfg : Cfg) (fuel : Nat) (c : Conn) (w : NB cfg.fieldLimitHard c.out) :
    NB cfg.fieldLimitHard (resChunkedLengthLoop cfg fuel c).1.out := by
  induction fuel generalizing c with
  | zero => unfold resChunkedLengthLoop; exact w
  | succ k ih =>
    unfold resChunkedLengthLoop
    cases hn : c.out.copyByte with
    | none => exact w
    | some p =>
      obtain ⟨d, b⟩ := p
      have wd := copyByte_some_nb _ _ d b w hn
      simp -zeta only
      extract_lets c0
      have w0 : NB cfg.fieldLimitHard c0.out := wd
      clear_value c0
      split
      · exact ih _ w0
      · cases hc : c0.out.consolidate cfg.fieldLimitHard false with
        | none => exact w0
        | some q =>
          obtain ⟨d2, data⟩ := q
          have w2 := consolidate_nb _ _ _ _ _ w0 hc
          simp -zeta only
          extract_lets c1 s1 c2 s2 rd c3 c4
          have w1 : NB cfg.fieldLimitHard c1.out := nbo_keep (c := { c0 with out := d2 }) (keepO_modOut _ _) w2
          have wc2 : NB cfg.fieldLimitHard c2.out := nb_same w1 ⟨rfl, rfl, rfl, rfl, rfl⟩ rfl
          have w3 : NB cfg.fieldLimitHard c3.out := ⟨wc2.1, wc2.2⟩
          have w4 : NB cfg.fieldLimitHard c4.out := nb_clearBuffer _ _ wc2
          clear_value c1 c2 c3 c4
          split
          · apply ih
            exact ⟨wc2.1, wc2.2⟩
          · split
            · exact nbo_keep (keepO_modOut _ _) w3
            · split
              · exact w4
              · exact nbo_keep (c := { c4 with outState := .headers }) (keepO_modOut _ _) w4

theorem resFinalizeScan_nb (hard : Nat) (fuel : Nat) (d d' : Dir) (w : NB hard d) (h : resFinalizeScan fuel d = some d') : NB hard d' := by
  induction fuel generalizing d with
  | zero => unfold resFinalizeScan at h; simp only [Option.some.injEq] at h; rw [← h]; exact w
  | succ k ih =>
    unfold resFinalizeScan at h
    cases hn : d.copyByte with
    | none => rw [hn] at h; simp at h
    | some p =>
      obtain ⟨d1, b1⟩ := p
      rw [hn] at h
      simp only at h
      have w1 := copyByte_some_nb _ _ d1 b1 w hn
      split at h
      · simp only [Option.some.injEq] at h; rw [← h]; exact w1
      · exact ih _ w1 h

theorem nboOut_resFinalize (cfg : Cfg) (c : Conn) (w : NB cfg.fieldLimitHard c.out) : NB cfg.fieldLimitHard (resFinalize cfg c).1.out := by
  unfold resFinalize
  cases c.out.tx with
  | none => exact w
  | some uid =>
    simp -zeta only
    extract_lets cp pre
    have w0 : NB cfg.fieldLimitHard cp.out := nb_peekSet _ _ w
    have hp : ∀ c' b, pre = some (c', b) → NB cfg.fieldLimitHard c'.out := by
      intro c' b hpre
      simp only [pre] at hpre
      split at hpre
      · split at hpre
        · simp only [Option.some.injEq, Prod.mk.injEq] at hpre; rw [← hpre.1]; exact w0
        · split at hpre
          · split at hpre
            · simp at hpre
            · rename_i d hs
              simp only [Option.some.injEq, Prod.mk.injEq] at hpre
              rw [← hpre.1]
              exact resFinalizeScan_nb _ _ _ _ w0 hs
          · simp only [Option.some.injEq, Prod.mk.injEq] at hpre; rw [← hpre.1]; exact w0
      · simp only [Option.some.injEq, Prod.mk.injEq] at hpre; rw [← hpre.1]; exact w
    clear_value pre
    split
    · exact ⟨w.1, w.2⟩
    · rename_i _ c1
      exact nbo_keep (keepO_txStateResponseCompleteEx cfg uid c1) (hp _ _ rfl)
    · rename_i _ c1
      have w1 := hp _ _ rfl
      clear hp
      cases hc : c1.out.consolidate cfg.fieldLimitHard false with
      | none => exact w1
      | some q =>
        obtain ⟨d2, data⟩ := q
        have w2 := consolidate_nb _ _ _ _ _ w1 hc
        simp -zeta only
        extract_lets dataNull c2 rd keep buf cs
        have wc2 : NB cfg.fieldLimitHard c2.out := w2
        clear_value c2 dataNull
        split
        · exact nbo_keep (keepO_txStateResponseCompleteEx cfg uid c2) wc2
        · split
          · have k := keepO_resProcessBodyData cfg (some data) c2
            rcases hx : resProcessBodyData cfg (some data) c2 with ⟨c3, rc3⟩
            rw [hx] at k
            simp only at k ⊢
            exact nb_clearBuffer _ _ (nbo_keep k wc2)
          · refine nbo_keep (keepO_txStateResponseCompleteEx cfg uid _) ?_
            refine ⟨wc2.1, ?_⟩
            show ((buf.map (·.length)).getD 0) ≤ cfg.fieldLimitHard
            have := wc2.2
            simp only [buf]
            cases hb : c2.out.buf with
            | none => simp
            | some bb =>
              rw [hb] at this
              simp only [Option.map_some, Option.getD_some, List.length_take] at this ⊢
              omega

theorem nboOut_resLineAsBody (cfg : Cfg) (uid : Nat) (dn : Bool) (data line : Bytes) (cr : Nat) (c : Conn)
    (w : NB cfg.fieldLimitHard c.out) : NB cfg.fieldLimitHard (resLineAsBody cfg uid dn data line cr c).1.out := by
  unfold resLineAsBody
  extract_lets nextIsH rd1 ln1 c1 c2 src c3
  have w1 : NB cfg.fieldLimitHard c1.out := nbo_keep (keepO_modTx _ _ c) w
  have w2 : NB cfg.fieldLimitHard c2.out := nbo_keep (keepO_modTx _ _ c) w
  have w3 : NB cfg.fieldLimitHard c3.out := ⟨w2.1, w2.2⟩
  clear_value c1 c3
  split
  · exact nb_clearBuffer _ _ w1
  · have k := keepO_resProcessBodyData cfg (if dn then none else some (data.take (line.length + cr))) c3
    rcases hx : resProcessBodyData cfg (if dn then none else some (data.take (line.length + cr))) c3 with ⟨c4, rc4⟩
    rw [hx] at k
    simp only at k ⊢
    have w4 := nb_clearBuffer _ _ (nbo_keep k w3)
    split
    · exact w4
    · split
      · exact nb_same w4 ⟨rfl, rfl, rfl, rfl, rfl⟩ rfl
      · exact w4

theorem nboOut_resLineComplete (cfg : Cfg) (uid : Nat) (closed : Bool) (c : Conn) (w : NB cfg.fieldLimitHard c.out) :
    NB cfg.fieldLimitHard (resLineComplete cfg uid closed c).1.out := by
  unfold resLineComplete
  cases hc : c.out.consolidate cfg.fieldLimitHard false with
  | none => exact w
  | some q =>
    obtain ⟨d2, data⟩ := q
    have w2 := consolidate_nb _ _ _ _ _ w hc
    simp -zeta only
    extract_lets dataNull c0 c1 c2 c3 rl c4
    have w0 : NB cfg.fieldLimitHard c0.out := w2
    have wc1 : NB cfg.fieldLimitHard c1.out := by
      simp only [c1]
      split
      · exact nb_same w0 ⟨rfl, rfl, rfl, rfl, rfl⟩ rfl
      · exact w0
    have wc2 : NB cfg.fieldLimitHard c2.out := nbo_keep (keepO_modTx _ _ c1) wc1
    have wc3 : NB cfg.fieldLimitHard c3.out := nbo_keep (keepO_modTx _ _ c0) w0
    have wc4 : NB cfg.fieldLimitHard c4.out := nbo_keep (keepO_modTx _ _ c3) wc3
    clear_value c0 c1 c2 c3 c4 dataNull
    split
    · exact nb_clearBuffer _ _ wc2
    · split
      · exact nboOut_resLineAsBody cfg uid _ _ _ _ c3 wc3
      · have k := keepO_txStateResponseLine uid c4
        generalize (txStateResponseLine uid c4) = r at k ⊢
        have wr : NB cfg.fieldLimitHard r.1.out := nbo_keep k wc4
        unfold R.andThen
        split
        · exact nb_clearBuffer _ _ wr
        · exact wr

theorem nb_nextByte (hard : Nat) (d : Dir) (n : Int) (w : NB hard d) : NB hard { d with nextByte := n } :=
  nb_same w ⟨rfl, rfl, rfl, rfl, rfl⟩ rfl

theorem nboOut_resLineLoop (cfg : Cfg) (fuel : Nat) (c : Conn) (w : NB cfg.fieldLimitHard c.out) :
    NB cfg.fieldLimitHard (resLineLoop cfg fuel c).1.out := by
  induction fuel generalizing c with
  | zero => unfold resLineLoop; exact w
  | succ k ih =>
    unfold resLineLoop
    cases c.out.tx with
    | none => exact w
    | some uid =>
      simp only
      split
      · exact w
      · rename_i c1 h1
        have w1 : NB cfg.fieldLimitHard c1.out := by
          split at h1
          · cases hcb : c.out.copyByte with
            | none => rw [hcb] at h1; simp at h1
            | some p =>
              obtain ⟨d, b⟩ := p
              rw [hcb] at h1
              simp only [Option.some.injEq] at h1
              rw [← h1]
              exact copyByte_some_nb _ _ d b w hcb
          · simp only [Option.some.injEq] at h1; rw [← h1]; exact w
        split
        · exact nb_peekSet _ _ w1
        · rename_i c2 h2
          have w2 : NB cfg.fieldLimitHard c2.out := by
            split at h2
            · simp only [Dir.peekSet] at h2
              cases hp : c1.out.peek with
              | none => rw [hp] at h2; simp at h2
              | some b =>
                rw [hp] at h2
                simp only at h2
                split at h2
                · simp only [Except.ok.injEq, Prod.mk.injEq] at h2; rw [← h2.1]; exact nb_nextByte _ _ _ w1
                · simp only [Except.ok.injEq, Prod.mk.injEq] at h2; simp at h2
            · simp only [Except.ok.injEq, Prod.mk.injEq] at h2; simp at h2
          exact ih _ w2
        · rename_i c2 h2
          have w2 : NB cfg.fieldLimitHard c2.out := by
            split at h2
            · simp only [Dir.peekSet] at h2
              cases hp : c1.out.peek with
              | none => rw [hp] at h2; simp at h2
              | some b =>
                rw [hp] at h2
                simp only at h2
                split at h2
                · simp only [Except.ok.injEq, Prod.mk.injEq] at h2; simp at h2
                · simp only [Except.ok.injEq, Prod.mk.injEq] at h2; rw [← h2.1]; exact nb_nextByte _ _ _ (nb_nextByte _ _ _ w1)
            · simp only [Except.ok.injEq, Prod.mk.injEq] at h2; rw [← h2.1]; exact w1
          split
          · exact ih _ w2
          · exact nboOut_resLineComplete cfg uid _ c2 w2

/-- what the line-end handling of RES_HEADERS leaves behind when it goes on -/
def EolPostN (hard : Nat) : Except Rc (Conn × Bool × Bool × Bool) → Prop
  | .error _ => True
  | .ok (c2, _, _, _) => NB hard c2.out

theorem copy_after_peek_nb (hard : Nat) (d : Dir) (w : NB hard d) (b : UInt8) (hp : d.peek = some b) :
    ∃ d' b', (d.peekSet).1.copyByte = some (d', b') ∧ NB hard d' := by
  have hlt := peek_some_lt d b hp
  cases hc : (d.peekSet).1.copyByte with
  | none =>
    have := copyByte_none _ hc
    have e := peekSet_read_len d
    omega
  | some p =>
    obtain ⟨d', b'⟩ := p
    exact ⟨d', b', rfl, copyByte_some_nb hard _ d' b' (nb_peekSet _ _ w) hc⟩

theorem nb_consume_succ (hard : Nat) (d : Dir) (w : NB hard d) : NB hard { d with consume := d.consume + 1 } :=
  ⟨w.1, w.2⟩

theorem eol_nb (hard : Nat) (b : UInt8) (lfcr : Bool) (c : Conn) (w : NB hard c.out) : EolPostN hard (resHeadersEol b lfcr c) := by
  unfold resHeadersEol
  split
  · -- CR
    simp only
    cases hp : c.out.peek with
    | none =>
      have : (c.out.peekSet).2 = none := hp
      simp only [this]
      exact trivial
    | some n =>
      have e2 : (c.out.peekSet).2 = some n := hp
      simp only [e2]
      obtain ⟨d1, b1, hc1, w1⟩ := copy_after_peek_nb hard c.out w n hp
      split
      · -- LF follows
        simp only [hc1]
        split
        · -- LF-CR mode: a further CR (LF) may belong to the line end
          cases hp2 : d1.peek with
          | none =>
            have e3 : (d1.peekSet).2 = none := hp2
            simp only [e3]
            have : ((none : Option UInt8) == some CR) = false := rfl
            simp only [this, Bool.false_eq_true, if_false]
            exact nb_peekSet _ _ w1
          | some n2 =>
            have e3 : (d1.peekSet).2 = some n2 := hp2
            simp only [e3]
            obtain ⟨d2, b2, hc2, w2⟩ := copy_after_peek_nb hard d1 w1 n2 hp2
            split
            · simp only [hc2]
              have w2' := nb_consume_succ hard d2 w2
              cases hp3 : Dir.peek { d2 with consume := d2.consume + 1 } with
              | none =>
                have e4 : (Dir.peekSet { d2 with consume := d2.consume + 1 }).2 = none := hp3
                simp only [e4]
                have : ((none : Option UInt8) == some LF) = false := rfl
                simp only [this, Bool.false_eq_true, if_false]
                exact nb_peekSet _ _ w2'
              | some n3 =>
                have e4 : (Dir.peekSet { d2 with consume := d2.consume + 1 }).2 = some n3 := hp3
                simp only [e4]
                obtain ⟨d3, b3, hc3, w3⟩ := copy_after_peek_nb hard _ w2' n3 hp3
                split
                · simp only [hc3]
                  exact nb_consume_succ hard d3 w3
                · exact nb_peekSet _ _ w2'
            · exact nb_peekSet _ _ w1
        · exact w1
      · split
        · exact nb_peekSet _ _ w
        · exact nb_peekSet _ _ w
  · -- LF
    simp only
    cases hp : c.out.peek with
    | none =>
      have e2 : (c.out.peekSet).2 = none := hp
      simp only [e2]
      have : ((none : Option UInt8) == some CR) = false := rfl
      simp only [this, Bool.false_and, Bool.false_eq_true, if_false]
      exact nb_peekSet _ _ w
    | some n =>
      have e2 : (c.out.peekSet).2 = some n := hp
      simp only [e2]
      obtain ⟨d1, b1, hc1, w1⟩ := copy_after_peek_nb hard c.out w n hp
      repeat' split
      all_goals first
        | exact w1
        | exact nb_peekSet _ _ w
        | (rename_i h9; rw [hc1] at h9; simp only [Option.some.injEq, Prod.mk.injEq] at h9; rw [← h9.1]; exact w1)
        | (rename_i h9; rw [hc1] at h9; simp at h9)


theorem nboOut_resHeadersLoop (cfg : Cfg) (fuel : Nat) (lfcr : Bool) (c : Conn) (w : NB cfg.fieldLimitHard c.out) :
    NB cfg.fieldLimitHard (resHeadersLoop cfg fuel lfcr c).1.out := by
  induction fuel generalizing c lfcr with
  | zero => unfold resHeadersLoop; exact w
  | succ k ih =>
    unfold resHeadersLoop
    cases c.out.tx with
    | none => exact w
    | some uid =>
      simp only
      split
      · -- closed
        have k1 := keepO_resReceiverFinalizeClear c
        generalize resReceiverFinalizeClear c = r1 at k1 ⊢
        have wr1 := nbo_keep k1 w
        unfold R.andThen
        split
        · simp only
          have k2 := keepO_runCallback .responseTrailer (some uid) none false r1.1 0 false
          generalize runCallback .responseTrailer (some uid) none false r1.1 0 false = r2 at k2 ⊢
          have wr2 := nbo_keep k2 wr1
          split
          · exact nb_same wr2 ⟨rfl, rfl, rfl, rfl, rfl⟩ rfl
          · exact wr2
        · exact wr1
      · cases hn : c.out.copyByte with
        | none => exact w
        | some p =>
          obtain ⟨d, b⟩ := p
          have wd := copyByte_some_nb _ _ d b w hn
          simp only
          split
          · exact ih _ _ wd
          · have he := eol_nb cfg.fieldLimitHard b lfcr { c with out := d } wd
            split
            · exact nb_peekSet _ _ wd
            · rename_i heq
              rw [heq] at he
              exact ih _ _ he
            · rename_i c2 lfcr2 ecr2 heq
              rw [heq] at he
              cases hc : c2.out.consolidate cfg.fieldLimitHard false with
              | none => exact he
              | some q =>
                obtain ⟨d2, data⟩ := q
                have w2 := consolidate_nb _ _ _ _ _ he hc
                simp only
                split
                · exact ih _ _ w2
                · split
                  · -- the empty line
                    have k1 := keepO_resFlushHeader { c2 with out := d2 }
                    generalize resFlushHeader { c2 with out := d2 } = r1 at k1 ⊢
                    have wr1 : NB cfg.fieldLimitHard r1.1.out := nbo_keep k1 w2
                    unfold R.andThen
                    split
                    · simp only
                      have wcb := nb_clearBuffer _ _ wr1
                      split
                      · exact wcb
                      · have k3 := keepO_resReceiverFinalizeClear { r1.1 with out := r1.1.out.clearBuffer }
                        generalize resReceiverFinalizeClear { r1.1 with out := r1.1.out.clearBuffer } = r3 at k3 ⊢
                        have wr3 : NB cfg.fieldLimitHard r3.1.out := nbo_keep k3 wcb
                        split
                        · skip
                          have k4 := keepO_runCallback .responseTrailer (some uid) none false r3.1 0 false
                          generalize runCallback .responseTrailer (some uid) none false r3.1 0 false = r4 at k4 ⊢
                          have wr4 := nbo_keep k4 wr3
                          split
                          · exact nb_same wr4 ⟨rfl, rfl, rfl, rfl, rfl⟩ rfl
                          · exact wr4
                        · exact wr3
                    · exact wr1
                  · -- a header line
                    have k1 := keepO_resHeaderLine uid (Parse.chomp data).1 { c2 with out := d2 }
                    generalize resHeaderLine uid (Parse.chomp data).1 { c2 with out := d2 } = r1 at k1 ⊢
                    have wr1 : NB cfg.fieldLimitHard r1.1.out := nbo_keep k1 w2
                    unfold R.andThen
                    split
                    · exact ih _ _ (nb_clearBuffer _ _ wr1)
                    · exact wr1

/-- **every response state function keeps the cursors inside the chunk and the line buffer within the hard limit**, whatever it answers -/
theorem nboOut_resStateFn (cfg : Cfg) (c : Conn) (w : NB cfg.fieldLimitHard c.out)
 : NB cfg.fieldLimitHard (resStateFn cfg c).1.out := by
  unfold resStateFn
  cases hs : c.outState with
  | idle => exact nboOut_resIdle cfg c w
  | line => exact nboOut_resLineLoop cfg _ c w
  | headers => exact nboOut_resHeadersLoop cfg _ false c w
  | bodyDetermine => exact nbo_keep (keepO_resBodyDetermine cfg c) w
  | bodyIdentityClKnown => exact nboOut_resBodyIdentityClKnown cfg c w
  | bodyIdentityStreamClose => exact nboOut_resBodyIdentityStreamClose cfg c w
  | bodyChunkedLength => exact nboOut_resChunkedLengthLoop cfg _ c w
  | bodyChunkedData => exact nboOut_resBodyChunkedData cfg c w
  | bodyChunkedDataEnd => exact nboOut_resChunkedDataEndLoop _ _ c w
  | finalize => exact nboOut_resFinalize cfg c w

theorem nboOut_resHandleStateChange (hard : Nat) (c : Conn) (w : NB hard c.out) : NB hard (resHandleStateChange c).1.out := by
  unfold resHandleStateChange
  split
  · exact w
  · simp only
    have key : ∀ (r : R), NB hard r.1.out → NB hard (r >>? fun c => ({ c with outStatePrev := some c.outState }, Rc.ok)).1.out := by
      intro r wr
      unfold R.andThen
      split
      · exact wr
      · exact wr
    apply key
    repeat' split
    all_goals first | exact w | exact nbo_keep (keepO_resReceiverSet _ c) w


/-! ### the whole call on a NULL chunk -/

/-- the loop of a request data call on a NULL chunk (a close, or a gap): the line buffer does not leave the hard limit -/
theorem nb_reqDriverLoop (cfg : Cfg) (g : Bool) (fuel : Nat) (c : Conn) (w : NB cfg.fieldLimitHard c.inn) :
    NB cfg.fieldLimitHard (reqDriverLoop cfg g fuel c).1.inn := by
  induction fuel generalizing c with
  | zero => unfold reqDriverLoop; exact w
  | succ k ih =>
    unfold reqDriverLoop
    extract_lets stepR
    have hs : ∀ r, stepR = some r → NB cfg.fieldLimitHard r.1.inn := by
      intro r hr
      simp only [stepR] at hr
      split at hr
      · split at hr
        · simp only [Option.some.injEq] at hr; rw [← hr]; exact nbIn_reqStateFn cfg c w
        · split at hr
          · split at hr
            · simp only [Option.some.injEq] at hr; rw [← hr]
              exact nb_keep (keepIn_txStateRequestComplete ..) (keepBuf_txStateRequestComplete ..) w
            · simp only [Option.some.injEq] at hr; rw [← hr]; exact w
          · simp at hr
      · simp only [Option.some.injEq] at hr; rw [← hr]; exact nbIn_reqStateFn cfg c w
    clear_value stepR
    split
    · exact w
    · rename_i _ c1 rc1
      have h1 : NB cfg.fieldLimitHard c1.inn := hs _ rfl
      have h2 : NB cfg.fieldLimitHard (if rc1 == Rc.ok then (if c1.inn.status == STREAM_TUNNEL then (c1, Rc.ok) else reqHandleStateChange c1) else (c1, rc1)).1.inn := by
        split
        · split
          · exact h1
          · exact nbIn_reqHandleStateChange _ c1 h1
        · exact h1
      rcases hy : (if rc1 == Rc.ok then (if c1.inn.status == STREAM_TUNNEL then (c1, Rc.ok) else reqHandleStateChange c1) else (c1, rc1)) with ⟨c2, rc2⟩
      rw [hy] at h2
      simp only at h2 ⊢
      split
      · split
        · exact h2
        · exact ih c2 h2
      · split
        · have kk := keepIn_reqReceiverSend false c2
          have kb := keepBuf_reqReceiverSend false c2
          rcases hz : reqReceiverSend false c2 with ⟨c3, rc3⟩
          rw [hz] at kk kb
          simp only at kk kb ⊢
          have h3 : NB cfg.fieldLimitHard c3.inn := nb_keep kk kb h2
          split
          · cases hb : c3.inn.buffer cfg.fieldLimitHard true with
            | none => exact ⟨h3.1, h3.2⟩
            | some d =>
              have hd := buffer_nb _ _ _ _ h3 hb
              exact ⟨hd.1, hd.2⟩
          · exact ⟨h3.1, h3.2⟩
        · repeat' split
          all_goals exact ⟨h2.1, h2.2⟩

/-- **a whole request data call with a NULL chunk** (the close call `none 0`, or a gap) keeps the line buffer within the hard limit -/
theorem reqData_null_buffer_bounded (cfg : Cfg) (len : Nat) (c : Conn) (hb : inBufLen c ≤ cfg.fieldLimitHard) :
    inBufLen (reqData cfg none len c).1 ≤ cfg.fieldLimitHard := by
  unfold reqData
  simp only
  unfold inBufLen
  simp only
  unfold reqDataCore
  have wst : NB cfg.fieldLimitHard (reqStoreChunk none len c).inn := ⟨rfl, hb⟩
  split
  · exact hb
  split
  · exact hb
  split
  · exact hb
  split
  · exact hb
  simp only
  split
  · exact wst.2
  · have w0 : NB cfg.fieldLimitHard (reqWakeOther (reqStoreChunk none len c)).inn := by
      unfold reqWakeOther
      split
      · exact ⟨wst.1, wst.2⟩
      · exact wst
    exact (nb_reqDriverLoop cfg _ _ _ w0).2

/-- the loop of a response data call on a NULL chunk -/
theorem nb_resDriverLoop (cfg : Cfg) (g : Bool) (fuel : Nat) (c : Conn) (w : NB cfg.fieldLimitHard c.out) :
    NB cfg.fieldLimitHard (resDriverLoop cfg g fuel c).1.out := by
  induction fuel generalizing c with
  | zero => unfold resDriverLoop; exact w
  | succ k ih =>
    unfold resDriverLoop
    extract_lets stepR
    have hs : ∀ r, stepR = some r → NB cfg.fieldLimitHard r.1.out := by
      intro r hr
      simp only [stepR] at hr
      split at hr
      · split at hr
        · simp only [Option.some.injEq] at hr; rw [← hr]; exact nboOut_resStateFn cfg c w
        · split at hr
          · split at hr
            · simp only [Option.some.injEq] at hr; rw [← hr]
              exact nbo_keep (keepO_txStateResponseCompleteEx ..) w
            · simp only [Option.some.injEq] at hr; rw [← hr]; exact w
          · simp at hr
      · simp only [Option.some.injEq] at hr; rw [← hr]; exact nboOut_resStateFn cfg c w
    clear_value stepR
    split
    · exact w
    · rename_i _ c1 rc1
      have h1 : NB cfg.fieldLimitHard c1.out := hs _ rfl
      have h2 : NB cfg.fieldLimitHard (if rc1 == Rc.ok then (if c1.out.status == STREAM_TUNNEL then (c1, Rc.ok) else resHandleStateChange c1) else (c1, rc1)).1.out := by
        split
        · split
          · exact h1
          · exact nboOut_resHandleStateChange _ c1 h1
        · exact h1
      rcases hy : (if rc1 == Rc.ok then (if c1.out.status == STREAM_TUNNEL then (c1, Rc.ok) else resHandleStateChange c1) else (c1, rc1)) with ⟨c2, rc2⟩
      rw [hy] at h2
      simp only at h2 ⊢
      split
      · split
        · exact h2
        · exact ih c2 h2
      · split
        · have kk := keepO_resReceiverSend false c2
          rcases hz : resReceiverSend false c2 with ⟨c3, rc3⟩
          rw [hz] at kk
          simp only at kk ⊢
          have h3 : NB cfg.fieldLimitHard c3.out := nbo_keep kk h2
          split
          · cases hb : c3.out.buffer cfg.fieldLimitHard false with
            | none => exact ⟨h3.1, h3.2⟩
            | some d =>
              have hd := buffer_nb _ _ _ _ h3 hb
              exact ⟨hd.1, hd.2⟩
          · exact ⟨h3.1, h3.2⟩
        · repeat' split
          all_goals exact ⟨h2.1, h2.2⟩

/-- **a whole response data call with a NULL chunk** keeps the line buffer within the hard limit -/
theorem resData_null_buffer_bounded (cfg : Cfg) (len : Nat) (c : Conn) (hb : outBufLen c ≤ cfg.fieldLimitHard) :
    outBufLen (resData cfg none len c).1 ≤ cfg.fieldLimitHard := by
  unfold resData
  simp only
  unfold outBufLen
  simp only
  unfold resDataCore
  have wst : NB cfg.fieldLimitHard (resStoreChunk none len c).out := ⟨rfl, hb⟩
  split
  · exact hb
  split
  · exact hb
  split
  · exact hb
  split
  · exact hb
  simp only
  split
  · exact wst.2
  · exact (nb_resDriverLoop cfg _ _ _ wst).2

/-- the counted request body states owe bytes again after the close call (outside fact: `ClAtDecision`, as for a data chunk) -/
theorem reqData_null_owedPos (cfg : Cfg) (c : Conn) (h0 : OwedPos c)
    (hcl : ClAtDecision cfg (reqWakeOther (reqStoreChunk none 0 c))) : OwedPos (reqData cfg none 0 c).1 := by
  have hstore : OwedPos (reqWakeOther (reqStoreChunk none 0 c)) := by
    unfold reqWakeOther
    split
    · exact ⟨fun e => h0.1 e, fun e => h0.2 e⟩
    · exact ⟨fun e => h0.1 e, fun e => h0.2 e⟩
  unfold reqData
  simp only
  have key : OwedPos (reqDataCore cfg none 0 c).1 := by
    unfold reqDataCore
    split
    · exact h0
    split
    · exact h0
    split
    · exact ⟨fun e => h0.1 e, fun e => h0.2 e⟩
    split
    · exact h0
    simp only
    split
    · exact ⟨fun e => h0.1 e, fun e => h0.2 e⟩
    · exact reqDriverLoop_owedPos cfg _ _ _ CallReach.start hstore hcl
  exact ⟨fun e => key.1 e, fun e => key.2 e⟩

/-- ... and the counted response body states after the response half of a close -/
theorem resData_null_owedPosO (cfg : Cfg) (c : Conn) (h0 : OwedPosO c) : OwedPosO (resData cfg none 0 c).1 := by
  have hstore : OwedPosO (resStoreChunk none 0 c) := ⟨fun e => h0.1 e, fun e => h0.2 e⟩
  unfold resData
  simp only
  have key : OwedPosO (resDataCore cfg none 0 c).1 := by
    unfold resDataCore
    split
    · exact h0
    split
    · exact h0
    split
    · exact ⟨fun e => h0.1 e, fun e => h0.2 e⟩
    split
    · exact h0
    simp only
    split
    · exact hstore
    · exact resDriverLoop_owedPosO cfg _ _ _ CallReachO.start hstore
  exact ⟨fun e => key.1 e, fun e => key.2 e⟩

end Htp.Conn
