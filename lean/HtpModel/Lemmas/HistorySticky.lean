/- STREAM_ERROR is absorbing for each direction over whole call histories (C09: "once a direction has reported ERROR every later call for
   that direction reports the same state and runs no parsing callbacks" - for all byte streams, chunkings, interleavings and callback
   return values). The per-call theorems (Props/C09.lean) cover a data call of the direction that is in error; this file covers what the calls
   of the OTHER direction, htp_connp_close, htp_connp_req_close, htp_connp_open and htp_connp_tx_freed do to that status in between.
   Part 1: no response-direction function takes the request direction's stream status out of ERROR (`KeepISt`: it is not touched; `KeepIE`:
   it is written under a guard that spares ERROR - the refused CONNECT and the 101 switch). Part 2: no request-direction function takes the
   response direction's status out of ERROR (`KeepOSt` / `KeepOE`: the DATA_OTHER wake-up and the CONNECT probe's tunnel switch are guarded).
   Part 3: the calls, whole histories, and the property in its own words. -/
import HtpModel.Lemmas.History
namespace Htp.Conn
open Htp Htp.Gen

/-! ## Part 1: the request direction's stream status, as seen from a response-direction function -/

/-- `f` leaves the request direction's stream status alone -/
@[reducible] def KeepISt (c c' : Conn) : Prop := c'.inn.status = c.inn.status

theorem KeepISt.refl (c : Conn) : KeepISt c c := rfl
theorem KeepISt.trans {a b c : Conn} (h1 : KeepISt a b) (h2 : KeepISt b c) : KeepISt a c := Eq.trans h2 h1

theorem keepISt_of_frame {c c' : Conn} (h : FrameDirs c c') (_k : KeepSt c c') : KeepISt c c' := h.inn_fields.2.2.2.2.2.1

theorem keepISt_andThen (c0 : Conn) (r : R) (f : Conn → R) (h1 : KeepISt c0 r.1) (h2 : ∀ c, KeepISt c (f c).1) :
    KeepISt c0 (r >>? f).1 := by
  unfold R.andThen
  split
  · exact h1.trans (h2 _)
  · exact h1

theorem keepISt_runCallback (h : Hook) (uid : Option Nat) (data : Option Bytes) (l : Bool) (c : Conn) (g : Nat) (s : Bool) :
    KeepISt c (runCallback h uid data l c g s).1 := keepISt_of_frame (frame_runCallback ..) (keepSt_runCallback ..)
theorem keepISt_runCallbackN (n : Nat) (h : Hook) (uid : Option Nat) (data : Option Bytes) (l : Bool) (g : Nat) (c : Conn) :
    KeepISt c (runCallbackN n h uid data l g c).1 := keepISt_of_frame (frame_runCallbackN ..) (keepSt_runCallbackN ..)

theorem keepISt_modTx (u : Nat) (f : Tx → Tx) (c : Conn) : KeepISt c (c.modTx u f) := rfl
theorem keepISt_setTx (t : Tx) (c : Conn) : KeepISt c (c.setTx t) := rfl
theorem keepISt_modOut (f : Tx → Tx) (c : Conn) : KeepISt c (c.modOut f) := by
  unfold Conn.modOut
  split <;> exact rfl

theorem keepISt_resReceiverSend (l : Bool) (c : Conn) : KeepISt c (resReceiverSend l c).1 := by
  unfold resReceiverSend
  cases c.out.receiverHook with
  | none => exact KeepISt.refl c
  | some h =>
    simp only
    apply keepISt_andThen
    · exact keepISt_runCallback ..
    · intro c2; exact rfl

theorem keepISt_resReceiverFinalizeClear (c : Conn) : KeepISt c (resReceiverFinalizeClear c).1 := by
  unfold resReceiverFinalizeClear
  cases c.out.receiverHook with
  | none => exact KeepISt.refl c
  | some h =>
    simp only
    exact (keepISt_resReceiverSend true c).trans rfl

theorem keepISt_resReceiverSet (h : Hook) (c : Conn) : KeepISt c (resReceiverSet h c).1 := by
  unfold resReceiverSet
  simp only
  exact (keepISt_resReceiverFinalizeClear c).trans rfl

theorem keepISt_resProcessBodyData (cfg : Cfg) (data : Option Bytes) (c : Conn) :
    KeepISt c (resProcessBodyData cfg data c).1 := keepISt_of_frame (frame_resProcessBodyData ..) (keepSt_resProcessBodyData ..)
theorem keepISt_resProcessBodyDataGap (cfg : Cfg) (data : Option Bytes) (g : Nat) (c : Conn) :
    KeepISt c (resBodyIdentityClKnown.resProcessBodyDataGap cfg data g c).1 :=
  keepISt_of_frame (frame_resProcessBodyDataGap ..) (keepSt_resProcessBodyDataGap ..)

theorem keepISt_txFinalize (cfg : Cfg) (uid : Nat) (c : Conn) : KeepISt c (txFinalize cfg uid c).1 := by
  unfold txFinalize
  cases c.findTx uid with
  | none => exact KeepISt.refl c
  | some t =>
    simp only
    split
    · exact KeepISt.refl c
    · apply keepISt_andThen
      · exact keepISt_runCallback ..
      · intro c1
        split
        · split
          · exact keepISt_of_frame (frame_destroyTx ..) (keepSt_destroyTx ..)
          · exact KeepISt.refl _
        · exact KeepISt.refl _

theorem keepISt_processResponseHeader (d : Bytes) (c : Conn) : KeepISt c (processResponseHeader d c).1 := by
  unfold processResponseHeader
  simp only
  exact (keepISt_modOut _ c).trans (keepISt_modOut _ _)

theorem keepISt_resFlushHeader (c : Conn) : KeepISt c (resFlushHeader c).1 := by
  unfold resFlushHeader
  cases c.out.header with
  | none => exact KeepISt.refl c
  | some h =>
    simp only
    have := keepISt_processResponseHeader h c
    split
    · exact this
    · exact this.trans rfl

theorem keepISt_txStateResponseStart (uid : Nat) (c : Conn) : KeepISt c (txStateResponseStart uid c).1 := by
  unfold txStateResponseStart
  simp only
  refine KeepISt.trans (b := { c with out := { c.out with tx := some uid } }) rfl ?_
  apply keepISt_andThen
  · exact keepISt_runCallback ..
  · intro c1
    split
    · exact rfl
    · exact rfl

theorem keepISt_txStateResponseLine (uid : Nat) (c : Conn) : KeepISt c (txStateResponseLine uid c).1 := by
  unfold txStateResponseLine
  simp only
  refine KeepISt.trans ?_ (keepISt_runCallback ..)
  split
  · exact keepISt_modTx ..
  · exact KeepISt.refl c

theorem keepISt_txStateResponseHeaders (cfg : Cfg) (uid : Nat) (c : Conn) : KeepISt c (txStateResponseHeaders cfg uid c).1 := by
  unfold txStateResponseHeaders
  rcases responseNeedsDecompressor cfg ((c.findTx uid).getD { uid := uid }) with ⟨enc, needs⟩
  simp only
  apply keepISt_andThen
  · exact KeepISt.trans (b := c.modTx uid _) rfl (keepISt_resReceiverFinalizeClear _)
  · intro c1
    apply keepISt_andThen
    · exact keepISt_runCallback ..
    · intro c2
      split
      · split
        · exact rfl
        · cases ceChain cfg ((getHeaderC ((c.findTx uid).getD { uid := uid }).resHeaders (b!"content-encoding")).map (·.value) |>.getD []) with
          | nil => exact rfl
          | cons ty rest => exact rfl
      · exact KeepISt.refl _

theorem keepISt_txStateResponseCompleteEx (cfg : Cfg) (uid : Nat) (c : Conn) : KeepISt c (txStateResponseCompleteEx cfg uid c).1 := by
  unfold txStateResponseCompleteEx
  simp only
  apply keepISt_andThen
  · split
    · apply keepISt_andThen
      · refine KeepISt.trans ?_ (keepISt_runCallback ..)
        split
        · exact KeepISt.trans (b := c.modTx uid _) rfl (keepISt_resProcessBodyData ..)
        · exact rfl
      · intro c1; exact keepISt_resReceiverFinalizeClear _
    · exact KeepISt.refl _
  · intro c1
    split
    · exact KeepISt.refl _
    · split
      · exact rfl
      · apply keepISt_andThen
        · exact keepISt_txFinalize ..
        · intro c2; exact rfl

theorem keepISt_resCl (cl ct : Option Parse.Header) (uid : Nat) (c : Conn) : KeepISt c (resCl cl ct uid c).1 := by
  unfold resCl
  cases cl with
  | some cl' =>
    simp only
    repeat' split
    all_goals exact rfl
  | none =>
    simp only
    repeat' split
    all_goals exact rfl

theorem keepISt_resFraming (te cl ct : Option Parse.Header) (uid : Nat) (c : Conn) : KeepISt c (resFraming te cl ct uid c).1 := by
  unfold resFraming
  repeat' split
  all_goals first | exact rfl | exact keepISt_resCl ..

/-- `f` does not take the request direction's stream status out of ERROR -/
def KeepIE (c c' : Conn) : Prop := c.inn.status = STREAM_ERROR → c'.inn.status = STREAM_ERROR

theorem KeepIE.of_eq {c c' : Conn} (h : KeepISt c c') : KeepIE c c' := fun e => Eq.trans h e
theorem KeepIE.refl (c : Conn) : KeepIE c c := id
theorem KeepIE.trans {a b c : Conn} (h1 : KeepIE a b) (h2 : KeepIE b c) : KeepIE a c := fun e => h2 (h1 e)

theorem keepIE_andThen (c0 : Conn) (r : R) (f : Conn → R) (h1 : KeepIE c0 r.1) (h2 : ∀ c, KeepIE c (f c).1) :
    KeepIE c0 (r >>? f).1 := by
  unfold R.andThen
  split
  · exact h1.trans (h2 _)
  · exact h1

/-- a refused CONNECT unblocks the request direction (status := DATA) - unless it is in ERROR or STOP -/
theorem keepIE_resRefusedConnect (t : Tx) (c : Conn) : KeepIE c (resRefusedConnect t c) := by
  intro e
  unfold resRefusedConnect
  split
  · simp [e]
  · exact e

/-- 101 Switching Protocols puts the request direction into tunnel mode - unless it is in ERROR or STOP -/
theorem keepIE_resSwitchTunnel (c : Conn) : KeepIE c (resSwitchTunnel c) := by
  intro e
  unfold resSwitchTunnel
  simp [e]


theorem keepISt_resNoBody (uid : Nat) (t : Tx) (te cl : Option Parse.Header) (c : Conn) : KeepISt c (resNoBody uid t te cl c) := by
  unfold resNoBody
  repeat' split
  all_goals exact rfl

theorem keepISt_resFramingStep (uid : Nat) (t : Tx) (te cl : Option Parse.Header) (c : Conn) : KeepISt c (resFramingStep uid t te cl c).1 := by
  unfold resFramingStep
  split
  · simp only []
    refine KeepISt.trans ?_ (keepISt_resFraming ..)
    split
    · exact keepISt_modTx ..
    · exact KeepISt.refl _
  · exact KeepISt.refl _

/-! ### the response state functions that never touch the request-direction facts -/

theorem keepISt_resLineAsBody (cfg : Cfg) (uid : Nat) (dn : Bool) (data line : Bytes) (cr : Nat) (c : Conn) :
    KeepISt c (resLineAsBody cfg uid dn data line cr c).1 := by
  unfold resLineAsBody
  extract_lets nextIsH rd1 ln1 c1 c2 src c3
  have k3 : KeepISt c c3 := rfl
  have k1 : KeepISt c c1 := rfl
  clear_value c1 c3
  split
  · exact k1
  · have k := keepISt_resProcessBodyData cfg (if dn then none else some (data.take (line.length + cr))) c3
    rcases hx : resProcessBodyData cfg (if dn then none else some (data.take (line.length + cr))) c3 with ⟨c4, rc4⟩
    rw [hx] at k
    simp only at k ⊢
    have k4 : KeepISt c c4 := k3.trans k
    split
    · exact k4
    · split
      · exact k4
      · exact k4

theorem keepISt_resLineComplete (cfg : Cfg) (uid : Nat) (closed : Bool) (c : Conn) :
    KeepISt c (resLineComplete cfg uid closed c).1 := by
  unfold resLineComplete
  cases hc : c.out.consolidate cfg.fieldLimitHard false with
  | none => exact rfl
  | some q =>
    obtain ⟨d2, data⟩ := q
    simp -zeta only
    extract_lets dataNull c0 c1 c2 c3 rl c4
    have h3 : KeepISt c c3 := rfl
    have h4 : KeepISt c c4 := rfl
    have h2 : KeepISt c c2 := by
      show KeepISt c (c1.modTx uid _)
      simp only [c1]
      split
      · exact rfl
      · exact rfl
    clear_value c0 c1 c2 c3 c4 dataNull
    split
    · exact h2
    · split
      · exact h3.trans (keepISt_resLineAsBody ..)
      · have k := keepISt_txStateResponseLine uid c4
        generalize txStateResponseLine uid c4 = r at k ⊢
        unfold R.andThen
        split
        · exact (h4.trans k).trans rfl
        · exact h4.trans k

theorem keepISt_resLineLoop (cfg : Cfg) (fuel : Nat) (c : Conn) : KeepISt c (resLineLoop cfg fuel c).1 := by
  induction fuel generalizing c with
  | zero => unfold resLineLoop; exact rfl
  | succ k ih =>
    unfold resLineLoop
    cases c.out.tx with
    | none => exact rfl
    | some uid =>
      simp only
      split
      · exact rfl
      · rename_i c1 h1
        have e1 : KeepISt c c1 := by
          split at h1
          · cases hcb : c.out.copyByte with
            | none => rw [hcb] at h1; simp at h1
            | some p =>
              obtain ⟨d, b⟩ := p
              rw [hcb] at h1
              simp only [Option.some.injEq] at h1
              rw [← h1]
          · simp only [Option.some.injEq] at h1; rw [← h1]
        split
        · exact e1
        · rename_i c2 h2
          have e2 : KeepISt c c2 := by
            split at h2
            · simp only [Dir.peekSet] at h2
              cases hp : c1.out.peek with
              | none => rw [hp] at h2; simp at h2
              | some b =>
                rw [hp] at h2
                simp only at h2
                split at h2
                · simp only [Except.ok.injEq, Prod.mk.injEq] at h2; rw [← h2.1]; exact e1
                · simp only [Except.ok.injEq, Prod.mk.injEq] at h2; simp at h2
            · simp only [Except.ok.injEq, Prod.mk.injEq] at h2; simp at h2
          exact e2.trans (ih c2)
        · rename_i c2 h2
          have e2 : KeepISt c c2 := by
            split at h2
            · simp only [Dir.peekSet] at h2
              cases hp : c1.out.peek with
              | none => rw [hp] at h2; simp at h2
              | some b =>
                rw [hp] at h2
                simp only at h2
                split at h2
                · simp only [Except.ok.injEq, Prod.mk.injEq] at h2; simp at h2
                · simp only [Except.ok.injEq, Prod.mk.injEq] at h2; rw [← h2.1]; exact e1
            · simp only [Except.ok.injEq, Prod.mk.injEq] at h2; rw [← h2.1]; exact e1
          split
          · exact e2.trans (ih c2)
          · exact e2.trans (keepISt_resLineComplete ..)

theorem eol_keepISt (b : UInt8) (lfcr : Bool) (c : Conn) :
    ∀ c2 l e a, resHeadersEol b lfcr c = .ok (c2, l, e, a) → KeepISt c c2 := by
  intro c2 l e a h
  unfold resHeadersEol at h
  simp only [] at h
  repeat' split at h
  all_goals first
    | (simp only [Except.ok.injEq, Prod.mk.injEq] at h; rw [← h.1])
    | (simp at h)

theorem keepISt_resHeaderLine (uid : Nat) (line : Bytes) (c : Conn) : KeepISt c (resHeaderLine uid line c).1 := by
  unfold resHeaderLine
  split
  · apply keepISt_andThen
    · exact keepISt_resFlushHeader c
    · intro c1
      simp only [Dir.peekSet]
      obtain hp | ⟨b, hp⟩ : c1.out.peek = none ∨ ∃ b, c1.out.peek = some b := by cases c1.out.peek <;> simp
      · simp only [hp, Bool.not_true, Bool.false_eq_true, if_false]
      · simp only [hp]
        by_cases hf : isFoldingChar b = true
        · simp only [hf, Bool.not_true, Bool.false_eq_true, if_false]
        · simp only [hf, Bool.not_false, if_true]
          have e := keepISt_processResponseHeader line { c1 with out := { c1.out with nextByte := (b.toNat : Int) } }
          rcases hy : processResponseHeader line { c1 with out := { c1.out with nextByte := (b.toNat : Int) } } with ⟨c2, rc2⟩
          rw [hy] at e
          simp only at e ⊢
          split
          · exact KeepISt.trans (b := { c1 with out := { c1.out with nextByte := (b.toNat : Int) } }) rfl e
          · exact KeepISt.trans (b := { c1 with out := { c1.out with nextByte := (b.toNat : Int) } }) rfl e
  · cases c.out.header with
    | none => exact rfl
    | some h =>
      simp only
      split
      · have e := keepISt_processResponseHeader h (c.modTx uid fun t => { t with flags := t.flags ||| INVALID_FOLDING })
        rcases hy : processResponseHeader h (c.modTx uid fun t => { t with flags := t.flags ||| INVALID_FOLDING }) with ⟨c2, rc2⟩
        rw [hy] at e
        simp only at e ⊢
        split
        · exact KeepISt.trans (b := c.modTx uid _) rfl e
        · exact KeepISt.trans (b := c.modTx uid _) rfl e
      · split
        · exact rfl
        · exact rfl

theorem keepISt_resHeadersLoop (cfg : Cfg) (fuel : Nat) (lfcr : Bool) (c : Conn) :
    KeepISt c (resHeadersLoop cfg fuel lfcr c).1 := by
  induction fuel generalizing c lfcr with
  | zero => unfold resHeadersLoop; exact rfl
  | succ k ih =>
    unfold resHeadersLoop
    cases c.out.tx with
    | none => exact rfl
    | some uid =>
      simp only
      have trailer : ∀ (c0 : Conn),
          KeepISt c0 (resReceiverFinalizeClear c0 >>? fun c => runCallback .responseTrailer (some uid) none false c >>? fun c => ({ c with outState := .finalize }, Rc.ok)).1 := by
        intro c0
        apply keepISt_andThen
        · exact keepISt_resReceiverFinalizeClear c0
        · intro c1
          apply keepISt_andThen
          · exact keepISt_runCallback ..
          · intro c2; exact rfl
      split
      · exact trailer c
      · cases hn : c.out.copyByte with
        | none => exact rfl
        | some p =>
          obtain ⟨d, b⟩ := p
          simp only
          split
          · exact KeepISt.trans (b := { c with out := d }) rfl (ih _ _)
          · have he := eol_keepISt b lfcr { c with out := d }
            split
            · exact rfl
            · rename_i heq
              have e2 := he _ _ _ _ heq
              exact KeepISt.trans (KeepISt.trans (b := { c with out := d }) rfl e2) (ih _ _)
            · rename_i c2 lfcr2 ecr2 heq
              have e2 : KeepISt c c2 := KeepISt.trans (b := { c with out := d }) rfl (he _ _ _ _ heq)
              cases hc : c2.out.consolidate cfg.fieldLimitHard false with
              | none => exact e2
              | some q =>
                obtain ⟨d2, data⟩ := q
                simp only
                have e3 : KeepISt c { c2 with out := d2 } := e2.trans rfl
                split
                · exact e3.trans (ih lfcr2 { c2 with out := d2 })
                · split
                  · refine e3.trans ?_
                    apply keepISt_andThen
                    · exact keepISt_resFlushHeader _
                    · intro c5
                      split
                      · exact rfl
                      · exact KeepISt.trans (b := { c5 with out := c5.out.clearBuffer }) rfl (trailer _)
                  · refine e3.trans ?_
                    apply keepISt_andThen
                    · exact keepISt_resHeaderLine ..
                    · intro c5
                      exact KeepISt.trans (b := { c5 with out := c5.out.clearBuffer }) rfl (ih _ _)

theorem keepISt_resBodyIdentityClKnown (cfg : Cfg) (c : Conn) : KeepISt c (resBodyIdentityClKnown cfg c).1 := by
  unfold resBodyIdentityClKnown
  extract_lets avail n cfin data
  clear_value n data
  split
  · exact KeepISt.trans (b := cfin) rfl (keepISt_resProcessBodyData ..)
  · split
    · exact rfl
    · have k := keepISt_resProcessBodyDataGap cfg data (if c.out.curNull then n.toNat else 0) c
      rcases hx : resBodyIdentityClKnown.resProcessBodyDataGap cfg data (if c.out.curNull then n.toNat else 0) c with ⟨c1, rc1⟩
      rw [hx] at k
      simp only at k ⊢
      split
      · exact k
      · split
        · exact KeepISt.trans (KeepISt.trans k (b := c1) (c := { { c1 with out := { c1.out.advance n with bodyDataLeft := c1.out.bodyDataLeft - n } } with outState := .finalize }) rfl) (keepISt_resProcessBodyData ..)
        · exact k.trans rfl

theorem keepISt_resBodyIdentityStreamClose (cfg : Cfg) (c : Conn) : KeepISt c (resBodyIdentityStreamClose cfg c).1 := by
  unfold resBodyIdentityStreamClose
  extract_lets n data r
  have hr : KeepISt c r.1 := by
    simp only [r]
    split
    · have k := keepISt_resProcessBodyDataGap cfg data (if c.out.curNull then n.toNat else 0) c
      rcases hx : resBodyIdentityClKnown.resProcessBodyDataGap cfg data (if c.out.curNull then n.toNat else 0) c with ⟨c1, rc1⟩
      rw [hx] at k
      simp only at k ⊢
      split
      · exact k
      · exact k.trans rfl
    · exact rfl
  clear_value r
  apply keepISt_andThen
  · exact hr
  · intro c1
    split
    · exact rfl
    · exact rfl

theorem keepISt_resChunkedDataEndLoop (fuel : Nat) (c : Conn) : KeepISt c (resChunkedDataEndLoop fuel c).1 := by
  induction fuel generalizing c with
  | zero => unfold resChunkedDataEndLoop; exact rfl
  | succ k ih =>
    unfold resChunkedDataEndLoop
    cases hn : c.out.nextByteConsume with
    | none => exact rfl
    | some p =>
      obtain ⟨d, b⟩ := p
      simp only
      have k1 : KeepISt c ({ c with out := d }.modOut (fun t => { t with resMessageLen := t.resMessageLen + 1 })) :=
        KeepISt.trans (b := { c with out := d }) rfl (keepISt_modOut _ _)
      split
      · exact k1.trans rfl
      · exact k1.trans (ih _)

theorem keepISt_resBodyChunkedData (cfg : Cfg) (c : Conn) : KeepISt c (resBodyChunkedData cfg c).1 := by
  unfold resBodyChunkedData
  extract_lets avail n data
  clear_value n data
  split
  · exact rfl
  · have k := keepISt_resProcessBodyData cfg (some data) c
    rcases hx : resProcessBodyData cfg (some data) c with ⟨c1, rc1⟩
    rw [hx] at k
    simp only at k ⊢
    split
    · exact k
    · split
      · exact k.trans rfl
      · exact k.trans rfl

theorem keepISt_resChunkedLengthLoop (cfg : Cfg) (fuel : Nat) (c : Conn) : KeepISt c (resChunkedLengthLoop cfg fuel c).1 := by
  induction fuel generalizing c with
  | zero => unfold resChunkedLengthLoop; exact rfl
  | succ k ih =>
    unfold resChunkedLengthLoop
    cases hn : c.out.copyByte with
    | none => exact rfl
    | some p =>
      obtain ⟨d, b⟩ := p
      simp -zeta only
      extract_lets c0
      have h0 : KeepISt c c0 := rfl
      clear_value c0
      split
      · exact h0.trans (ih _)
      · cases hc : c0.out.consolidate cfg.fieldLimitHard false with
        | none => exact h0
        | some q =>
          obtain ⟨d2, data⟩ := q
          simp -zeta only
          extract_lets c1 s1 c2 s2 rd c3 c4
          have h1 : KeepISt c c1 := h0.trans (KeepISt.trans (b := { c0 with out := d2 }) rfl (keepISt_modOut _ _))
          have h2 : KeepISt c c2 := h1.trans rfl
          have h4 : KeepISt c c4 := h2.trans rfl
          have h3 : KeepISt c c3 := h2.trans rfl
          clear_value c1 c2 c3 c4
          split
          · exact KeepISt.trans (h2.trans (c := { c2 with out := { c2.out with consume := c2.out.read } }) rfl) (ih _)
          · split
            · exact h3.trans (keepISt_modOut _ _)
            · split
              · exact h4.trans rfl
              · exact h4.trans (KeepISt.trans (b := { c4 with outState := .headers }) rfl (keepISt_modOut _ _))

theorem keepISt_resFinalize (cfg : Cfg) (c : Conn) : KeepISt c (resFinalize cfg c).1 := by
  unfold resFinalize
  cases c.out.tx with
  | none => exact rfl
  | some uid =>
    simp -zeta only
    extract_lets cp pre
    have hp : ∀ c' b, pre = some (c', b) → KeepISt c c' := by
      intro c' b hpre
      simp only [pre] at hpre
      split at hpre
      · split at hpre
        · simp only [Option.some.injEq, Prod.mk.injEq] at hpre; rw [← hpre.1]
        · split at hpre
          · split at hpre
            · simp at hpre
            · simp only [Option.some.injEq, Prod.mk.injEq] at hpre
              rw [← hpre.1]
          · simp only [Option.some.injEq, Prod.mk.injEq] at hpre; rw [← hpre.1]
      · simp only [Option.some.injEq, Prod.mk.injEq] at hpre; rw [← hpre.1]
    clear_value pre
    split
    · exact rfl
    · rename_i _ c1
      exact (hp _ _ rfl).trans (keepISt_txStateResponseCompleteEx ..)
    · rename_i _ c1
      have h1 := hp _ _ rfl
      clear hp
      cases hc : c1.out.consolidate cfg.fieldLimitHard false with
      | none => exact h1
      | some q =>
        obtain ⟨d2, data⟩ := q
        simp -zeta only
        extract_lets dataNull c2 rd keep buf cs
        have h2 : KeepISt c c2 := h1.trans rfl
        clear_value c2 dataNull
        split
        · exact h2.trans (keepISt_txStateResponseCompleteEx ..)
        · split
          · have k := keepISt_resProcessBodyData cfg (some data) c2
            rcases hx : resProcessBodyData cfg (some data) c2 with ⟨c3, rc3⟩
            rw [hx] at k
            simp only at k ⊢
            exact (h2.trans k).trans rfl
          · exact KeepISt.trans (h2.trans (c := { c2 with out := { c2.out with read := rd, consume := cs, buf := buf } }) rfl) (keepISt_txStateResponseCompleteEx ..)

theorem keepISt_resHandleStateChange (c : Conn) : KeepISt c (resHandleStateChange c).1 := by
  unfold resHandleStateChange
  split
  · exact rfl
  · simp only
    apply keepISt_andThen
    · repeat' split
      all_goals first | exact KeepISt.refl c | exact keepISt_resReceiverSet _ c
    · intro c1; exact rfl
/-! ### ... and the three that call request-direction code or write the status: RES_IDLE completes a request waiting in REQ_FINALIZE and,
    for an unmatched response, makes up a transaction; RES_BODY_DETERMINE unblocks / tunnels the request direction under a guard. -/

theorem keepISt_reqReceiverSend (l : Bool) (c : Conn) : KeepISt c (reqReceiverSend l c).1 := by
  unfold reqReceiverSend
  cases c.inn.receiverHook with
  | none => exact KeepISt.refl c
  | some h =>
    simp only
    apply keepISt_andThen
    · exact keepISt_runCallback ..
    · intro c2; exact rfl

theorem keepISt_reqReceiverFinalizeClear (c : Conn) : KeepISt c (reqReceiverFinalizeClear c).1 := by
  unfold reqReceiverFinalizeClear
  cases c.inn.receiverHook with
  | none => exact KeepISt.refl c
  | some h =>
    simp only
    exact (keepISt_reqReceiverSend true c).trans rfl

theorem keepISt_reqReceiverSet (h : Hook) (c : Conn) : KeepISt c (reqReceiverSet h c).1 := by
  unfold reqReceiverSet
  simp only
  exact (keepISt_reqReceiverFinalizeClear c).trans rfl

theorem keepISt_reqProcessBodyData (cfg : Cfg) (data : Option Bytes) (g : Nat) (c : Conn) :
    KeepISt c (reqProcessBodyData cfg data g c).1 := keepISt_of_frame (frame_reqProcessBodyData ..) (keepSt_reqProcessBodyData ..)

theorem keepISt_txStateRequestCompletePartial (cfg : Cfg) (uid : Nat) (c : Conn) : KeepISt c (txStateRequestCompletePartial cfg uid c).1 := by
  unfold txStateRequestCompletePartial
  simp only
  apply keepISt_andThen
  · split
    · exact keepISt_reqProcessBodyData ..
    · exact KeepISt.refl c
  · intro c1
    apply keepISt_andThen
    · exact (keepISt_modTx _ _ c1).trans (keepISt_runCallback ..)
    · intro c2
      apply keepISt_andThen
      · exact keepISt_reqReceiverFinalizeClear c2
      · intro c3; exact rfl

theorem keepISt_txStateRequestComplete (cfg : Cfg) (uid : Nat) (c : Conn) : KeepISt c (txStateRequestComplete cfg uid c).1 := by
  unfold txStateRequestComplete
  simp only
  apply keepISt_andThen
  · split
    · exact keepISt_txStateRequestCompletePartial ..
    · exact KeepISt.refl c
  · intro c1
    have h := keepISt_txFinalize cfg uid { c1 with inState := if ((c1.findTx uid).map (·.is09)).getD ((c.findTx uid).getD { uid := uid }).is09 then .ignoreDataAfter09 else .idle }
    exact (KeepISt.trans rfl h).trans rfl

theorem keepISt_txCreate (cfg : Cfg) (c : Conn) : KeepISt c (txCreate cfg c).1 := by
  unfold txCreate
  simp only []
  split <;> exact rfl

theorem keepISt_resExpectShortcut (t : Tx) (c : Conn) : KeepISt c (resExpectShortcut t c) := by
  unfold resExpectShortcut
  repeat' split
  all_goals exact rfl

theorem keepIE_resBodyDetermineRest (cfg : Cfg) (uid : Nat) (t : Tx) (c : Conn) : KeepIE c (resBodyDetermineRest cfg uid t c).1 := by
  unfold resBodyDetermineRest
  extract_lets c1 cl te is100
  have k1 : KeepIE c c1 := keepIE_resRefusedConnect t c
  clear_value c1 is100
  split
  · exact (k1.trans (keepIE_resSwitchTunnel c1)).trans (KeepIE.of_eq (keepISt_txStateResponseHeaders ..))
  · split
    · exact k1.trans (KeepIE.of_eq rfl)
    · apply keepIE_andThen
      · exact k1.trans (KeepIE.of_eq (((keepISt_resExpectShortcut t c1).trans (keepISt_resNoBody ..)).trans (keepISt_resFramingStep ..)))
      · intro c9; exact KeepIE.of_eq (keepISt_txStateResponseHeaders ..)

theorem keepIE_resBodyDetermine (cfg : Cfg) (c : Conn) : KeepIE c (resBodyDetermine cfg c).1 := by
  unfold resBodyDetermine
  cases c.out.tx with
  | none => exact KeepIE.refl c
  | some uid =>
    simp only
    split
    · exact KeepIE.of_eq (KeepISt.trans (b := { c with outState := .finalize }) rfl (keepISt_txStateResponseHeaders ..))
    · exact keepIE_resBodyDetermineRest cfg uid _ c

theorem keepISt_resIdleUnmatched (cfg : Cfg) (c : Conn) : KeepISt c (resIdleUnmatched cfg c).1 := by
  unfold resIdleUnmatched
  have k := keepISt_txCreate cfg c
  rcases hx : txCreate cfg c with ⟨c2, u⟩
  rw [hx] at k
  simp only at k ⊢
  cases u with
  | none => exact k.trans rfl
  | some uid =>
    simp only
    exact KeepISt.trans (k.trans rfl) (keepISt_txStateResponseStart ..)

theorem keepISt_resIdle (cfg : Cfg) (c : Conn) : KeepISt c (resIdle cfg c).1 := by
  unfold resIdle
  split
  · exact KeepISt.refl c
  · simp only []
    split
    · have hk : KeepISt c (if c.inState == .finalize then (match c.inn.tx with | some uid => (txStateRequestComplete cfg uid c).1 | none => c) else c) := by
        split
        · split
          · exact keepISt_txStateRequestComplete ..
          · exact KeepISt.refl c
        · exact KeepISt.refl c
      exact hk.trans (keepISt_resIdleUnmatched ..)
    · rename_i t _
      exact KeepISt.trans (b := { c with outNextTxIndex := c.outNextTxIndex + 1, out := { c.out with tx := some t.uid, contentLength := -1, bodyDataLeft := -1 } }) rfl (keepISt_txStateResponseStart ..)

/-- **no response state function takes the request direction out of ERROR** -/
theorem keepIE_resStateFn (cfg : Cfg) (c : Conn) : KeepIE c (resStateFn cfg c).1 := by
  unfold resStateFn
  cases c.outState with
  | idle => exact KeepIE.of_eq (keepISt_resIdle cfg c)
  | line => exact KeepIE.of_eq (keepISt_resLineLoop ..)
  | headers => exact KeepIE.of_eq (keepISt_resHeadersLoop ..)
  | bodyDetermine => exact keepIE_resBodyDetermine cfg c
  | bodyIdentityClKnown => exact KeepIE.of_eq (keepISt_resBodyIdentityClKnown ..)
  | bodyIdentityStreamClose => exact KeepIE.of_eq (keepISt_resBodyIdentityStreamClose ..)
  | bodyChunkedLength => exact KeepIE.of_eq (keepISt_resChunkedLengthLoop ..)
  | bodyChunkedData => exact KeepIE.of_eq (keepISt_resBodyChunkedData ..)
  | bodyChunkedDataEnd => exact KeepIE.of_eq (keepISt_resChunkedDataEndLoop ..)
  | finalize => exact KeepIE.of_eq (keepISt_resFinalize ..)

/-- the loop of a response data call (gap or not) -/
theorem keepIE_resDriverLoop (cfg : Cfg) (g : Bool) (fuel : Nat) (c : Conn) : KeepIE c (resDriverLoop cfg g fuel c).1 := by
  induction fuel generalizing c with
  | zero => unfold resDriverLoop; exact KeepIE.of_eq rfl
  | succ k ih =>
    unfold resDriverLoop
    extract_lets stepR
    have hs : ∀ r, stepR = some r → KeepIE c r.1 := by
      intro r hr
      simp only [stepR] at hr
      split at hr
      · split at hr
        · simp only [Option.some.injEq] at hr; rw [← hr]; exact keepIE_resStateFn cfg c
        · split at hr
          · split at hr
            · simp only [Option.some.injEq] at hr; rw [← hr]; exact KeepIE.of_eq (keepISt_txStateResponseCompleteEx ..)
            · simp only [Option.some.injEq] at hr; rw [← hr]; exact KeepIE.refl c
          · simp at hr
      · simp only [Option.some.injEq] at hr; rw [← hr]; exact keepIE_resStateFn cfg c
    clear_value stepR
    split
    · exact KeepIE.refl c
    · rename_i _ c1 rc1
      have h1 : KeepIE c c1 := hs _ rfl
      have h2 : KeepIE c (if rc1 == Rc.ok then (if c1.out.status == STREAM_TUNNEL then (c1, Rc.ok) else resHandleStateChange c1) else (c1, rc1)).1 := by
        split
        · split
          · exact h1
          · exact h1.trans (KeepIE.of_eq (keepISt_resHandleStateChange c1))
        · exact h1
      rcases hy : (if rc1 == Rc.ok then (if c1.out.status == STREAM_TUNNEL then (c1, Rc.ok) else resHandleStateChange c1) else (c1, rc1)) with ⟨c2, rc2⟩
      rw [hy] at h2
      simp only at h2 ⊢
      split
      · split
        · exact h2
        · exact h2.trans (ih c2)
      · split
        · have kk := keepISt_resReceiverSend false c2
          rcases hz : resReceiverSend false c2 with ⟨c3, rc3⟩
          rw [hz] at kk
          simp only at kk ⊢
          have h3 : KeepIE c c3 := h2.trans (KeepIE.of_eq kk)
          split
          · cases hb : c3.out.buffer cfg.fieldLimitHard false with
            | none => exact h3.trans (KeepIE.of_eq rfl)
            | some d => exact h3.trans (KeepIE.of_eq rfl)
          · exact h3.trans (KeepIE.of_eq rfl)
        · repeat' split
          all_goals exact h2.trans (KeepIE.of_eq rfl)

/-- **a whole response data call** - any chunk, a stream gap or the NULL chunk of a close, any state, any callback policy - does not take
    the request direction's stream status out of ERROR -/
theorem keepIE_resData (cfg : Cfg) (data : Option Bytes) (len : Nat) (c : Conn) : KeepIE c (resData cfg data len c).1 := by
  unfold resData
  simp only
  have key : KeepIE c (resDataCore cfg data len c).1 := by
    unfold resDataCore
    split
    · exact KeepIE.refl c
    split
    · exact KeepIE.refl c
    split
    · exact KeepIE.of_eq rfl
    split
    · exact KeepIE.refl c
    simp only
    split
    · exact KeepIE.of_eq rfl
    · exact KeepIE.trans (b := resStoreChunk data len c) (KeepIE.of_eq rfl) (keepIE_resDriverLoop cfg _ _ _)
  exact key.trans (KeepIE.of_eq rfl)

/-! ## Part 2: the response direction's stream status, as seen from a request-direction function -/

/-- `f` leaves the response direction's stream status alone -/
@[reducible] def KeepOSt (c c' : Conn) : Prop := c'.out.status = c.out.status

theorem KeepOSt.refl (c : Conn) : KeepOSt c c := rfl
theorem KeepOSt.trans {a b c : Conn} (h1 : KeepOSt a b) (h2 : KeepOSt b c) : KeepOSt a c := Eq.trans h2 h1

theorem keepOSt_of_frame {c c' : Conn} (h : FrameDirs c c') (_k : KeepSt c c') : KeepOSt c c' := h.out_fields.2.2.2.2.2

theorem keepOSt_andThen (c0 : Conn) (r : R) (f : Conn → R) (h1 : KeepOSt c0 r.1) (h2 : ∀ c, KeepOSt c (f c).1) :
    KeepOSt c0 (r >>? f).1 := by
  unfold R.andThen
  split
  · exact h1.trans (h2 _)
  · exact h1

theorem keepOSt_runCallback (h : Hook) (uid : Option Nat) (data : Option Bytes) (l : Bool) (c : Conn) (g : Nat) (s : Bool) :
    KeepOSt c (runCallback h uid data l c g s).1 := keepOSt_of_frame (frame_runCallback ..) (keepSt_runCallback ..)

theorem keepOSt_modTx (u : Nat) (f : Tx → Tx) (c : Conn) : KeepOSt c (c.modTx u f) := rfl
theorem keepOSt_modIn (f : Tx → Tx) (c : Conn) : KeepOSt c (c.modIn f) := by
  unfold Conn.modIn
  split <;> exact rfl

theorem keepOSt_reqReceiverSend (l : Bool) (c : Conn) : KeepOSt c (reqReceiverSend l c).1 := by
  unfold reqReceiverSend
  cases c.inn.receiverHook with
  | none => exact KeepOSt.refl c
  | some h =>
    simp only
    apply keepOSt_andThen
    · exact keepOSt_runCallback ..
    · intro c2; exact rfl

theorem keepOSt_reqReceiverFinalizeClear (c : Conn) : KeepOSt c (reqReceiverFinalizeClear c).1 := by
  unfold reqReceiverFinalizeClear
  cases c.inn.receiverHook with
  | none => exact KeepOSt.refl c
  | some h =>
    simp only
    exact (keepOSt_reqReceiverSend true c).trans rfl

theorem keepOSt_reqReceiverSet (h : Hook) (c : Conn) : KeepOSt c (reqReceiverSet h c).1 := by
  unfold reqReceiverSet
  simp only
  exact (keepOSt_reqReceiverFinalizeClear c).trans rfl

theorem keepOSt_reqProcessBodyData (cfg : Cfg) (data : Option Bytes) (g : Nat) (c : Conn) :
    KeepOSt c (reqProcessBodyData cfg data g c).1 := keepOSt_of_frame (frame_reqProcessBodyData ..) (keepSt_reqProcessBodyData ..)

theorem keepOSt_txFinalize (cfg : Cfg) (uid : Nat) (c : Conn) : KeepOSt c (txFinalize cfg uid c).1 := by
  unfold txFinalize
  cases c.findTx uid with
  | none => exact KeepOSt.refl c
  | some t =>
    simp only
    split
    · exact KeepOSt.refl c
    · apply keepOSt_andThen
      · exact keepOSt_runCallback ..
      · intro c1
        split
        · split
          · exact keepOSt_of_frame (frame_destroyTx ..) (keepSt_destroyTx ..)
          · exact KeepOSt.refl _
        · exact KeepOSt.refl _

theorem keepOSt_txStateRequestCompletePartial (cfg : Cfg) (uid : Nat) (c : Conn) : KeepOSt c (txStateRequestCompletePartial cfg uid c).1 := by
  unfold txStateRequestCompletePartial
  simp only
  apply keepOSt_andThen
  · split
    · exact keepOSt_reqProcessBodyData ..
    · exact KeepOSt.refl c
  · intro c1
    apply keepOSt_andThen
    · exact (keepOSt_modTx _ _ c1).trans (keepOSt_runCallback ..)
    · intro c2
      apply keepOSt_andThen
      · exact keepOSt_reqReceiverFinalizeClear c2
      · intro c3; exact rfl

theorem keepOSt_txStateRequestComplete (cfg : Cfg) (uid : Nat) (c : Conn) : KeepOSt c (txStateRequestComplete cfg uid c).1 := by
  unfold txStateRequestComplete
  simp only
  apply keepOSt_andThen
  · split
    · exact keepOSt_txStateRequestCompletePartial ..
    · exact KeepOSt.refl c
  · intro c1
    have h := keepOSt_txFinalize cfg uid { c1 with inState := if ((c1.findTx uid).map (·.is09)).getD ((c.findTx uid).getD { uid := uid }).is09 then .ignoreDataAfter09 else .idle }
    exact (KeepOSt.trans rfl h).trans rfl

theorem keepOSt_txStateRequestStart (uid : Nat) (c : Conn) : KeepOSt c (txStateRequestStart uid c).1 := by
  unfold txStateRequestStart
  apply keepOSt_andThen
  · exact keepOSt_runCallback ..
  · intro c1
    exact KeepOSt.trans (b := { c1 with inState := .line }) rfl (keepOSt_modIn _ _)

theorem keepOSt_processRequestHeader (data : Bytes) (c : Conn) : KeepOSt c (processRequestHeader data c).1 := by
  unfold processRequestHeader
  simp only
  exact (keepOSt_modIn _ c).trans (keepOSt_modIn _ _)

theorem keepOSt_reqFlushHeader (c : Conn) : KeepOSt c (reqFlushHeader c).1 := by
  unfold reqFlushHeader
  cases c.inn.header with
  | none => exact KeepOSt.refl c
  | some h =>
    simp only
    have := keepOSt_processRequestHeader h c
    split
    · exact this
    · exact this.trans rfl

theorem keepOSt_setTx (t : Tx) (c : Conn) : KeepOSt c (c.setTx t) := rfl

theorem keepOSt_installUrlenc (cfg : Cfg) (uid : Nat) (t : Tx) (c : Conn) : KeepOSt c (installUrlenc cfg uid t c) := by
  unfold installUrlenc
  simp only []
  repeat' split
  all_goals first | exact KeepOSt.refl _ | exact keepOSt_setTx _ _

theorem keepOSt_installMpart (cfg : Cfg) (uid : Nat) (t : Tx) (c : Conn) : KeepOSt c (installMpart cfg uid t c) := by
  unfold installMpart
  simp only []
  repeat' split
  all_goals first | exact KeepOSt.refl _ | exact keepOSt_setTx _ _

theorem keepOSt_txProcessRequestHeadersTail (cfg : Cfg) (uid : Nat) (t : Tx) (ae : Bool) (c : Conn) :
    KeepOSt c (txProcessRequestHeadersTail cfg uid t ae c).1 := by
  unfold txProcessRequestHeadersTail
  split
  · exact KeepOSt.refl c
  · apply keepOSt_andThen
    · exact keepOSt_reqReceiverFinalizeClear _
    · intro c1
      exact ((keepOSt_installUrlenc cfg uid t c1).trans (keepOSt_installMpart ..)).trans (keepOSt_runCallback ..)

theorem keepOSt_txProcessRequestHeaders (cfg : Cfg) (uid : Nat) (c : Conn) : KeepOSt c (txProcessRequestHeaders cfg uid c).1 := by
  unfold txProcessRequestHeaders
  extract_lets t0 ce enc c2 t1 c1 fr t2 hasBody c0 un
  have k2 : KeepOSt c c2 := keepOSt_modTx ..
  have k1 : KeepOSt c2 c1 := by
    simp only [c1]
    split
    · exact rfl
    · exact KeepOSt.refl _
  have k0 : KeepOSt c1 c0 := by
    simp only [c0]
    split
    · exact rfl
    · exact KeepOSt.refl _
  have k := (k2.trans k1).trans k0
  clear_value c0
  repeat' split
  all_goals exact k.trans ((keepOSt_setTx _ _).trans (keepOSt_txProcessRequestHeadersTail ..))

theorem keepOSt_txStateRequestHeaders (cfg : Cfg) (uid : Nat) (c : Conn) : KeepOSt c (txStateRequestHeaders cfg uid c).1 := by
  unfold txStateRequestHeaders
  simp only
  split
  · apply keepOSt_andThen
    · exact keepOSt_runCallback ..
    · intro c1
      apply keepOSt_andThen
      · exact keepOSt_reqReceiverFinalizeClear _
      · intro c2; exact rfl
  · split
    · apply keepOSt_andThen
      · refine KeepOSt.trans ?_ (keepOSt_txProcessRequestHeaders ..)
        split
        · exact keepOSt_modTx ..
        · exact KeepOSt.refl _
      · intro c1; exact rfl
    · exact KeepOSt.refl _

theorem keepOSt_urlencQueryCallback (cfg : Cfg) (uid : Nat) (c : Conn) : KeepOSt c (urlencQueryCallback cfg uid c) := by
  unfold urlencQueryCallback
  simp only []
  repeat' split
  all_goals first | exact KeepOSt.refl _ | exact keepOSt_setTx _ _

theorem keepOSt_txStateRequestLine (cfg : Cfg) (uid : Nat) (c : Conn) : KeepOSt c (txStateRequestLine cfg uid c).1 := by
  unfold txStateRequestLine
  extract_lets t0 hp fl1 fl2 src t1 t2 t3 c1
  split
  · exact KeepOSt.refl c
  · have k1 : KeepOSt c c1 := keepOSt_setTx ..
    clear_value c1
    apply keepOSt_andThen
    · exact k1.trans (keepOSt_runCallback ..)
    · intro c2
      apply keepOSt_andThen
      · refine KeepOSt.trans ?_ (keepOSt_runCallback ..)
        split
        · exact keepOSt_urlencQueryCallback ..
        · exact KeepOSt.refl _
      · intro c3; exact rfl

theorem keepOSt_txCreate (cfg : Cfg) (c : Conn) : KeepOSt c (txCreate cfg c).1 := by
  unfold txCreate
  simp only []
  split <;> exact rfl



/-! ### the fourteen request state functions -/

theorem keepOSt_reqIdle (cfg : Cfg) (c : Conn) : KeepOSt c (reqIdle cfg c).1 := by
  unfold reqIdle
  split
  · exact rfl
  · have k := keepOSt_txCreate cfg c
    rcases hx : txCreate cfg c with ⟨c1, u⟩
    rw [hx] at k
    simp only at k ⊢
    cases u with
    | none => exact k.trans rfl
    | some uid =>
      simp only
      exact k.trans (keepOSt_txStateRequestStart uid c1)

theorem keepOSt_reqLineComplete (cfg : Cfg) (c : Conn) : KeepOSt c (reqLineComplete cfg c).1 := by
  unfold reqLineComplete
  cases hc : c.inn.consolidate cfg.fieldLimitHard true with
  | none => exact rfl
  | some p =>
    obtain ⟨d, data⟩ := p
    simp -zeta only
    extract_lets c0 ci line rl c1
    have k0 : KeepOSt c c0 := rfl
    have ki : KeepOSt c ci := k0.trans (keepOSt_modIn _ c0)
    have k1 : KeepOSt c c1 := k0.trans (keepOSt_modIn _ c0)
    clear_value c0 ci c1
    split
    · exact k0.trans rfl
    · split
      · exact ki.trans rfl
      · cases c1.inn.tx with
        | none => exact k1
        | some uid =>
          simp only
          have k2 := k1.trans (keepOSt_txStateRequestLine cfg uid c1)
          split
          · exact k2
          · exact k2.trans rfl

theorem keepOSt_reqLineLoop (cfg : Cfg) (fuel : Nat) (c : Conn) : KeepOSt c (reqLineLoop cfg fuel c).1 := by
  induction fuel generalizing c with
  | zero => unfold reqLineLoop; exact rfl
  | succ k ih =>
    unfold reqLineLoop
    simp only
    split
    · exact KeepOSt.trans (b := { c with inn := (c.inn.peekSet).1 }) rfl (keepOSt_reqLineComplete cfg _)
    · cases hn : (c.inn.peekSet).1.copyByte with
      | none => exact rfl
      | some p =>
        obtain ⟨d, b⟩ := p
        simp only
        split
        · exact KeepOSt.trans (b := { c with inn := d }) rfl (keepOSt_reqLineComplete cfg _)
        · exact KeepOSt.trans (b := { c with inn := d }) rfl (ih _)

theorem keepOSt_reqProtocol (c : Conn) : KeepOSt c (reqProtocol c).1 := by
  unfold reqProtocol
  simp only []
  repeat' split
  all_goals first
    | exact rfl
    | exact KeepOSt.trans (b := { c with inState := .headers }) rfl (keepOSt_modIn _ _)
    | exact (KeepOSt.trans (b := { c with inState := .headers }) rfl (keepOSt_modIn _ _)).trans (keepOSt_modIn _ _)

theorem keepOSt_reqHeadersLoop (cfg : Cfg) (fuel : Nat) (c : Conn) : KeepOSt c (reqHeadersLoop cfg fuel c).1 := by
  induction fuel generalizing c with
  | zero => unfold reqHeadersLoop; exact rfl
  | succ k ih =>
    unfold reqHeadersLoop
    cases c.inn.tx with
    | none => exact rfl
    | some uid =>
      simp only
      split
      · apply keepOSt_andThen
        · exact keepOSt_reqFlushHeader c
        · intro c1
          exact (KeepOSt.trans (b := { c1 with inn := c1.inn.clearBuffer }) rfl (keepOSt_modIn _ _)).trans (keepOSt_txStateRequestHeaders ..)
      · cases hn : c.inn.copyByte with
        | none => exact rfl
        | some p =>
          obtain ⟨d, b⟩ := p
          simp only
          split
          · exact KeepOSt.trans (b := { c with inn := d }) rfl (ih _)
          · cases hc : d.consolidate cfg.fieldLimitHard true with
            | none => exact rfl
            | some q =>
              obtain ⟨d2, data⟩ := q
              simp only
              refine KeepOSt.trans (b := { c with inn := d2 }) rfl ?_
              split
              · apply keepOSt_andThen
                · exact keepOSt_reqFlushHeader _
                · intro c1
                  exact KeepOSt.trans (b := { c1 with inn := c1.inn.clearBuffer }) rfl (keepOSt_txStateRequestHeaders ..)
              · apply keepOSt_andThen
                · split
                  · apply keepOSt_andThen
                    · exact keepOSt_reqFlushHeader _
                    · intro c1
                      split
                      · split
                        · have kk := keepOSt_processRequestHeader (Parse.chomp data).1 { c1 with inn := (c1.inn.peekSet).1 }
                          split
                          · exact KeepOSt.trans (b := { c1 with inn := (c1.inn.peekSet).1 }) rfl kk
                          · exact KeepOSt.trans (b := { c1 with inn := (c1.inn.peekSet).1 }) rfl kk
                        · exact rfl
                      · exact rfl
                  · split
                    · exact (keepOSt_modIn _ { c with inn := d2 }).trans rfl
                    · split
                      · exact rfl
                      · exact rfl
                · intro c1
                  exact KeepOSt.trans (b := { c1 with inn := c1.inn.clearBuffer }) rfl (ih _)

theorem keepOSt_connect_states (c : Conn) :
    KeepOSt c (reqConnectCheck c).1 ∧ KeepOSt c (reqConnectWaitResponse c).1 ∧ KeepOSt c (reqBodyDetermine c).1 := by
  refine ⟨?_, ?_, ?_⟩
  · unfold reqConnectCheck
    split
    · exact rfl
    · exact rfl
  · unfold reqConnectWaitResponse
    simp only []
    repeat' split
    all_goals exact rfl
  · unfold reqBodyDetermine
    simp only []
    repeat' split
    all_goals first
      | exact rfl
      | exact KeepOSt.trans (b := { c with inState := .bodyChunkedLength }) rfl (keepOSt_modIn _ _)
      | exact KeepOSt.trans (b := { { c with inn := { c.inn with contentLength := c.inTx.reqContentLength, bodyDataLeft := c.inTx.reqContentLength } } with inState := .bodyIdentity }) rfl (keepOSt_modIn _ _)

/-- `f` does not take the response direction's stream status out of ERROR -/
def KeepOE (c c' : Conn) : Prop := c.out.status = STREAM_ERROR → c'.out.status = STREAM_ERROR

theorem KeepOE.of_eq {c c' : Conn} (h : KeepOSt c c') : KeepOE c c' := fun e => Eq.trans h e
theorem KeepOE.refl (c : Conn) : KeepOE c c := id
theorem KeepOE.trans {a b c : Conn} (h1 : KeepOE a b) (h2 : KeepOE b c) : KeepOE a c := fun e => h2 (h1 e)

/-- REQ_CONNECT_PROBE_DATA switches the response direction to tunnel mode - unless it is in ERROR or STOP -/
theorem keepOE_reqConnectProbeLoop (cfg : Cfg) (fuel : Nat) (c : Conn) : KeepOE c (reqConnectProbeLoop cfg fuel c).1 := by
  induction fuel generalizing c with
  | zero => unfold reqConnectProbeLoop; exact KeepOE.refl c
  | succ k ih =>
    unfold reqConnectProbeLoop
    simp only
    split
    · cases hc : (c.inn.peekSet).1.consolidate cfg.fieldLimitHard true with
      | none => exact KeepOE.of_eq rfl
      | some q =>
        obtain ⟨d2, data⟩ := q
        simp only
        split
        · split
          · exact KeepOE.of_eq (KeepOSt.trans (b := { c with inn := d2 }) rfl (keepOSt_txStateRequestComplete cfg _ _))
          · exact KeepOE.of_eq rfl
        · intro e
          show (if (c.out.status == STREAM_ERROR || c.out.status == STREAM_STOP) = true then c.out.status else STREAM_TUNNEL) = STREAM_ERROR
          simp [e]
    · cases hn : (c.inn.peekSet).1.copyByte with
      | none => exact KeepOE.of_eq rfl
      | some p =>
        obtain ⟨d, b⟩ := p
        exact KeepOE.trans (b := { c with inn := d }) (KeepOE.of_eq rfl) (ih _)

theorem keepOSt_reqBodyIdentity (cfg : Cfg) (c : Conn) : KeepOSt c (reqBodyIdentity cfg c).1 := by
  unfold reqBodyIdentity
  extract_lets avail n data
  clear_value n data
  split
  · exact rfl
  · have k := keepOSt_reqProcessBodyData cfg data (if c.inn.curNull then n.toNat else 0) c
    rcases hx : reqProcessBodyData cfg data (if c.inn.curNull then n.toNat else 0) c with ⟨c1, rc1⟩
    rw [hx] at k
    simp only at k ⊢
    split
    · exact k
    · have k2 : KeepOSt c ({ c1 with inn := { c1.inn.advance n with bodyDataLeft := c1.inn.bodyDataLeft - n } }.modIn
          (fun t => { t with reqMessageLen := t.reqMessageLen + n.toNat })) :=
        k.trans (KeepOSt.trans (b := { c1 with inn := { c1.inn.advance n with bodyDataLeft := c1.inn.bodyDataLeft - n } }) rfl (keepOSt_modIn _ _))
      split
      · exact k2.trans rfl
      · exact k2

theorem keepOSt_reqChunkedDataEndLoop (fuel : Nat) (c : Conn) : KeepOSt c (reqChunkedDataEndLoop fuel c).1 := by
  induction fuel generalizing c with
  | zero => unfold reqChunkedDataEndLoop; exact rfl
  | succ k ih =>
    unfold reqChunkedDataEndLoop
    cases hn : c.inn.nextByteConsume with
    | none => exact rfl
    | some p =>
      obtain ⟨d, b⟩ := p
      simp only
      have k1 : KeepOSt c ({ c with inn := d }.modIn (fun t => { t with reqMessageLen := t.reqMessageLen + 1 })) :=
        KeepOSt.trans (b := { c with inn := d }) rfl (keepOSt_modIn _ _)
      split
      · exact k1.trans rfl
      · exact k1.trans (ih _)

theorem keepOSt_reqBodyChunkedData (cfg : Cfg) (c : Conn) : KeepOSt c (reqBodyChunkedData cfg c).1 := by
  unfold reqBodyChunkedData
  extract_lets avail n data
  clear_value n data
  split
  · exact rfl
  · have k := keepOSt_reqProcessBodyData cfg (some data) 0 c
    rcases hx : reqProcessBodyData cfg (some data) 0 c with ⟨c1, rc1⟩
    rw [hx] at k
    simp only at k ⊢
    split
    · exact k
    · have k2 : KeepOSt c ({ c1 with inn := { c1.inn.advance n with chunkedLength := c1.inn.chunkedLength - n } }.modIn
          (fun t => { t with reqMessageLen := t.reqMessageLen + n.toNat })) :=
        k.trans (KeepOSt.trans (b := { c1 with inn := { c1.inn.advance n with chunkedLength := c1.inn.chunkedLength - n } }) rfl (keepOSt_modIn _ _))
      split
      · exact k2.trans rfl
      · exact k2

theorem keepOSt_reqChunkedLengthLoop (cfg : Cfg) (fuel : Nat) (c : Conn) : KeepOSt c (reqChunkedLengthLoop cfg fuel c).1 := by
  induction fuel generalizing c with
  | zero => unfold reqChunkedLengthLoop; exact rfl
  | succ k ih =>
    unfold reqChunkedLengthLoop
    cases hn : c.inn.copyByte with
    | none => exact rfl
    | some p =>
      obtain ⟨d, b⟩ := p
      simp -zeta only
      extract_lets c0
      have h0 : KeepOSt c c0 := rfl
      clear_value c0
      split
      · exact h0.trans (ih _)
      · cases hc : c0.inn.consolidate cfg.fieldLimitHard true with
        | none => exact h0
        | some q =>
          obtain ⟨d2, data⟩ := q
          simp -zeta only
          extract_lets c1 line src c2
          have h1 : KeepOSt c c1 := h0.trans (KeepOSt.trans (b := { c0 with inn := d2 }) rfl (keepOSt_modIn _ _))
          have h2 : KeepOSt c c2 := h1.trans rfl
          clear_value c2 c1
          split
          · exact h2.trans rfl
          · split
            · exact h2.trans (KeepOSt.trans (b := { c2 with inState := .headers }) rfl (keepOSt_modIn _ _))
            · exact h2

theorem keepOSt_reqIgnore (c : Conn) : KeepOSt c (reqIgnoreDataAfter09 c).1 := by
  unfold reqIgnoreDataAfter09
  simp only []
  split <;> exact rfl

theorem keepOSt_reqFinalize (cfg : Cfg) (c : Conn) : KeepOSt c (reqFinalize cfg c).1 := by
  unfold reqFinalize
  cases c.inn.tx with
  | none => exact rfl
  | some uid =>
    simp -zeta only
    extract_lets cp pre
    have hp : ∀ c' b, pre = some (c', b) → KeepOSt c c' := by
      intro c' b hpre
      simp only [pre] at hpre
      split at hpre
      · split at hpre
        · simp only [Option.some.injEq, Prod.mk.injEq] at hpre; rw [← hpre.1]
        · split at hpre
          · split at hpre
            · simp at hpre
            · simp only [Option.some.injEq, Prod.mk.injEq] at hpre
              rw [← hpre.1]
          · simp only [Option.some.injEq, Prod.mk.injEq] at hpre; rw [← hpre.1]
      · simp only [Option.some.injEq, Prod.mk.injEq] at hpre; rw [← hpre.1]
    clear_value pre
    split
    · exact rfl
    · rename_i _ c1
      exact (hp _ _ rfl).trans (keepOSt_txStateRequestComplete ..)
    · rename_i _ c1
      have h1 := hp _ _ rfl
      clear hp
      cases hc : c1.inn.consolidate cfg.fieldLimitHard true with
      | none => exact h1
      | some q =>
        obtain ⟨d2, data⟩ := q
        simp -zeta only
        extract_lets c2
        have h2 : KeepOSt c c2 := h1.trans rfl
        clear_value c2
        split
        · exact h2.trans (keepOSt_txStateRequestComplete ..)
        · rename_i src go _
          have hgo : ∀ c', go = some c' → KeepOSt c c' := by
            intro c' hg
            simp only [go] at hg
            split at hg
            · split at hg
              · simp at hg
              · simp only [Option.some.injEq] at hg
                rw [← hg]
                split
                · exact h2
                · exact h2.trans rfl
            · simp only [Option.some.injEq] at hg; rw [← hg]; exact h2
          clear_value go
          split
          · exact KeepOSt.trans (h2.trans (c := { c2 with inn := { c2.inn with bodyDataLeft := -1 } }) rfl) (keepOSt_txStateRequestComplete ..)
          · rename_i c3
            have h3 := hgo _ rfl
            clear hgo
            extract_lets r
            have hr : ∀ c' dd, r = some (c', dd) → KeepOSt c c' := by
              intro c' dd hh
              simp only [r] at hh
              split at hh
              · cases hcb : c3.inn.copyByte with
                | none => rw [hcb] at hh; simp at hh
                | some p =>
                  obtain ⟨d4, b4⟩ := p
                  rw [hcb] at hh
                  simp only at hh
                  cases hc4 : d4.consolidate cfg.fieldLimitHard true with
                  | none =>
                    rw [hc4] at hh
                    simp only [Option.some.injEq, Prod.mk.injEq] at hh
                    rw [← hh.1]; exact h3.trans rfl
                  | some q4 =>
                    obtain ⟨d5, data5⟩ := q4
                    rw [hc4] at hh
                    simp only [Option.some.injEq, Prod.mk.injEq] at hh
                    rw [← hh.1]; exact h3.trans rfl
              · simp only [Option.some.injEq, Prod.mk.injEq] at hh; rw [← hh.1]; exact h3
            clear_value r
            split
            · exact h3
            · rename_i c6 data6
              have h6 := hr _ _ rfl
              have k := keepOSt_reqProcessBodyData cfg (some data6) 0 c6
              rcases hx : reqProcessBodyData cfg (some data6) 0 c6 with ⟨c7, rc7⟩
              rw [hx] at k
              simp only at k ⊢
              exact (h6.trans k).trans rfl

/-- **no request state function takes the response direction out of ERROR** -/
theorem keepOE_reqStateFn (cfg : Cfg) (c : Conn) : KeepOE c (reqStateFn cfg c).1 := by
  unfold reqStateFn
  cases c.inState with
  | idle => exact KeepOE.of_eq (keepOSt_reqIdle cfg c)
  | line => exact KeepOE.of_eq (keepOSt_reqLineLoop cfg _ c)
  | protocol => exact KeepOE.of_eq (keepOSt_reqProtocol c)
  | headers => exact KeepOE.of_eq (keepOSt_reqHeadersLoop cfg _ c)
  | connectCheck => exact KeepOE.of_eq (keepOSt_connect_states c).1
  | connectWaitResponse => exact KeepOE.of_eq (keepOSt_connect_states c).2.1
  | connectProbeData => exact keepOE_reqConnectProbeLoop cfg _ c
  | bodyDetermine => exact KeepOE.of_eq (keepOSt_connect_states c).2.2
  | bodyIdentity => exact KeepOE.of_eq (keepOSt_reqBodyIdentity cfg c)
  | bodyChunkedLength => exact KeepOE.of_eq (keepOSt_reqChunkedLengthLoop cfg _ c)
  | bodyChunkedData => exact KeepOE.of_eq (keepOSt_reqBodyChunkedData cfg c)
  | bodyChunkedDataEnd => exact KeepOE.of_eq (keepOSt_reqChunkedDataEndLoop _ c)
  | finalize => exact KeepOE.of_eq (keepOSt_reqFinalize cfg c)
  | ignoreDataAfter09 => exact KeepOE.of_eq (keepOSt_reqIgnore c)

theorem keepOSt_reqHandleStateChange (c : Conn) : KeepOSt c (reqHandleStateChange c).1 := by
  unfold reqHandleStateChange
  split
  · exact rfl
  · simp only
    apply keepOSt_andThen
    · repeat' split
      all_goals first | exact KeepOSt.refl c | exact keepOSt_reqReceiverSet _ c
    · intro c1; exact rfl

/-- the loop of a request data call (gap or not) -/
theorem keepOE_reqDriverLoop (cfg : Cfg) (g : Bool) (fuel : Nat) (c : Conn) : KeepOE c (reqDriverLoop cfg g fuel c).1 := by
  induction fuel generalizing c with
  | zero => unfold reqDriverLoop; exact KeepOE.of_eq rfl
  | succ k ih =>
    unfold reqDriverLoop
    extract_lets stepR
    have hs : ∀ r, stepR = some r → KeepOE c r.1 := by
      intro r hr
      simp only [stepR] at hr
      split at hr
      · split at hr
        · simp only [Option.some.injEq] at hr; rw [← hr]; exact keepOE_reqStateFn cfg c
        · split at hr
          · split at hr
            · simp only [Option.some.injEq] at hr; rw [← hr]; exact KeepOE.of_eq (keepOSt_txStateRequestComplete ..)
            · simp only [Option.some.injEq] at hr; rw [← hr]; exact KeepOE.refl c
          · simp at hr
      · simp only [Option.some.injEq] at hr; rw [← hr]; exact keepOE_reqStateFn cfg c
    clear_value stepR
    split
    · exact KeepOE.refl c
    · rename_i _ c1 rc1
      have h1 : KeepOE c c1 := hs _ rfl
      have h2 : KeepOE c (if rc1 == Rc.ok then (if c1.inn.status == STREAM_TUNNEL then (c1, Rc.ok) else reqHandleStateChange c1) else (c1, rc1)).1 := by
        split
        · split
          · exact h1
          · exact h1.trans (KeepOE.of_eq (keepOSt_reqHandleStateChange c1))
        · exact h1
      rcases hy : (if rc1 == Rc.ok then (if c1.inn.status == STREAM_TUNNEL then (c1, Rc.ok) else reqHandleStateChange c1) else (c1, rc1)) with ⟨c2, rc2⟩
      rw [hy] at h2
      simp only at h2 ⊢
      split
      · split
        · exact h2
        · exact h2.trans (ih c2)
      · split
        · have kk := keepOSt_reqReceiverSend false c2
          rcases hz : reqReceiverSend false c2 with ⟨c3, rc3⟩
          rw [hz] at kk
          simp only at kk ⊢
          have h3 : KeepOE c c3 := h2.trans (KeepOE.of_eq kk)
          split
          · cases hb : c3.inn.buffer cfg.fieldLimitHard true with
            | none => exact h3.trans (KeepOE.of_eq rfl)
            | some d => exact h3.trans (KeepOE.of_eq rfl)
          · exact h3.trans (KeepOE.of_eq rfl)
        · repeat' split
          all_goals exact h2.trans (KeepOE.of_eq rfl)

/-- the wake-up at the start of a request data call rewrites DATA_OTHER only -/
theorem keepOE_reqWakeOther (c : Conn) : KeepOE c (reqWakeOther c) := by
  intro e
  unfold reqWakeOther
  split
  · rename_i h
    rw [e] at h
    exact absurd h (by decide)
  · exact e

/-- **a whole request data call** - any chunk, a stream gap or the NULL chunk of a close, any state, any callback policy - does not take
    the response direction's stream status out of ERROR -/
theorem keepOE_reqData (cfg : Cfg) (data : Option Bytes) (len : Nat) (c : Conn) : KeepOE c (reqData cfg data len c).1 := by
  unfold reqData
  simp only
  have key : KeepOE c (reqDataCore cfg data len c).1 := by
    unfold reqDataCore
    split
    · exact KeepOE.refl c
    split
    · exact KeepOE.refl c
    split
    · exact KeepOE.of_eq rfl
    split
    · exact KeepOE.refl c
    simp only
    split
    · exact KeepOE.of_eq rfl
    · exact KeepOE.trans (b := reqWakeOther (reqStoreChunk data len c))
        (KeepOE.trans (b := reqStoreChunk data len c) (KeepOE.of_eq rfl) (keepOE_reqWakeOther _)) (keepOE_reqDriverLoop cfg _ _ _)
  exact key.trans (KeepOE.of_eq rfl)

/-! ## Part 3: the calls of an embedder, whole histories, and the property in its own words -/

/-! ### the calls that are not data calls -/

theorem txFreedLoop_dirs (fuel : Nat) (c : Conn) (r : Nat) :
    (txFreedLoop fuel c r).1.inn = c.inn ∧ (txFreedLoop fuel c r).1.out = c.out := by
  induction fuel generalizing c r with
  | zero => unfold txFreedLoop; exact ⟨rfl, rfl⟩
  | succ k ih =>
    unfold txFreedLoop
    split
    · rename_i rest _
      exact ih { c with txs := rest, outNextTxIndex := c.outNextTxIndex - 1 } (r + 1)
    · exact ⟨rfl, rfl⟩

/-- htp_connp_tx_freed touches neither direction record -/
theorem txFreed_dirs (c : Conn) : (txFreed c).1.inn = c.inn ∧ (txFreed c).1.out = c.out := txFreedLoop_dirs _ c 0

/-- htp_connp_open only acts on a parser whose two directions are both NEW -/
theorem connOpen_of_inn_error (c : Conn) (h : c.inn.status = STREAM_ERROR) : connOpen c = c := by
  unfold connOpen
  split
  · rfl
  · rename_i hn
    simp [h, show (STREAM_ERROR != STREAM_NEW) = true from by decide] at hn

theorem connOpen_of_out_error (c : Conn) (h : c.out.status = STREAM_ERROR) : connOpen c = c := by
  unfold connOpen
  split
  · rfl
  · rename_i hn
    simp [h, show (STREAM_ERROR != STREAM_NEW) = true from by decide] at hn

theorem markClosedIn_of_error (c : Conn) (h : c.inn.status = STREAM_ERROR) : markClosedIn c = c := by
  unfold markClosedIn
  simp [h]

theorem markClosedOut_of_error (c : Conn) (h : c.out.status = STREAM_ERROR) : markClosedOut c = c := by
  unfold markClosedOut
  simp [h]

theorem markClosedOut_inn (c : Conn) : (markClosedOut c).inn = c.inn := by
  unfold markClosedOut
  split <;> rfl

theorem markClosedIn_out (c : Conn) : (markClosedIn c).out = c.out := by
  unfold markClosedIn
  split <;> rfl

/-! ### a data call of the direction that is in ERROR (the per-call facts of Props/C09.lean, re-proved here to keep the import order) -/

theorem reqData_of_error (cfg : Cfg) (data : Option Bytes) (len : Nat) (c : Conn) (h : c.inn.status = STREAM_ERROR) :
    (reqData cfg data len c).2 = STREAM_ERROR ∧ (reqData cfg data len c).1.events = c.events ∧
    (reqData cfg data len c).1.cbCount = c.cbCount ∧ (reqData cfg data len c).1.inn.status = STREAM_ERROR ∧
    (reqData cfg data len c).1.out = c.out := by
  have hes : STREAM_ERROR ≠ STREAM_STOP := by decide
  simp [reqData, reqDataCore, h, hes]

theorem resData_of_error (cfg : Cfg) (data : Option Bytes) (len : Nat) (c : Conn) (h : c.out.status = STREAM_ERROR) :
    (resData cfg data len c).2 = STREAM_ERROR ∧ (resData cfg data len c).1.events = c.events ∧
    (resData cfg data len c).1.cbCount = c.cbCount ∧ (resData cfg data len c).1.out.status = STREAM_ERROR ∧
    (resData cfg data len c).1.inn = c.inn := by
  have hes : STREAM_ERROR ≠ STREAM_STOP := by decide
  simp [resData, resDataCore, h, hes]

/-! ### one call of any kind -/

/-- **no call takes the request direction out of ERROR**: not a request data call, not a response data call (whatever it parses), not
    htp_connp_close, htp_connp_req_close, htp_connp_open or htp_connp_tx_freed -/
theorem runCall_keeps_inn_error (cfg : Cfg) (c : Conn) (call : Call) (h : c.inn.status = STREAM_ERROR) :
    (runCall cfg c call).inn.status = STREAM_ERROR := by
  cases call with
  | req d => exact (reqData_of_error cfg _ _ c h).2.2.2.1
  | res d => exact keepIE_resData cfg _ _ c h
  | close =>
    show (connClose cfg c).1.inn.status = STREAM_ERROR
    rw [connClose_fst, markClosedIn_of_error c h]
    have h1 : (markClosedOut c).inn.status = STREAM_ERROR := by rw [markClosedOut_inn]; exact h
    exact keepIE_resData cfg _ _ _ (reqData_of_error cfg none 0 _ h1).2.2.2.1
  | reqClose =>
    show (reqClose cfg c).1.inn.status = STREAM_ERROR
    rw [reqClose_eq, markClosedIn_of_error c h]
    exact (reqData_of_error cfg none 0 c h).2.2.2.1
  | «open» =>
    show (connOpen c).inn.status = STREAM_ERROR
    rw [connOpen_of_inn_error c h]; exact h
  | txFreed =>
    show (txFreed c).1.inn.status = STREAM_ERROR
    rw [(txFreed_dirs c).1]; exact h

/-- **no call takes the response direction out of ERROR** -/
theorem runCall_keeps_out_error (cfg : Cfg) (c : Conn) (call : Call) (h : c.out.status = STREAM_ERROR) :
    (runCall cfg c call).out.status = STREAM_ERROR := by
  cases call with
  | req d => exact keepOE_reqData cfg _ _ c h
  | res d => exact (resData_of_error cfg _ _ c h).2.2.2.1
  | close =>
    show (connClose cfg c).1.out.status = STREAM_ERROR
    rw [connClose_fst]
    have h1 : (markClosedIn c).out.status = STREAM_ERROR := by rw [markClosedIn_out]; exact h
    rw [markClosedOut_of_error _ h1]
    exact (resData_of_error cfg none 0 _ (keepOE_reqData cfg none 0 _ h1)).2.2.2.1
  | reqClose =>
    show (reqClose cfg c).1.out.status = STREAM_ERROR
    rw [reqClose_eq]
    have h1 : (markClosedIn c).out.status = STREAM_ERROR := by rw [markClosedIn_out]; exact h
    exact keepOE_reqData cfg none 0 _ h1
  | «open» =>
    show (connOpen c).out.status = STREAM_ERROR
    rw [connOpen_of_out_error c h]; exact h
  | txFreed =>
    show (txFreed c).1.out.status = STREAM_ERROR
    rw [(txFreed_dirs c).2]; exact h

/-! ### whole histories -/

/-- **STREAM_ERROR is absorbing for the request direction over whole histories**: any list of calls - request chunks and response chunks in
    any interleaving, htp_connp_close, htp_connp_req_close, htp_connp_open, htp_connp_tx_freed - from ANY state whose request direction is in
    ERROR ends in a state whose request direction is in ERROR; every configuration, every callback policy (it is part of the state) -/
theorem history_error_sticky_req (cfg : Cfg) (c0 : Conn) (calls : List Call) (h : c0.inn.status = STREAM_ERROR) :
    (runCalls cfg c0 calls).inn.status = STREAM_ERROR := by
  induction calls generalizing c0 with
  | nil => exact h
  | cons call rest ih => rw [runCalls_cons]; exact ih _ (runCall_keeps_inn_error cfg c0 call h)

/-- **... and for the response direction** -/
theorem history_error_sticky_res (cfg : Cfg) (c0 : Conn) (calls : List Call) (h : c0.out.status = STREAM_ERROR) :
    (runCalls cfg c0 calls).out.status = STREAM_ERROR := by
  induction calls generalizing c0 with
  | nil => exact h
  | cons call rest ih => rw [runCalls_cons]; exact ih _ (runCall_keeps_out_error cfg c0 call h)

/-! ### a data call that RETURNS STREAM_ERROR has recorded it

    Every path of htp_connp_req_data / htp_connp_res_data that returns HTP_STREAM_ERROR writes it to in_status / out_status first. The model
    has one more path: its driver loop carries a fuel counter (8 * len + 64 passes), and running out of it returns STREAM_ERROR with the
    marker `unsupported := true` ("the run entered behaviour the model does not cover") and WITHOUT a status write. That path has no
    counterpart in the C (its `for (;;)` has no counter), so the statement is: ERROR returned => ERROR recorded, or the model gave up. -/

theorem errPost_const (P : Prop) (c : Conn) (rc : Nat) (hn : rc ≠ STREAM_ERROR) : (c, rc).2 = STREAM_ERROR → P :=
  fun e => absurd e hn

theorem reqDriverLoop_error_recorded (cfg : Cfg) (g : Bool) (fuel : Nat) (c : Conn) :
    (reqDriverLoop cfg g fuel c).2 = STREAM_ERROR →
    (reqDriverLoop cfg g fuel c).1.inn.status = STREAM_ERROR ∨ (reqDriverLoop cfg g fuel c).1.unsupported = true := by
  induction fuel generalizing c with
  | zero => unfold reqDriverLoop; exact fun _ => Or.inr rfl
  | succ k ih =>
    unfold reqDriverLoop
    simp only
    repeat' split
    all_goals first
      | exact ih _
      | exact fun _ => Or.inl rfl
      | exact errPost_const _ _ _ (by decide)

theorem resDriverLoop_error_recorded (cfg : Cfg) (g : Bool) (fuel : Nat) (c : Conn) :
    (resDriverLoop cfg g fuel c).2 = STREAM_ERROR →
    (resDriverLoop cfg g fuel c).1.out.status = STREAM_ERROR ∨ (resDriverLoop cfg g fuel c).1.unsupported = true := by
  induction fuel generalizing c with
  | zero => unfold resDriverLoop; exact fun _ => Or.inr rfl
  | succ k ih =>
    unfold resDriverLoop
    simp only
    repeat' split
    all_goals first
      | exact ih _
      | exact fun _ => Or.inl rfl
      | exact errPost_const _ _ _ (by decide)

/-- **a request data call that returns STREAM_ERROR leaves the request direction in ERROR** (or the model ran out of fuel and says so) -/
theorem reqData_error_recorded (cfg : Cfg) (data : Option Bytes) (len : Nat) (c : Conn)
    (h : (reqData cfg data len c).2 = STREAM_ERROR) :
    (reqData cfg data len c).1.inn.status = STREAM_ERROR ∨ (reqData cfg data len c).1.unsupported = true := by
  unfold reqData at h ⊢
  simp only at h ⊢
  have key : (reqDataCore cfg data len c).2 = STREAM_ERROR →
      (reqDataCore cfg data len c).1.inn.status = STREAM_ERROR ∨ (reqDataCore cfg data len c).1.unsupported = true := by
    unfold reqDataCore
    split
    · exact errPost_const _ _ _ (by decide)
    split
    · rename_i he; exact fun _ => Or.inl (by simpa using he)
    split
    · exact fun _ => Or.inl rfl
    split
    · exact errPost_const _ _ _ (by decide)
    simp only
    split
    · exact errPost_const _ _ _ (by decide)
    · exact reqDriverLoop_error_recorded cfg _ _ _
  exact key h

theorem resData_error_recorded (cfg : Cfg) (data : Option Bytes) (len : Nat) (c : Conn)
    (h : (resData cfg data len c).2 = STREAM_ERROR) :
    (resData cfg data len c).1.out.status = STREAM_ERROR ∨ (resData cfg data len c).1.unsupported = true := by
  unfold resData at h ⊢
  simp only at h ⊢
  have key : (resDataCore cfg data len c).2 = STREAM_ERROR →
      (resDataCore cfg data len c).1.out.status = STREAM_ERROR ∨ (resDataCore cfg data len c).1.unsupported = true := by
    unfold resDataCore
    split
    · exact errPost_const _ _ _ (by decide)
    split
    · rename_i he; exact fun _ => Or.inl (by simpa using he)
    split
    · exact fun _ => Or.inl rfl
    split
    · exact errPost_const _ _ _ (by decide)
    simp only
    split
    · exact errPost_const _ _ _ (by decide)
    · exact resDriverLoop_error_recorded cfg _ _ _
  exact key h

/-! ### the property in its own words -/

/-- **C09, request direction, over whole histories**: from ANY start state `c0`, after ANY calls `pre`, let the request data call with chunk
    `d` return STREAM_ERROR (and the model not have given up in it). Then after ANY further calls `mid` - of either direction, closes, open,
    tx_freed, in any order and number - every request data call (any chunk, a gap, the NULL chunk of a close) returns STREAM_ERROR again and
    runs no callback: the event log and the callback counter are unchanged. -/
theorem history_error_then_error_req (cfg : Cfg) (c0 : Conn) (pre mid : List Call) (d : Bytes)
    (herr : (reqData cfg (some d) d.length (runCalls cfg c0 pre)).2 = STREAM_ERROR)
    (hsup : (reqData cfg (some d) d.length (runCalls cfg c0 pre)).1.unsupported = false)
    (data : Option Bytes) (len : Nat) :
    (reqData cfg data len (runCalls cfg c0 (pre ++ [.req d] ++ mid))).2 = STREAM_ERROR ∧
    (reqData cfg data len (runCalls cfg c0 (pre ++ [.req d] ++ mid))).1.events = (runCalls cfg c0 (pre ++ [.req d] ++ mid)).events ∧
    (reqData cfg data len (runCalls cfg c0 (pre ++ [.req d] ++ mid))).1.cbCount = (runCalls cfg c0 (pre ++ [.req d] ++ mid)).cbCount ∧
    (runCalls cfg c0 (pre ++ [.req d] ++ mid)).inn.status = STREAM_ERROR := by
  have h1 : (runCalls cfg c0 (pre ++ [.req d])).inn.status = STREAM_ERROR := by
    rw [runCalls_append]
    show (reqData cfg (some d) d.length (runCalls cfg c0 pre)).1.inn.status = STREAM_ERROR
    rcases reqData_error_recorded cfg _ _ _ herr with h | h
    · exact h
    · rw [hsup] at h; exact absurd h (by decide)
  have h2 : (runCalls cfg c0 (pre ++ [.req d] ++ mid)).inn.status = STREAM_ERROR := by
    rw [runCalls_append]; exact history_error_sticky_req cfg _ mid h1
  obtain ⟨a, b, c, _, _⟩ := reqData_of_error cfg data len _ h2
  exact ⟨a, b, c, h2⟩

/-- ... in the shape of the property: a later request data call with chunk `d'` -/
theorem history_error_then_error_req_chunk (cfg : Cfg) (c0 : Conn) (pre mid : List Call) (d d' : Bytes)
    (herr : (reqData cfg (some d) d.length (runCalls cfg c0 pre)).2 = STREAM_ERROR)
    (hsup : (reqData cfg (some d) d.length (runCalls cfg c0 pre)).1.unsupported = false) :
    let c1 := runCalls cfg c0 (pre ++ [.req d] ++ mid)
    (reqData cfg (some d') d'.length c1).2 = STREAM_ERROR ∧ (reqData cfg (some d') d'.length c1).1.events = c1.events ∧
    (reqData cfg (some d') d'.length c1).1.cbCount = c1.cbCount := by
  obtain ⟨a, b, c, _⟩ := history_error_then_error_req cfg c0 pre mid d herr hsup (some d') d'.length
  exact ⟨a, b, c⟩

/-- ... and as a statement about the positions of one history: whenever `calls` contains a request data call that returns STREAM_ERROR and,
    later, another request data call, that one returns STREAM_ERROR and runs no callback -/
theorem history_error_sticky_req_positions (cfg : Cfg) (c0 : Conn) (calls pre mid : List Call) (d d' : Bytes)
    (_hp : pre ++ [.req d] ++ mid ++ [.req d'] <+: calls)
    (herr : (reqData cfg (some d) d.length (runCalls cfg c0 pre)).2 = STREAM_ERROR)
    (hsup : (reqData cfg (some d) d.length (runCalls cfg c0 pre)).1.unsupported = false) :
    (reqData cfg (some d') d'.length (runCalls cfg c0 (pre ++ [.req d] ++ mid))).2 = STREAM_ERROR ∧
    (runCalls cfg c0 (pre ++ [.req d] ++ mid ++ [.req d'])).events = (runCalls cfg c0 (pre ++ [.req d] ++ mid)).events ∧
    (runCalls cfg c0 (pre ++ [.req d] ++ mid ++ [.req d'])).cbCount = (runCalls cfg c0 (pre ++ [.req d] ++ mid)).cbCount := by
  obtain ⟨a, b, c, _⟩ := history_error_then_error_req cfg c0 pre mid d herr hsup (some d') d'.length
  have e := runCalls_append cfg c0 (pre ++ [Call.req d] ++ mid) [Call.req d']
  refine ⟨a, ?_, ?_⟩
  · rw [e]; exact b
  · rw [e]; exact c

/-- htp_connp_req_close after the error: it returns STREAM_ERROR as well and runs no callback -/
theorem history_error_then_error_reqClose (cfg : Cfg) (c0 : Conn) (pre mid : List Call) (d : Bytes)
    (herr : (reqData cfg (some d) d.length (runCalls cfg c0 pre)).2 = STREAM_ERROR)
    (hsup : (reqData cfg (some d) d.length (runCalls cfg c0 pre)).1.unsupported = false) :
    (reqClose cfg (runCalls cfg c0 (pre ++ [.req d] ++ mid))).2 = STREAM_ERROR ∧
    (reqClose cfg (runCalls cfg c0 (pre ++ [.req d] ++ mid))).1.events = (runCalls cfg c0 (pre ++ [.req d] ++ mid)).events ∧
    (reqClose cfg (runCalls cfg c0 (pre ++ [.req d] ++ mid))).1.cbCount = (runCalls cfg c0 (pre ++ [.req d] ++ mid)).cbCount := by
  obtain ⟨a, b, c, e⟩ := history_error_then_error_req cfg c0 pre mid d herr hsup none 0
  rw [reqClose_eq, markClosedIn_of_error _ e]
  exact ⟨a, b, c⟩

/-- **C09, response direction, over whole histories** -/
theorem history_error_then_error_res (cfg : Cfg) (c0 : Conn) (pre mid : List Call) (d : Bytes)
    (herr : (resData cfg (some d) d.length (runCalls cfg c0 pre)).2 = STREAM_ERROR)
    (hsup : (resData cfg (some d) d.length (runCalls cfg c0 pre)).1.unsupported = false)
    (data : Option Bytes) (len : Nat) :
    (resData cfg data len (runCalls cfg c0 (pre ++ [.res d] ++ mid))).2 = STREAM_ERROR ∧
    (resData cfg data len (runCalls cfg c0 (pre ++ [.res d] ++ mid))).1.events = (runCalls cfg c0 (pre ++ [.res d] ++ mid)).events ∧
    (resData cfg data len (runCalls cfg c0 (pre ++ [.res d] ++ mid))).1.cbCount = (runCalls cfg c0 (pre ++ [.res d] ++ mid)).cbCount ∧
    (runCalls cfg c0 (pre ++ [.res d] ++ mid)).out.status = STREAM_ERROR := by
  have h1 : (runCalls cfg c0 (pre ++ [.res d])).out.status = STREAM_ERROR := by
    rw [runCalls_append]
    show (resData cfg (some d) d.length (runCalls cfg c0 pre)).1.out.status = STREAM_ERROR
    rcases resData_error_recorded cfg _ _ _ herr with h | h
    · exact h
    · rw [hsup] at h; exact absurd h (by decide)
  have h2 : (runCalls cfg c0 (pre ++ [.res d] ++ mid)).out.status = STREAM_ERROR := by
    rw [runCalls_append]; exact history_error_sticky_res cfg _ mid h1
  obtain ⟨a, b, c, _, _⟩ := resData_of_error cfg data len _ h2
  exact ⟨a, b, c, h2⟩

theorem history_error_then_error_res_chunk (cfg : Cfg) (c0 : Conn) (pre mid : List Call) (d d' : Bytes)
    (herr : (resData cfg (some d) d.length (runCalls cfg c0 pre)).2 = STREAM_ERROR)
    (hsup : (resData cfg (some d) d.length (runCalls cfg c0 pre)).1.unsupported = false) :
    let c1 := runCalls cfg c0 (pre ++ [.res d] ++ mid)
    (resData cfg (some d') d'.length c1).2 = STREAM_ERROR ∧ (resData cfg (some d') d'.length c1).1.events = c1.events ∧
    (resData cfg (some d') d'.length c1).1.cbCount = c1.cbCount := by
  obtain ⟨a, b, c, _⟩ := history_error_then_error_res cfg c0 pre mid d herr hsup (some d') d'.length
  exact ⟨a, b, c⟩

/-! ### non-vacuity: concrete interleaved histories -/

/-- the request side errs on an invalid chunk-length line (a parse error, default configuration, no callback policy); the model did not give
    up; the response side then parses a whole response and runs 8 callbacks; htp_connp_tx_freed; the next request chunk is answered with
    STREAM_ERROR and the event log stays as it was; so it does through htp_connp_req_close and htp_connp_close -/
example :
    let bad : Bytes := b!"POST / HTTP/1.1\r\nTransfer-Encoding: chunked\r\n\r\nzz\r\n"
    let resp : Bytes := b!"HTTP/1.1 200 OK\r\nContent-Length: 2\r\n\r\nok"
    let next : Bytes := b!"GET / HTTP/1.1\r\n\r\n"
    let pre : List Call := [.open]
    let mid : List Call := [.res resp, .txFreed]
    let c1 := runCalls {} {} (pre ++ [.req bad] ++ mid)
    (reqData {} (some bad) bad.length (runCalls {} {} pre)).2 = STREAM_ERROR ∧
    (reqData {} (some bad) bad.length (runCalls {} {} pre)).1.unsupported = false ∧
    (runCalls {} {} (pre ++ [.req bad])).events.length = 5 ∧
    (resData {} (some resp) resp.length (runCalls {} {} (pre ++ [.req bad]))).2 = STREAM_DATA ∧
    c1.events.length = 13 ∧ c1.inn.status = STREAM_ERROR ∧ c1.out.status = STREAM_DATA ∧
    (reqData {} (some next) next.length c1).2 = STREAM_ERROR ∧ (reqData {} (some next) next.length c1).1.events = c1.events ∧
    (runCalls {} {} (pre ++ [.req bad] ++ mid ++ [.req next, .reqClose, .close])).inn.status = STREAM_ERROR ∧
    (runCalls {} {} (pre ++ [.req bad] ++ mid ++ [.req next, .reqClose, .close])).events.length = 13 := by decide

/-- the same with a callback that returns an error: the second callback invocation of the connection (REQUEST_URI_NORMALIZE) answers
    HTP_ERROR, the request data call returns STREAM_ERROR, the response direction goes on, the request direction stays in ERROR -/
example :
    let c0 : Conn := { policy := [(1, .error)] }
    let g : Bytes := b!"GET / HTTP/1.1\r\n"
    let resp : Bytes := b!"HTTP/1.1 200 OK\r\n\r\n"
    let c1 := runCalls {} c0 [.open, .req g, .res resp]
    (reqData {} (some g) g.length (runCalls {} c0 [.open])).2 = STREAM_ERROR ∧
    (resData {} (some resp) resp.length (runCalls {} c0 [.open, .req g])).2 = STREAM_DATA ∧
    c1.events.length = 6 ∧ c1.inn.status = STREAM_ERROR ∧
    (reqData {} (some g) g.length c1).2 = STREAM_ERROR ∧ (reqData {} (some g) g.length c1).1.cbCount = c1.cbCount := by decide

/-- the response side errs (multipart/byteranges without a Content-Length); the request side goes on (a second request, 6 more callbacks,
    then htp_connp_req_close); every later response chunk and htp_connp_close find the response direction in ERROR and run no callback -/
example :
    let rq : Bytes := b!"GET / HTTP/1.1\r\nHost: a\r\n\r\n"
    let badr : Bytes := b!"HTTP/1.1 200 OK\r\nContent-Type: multipart/byteranges\r\n\r\n"
    let pre : List Call := [.open, .req rq]
    let mid : List Call := [.req rq, .reqClose]
    let c1 := runCalls {} {} (pre ++ [.res badr] ++ mid)
    (resData {} (some badr) badr.length (runCalls {} {} pre)).2 = STREAM_ERROR ∧
    (resData {} (some badr) badr.length (runCalls {} {} pre)).1.unsupported = false ∧
    (runCalls {} {} (pre ++ [.res badr])).events.length = 8 ∧
    (reqData {} (some rq) rq.length (runCalls {} {} (pre ++ [.res badr]))).2 = STREAM_DATA ∧
    c1.events.length = 14 ∧ c1.out.status = STREAM_ERROR ∧
    (resData {} (some badr) badr.length c1).2 = STREAM_ERROR ∧ (resData {} (some badr) badr.length c1).1.events = c1.events ∧
    (runCalls {} {} (pre ++ [.res badr] ++ mid ++ [.res badr, .close])).out.status = STREAM_ERROR ∧
    (runCalls {} {} (pre ++ [.res badr] ++ mid ++ [.res badr, .close])).events.length = 14 := by decide

/-- the two guarded writes spare ERROR but nothing else of the kind: a refused CONNECT takes a request direction that waits in DATA_OTHER
    back to DATA, and leaves one in ERROR alone -/
example :
    let t : Tx := { uid := 0, methodNumber := M_CONNECT }
    (resRefusedConnect t { inn := { status := STREAM_DATA_OTHER } }).inn.status = STREAM_DATA ∧
    (resRefusedConnect t { inn := { status := STREAM_ERROR } }).inn.status = STREAM_ERROR ∧
    (resSwitchTunnel { inn := { status := STREAM_DATA } }).inn.status = STREAM_TUNNEL ∧
    (resSwitchTunnel { inn := { status := STREAM_ERROR } }).inn.status = STREAM_ERROR := by decide

/-- the exception in `reqData_error_recorded` is the model's own fuel counter and nothing else: out of fuel, the driver loop answers
    STREAM_ERROR, marks the run as outside the model and writes no status -/
example :
    (reqDriverLoop {} false 0 {}).2 = STREAM_ERROR ∧ (reqDriverLoop {} false 0 {}).1.inn.status = STREAM_NEW ∧
    (reqDriverLoop {} false 0 {}).1.unsupported = true := by decide

end Htp.Conn
