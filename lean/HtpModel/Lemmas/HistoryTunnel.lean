/- C16 over whole call histories: once a direction is in tunnel mode it stays there, and no further parsing callback runs for it - for every
   stream, every chunking and every INTERLEAVING of request data calls, response data calls, htp_connp_open and htp_connp_tx_freed.
   htp_connp_close / htp_connp_req_close are excluded (`NoClose`): they overwrite TUNNEL with CLOSED (finding S8-tunnel,
   `tunnel_not_kept_by_close`).

   The per-call theorems (`Props/C16.lean`: `C16_tunnel_req`, `C16_tunnel_res`) need the call guard `tx.isSome ∨ state = idle` and say nothing
   about what the calls of the OTHER direction do to a direction's TUNNEL status in between. Two facts of the model (and of the C) shape the
   invariant `TunnelIn` / `TunnelOut`:
   * the response side overwrites `inn.status` in `resRefusedConnect` (a refused CONNECT: anything but ERROR / STOP becomes DATA - TUNNEL too),
     and the request side can destroy the response side's current transaction (`txFinalize` from `txStateRequestComplete`). So `status =
     TUNNEL` alone is NOT kept by the calls of the other direction (`tunnel_status_alone_not_kept_by_res`, `.._by_req`: made-up states). What
     excludes it: the other direction is itself in a status on which a data call returns before it parses - TUNNEL, ERROR or STOP (`Quiet`).
     That is no restriction for a parser run from its creation: the only writers of TUNNEL - the CONNECT probe and the 101 switch - write both
     directions (`TunnelPair`, kept by every call: Lemmas/TunnelFrames.lean and `history_tunnelPair`), so `history_tunnel_fresh_req` /
     `_res` have the status and the call guard as their only hypotheses.
   * the call guard is not implied by the status, not even in reachable states: `tunnel_status_without_guard_not_absorbing` is a history
     from a fresh parser, without closes, after which `inn.status = TUNNEL` and the next request data call returns STREAM_ERROR. -/
import HtpModel.Lemmas.History
import HtpModel.Lemmas.TunnelFrames
import HtpModel.Lemmas.TunnelCalls
namespace Htp.Conn
open Htp Htp.Gen

/-! ### histories without close calls -/

/-- a history without htp_connp_close / htp_connp_req_close -/
def NoClose (calls : List Call) : Prop := ∀ call ∈ calls, call ≠ .close ∧ call ≠ .reqClose

theorem NoClose.head {call : Call} {rest : List Call} (h : NoClose (call :: rest)) : call ≠ .close ∧ call ≠ .reqClose :=
  h call (by simp)
theorem NoClose.tail {call : Call} {rest : List Call} (h : NoClose (call :: rest)) : NoClose rest :=
  fun cl hm => h cl (by simp [hm])
theorem NoClose.prefix {pre calls : List Call} (h : NoClose calls) (hp : pre <+: calls) : NoClose pre :=
  fun cl hm => h cl (hp.subset hm)
theorem NoClose.append {l1 l2 : List Call} (h1 : NoClose l1) (h2 : NoClose l2) : NoClose (l1 ++ l2) := by
  intro cl hm
  rcases List.mem_append.mp hm with h | h
  · exact h1 cl h
  · exact h2 cl h

instance (calls : List Call) : Decidable (NoClose calls) := by unfold NoClose; infer_instance

/-! ### the invariant -/

/- `Quiet s` (Lemmas/TunnelFrames.lean): a stream status on which a data call returns before it parses anything - TUNNEL, ERROR, STOP -/

/-- the request direction is in tunnel mode: its status is TUNNEL, the guard of a request data call holds (a current transaction, or
    the idle state), and the response direction does not parse -/
def TunnelIn (c : Conn) : Prop :=
  c.inn.status = STREAM_TUNNEL ∧ (c.inn.tx.isSome = true ∨ c.inState = .idle) ∧ Quiet c.out.status

/-- the response direction is in tunnel mode -/
def TunnelOut (c : Conn) : Prop :=
  c.out.status = STREAM_TUNNEL ∧ (c.out.tx.isSome = true ∨ c.outState = .idle) ∧ Quiet c.inn.status

instance (c : Conn) : Decidable (TunnelIn c) := by unfold TunnelIn; infer_instance
instance (c : Conn) : Decidable (TunnelOut c) := by unfold TunnelOut; infer_instance

/-! ### what a data call does in a direction whose status is quiet: nothing outside that direction's own record -/

theorem reqData_fst (cfg : Cfg) (data : Option Bytes) (len : Nat) (c : Conn) :
    (reqData cfg data len c).1 = { (reqDataCore cfg data len c).1 with inn := { (reqDataCore cfg data len c).1.inn with live := false } } ∧
    (reqData cfg data len c).2 = (reqDataCore cfg data len c).2 := ⟨rfl, rfl⟩
theorem resData_fst (cfg : Cfg) (data : Option Bytes) (len : Nat) (c : Conn) :
    (resData cfg data len c).1 = { (resDataCore cfg data len c).1 with out := { (resDataCore cfg data len c).1.out with live := false } } ∧
    (resData cfg data len c).2 = (resDataCore cfg data len c).2 := ⟨rfl, rfl⟩

theorem reqDataCore_quiet (cfg : Cfg) (data : Option Bytes) (len : Nat) (c : Conn) (h : Quiet c.inn.status) :
    (reqDataCore cfg data len c).1.out = c.out ∧ (reqDataCore cfg data len c).1.inState = c.inState ∧
    (reqDataCore cfg data len c).1.outState = c.outState ∧ (reqDataCore cfg data len c).1.txs = c.txs ∧
    (reqDataCore cfg data len c).1.events = c.events ∧ (reqDataCore cfg data len c).1.inn.tx = c.inn.tx ∧
    Quiet (reqDataCore cfg data len c).1.inn.status := by
  unfold reqDataCore
  split
  · exact ⟨rfl, rfl, rfl, rfl, rfl, rfl, h⟩
  split
  · exact ⟨rfl, rfl, rfl, rfl, rfl, rfl, h⟩
  split
  · exact ⟨rfl, rfl, rfl, rfl, rfl, rfl, Or.inr (Or.inl rfl)⟩
  split
  · exact ⟨rfl, rfl, rfl, rfl, rfl, rfl, h⟩
  rename_i h1 h2 _ _
  have ht : c.inn.status = STREAM_TUNNEL := by
    rcases h with h | h | h
    · exact h
    · exact absurd (by rw [h]; rfl) h2
    · exact absurd (by rw [h]; rfl) h1
  have hs : ((reqStoreChunk data len c).inn.status == STREAM_TUNNEL) = true := by
    show (c.inn.status == STREAM_TUNNEL) = true
    rw [ht]; rfl
  simp only [hs, if_true]
  exact ⟨rfl, rfl, rfl, rfl, rfl, rfl, Or.inl ht⟩

/-- a request data call on a quiet request status: the response direction's record, both parser states, the transactions and the event log
    are untouched; the request direction keeps its transaction; the status stays quiet -/
theorem reqData_quiet (cfg : Cfg) (data : Option Bytes) (len : Nat) (c : Conn) (h : Quiet c.inn.status) :
    (reqData cfg data len c).1.out = c.out ∧ (reqData cfg data len c).1.inState = c.inState ∧
    (reqData cfg data len c).1.outState = c.outState ∧ (reqData cfg data len c).1.txs = c.txs ∧
    (reqData cfg data len c).1.events = c.events ∧ (reqData cfg data len c).1.inn.tx = c.inn.tx ∧
    Quiet (reqData cfg data len c).1.inn.status := by
  rw [(reqData_fst cfg data len c).1]
  exact reqDataCore_quiet cfg data len c h

theorem resDataCore_quiet (cfg : Cfg) (data : Option Bytes) (len : Nat) (c : Conn) (h : Quiet c.out.status) :
    (resDataCore cfg data len c).1.inn = c.inn ∧ (resDataCore cfg data len c).1.inState = c.inState ∧
    (resDataCore cfg data len c).1.outState = c.outState ∧ (resDataCore cfg data len c).1.txs = c.txs ∧
    (resDataCore cfg data len c).1.events = c.events ∧ (resDataCore cfg data len c).1.out.tx = c.out.tx ∧
    Quiet (resDataCore cfg data len c).1.out.status := by
  unfold resDataCore
  split
  · exact ⟨rfl, rfl, rfl, rfl, rfl, rfl, h⟩
  split
  · exact ⟨rfl, rfl, rfl, rfl, rfl, rfl, h⟩
  split
  · exact ⟨rfl, rfl, rfl, rfl, rfl, rfl, Or.inr (Or.inl rfl)⟩
  split
  · exact ⟨rfl, rfl, rfl, rfl, rfl, rfl, h⟩
  rename_i h1 h2 _ _
  have ht : c.out.status = STREAM_TUNNEL := by
    rcases h with h | h | h
    · exact h
    · exact absurd (by rw [h]; rfl) h2
    · exact absurd (by rw [h]; rfl) h1
  have hs : ((resStoreChunk data len c).out.status == STREAM_TUNNEL) = true := by
    show (c.out.status == STREAM_TUNNEL) = true
    rw [ht]; rfl
  simp only [hs, if_true]
  exact ⟨rfl, rfl, rfl, rfl, rfl, rfl, Or.inl ht⟩

theorem resData_quiet (cfg : Cfg) (data : Option Bytes) (len : Nat) (c : Conn) (h : Quiet c.out.status) :
    (resData cfg data len c).1.inn = c.inn ∧ (resData cfg data len c).1.inState = c.inState ∧
    (resData cfg data len c).1.outState = c.outState ∧ (resData cfg data len c).1.txs = c.txs ∧
    (resData cfg data len c).1.events = c.events ∧ (resData cfg data len c).1.out.tx = c.out.tx ∧
    Quiet (resData cfg data len c).1.out.status := by
  rw [(resData_fst cfg data len c).1]
  exact resDataCore_quiet cfg data len c h

/-- a request data call on a request direction in tunnel mode keeps the TUNNEL status - for EVERY chunk, the empty one included (an empty
    chunk is answered STREAM_CLOSED, without touching the state) -/
theorem reqData_tunnel_status (cfg : Cfg) (data : Option Bytes) (len : Nat) (c : Conn) (ht : c.inn.status = STREAM_TUNNEL)
    (hg : c.inn.tx.isSome = true ∨ c.inState = .idle) : (reqData cfg data len c).1.inn.status = STREAM_TUNNEL := by
  have hguard : (c.inn.tx.isNone && c.inState != ReqState.idle) = false := by
    rcases hg with h | h
    · cases hx : c.inn.tx <;> simp_all
    · simp [h]
  rw [(reqData_fst cfg data len c).1]
  show (reqDataCore cfg data len c).1.inn.status = STREAM_TUNNEL
  unfold reqDataCore
  have e1 : (c.inn.status == STREAM_STOP) = false := by rw [ht]; rfl
  have e2 : (c.inn.status == STREAM_ERROR) = false := by rw [ht]; rfl
  have hs : ((reqStoreChunk data len c).inn.status == STREAM_TUNNEL) = true := by
    show (c.inn.status == STREAM_TUNNEL) = true
    rw [ht]; rfl
  simp only [e1, e2, hguard, hs, Bool.false_eq_true, if_false, if_true]
  split
  · exact ht
  · exact ht

theorem resData_tunnel_status (cfg : Cfg) (data : Option Bytes) (len : Nat) (c : Conn) (ht : c.out.status = STREAM_TUNNEL)
    (hg : c.out.tx.isSome = true ∨ c.outState = .idle) : (resData cfg data len c).1.out.status = STREAM_TUNNEL := by
  have hguard : (c.out.tx.isNone && c.outState != ResState.idle) = false := by
    rcases hg with h | h
    · cases hx : c.out.tx <;> simp_all
    · simp [h]
  rw [(resData_fst cfg data len c).1]
  show (resDataCore cfg data len c).1.out.status = STREAM_TUNNEL
  unfold resDataCore
  have e1 : (c.out.status == STREAM_STOP) = false := by rw [ht]; rfl
  have e2 : (c.out.status == STREAM_ERROR) = false := by rw [ht]; rfl
  have hs : ((resStoreChunk data len c).out.status == STREAM_TUNNEL) = true := by
    show (c.out.status == STREAM_TUNNEL) = true
    rw [ht]; rfl
  simp only [e1, e2, hguard, hs, Bool.false_eq_true, if_false, if_true]
  split
  · exact ht
  · exact ht

/-! ### htp_connp_open and htp_connp_tx_freed -/

/-- htp_connp_open acts only when both directions are NEW -/
theorem connOpen_of_ne (c : Conn) (h : c.inn.status ≠ STREAM_NEW ∨ c.out.status ≠ STREAM_NEW) : connOpen c = c := by
  unfold connOpen
  rcases h with h | h
  · have : (c.inn.status != STREAM_NEW) = true := by simpa using h
    simp [this]
  · have : (c.out.status != STREAM_NEW) = true := by simpa using h
    simp [this]

/-- htp_connp_tx_freed touches the transaction list and the index of the next response transaction only -/
theorem txFreedLoop_dirs (fuel : Nat) (c : Conn) (r : Nat) :
    (txFreedLoop fuel c r).1.inn = c.inn ∧ (txFreedLoop fuel c r).1.out = c.out ∧ (txFreedLoop fuel c r).1.inState = c.inState ∧
    (txFreedLoop fuel c r).1.outState = c.outState ∧ (txFreedLoop fuel c r).1.events = c.events := by
  induction fuel generalizing c r with
  | zero => unfold txFreedLoop; exact ⟨rfl, rfl, rfl, rfl, rfl⟩
  | succ k ih =>
    unfold txFreedLoop
    split
    · rename_i rest _
      exact ih { c with txs := rest, outNextTxIndex := c.outNextTxIndex - 1 } (r + 1)
    · exact ⟨rfl, rfl, rfl, rfl, rfl⟩

theorem txFreed_dirs (c : Conn) :
    (txFreed c).1.inn = c.inn ∧ (txFreed c).1.out = c.out ∧ (txFreed c).1.inState = c.inState ∧
    (txFreed c).1.outState = c.outState ∧ (txFreed c).1.events = c.events := txFreedLoop_dirs _ c 0

/-! ### one call keeps the invariant -/

theorem quiet_ne_new {s : Nat} (h : Quiet s) : s ≠ STREAM_NEW := by
  rcases h with h | h | h <;> rw [h] <;> decide

theorem tunnelIn_req (cfg : Cfg) (d : Bytes) (c : Conn) (h : TunnelIn c) : TunnelIn (reqData cfg (some d) d.length c).1 := by
  obtain ⟨ht, hg, hq⟩ := h
  obtain ⟨ho, hs, _, _, _, htx, _⟩ := reqData_quiet cfg (some d) d.length c (Or.inl ht)
  exact ⟨reqData_tunnel_status cfg _ _ c ht hg, by rw [htx, hs]; exact hg, by rw [ho]; exact hq⟩

theorem tunnelIn_res (cfg : Cfg) (d : Bytes) (c : Conn) (h : TunnelIn c) : TunnelIn (resData cfg (some d) d.length c).1 := by
  obtain ⟨ht, hg, hq⟩ := h
  obtain ⟨hi, hs, _, _, _, _, hq'⟩ := resData_quiet cfg (some d) d.length c hq
  exact ⟨by rw [hi]; exact ht, by rw [hi, hs]; exact hg, hq'⟩

theorem tunnelIn_open (c : Conn) (h : TunnelIn c) : TunnelIn (connOpen c) := by
  rw [connOpen_of_ne c (Or.inl (quiet_ne_new (Or.inl h.1)))]; exact h

theorem tunnelIn_txFreed (c : Conn) (h : TunnelIn c) : TunnelIn (txFreed c).1 := by
  obtain ⟨hi, ho, hs, _, _⟩ := txFreed_dirs c
  unfold TunnelIn
  rw [hi, ho, hs]; exact h

theorem tunnelOut_res (cfg : Cfg) (d : Bytes) (c : Conn) (h : TunnelOut c) : TunnelOut (resData cfg (some d) d.length c).1 := by
  obtain ⟨ht, hg, hq⟩ := h
  obtain ⟨hi, _, hs, _, _, htx, _⟩ := resData_quiet cfg (some d) d.length c (Or.inl ht)
  exact ⟨resData_tunnel_status cfg _ _ c ht hg, by rw [htx, hs]; exact hg, by rw [hi]; exact hq⟩

theorem tunnelOut_req (cfg : Cfg) (d : Bytes) (c : Conn) (h : TunnelOut c) : TunnelOut (reqData cfg (some d) d.length c).1 := by
  obtain ⟨ht, hg, hq⟩ := h
  obtain ⟨ho, _, hs, _, _, _, hq'⟩ := reqData_quiet cfg (some d) d.length c hq
  exact ⟨by rw [ho]; exact ht, by rw [ho, hs]; exact hg, hq'⟩

theorem tunnelOut_open (c : Conn) (h : TunnelOut c) : TunnelOut (connOpen c) := by
  rw [connOpen_of_ne c (Or.inr (quiet_ne_new (Or.inl h.1)))]; exact h

theorem tunnelOut_txFreed (c : Conn) (h : TunnelOut c) : TunnelOut (txFreed c).1 := by
  obtain ⟨hi, ho, _, hs, _⟩ := txFreed_dirs c
  unfold TunnelOut
  rw [hi, ho, hs]; exact h

/-- **one call other than a close keeps the request direction in tunnel mode** -/
theorem runCall_tunnelIn (cfg : Cfg) (c : Conn) (call : Call) (hn : call ≠ .close ∧ call ≠ .reqClose) (h : TunnelIn c) :
    TunnelIn (runCall cfg c call) := by
  cases call with
  | req d => exact tunnelIn_req cfg d c h
  | res d => exact tunnelIn_res cfg d c h
  | close => exact absurd rfl hn.1
  | reqClose => exact absurd rfl hn.2
  | «open» => exact tunnelIn_open c h
  | txFreed => exact tunnelIn_txFreed c h

/-- **one call other than a close keeps the response direction in tunnel mode** -/
theorem runCall_tunnelOut (cfg : Cfg) (c : Conn) (call : Call) (hn : call ≠ .close ∧ call ≠ .reqClose) (h : TunnelOut c) :
    TunnelOut (runCall cfg c call) := by
  cases call with
  | req d => exact tunnelOut_req cfg d c h
  | res d => exact tunnelOut_res cfg d c h
  | close => exact absurd rfl hn.1
  | reqClose => exact absurd rfl hn.2
  | «open» => exact tunnelOut_open c h
  | txFreed => exact tunnelOut_txFreed c h

/-! ### whole histories -/

/-- **tunnel mode is absorbing, request direction**: after any history of request data calls, response data calls, htp_connp_open and
    htp_connp_tx_freed - in any order and number, any chunking, any callback policy - a request direction in tunnel mode is in tunnel mode -/
theorem history_tunnel_absorbing_req (cfg : Cfg) (c0 : Conn) (calls : List Call) (hn : NoClose calls) (h : TunnelIn c0) :
    TunnelIn (runCalls cfg c0 calls) := by
  induction calls generalizing c0 with
  | nil => exact h
  | cons call rest ih =>
    rw [runCalls_cons]
    exact ih _ hn.tail (runCall_tunnelIn cfg c0 call hn.head h)

/-- **tunnel mode is absorbing, response direction** -/
theorem history_tunnel_absorbing_res (cfg : Cfg) (c0 : Conn) (calls : List Call) (hn : NoClose calls) (h : TunnelOut c0) :
    TunnelOut (runCalls cfg c0 calls) := by
  induction calls generalizing c0 with
  | nil => exact h
  | cons call rest ih =>
    rw [runCalls_cons]
    exact ih _ hn.tail (runCall_tunnelOut cfg c0 call hn.head h)

/-- **C16 over histories, request direction, in the property's words**: the request direction is in tunnel mode. Then after every history
    without closes - whatever the other direction is fed in between - every non-empty request data call returns STREAM_TUNNEL, runs no
    callback (the event log is unchanged), changes no transaction, keeps the status and counts the bytes. -/
theorem history_tunnel_req_silent (cfg : Cfg) (c0 : Conn) (calls : List Call) (hn : NoClose calls) (h : TunnelIn c0) :
    ∀ pre d, pre ++ [.req d] <+: calls → 0 < d.length →
      (reqData cfg (some d) d.length (runCalls cfg c0 pre)).2 = STREAM_TUNNEL ∧
      (reqData cfg (some d) d.length (runCalls cfg c0 pre)).1.events = (runCalls cfg c0 pre).events ∧
      (reqData cfg (some d) d.length (runCalls cfg c0 pre)).1.txs = (runCalls cfg c0 pre).txs ∧
      (reqData cfg (some d) d.length (runCalls cfg c0 pre)).1.inn.status = STREAM_TUNNEL ∧
      (reqData cfg (some d) d.length (runCalls cfg c0 pre)).1.inDataCounter = (runCalls cfg c0 pre).inDataCounter + d.length := by
  intro pre d hp hlen
  have hpre : pre <+: calls := List.IsPrefix.trans (List.prefix_append pre [Call.req d]) hp
  obtain ⟨ht, hg, _⟩ := history_tunnel_absorbing_req cfg c0 pre (hn.prefix hpre) h
  exact tunnel_req_call cfg _ d hlen ht hg

/-- **C16 over histories, response direction** -/
theorem history_tunnel_res_silent (cfg : Cfg) (c0 : Conn) (calls : List Call) (hn : NoClose calls) (h : TunnelOut c0) :
    ∀ pre d, pre ++ [.res d] <+: calls → 0 < d.length →
      (resData cfg (some d) d.length (runCalls cfg c0 pre)).2 = STREAM_TUNNEL ∧
      (resData cfg (some d) d.length (runCalls cfg c0 pre)).1.events = (runCalls cfg c0 pre).events ∧
      (resData cfg (some d) d.length (runCalls cfg c0 pre)).1.txs = (runCalls cfg c0 pre).txs ∧
      (resData cfg (some d) d.length (runCalls cfg c0 pre)).1.out.status = STREAM_TUNNEL ∧
      (resData cfg (some d) d.length (runCalls cfg c0 pre)).1.outDataCounter = (runCalls cfg c0 pre).outDataCounter + d.length := by
  intro pre d hp hlen
  have hpre : pre <+: calls := List.IsPrefix.trans (List.prefix_append pre [Call.res d]) hp
  obtain ⟨ht, hg, _⟩ := history_tunnel_absorbing_res cfg c0 pre (hn.prefix hpre) h
  exact tunnel_res_call cfg _ d hlen ht hg

/-! ### the hypothesis `Quiet` of the other direction is met by every reachable state: the pair invariant over histories

`TunnelPair` (Lemmas/TunnelFrames.lean): a direction is in TUNNEL only while the other one is in TUNNEL, ERROR or STOP. Every request data call
and every response data call keeps it (`reqData_pair`, `resData_pair`: the only writers of TUNNEL are the CONNECT probe and the 101 switch, and
both write both directions); so do htp_connp_open and htp_connp_tx_freed. -/

theorem tunnelPair_open (c : Conn) (h : TunnelPair c) : TunnelPair (connOpen c) := by
  unfold connOpen
  split
  · exact h
  · have ho : STREAM_OPEN ≠ STREAM_TUNNEL := by decide
    exact ⟨fun e => absurd e ho, fun e => absurd e ho⟩

theorem tunnelPair_txFreed (c : Conn) (h : TunnelPair c) : TunnelPair (txFreed c).1 := by
  obtain ⟨hi, ho, _, _, _⟩ := txFreed_dirs c
  unfold TunnelPair
  rw [hi, ho]; exact h

theorem runCall_tunnelPair (cfg : Cfg) (c : Conn) (call : Call) (hn : call ≠ .close ∧ call ≠ .reqClose) (h : TunnelPair c) :
    TunnelPair (runCall cfg c call) := by
  cases call with
  | req d => exact reqData_pair cfg _ _ c h
  | res d => exact resData_pair cfg _ _ c h
  | close => exact absurd rfl hn.1
  | reqClose => exact absurd rfl hn.2
  | «open» => exact tunnelPair_open c h
  | txFreed => exact tunnelPair_txFreed c h

/-- **the pair invariant holds after every history without closes** -/
theorem history_tunnelPair (cfg : Cfg) (c0 : Conn) (calls : List Call) (hn : NoClose calls) (h : TunnelPair c0) :
    TunnelPair (runCalls cfg c0 calls) := by
  induction calls generalizing c0 with
  | nil => exact h
  | cons call rest ih =>
    rw [runCalls_cons]
    exact ih _ hn.tail (runCall_tunnelPair cfg c0 call hn.head h)

/-- a freshly created connection parser has it -/
theorem tunnelPair_fresh : TunnelPair ({} : Conn) := by decide

/-- with the pair invariant, `TunnelIn` is the status and the call guard -/
theorem tunnelIn_of_pair {c : Conn} (hp : TunnelPair c) (ht : c.inn.status = STREAM_TUNNEL)
    (hg : c.inn.tx.isSome = true ∨ c.inState = .idle) : TunnelIn c := ⟨ht, hg, hp.1 ht⟩
theorem tunnelOut_of_pair {c : Conn} (hp : TunnelPair c) (ht : c.out.status = STREAM_TUNNEL)
    (hg : c.out.tx.isSome = true ∨ c.outState = .idle) : TunnelOut c := ⟨ht, hg, hp.2 ht⟩

/-- **C16 for a connection parser from its creation, request direction**: any history without closes on a fresh parser, cut anywhere into
    `pre ++ post`. If after `pre` the request direction has status TUNNEL and the guard of a request data call holds, then at every point of
    `post` a non-empty request data call returns STREAM_TUNNEL, runs no callback, changes no transaction and counts the bytes - whatever
    the response direction is fed in between. -/
theorem history_tunnel_fresh_req (cfg : Cfg) (pre post : List Call) (hn : NoClose (pre ++ post))
    (ht : (runCalls cfg {} pre).inn.status = STREAM_TUNNEL)
    (hg : (runCalls cfg {} pre).inn.tx.isSome = true ∨ (runCalls cfg {} pre).inState = .idle) :
    ∀ mid d, mid ++ [.req d] <+: post → 0 < d.length →
      (reqData cfg (some d) d.length (runCalls cfg {} (pre ++ mid))).2 = STREAM_TUNNEL ∧
      (reqData cfg (some d) d.length (runCalls cfg {} (pre ++ mid))).1.events = (runCalls cfg {} (pre ++ mid)).events ∧
      (reqData cfg (some d) d.length (runCalls cfg {} (pre ++ mid))).1.txs = (runCalls cfg {} (pre ++ mid)).txs ∧
      (reqData cfg (some d) d.length (runCalls cfg {} (pre ++ mid))).1.inn.status = STREAM_TUNNEL ∧
      (reqData cfg (some d) d.length (runCalls cfg {} (pre ++ mid))).1.inDataCounter = (runCalls cfg {} (pre ++ mid)).inDataCounter + d.length := by
  intro mid d hp hlen
  have hpre : NoClose pre := hn.prefix (List.prefix_append pre post)
  have hpost : NoClose post := fun cl hm => hn cl (List.mem_append.mpr (Or.inr hm))
  have hin : TunnelIn (runCalls cfg {} pre) := tunnelIn_of_pair (history_tunnelPair cfg {} pre hpre tunnelPair_fresh) ht hg
  rw [runCalls_append]
  exact history_tunnel_req_silent cfg _ post hpost hin mid d hp hlen

/-- **C16 for a connection parser from its creation, response direction** -/
theorem history_tunnel_fresh_res (cfg : Cfg) (pre post : List Call) (hn : NoClose (pre ++ post))
    (ht : (runCalls cfg {} pre).out.status = STREAM_TUNNEL)
    (hg : (runCalls cfg {} pre).out.tx.isSome = true ∨ (runCalls cfg {} pre).outState = .idle) :
    ∀ mid d, mid ++ [.res d] <+: post → 0 < d.length →
      (resData cfg (some d) d.length (runCalls cfg {} (pre ++ mid))).2 = STREAM_TUNNEL ∧
      (resData cfg (some d) d.length (runCalls cfg {} (pre ++ mid))).1.events = (runCalls cfg {} (pre ++ mid)).events ∧
      (resData cfg (some d) d.length (runCalls cfg {} (pre ++ mid))).1.txs = (runCalls cfg {} (pre ++ mid)).txs ∧
      (resData cfg (some d) d.length (runCalls cfg {} (pre ++ mid))).1.out.status = STREAM_TUNNEL ∧
      (resData cfg (some d) d.length (runCalls cfg {} (pre ++ mid))).1.outDataCounter = (runCalls cfg {} (pre ++ mid)).outDataCounter + d.length := by
  intro mid d hp hlen
  have hpre : NoClose pre := hn.prefix (List.prefix_append pre post)
  have hpost : NoClose post := fun cl hm => hn cl (List.mem_append.mpr (Or.inr hm))
  have hout : TunnelOut (runCalls cfg {} pre) := tunnelOut_of_pair (history_tunnelPair cfg {} pre hpre tunnelPair_fresh) ht hg
  rw [runCalls_append]
  exact history_tunnel_res_silent cfg _ post hpost hout mid d hp hlen

/-! ### the example, and why the hypotheses are there -/

/-- the example history: a CONNECT request, a 200 answer, then a client payload that is not HTTP (a TLS record) - the CONNECT probe switches
    both directions to tunnel mode -/
def connectTunnel : List Call :=
  [.open, .req (b!"CONNECT example.com:443 HTTP/1.1\r\nHost: example.com\r\n\r\n"), .res (b!"HTTP/1.1 200 OK\r\n\r\n"),
   .req (b!"\x16\x03\x01\x00\n")]

/-- after it both directions are in tunnel mode (so the theorems above apply to every continuation without closes) ... -/
example : TunnelIn (runCalls {} {} connectTunnel) ∧ TunnelOut (runCalls {} {} connectTunnel) ∧
    (reqData {} (some (b!"\x16\x03\x01\x00\n")) 5 (runCalls {} {} (connectTunnel.take 3))).2 = STREAM_TUNNEL := by decide

/-- ... and concretely: further data calls of both directions, interleaved with htp_connp_open and htp_connp_tx_freed, are all answered
    STREAM_TUNNEL, and the event log does not grow (11 callbacks ran before the switch, 11 at the end) -/
example :
    let c := runCalls {} {} connectTunnel
    let c1 := (reqData {} (some (b!"GET / HTTP/1.1\r\n\r\n")) 18 c)
    let c2 := (resData {} (some (b!"HTTP/1.1 404 Not Found\r\n\r\n")) 26 c1.1)
    let c3 := runCalls {} c2.1 [.txFreed, .open]
    let c4 := (reqData {} (some (b!"\x00\x01")) 2 c3)
    let c5 := (resData {} (some (b!"\n")) 1 c4.1)
    c.events.length = 11 ∧ c1.2 = STREAM_TUNNEL ∧ c2.2 = STREAM_TUNNEL ∧ c4.2 = STREAM_TUNNEL ∧ c5.2 = STREAM_TUNNEL ∧
    c5.1.events = c.events ∧ c5.1.txs.length = c.txs.length ∧ c5.1.inn.status = STREAM_TUNNEL ∧ c5.1.out.status = STREAM_TUNNEL ∧
    c5.1.inDataCounter = c.inDataCounter + 20 ∧ c5.1.outDataCounter = c.outDataCounter + 27 := by decide

/-- **the status alone is not kept by the calls of the other direction** (why `TunnelIn` asks for a quiet response direction): in a state
    whose request direction has status TUNNEL and a current transaction, but whose response direction still parses, the refusal of the
    CONNECT (`resRefusedConnect`: `in_status = HTP_STREAM_DATA` unless ERROR or STOP) overwrites TUNNEL with DATA. The state is made up: the
    two places that set TUNNEL write both directions (`history_tunnelPair`: it is not reachable from a fresh parser without closes). -/
theorem tunnel_status_alone_not_kept_by_res :
    let c := runCalls {} {} [.open, .req (b!"CONNECT example.com:443 HTTP/1.1\r\nHost: example.com\r\n\r\n")]
    let c0 : Conn := { c with inn := { c.inn with status := STREAM_TUNNEL } }
    c0.inn.status = STREAM_TUNNEL ∧ c0.inn.tx.isSome = true ∧ ¬ Quiet c0.out.status ∧
    (runCalls {} c0 [.res (b!"HTTP/1.1 403 Forbidden\r\n\r\n")]).inn.status = STREAM_DATA := by decide

/-- the same for the response direction (why `TunnelOut` asks for a quiet request direction): with tx_auto_destroy, a request direction that
    still parses completes the transaction the response direction holds (`txFinalize` destroys it, `out.tx` becomes NULL while the response
    state is not IDLE), and the next response data call fails its guard: STREAM_ERROR instead of STREAM_TUNNEL. Again a made-up state
    (it violates `TunnelPair`). -/
theorem tunnel_status_alone_not_kept_by_req :
    let cfg : Cfg := { txAutoDestroy := true }
    let c := runCalls cfg {} [.open, .req (b!"CONNECT example.com:443 HTTP/1.1\r\nHost: example.com\r\n\r\nG"), .res (b!"HTTP/1.1 200 OK\r\n\r\n")]
    let c0 : Conn := { c with out := { c.out with status := STREAM_TUNNEL } }
    let c1 := runCalls cfg c0 [.req (b!"GET / HTTP/1.1\r\n")]
    c0.out.status = STREAM_TUNNEL ∧ c0.out.tx.isSome = true ∧ ¬ Quiet c0.inn.status ∧
    c1.out.status = STREAM_TUNNEL ∧ c1.out.tx = none ∧ c1.outState = .finalize ∧
    (resData cfg (some (b!"x")) 1 c1).2 = STREAM_ERROR := by decide

/-- **the call guard is not implied by the status** (why `TunnelIn` carries it) - in a REACHABLE state: a fresh parser, no close. A complete
    request followed by an HTTP/0.9 request leaves the request parser in IGNORE_DATA_AFTER_HTTP_0_9 without a current transaction; the 101
    answer to the first request switches both directions to TUNNEL (`resSwitchTunnel`); the next request data call fails the guard
    `in_tx == NULL && in_state != IDLE`, returns STREAM_ERROR and overwrites TUNNEL with ERROR. -/
theorem tunnel_status_without_guard_not_absorbing :
    let calls : List Call := [.open, .req (b!"GET /a HTTP/1.1\r\nHost: x\r\n\r\nGET /\n"), .res (b!"HTTP/1.1 101 Switching Protocols\r\n\r\n")]
    let c := runCalls {} {} calls
    NoClose calls ∧ c.inn.status = STREAM_TUNNEL ∧ c.out.status = STREAM_TUNNEL ∧ c.inn.tx = none ∧ c.inState = .ignoreDataAfter09 ∧
    TunnelOut c ∧ ¬ TunnelIn c ∧
    (reqData {} (some (b!"abc")) 3 c).2 = STREAM_ERROR ∧ (reqData {} (some (b!"abc")) 3 c).1.inn.status = STREAM_ERROR := by decide

/-- why closes are excluded (finding S8-tunnel): htp_connp_req_close / htp_connp_close overwrite TUNNEL with CLOSED and run the parser
    again (here it ends in DATA) -/
theorem tunnel_not_kept_by_close :
    (runCalls {} {} (connectTunnel ++ [.reqClose])).inn.status = STREAM_DATA ∧
    (runCalls {} {} (connectTunnel ++ [.close])).inn.status = STREAM_DATA ∧
    (runCalls {} {} (connectTunnel ++ [.close])).out.status = STREAM_DATA := by decide

end Htp.Conn
