/- Helper lemmas for the C14 theorems (multipart model). -/
import HtpModel.Multipart

namespace Htp.Multipart
open Htp

def esc : Bytes → Bytes
  | [] => []
  | c :: rest => if c == DQUOTE || c == BSLASH then BSLASH :: c :: esc rest else c :: esc rest

theorem esc_eq_nil {n : Bytes} (h : esc n = []) : n = [] := by
  cases n with
  | nil => rfl
  | cons a t => unfold esc at h; split at h <;> simp at h

theorem decodeQuoted_esc (n : Bytes) : decodeQuoted (esc n) = n := by
  induction n with
  | nil => rfl
  | cons c rest ih =>
    unfold esc
    by_cases h : (c == DQUOTE || c == BSLASH) = true
    · rw [if_pos h]
      unfold decodeQuoted
      simp [h, ih]
    · rw [if_neg h]
      have hc : (c == BSLASH) = false := by
        cases hb : c == BSLASH with
        | false => rfl
        | true => exact absurd (by simp [hb]) h
      cases hr : esc rest with
      | nil =>
        have := esc_eq_nil hr
        subst this
        rfl
      | cons d t =>
        unfold decodeQuoted
        simp only [hc, Bool.false_and]
        rw [← hr, ih]
        rfl

/-- scanning the escaped form followed by the closing quote consumes exactly the escaped form -/
theorem scanQuoted_esc (n rest acc : Bytes) :
    scanQuoted (esc n ++ DQUOTE :: rest) acc = some (acc.reverse ++ esc n, rest) := by
  induction n generalizing acc with
  | nil =>
    simp only [esc, List.nil_append, List.append_nil]
    cases rest with
    | nil => simp [scanQuoted]
    | cons r rs => simp [scanQuoted]
  | cons c t ih =>
    unfold esc
    by_cases h : (c == DQUOTE || c == BSLASH) = true
    · rw [if_pos h]
      simp only [List.cons_append]
      unfold scanQuoted
      have h1 : (BSLASH == DQUOTE) = false := by decide
      simp only [h1, h, Bool.and_true, beq_self_eq_true]
      simp [ih]
    · rw [if_neg h]
      have hq : (c == DQUOTE) = false := by
        cases hb : c == DQUOTE with
        | false => rfl
        | true => exact absurd (by simp [hb]) h
      have hc : (c == BSLASH) = false := by
        cases hb : c == BSLASH with
        | false => rfl
        | true => exact absurd (by simp [hb]) h
      simp only [List.cons_append]
      cases hr : esc t ++ DQUOTE :: rest with
      | nil => simp at hr
      | cons d u =>
        unfold scanQuoted
        simp only [hq, hc, Bool.false_and]
        rw [← hr, ih]
        simp

theorem sp59 : Gen.cIsspace 59 = false := by decide
theorem sp32 : Gen.cIsspace 32 = true := by decide
theorem sp110 : Gen.cIsspace 110 = false := by decide
theorem sp97 : Gen.cIsspace 97 = false := by decide
theorem sp109 : Gen.cIsspace 109 = false := by decide
theorem sp101 : Gen.cIsspace 101 = false := by decide
theorem sp61 : Gen.cIsspace 61 = false := by decide
theorem sp34 : Gen.cIsspace 34 = false := by decide

theorem cd_step_name (k : Nat) (n rest : Bytes) (p : Parser) (part : Part) (hn : part.name = none) :
    cdLoop (k + 1) ((b!"; name=\"") ++ (esc n ++ DQUOTE :: rest)) p part = cdLoop k rest p { part with name := some n } := by
  have hs := scanQuoted_esc n rest []
  simp only [DQUOTE, List.reverse_nil, List.nil_append] at hs
  conv => lhs; unfold cdLoop
  simp [List.dropWhile, List.takeWhile, sp59, sp32, sp110, sp97, sp109, sp101, sp61, sp34, SEMI, EQS, DQUOTE, hs, cdParamType, hn, decodeQuoted_esc]

theorem sp102 : Gen.cIsspace 102 = false := by decide
theorem sp105 : Gen.cIsspace 105 = false := by decide
theorem sp108 : Gen.cIsspace 108 = false := by decide

theorem cd_step_filename (k : Nat) (n rest : Bytes) (p : Parser) (part : Part) (hn : part.file = none) :
    cdLoop (k + 1) ((b!"; filename=\"") ++ (esc n ++ DQUOTE :: rest)) p part = cdLoop k rest p { part with file := some { filename := n } } := by
  have hs := scanQuoted_esc n rest []
  simp only [DQUOTE, List.reverse_nil, List.nil_append] at hs
  conv => lhs; unfold cdLoop
  simp [List.dropWhile, List.takeWhile, sp59, sp32, sp110, sp97, sp109, sp101, sp61, sp34, sp102, sp105, sp108, SEMI, EQS, DQUOTE, hs, cdParamType, hn, decodeQuoted_esc]

/-- the optional file-name parameter -/
def cdTail : Option Bytes → Bytes
  | none => []
  | some f => (b!"; filename=\"") ++ (esc f ++ [DQUOTE])

/-- the Content-Disposition value a sender writes for a field `n` (and file name `f`) -/
def cdValue (n : Bytes) (f : Option Bytes) : Bytes :=
  (b!"form-data") ++ ((b!"; name=\"") ++ (esc n ++ DQUOTE :: cdTail f))

theorem cdLoop_nil (k : Nat) (p : Parser) (part : Part) : cdLoop (k + 1) [] p part = (p, part) := by
  unfold cdLoop; simp


/-- no CR and no LF -/
def plain (d : Bytes) : Prop := ∀ c ∈ d, c ≠ CR ∧ c ≠ LF

theorem getD_mem_drop (data : Bytes) (pos : Nat) (h : pos < data.length) : data.getD pos 0 ∈ data.drop pos := by
  have : data.getD pos 0 = data[pos] := by simp [List.getD, h]
  rw [this]
  exact List.mem_drop_iff_getElem.mpr ⟨0, by simpa using h, by simp⟩

theorem dataIn_plain (data : Bytes) (sp drp : Nat) (fuel : Nat) (p : Parser) (pos : Nat)
    (hp : plain (data.drop pos)) (hc : p.crAside = 0) (hpos : pos ≤ data.length) (hf : data.length - pos + 1 ≤ fuel) :
    parseLoop data fuel .dataIn p pos sp drp = handleData p (slice data sp data.length) false := by
  induction fuel generalizing pos with
  | zero => omega
  | succ k ih =>
    unfold parseLoop
    simp only
    by_cases hlt : pos < data.length
    · have hm := hp _ (getD_mem_drop data pos hlt)
      have h1 : (data.getD pos 0 == CR) = false := by simpa using hm.1
      have h2 : (data.getD pos 0 == LF) = false := by simpa using hm.2
      simp only [hlt, if_true, h1, h2, Bool.false_eq_true, if_false, hc, bne_self_eq_false]
      apply ih
      · intro c hcm
        apply hp
        have : data.drop (pos + 1) = (data.drop pos).drop 1 := by simp [List.drop_drop, Nat.add_comm]
        rw [this] at hcm
        exact List.mem_of_mem_drop hcm
      · omega
      · omega
    · simp only [hlt, if_false, hc, Nat.sub_zero]
      have : pos = data.length := by omega
      rw [this]

theorem slice_all (d : Bytes) : slice d 0 d.length = d := by simp [slice]

theorem parseFuel_ge (p : Parser) (d : Bytes) : d.length + 3 ≤ parseFuel p d := by
  unfold parseFuel
  have h : 4 * (d.length + 2) * 3 ≤ 4 * (d.length + 2) * (p.boundary.length + 3) := Nat.mul_le_mul_left _ (by omega)
  generalize 4 * (d.length + 2) * (p.boundary.length + 3) = x at h
  omega

theorem plain_append {a b : Bytes} (ha : plain a) (hb : plain b) : plain (a ++ b) := by
  intro c hc
  rcases List.mem_append.mp hc with h | h
  · exact ha c h
  · exact hb c h

/-- the value a non-file part will get from its data pieces -/
def pendingValue (p : Parser) : Bytes := p.dataPieces.flatten


end Htp.Multipart
