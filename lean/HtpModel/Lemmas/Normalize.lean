/- The dot-segment remover (htp_normalize_uri_path_inplace) never leaves a "." or ".." segment.
   Invariant of the loop: the (reversed) output is free of dot segments, and either a slash is pending, or nothing has been
   written yet, or the unread input is empty or starts at a slash (so every segment is written from its first byte). -/
import HtpModel.Lemmas.Decode
namespace Htp.Decode
open Htp Htp.Gen

def SL : UInt8 := 0x2f
def DOT : UInt8 := 0x2e

/-- the segments of a path: split on '/' -/
def segs : Bytes → List Bytes
  | [] => [[]]
  | c :: rest =>
    if c == SL then [] :: segs rest
    else match segs rest with
      | p :: ps => (c :: p) :: ps
      | [] => [[c]]

def isDotSeg (s : Bytes) : Bool := s == [DOT] || s == [DOT, DOT]

/-- no segment is "." or ".." -/
def DotFree (p : Bytes) : Prop := ∀ s ∈ segs p, isDotSeg s = false

theorem segs_ne_nil (p : Bytes) : segs p ≠ [] := by
  cases p with
  | nil => simp [segs]
  | cons c r =>
    unfold segs
    split
    · simp
    · split <;> simp

theorem segs_cons_sl (r : Bytes) : segs (SL :: r) = [] :: segs r := by simp [segs]

theorem segs_cons_ne (c : UInt8) (r : Bytes) (h : (c == SL) = false) :
    segs (c :: r) = (match segs r with | p :: ps => (c :: p) :: ps | [] => [[c]]) := by simp [segs, h]

/-- a slash-free prefix followed by a slash and more: the prefix is the first segment -/
theorem segs_append_sl (p r : Bytes) (hp : ∀ b ∈ p, b ≠ SL) : segs (p ++ SL :: r) = p :: segs r := by
  induction p with
  | nil => simp [segs]
  | cons c t ih =>
    have hc : (c == SL) = false := by simpa using hp c (by simp)
    rw [List.cons_append, segs_cons_ne _ _ hc, ih (fun b hb => hp b (by simp [hb]))]

theorem segs_noslash (p : Bytes) (hp : ∀ b ∈ p, b ≠ SL) : segs p = [p] := by
  induction p with
  | nil => rfl
  | cons c t ih =>
    have hc : (c == SL) = false := by simpa using hp c (by simp)
    rw [segs_cons_ne _ _ hc, ih (fun b hb => hp b (by simp [hb]))]

theorem dotFree_nil : DotFree [] := by
  intro s hs; simp [segs] at hs; subst hs; rfl

/-- copySegment moves the slash-free prefix of the input onto the (reversed) output -/
theorem copySegment_eq (rest out : Bytes) :
    copySegment rest out = (rest.dropWhile (· != SL), (rest.takeWhile (· != SL)).reverse ++ out) := by
  induction rest generalizing out with
  | nil => rfl
  | cons c t ih =>
    unfold copySegment
    by_cases h : (c == 0x2f) = true
    · have : (c != SL) = false := by simp [SL]; simpa using h
      simp [h, List.dropWhile, List.takeWhile, this]
    · have h' : (c == 0x2f) = false := by simpa using h
      have : (c != SL) = true := by simp [SL]; simpa using h
      simp only [h', Bool.false_eq_true, if_false, List.dropWhile, List.takeWhile, this]
      rw [ih]; simp

theorem isDotSeg_reverse (s : Bytes) : isDotSeg s.reverse = isDotSeg s := by
  unfold isDotSeg
  match s with
  | [] => rfl
  | [a] => rfl
  | [a, b] =>
    simp only [List.reverse_cons, List.reverse_nil, List.nil_append, List.cons_append]
    have e : ([b, a] == [DOT, DOT]) = ([a, b] == [DOT, DOT]) := by
      by_cases h1 : a = DOT <;> by_cases h2 : b = DOT <;> simp [h1, h2, Bool.and_comm]
    have e1 : ([b, a] == [DOT]) = false := by simp
    have e2 : ([a, b] == [DOT]) = false := by simp
    rw [e, e1, e2]
  | a :: b :: c :: t =>
    have h1 : ((a :: b :: c :: t) == [DOT]) = false := by simp
    have h2 : ((a :: b :: c :: t) == [DOT, DOT]) = false := by simp
    have hl : (a :: b :: c :: t).reverse.length = t.length + 3 := by simp
    have h3 : ((a :: b :: c :: t).reverse == [DOT]) = false := by
      cases hr : (a :: b :: c :: t).reverse with
      | nil => simp
      | cons x xs => rw [hr] at hl; cases xs with
        | nil => simp at hl
        | cons y ys => simp
    have h4 : ((a :: b :: c :: t).reverse == [DOT, DOT]) = false := by
      cases hr : (a :: b :: c :: t).reverse with
      | nil => simp
      | cons x xs => rw [hr] at hl; cases xs with
        | nil => simp
        | cons y ys => cases ys with
          | nil => simp at hl
          | cons z zs => simp
    rw [h1, h2, h3, h4]

theorem mem_takeWhile' {α} (q : α → Bool) (l : List α) (b : α) (h : b ∈ l.takeWhile q) : q b = true := by
  induction l with
  | nil => simp at h
  | cons c t ih =>
    simp only [List.takeWhile] at h
    split at h
    · rcases List.mem_cons.mp h with h1 | h1
      · rw [h1]; assumption
      · exact ih h1
    · simp at h

theorem dropWhile_head' {α} (q : α → Bool) (l : List α) (x : α) (r : List α) (h : l.dropWhile q = x :: r) : q x = false := by
  induction l with
  | nil => simp at h
  | cons c t ih =>
    simp only [List.dropWhile] at h
    split at h
    · exact ih h
    · simp only [List.cons.injEq] at h
      rw [← h.1]; assumption

theorem takeWhile_noslash (l : Bytes) : ∀ b ∈ l.takeWhile (· != SL), b ≠ SL := by
  intro b hb
  have := mem_takeWhile' _ l b hb
  simpa using this

theorem dotFree_push_slash (seg out : Bytes) (hs : ∀ b ∈ seg, b ≠ SL) (hseg : isDotSeg seg = false) (hd : DotFree out) :
    DotFree (seg.reverse ++ SL :: out) := by
  intro s hm
  rw [segs_append_sl _ _ (by intro b hb; exact hs b (List.mem_reverse.mp hb))] at hm
  rcases List.mem_cons.mp hm with h | h
  · rw [h, isDotSeg_reverse]; exact hseg
  · exact hd s h

theorem dotFree_single (seg : Bytes) (hs : ∀ b ∈ seg, b ≠ SL) (hseg : isDotSeg seg = false) : DotFree seg.reverse := by
  intro s hm
  rw [segs_noslash _ (by intro b hb; exact hs b (List.mem_reverse.mp hb))] at hm
  simp at hm; rw [hm, isDotSeg_reverse]; exact hseg

theorem dotFree_dropLast (out : Bytes) (hd : DotFree out) : DotFree (dropLastSegment out) := by
  unfold dropLastSegment
  cases hdw : out.dropWhile (· != 0x2f) with
  | nil => exact dotFree_nil
  | cons x rest =>
    simp only
    have hx : x = SL := by
      have := dropWhile_head' _ out x rest hdw
      simpa [SL] using this
    have hsplit : out = out.takeWhile (· != 0x2f) ++ SL :: rest := by
      have := List.takeWhile_append_dropWhile (p := (· != (0x2f : UInt8))) (l := out)
      rw [hdw, hx] at this; exact this.symm
    intro s hm
    apply hd
    rw [hsplit, segs_append_sl _ _ (by intro b hb; have := mem_takeWhile' _ out b hb; simpa [SL] using this)]
    exact List.mem_cons_of_mem _ hm

/-- loop invariant of the dot-segment remover: a pending character is a slash; without one, either nothing has been written yet or
    the unread input is empty or starts at a slash -/
def J (rest out : Bytes) (c : Option UInt8) : Prop :=
  c = some SL ∨ (c = none ∧ (out = [] ∨ rest = [] ∨ rest.head? = some SL))

def segOf (rest : Bytes) : Bytes := rest.takeWhile (· != SL)

theorem ruleE_ok (c : UInt8) (rest out : Bytes) (hd : DotFree out) (hj : c ≠ SL → out = [])
    (h1 : c = SL → isDotSeg (segOf rest) = false) (h2 : c ≠ SL → isDotSeg (c :: segOf rest) = false) :
    DotFree (copySegment rest (c :: out)).2 ∧ J (copySegment rest (c :: out)).1 (copySegment rest (c :: out)).2 none := by
  rw [copySegment_eq]
  simp only
  constructor
  · by_cases hc : c = SL
    · subst hc
      exact dotFree_push_slash _ _ (takeWhile_noslash rest) (h1 rfl) hd
    · have ho := hj hc
      subst ho
      have : (rest.takeWhile (· != SL)).reverse ++ [c] = (c :: segOf rest).reverse := by simp [segOf]
      rw [this]
      apply dotFree_single _ _ (h2 hc)
      intro b hb
      rcases List.mem_cons.mp hb with h | h
      · rw [h]; exact hc
      · exact takeWhile_noslash rest b h
  · right
    refine ⟨rfl, ?_⟩
    right
    cases hdw : rest.dropWhile (· != SL) with
    | nil => left; rfl
    | cons x r =>
      right
      have := dropWhile_head' _ rest x r hdw
      simp at this
      simp [this]

theorem isDotSeg_len3 (a b c : UInt8) (t : Bytes) : isDotSeg (a :: b :: c :: t) = false := by simp [isDotSeg]
theorem isDotSeg_second (a b : UInt8) (t : Bytes) (h : b ≠ DOT) : isDotSeg (a :: b :: t) = false := by
  unfold isDotSeg
  have h1 : ((a :: b :: t) == [DOT]) = false := by simp
  have h2 : ((a :: b :: t) == [DOT, DOT]) = false := by
    cases t with
    | nil => simp [h]
    | cons x xs => simp
  rw [h1, h2]; rfl
theorem isDotSeg_first (a : UInt8) (t : Bytes) (h : a ≠ DOT) : isDotSeg (a :: t) = false := by
  unfold isDotSeg
  have h1 : ((a :: t) == [DOT]) = false := by cases t <;> simp [h]
  have h2 : ((a :: t) == [DOT, DOT]) = false := by
    cases t with
    | nil => simp
    | cons x xs => cases xs <;> simp [h]
  rw [h1, h2]; rfl

theorem segOf_cons_ne (r0 : UInt8) (rs : Bytes) (h : r0 ≠ SL) : segOf (r0 :: rs) = r0 :: segOf rs := by
  have : (r0 != SL) = true := by simpa using h
  simp [segOf, List.takeWhile, this]
theorem segOf_cons_sl (rs : Bytes) : segOf (SL :: rs) = [] := by simp [segOf, List.takeWhile]
theorem segOf_nil : segOf [] = [] := rfl

theorem seg_after_dot (rest : Bytes)
    (hA1 : ∀ more, rest = 0x2e :: 0x2f :: more → False) (hA2 : ∀ more, rest = 0x2f :: more → False)
    (hD1 : rest = [] → False) (hD2 : rest = [0x2e] → False) : isDotSeg (DOT :: segOf rest) = false := by
  cases rest with
  | nil => exact absurd rfl hD1
  | cons r0 rs =>
    by_cases h0 : r0 = SL
    · subst h0; exact absurd rfl (hA2 rs)
    · rw [segOf_cons_ne _ _ h0]
      by_cases h1 : r0 = DOT
      · subst h1
        cases rs with
        | nil => exact absurd rfl hD2
        | cons r1 rs' =>
          by_cases h2 : r1 = SL
          · subst h2; exact absurd rfl (hA1 rs')
          · rw [segOf_cons_ne _ _ h2]; exact isDotSeg_len3 ..
      · exact isDotSeg_second _ _ _ h1

theorem seg_after_slash (rest : Bytes)
    (hB1 : ∀ more, rest = 0x2e :: 0x2f :: more → False) (hB2 : rest = [0x2e] → False)
    (hC1 : ∀ more, rest = 0x2e :: 0x2e :: 0x2f :: more → False) (hC2 : rest = [0x2e, 0x2e] → False) : isDotSeg (segOf rest) = false := by
  cases rest with
  | nil => rfl
  | cons r0 rs =>
    by_cases h0 : r0 = SL
    · subst h0; rw [segOf_cons_sl]; rfl
    · rw [segOf_cons_ne _ _ h0]
      by_cases h1 : r0 = DOT
      · subst h1
        cases rs with
        | nil => exact absurd rfl hB2
        | cons r1 rs' =>
          by_cases h2 : r1 = SL
          · subst h2; exact absurd rfl (hB1 rs')
          · rw [segOf_cons_ne _ _ h2]
            by_cases h3 : r1 = DOT
            · subst h3
              cases rs' with
              | nil => exact absurd rfl hC2
              | cons r2 rs'' =>
                by_cases h4 : r2 = SL
                · subst h4; exact absurd rfl (hC1 rs'')
                · rw [segOf_cons_ne _ _ h4]; exact isDotSeg_len3 ..
            · exact isDotSeg_second _ _ _ h3
      · exact isDotSeg_first _ _ h1

theorem ruleE_form (r o : Bytes) :
    (match copySegment r o with | (rest', out') => (out', some (rest', (none : Option UInt8)))) =
      ((copySegment r o).2, some ((copySegment r o).1, none)) := by
  cases copySegment r o; rfl

/-- one application of the rules keeps the output free of dot segments and re-establishes the loop invariant -/
theorem normRules_ok (c : UInt8) (rest out : Bytes) (hd : DotFree out) (hj : c ≠ SL → out = []) :
    DotFree (normRules c rest out).1 ∧ ∀ r' c', (normRules c rest out).2 = some (r', c') → J r' (normRules c rest out).1 c' := by
  have hE : ∀ (h1 : c = SL → isDotSeg (segOf rest) = false) (h2 : c ≠ SL → isDotSeg (c :: segOf rest) = false),
      DotFree (copySegment rest (c :: out)).2 ∧
        ∀ r' c', (some ((copySegment rest (c :: out)).1, (none : Option UInt8)) : Option (Bytes × Option UInt8)) = some (r', c') →
          J r' (copySegment rest (c :: out)).2 c' := by
    intro h1 h2
    have := ruleE_ok c rest out hd hj h1 h2
    refine ⟨this.1, ?_⟩
    intro r' c' he
    simp only [Option.some.injEq, Prod.mk.injEq] at he
    rw [← he.1, ← he.2]; exact this.2
  unfold normRules
  simp only [ruleE_form]
  split
  · -- c = '.'
    rename_i hc
    have hcd : c = DOT := by simpa [DOT] using hc
    have ho : out = [] := hj (by rw [hcd]; decide)
    have hJ0 : ∀ r', J r' out none := fun r' => Or.inr ⟨rfl, Or.inl ho⟩
    split
    · exact ⟨hd, fun r' c' he => by simp only [Option.some.injEq, Prod.mk.injEq] at he; rw [← he.2]; exact hJ0 _⟩
    · exact ⟨hd, fun r' c' he => by simp only [Option.some.injEq, Prod.mk.injEq] at he; rw [← he.2]; exact hJ0 _⟩
    · exact ⟨hd, fun r' c' he => by simp at he⟩
    · exact ⟨hd, fun r' c' he => by simp at he⟩
    · rename_i hA1 hA2 hD1 hD2
      apply hE
      · intro h; rw [hcd] at h; exact absurd h (by decide)
      · intro _; rw [hcd]; exact seg_after_dot rest hA1 hA2 hD1 hD2
  · split
    · -- c = '/'
      rename_i hc
      have hcs : c = SL := by simpa [SL] using hc
      split
      · exact ⟨hd, fun r' c' he => by simp only [Option.some.injEq, Prod.mk.injEq] at he; rw [← he.2]; exact Or.inl rfl⟩
      · exact ⟨hd, fun r' c' he => by simp at he⟩
      · exact ⟨dotFree_dropLast out hd, fun r' c' he => by simp only [Option.some.injEq, Prod.mk.injEq] at he; rw [← he.2]; exact Or.inl rfl⟩
      · exact ⟨dotFree_dropLast out hd, fun r' c' he => by simp at he⟩
      · rename_i hB1 hB2 hC1 hC2
        apply hE
        · intro _; exact seg_after_slash rest hB1 hB2 hC1 hC2
        · intro h; exact absurd hcs h
    · -- any other character
      rename_i hc1 hc2
      have h1 : c ≠ DOT := by simpa [DOT] using hc1
      have h2 : c ≠ SL := by simpa [SL] using hc2
      apply hE
      · intro h; exact absurd h h2
      · intro _; exact isDotSeg_first _ _ h1

theorem normLoop_dotFree (fuel : Nat) (rest out : Bytes) (c : Option UInt8) (hd : DotFree out) (hj : J rest out c) :
    DotFree (normLoop fuel rest out c) := by
  induction fuel generalizing rest out c with
  | zero => simpa [normLoop] using hd
  | succ k ih =>
    unfold normLoop
    cases rest with
    | nil => simpa using hd
    | cons r rest' =>
      simp only
      cases c with
      | none =>
        simp only
        have hpre : r ≠ SL → out = [] := by
          intro hr
          rcases hj with h | ⟨_, h⟩
          · simp at h
          · rcases h with h | h | h
            · exact h
            · simp at h
            · simp at h; exact absurd h hr
        have hok := normRules_ok r rest' out hd hpre
        cases hr : normRules r rest' out with
        | mk out' nxt =>
          rw [hr] at hok
          cases nxt with
          | none => exact hok.1
          | some p =>
            obtain ⟨r'', c'⟩ := p
            exact ih r'' out' c' hok.1 (hok.2 r'' c' rfl)
      | some c0 =>
        simp only
        have hc0 : c0 = SL := by
          rcases hj with h | ⟨h, _⟩
          · simpa using h
          · simp at h
        have hok := normRules_ok c0 (r :: rest') out hd (by intro h; exact absurd hc0 h)
        cases hr : normRules c0 (r :: rest') out with
        | mk out' nxt =>
          rw [hr] at hok
          cases nxt with
          | none => exact hok.1
          | some p =>
            obtain ⟨r'', c'⟩ := p
            exact ih r'' out' c' hok.1 (hok.2 r'' c' rfl)

theorem segs_snoc_sl (l : Bytes) : segs (l ++ [SL]) = segs l ++ [[]] := by
  induction l with
  | nil => simp [segs]
  | cons c t ih =>
    by_cases hc : c = SL
    · subst hc; rw [List.cons_append, segs_cons_sl, segs_cons_sl, ih]; rfl
    · have h : (c == SL) = false := by simpa using hc
      rw [List.cons_append, segs_cons_ne _ _ h, segs_cons_ne _ _ h, ih]
      cases hs : segs t with
      | nil => exact absurd hs (segs_ne_nil t)
      | cons p ps => rfl

theorem segs_snoc_ne (l : Bytes) (c : UInt8) (hc : c ≠ SL) :
    segs (l ++ [c]) = (segs l).dropLast ++ [((segs l).getLast?.getD []) ++ [c]] := by
  have h : (c == SL) = false := by simpa using hc
  induction l with
  | nil => simp [segs, h]
  | cons d t ih =>
    by_cases hd : d = SL
    · subst hd
      rw [List.cons_append, segs_cons_sl, segs_cons_sl, ih]
      cases hs : segs t with
      | nil => exact absurd hs (segs_ne_nil t)
      | cons p ps => simp [List.dropLast, List.getLast?_cons_cons]
    · have hd' : (d == SL) = false := by simpa using hd
      rw [List.cons_append, segs_cons_ne _ _ hd', segs_cons_ne _ _ hd', ih]
      cases hs : segs t with
      | nil => exact absurd hs (segs_ne_nil t)
      | cons p ps =>
        cases ps with
        | nil => simp
        | cons q qs => simp [List.dropLast, List.getLast?_cons_cons]

theorem segs_reverse (p : Bytes) : segs p.reverse = (segs p).reverse.map List.reverse := by
  induction p with
  | nil => rfl
  | cons c t ih =>
    rw [List.reverse_cons]
    by_cases hc : c = SL
    · subst hc
      rw [segs_snoc_sl, ih, segs_cons_sl]; simp
    · have h : (c == SL) = false := by simpa using hc
      rw [segs_snoc_ne _ _ hc, ih, segs_cons_ne _ _ h]
      cases hs : segs t with
      | nil => exact absurd hs (segs_ne_nil t)
      | cons q qs => simp

theorem dotFree_reverse (p : Bytes) (h : DotFree p) : DotFree p.reverse := by
  intro s hs
  rw [segs_reverse] at hs
  simp only [List.mem_map, List.mem_reverse] at hs
  obtain ⟨s', hs', e⟩ := hs
  rw [← e, isDotSeg_reverse]; exact h s' hs'

/-- the dot-segment remover never leaves a "." or ".." segment, for every input -/
theorem normalizePath_dotFree (input : Bytes) : DotFree (normalizePath input) := by
  unfold normalizePath
  apply dotFree_reverse
  exact normLoop_dotFree _ input [] none dotFree_nil (Or.inr ⟨rfl, Or.inl rfl⟩)

/-! ### a path without dot segments is a fixed point (idempotence) -/

theorem segOf_mem_segs (p : Bytes) : ∃ tl, segs p = segOf p :: tl := by
  induction p with
  | nil => exact ⟨[], rfl⟩
  | cons c r ih =>
    by_cases h : c = SL
    · subst h; exact ⟨segs r, by rw [segs_cons_sl, segOf_cons_sl]⟩
    · have hc : (c == SL) = false := by simpa using h
      obtain ⟨tl, e⟩ := ih
      exact ⟨tl, by rw [segs_cons_ne _ _ hc, e, segOf_cons_ne _ _ h]⟩

theorem dotFree_tail_sl (r : Bytes) (h : DotFree (SL :: r)) : DotFree r := by
  intro s hs; apply h; rw [segs_cons_sl]; simp [hs]

theorem dotFree_dropWhile (p : Bytes) (h : DotFree p) : DotFree (p.dropWhile (· != SL)) := by
  have e := List.takeWhile_append_dropWhile (p := (· != SL)) (l := p)
  cases hd : p.dropWhile (· != SL) with
  | nil => exact dotFree_nil
  | cons x t =>
    have hx : x = SL := by
      have := dropWhile_head' _ _ _ _ hd
      simpa using this
    subst hx
    rw [hd] at e
    intro s hs
    rw [segs_cons_sl] at hs
    cases hs with
    | head => rfl
    | tail _ hs' =>
      apply h
      rw [← e, segs_append_sl _ _ (takeWhile_noslash p)]
      exact List.mem_cons_of_mem _ hs'

/-- on a path whose unread part has no dot segment, every rule application is rule E (copy one segment) -/
theorem normRules_E (c : UInt8) (rest out : Bytes)
    (h1 : c = DOT → isDotSeg (DOT :: segOf rest) = false) (h2 : c = SL → isDotSeg (segOf rest) = false) :
    normRules c rest out = ((copySegment rest (c :: out)).2, some ((copySegment rest (c :: out)).1, none)) := by
  unfold normRules
  simp only [ruleE_form]
  split
  · rename_i hc
    have hcd : c = DOT := by simpa [DOT] using hc
    have h1 := h1 hcd
    split
    · exfalso; revert h1; simp [segOf, List.takeWhile, SL, DOT, isDotSeg]
    · exfalso; revert h1; simp [segOf, List.takeWhile, SL, DOT, isDotSeg]
    · exfalso; revert h1; simp [segOf, List.takeWhile, SL, DOT, isDotSeg]
    · exfalso; revert h1; simp [segOf, List.takeWhile, SL, DOT, isDotSeg]
    · rfl
  · split
    · rename_i hc
      have hcs : c = SL := by simpa [SL] using hc
      have h2 := h2 hcs
      split
      · exfalso; revert h2; simp [segOf, List.takeWhile, SL, DOT, isDotSeg]
      · exfalso; revert h2; simp [segOf, List.takeWhile, SL, DOT, isDotSeg]
      · exfalso; revert h2; simp [segOf, List.takeWhile, SL, DOT, isDotSeg]
      · exfalso; revert h2; simp [segOf, List.takeWhile, SL, DOT, isDotSeg]
      · rfl
    · rfl

theorem normLoop_id (fuel : Nat) (rest out : Bytes) (hf : rest.length < fuel) (hd : DotFree rest) :
    normLoop fuel rest out none = rest.reverse ++ out := by
  induction fuel generalizing rest out with
  | zero => omega
  | succ k ih =>
    unfold normLoop
    cases rest with
    | nil => simp
    | cons r rest' =>
      simp only
      have hseg : isDotSeg (segOf (r :: rest')) = false := by
        obtain ⟨tl, e⟩ := segOf_mem_segs (r :: rest'); apply hd; rw [e]; simp
      have h1 : r = DOT → isDotSeg (DOT :: segOf rest') = false := by
        intro h; subst h; rw [segOf_cons_ne _ _ (by decide)] at hseg; exact hseg
      have h2 : r = SL → isDotSeg (segOf rest') = false := by
        intro h; subst h
        obtain ⟨tl, e⟩ := segOf_mem_segs rest'
        apply dotFree_tail_sl _ hd; rw [e]; simp
      rw [normRules_E r rest' out h1 h2, copySegment_eq]
      simp only
      have hdf : DotFree (rest'.dropWhile (· != SL)) := by
        by_cases hr : r = SL
        · subst hr; exact dotFree_dropWhile _ (dotFree_tail_sl _ hd)
        · have := dotFree_dropWhile _ hd
          have hne : (r != SL) = true := by simpa using hr
          simpa [List.dropWhile, hne] using this
      have hl := length_dropWhile_le' (· != SL) rest'
      rw [ih _ _ (by simp at hf; omega) hdf]
      have e := List.takeWhile_append_dropWhile (p := (· != SL)) (l := rest')
      rw [← List.append_assoc, ← List.reverse_append, e]; simp

/-- a path without dot segments is left exactly as it is -/
theorem normalizePath_of_dotFree (p : Bytes) (h : DotFree p) : normalizePath p = p := by
  unfold normalizePath
  rw [normLoop_id _ _ _ (by omega) h]; simp

/-- dot-segment removal is idempotent -/
theorem normalizePath_idem (p : Bytes) : normalizePath (normalizePath p) = normalizePath p :=
  normalizePath_of_dotFree _ (normalizePath_dotFree p)

end Htp.Decode
