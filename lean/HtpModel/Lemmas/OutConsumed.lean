/- 'DATA means the whole chunk was consumed' for a whole response data call: the line and header states under the response loop invariant
   `WFBO`, then induction over the driver loop along `CallReachO`. -/
import HtpModel.Lemmas.OutInv
namespace Htp.Conn
open Htp Htp.Gen

theorem peek_none_wfbo (hard : Nat) (d : Dir) (w : WFBO hard d) (h : d.peek = none) : d.len ≤ d.read := by
  unfold Dir.peek at h
  split at h
  · omega
  · rename_i hlt
    have h0 : 0 ≤ d.read := w.1.r0
    have : d.read.toNat < d.cur.length := by
      have := w.1.lc; omega
    rw [List.getElem?_eq_getElem this] at h
    simp at h

/-- what the line-end handling of RES_HEADERS leaves behind: no byte left when it gives up, the invariant when it goes on -/
def EolPostC (hard : Nat) (c : Conn) : Except Rc (Conn × Bool × Bool × Bool) → Prop
  | .error _ => c.out.len ≤ c.out.read
  | .ok (c2, _, _, _) => WFBO hard c2.out

theorem consumedOut_andThen_wfbo (hard : Nat) (r : R) (f : Conn → R) (h1 : NoData r.2) (hw : WFBO hard r.1.out)
    (h2 : ∀ c, WFBO hard c.out → ConsumedOut (f c)) : ConsumedOut (r >>? f) := by
  unfold R.andThen
  split
  · exact h2 _ hw
  · exact consumedOut_of_noData _ h1

theorem eol_spec_wfbo (hard : Nat) (b : UInt8) (lfcr : Bool) (c : Conn) (w : WFBO hard c.out) : EolPostC hard c (resHeadersEol b lfcr c) := by
  unfold resHeadersEol
  split
  · -- CR
    simp only
    cases hp : c.out.peek with
    | none =>
      have : (c.out.peekSet).2 = none := hp
      simp only [this]
      exact peek_none_wfbo _ _ w hp
    | some n =>
      have e2 : (c.out.peekSet).2 = some n := hp
      simp only [e2]
      obtain ⟨d1, b1, hc1, w1⟩ := copy_after_peek_wfbo hard c.out w n hp
      split
      · -- LF follows
        simp only [hc1]
        split
        · -- LF-CR mode: a further CR (LF) may belong to the line end
          cases hp2 : d1.peek with
          | none =>
            have e3 : (d1.peekSet).2 = none := hp2
            simp only [e3]
            have : ((none : Option UInt8) == some CR) = false := rfl
            simp only [this, Bool.false_eq_true, if_false]
            exact wfbo_peekSet _ _ w1
          | some n2 =>
            have e3 : (d1.peekSet).2 = some n2 := hp2
            simp only [e3]
            obtain ⟨d2, b2, hc2, w2⟩ := copy_after_peek_wfbo hard d1 w1 n2 hp2
            split
            · simp only [hc2]
              have w2' := wfbo_consume_succ hard d2 w2
              cases hp3 : Dir.peek { d2 with consume := d2.consume + 1 } with
              | none =>
                have e4 : (Dir.peekSet { d2 with consume := d2.consume + 1 }).2 = none := hp3
                simp only [e4]
                have : ((none : Option UInt8) == some LF) = false := rfl
                simp only [this, Bool.false_eq_true, if_false]
                exact wfbo_peekSet _ _ w2'
              | some n3 =>
                have e4 : (Dir.peekSet { d2 with consume := d2.consume + 1 }).2 = some n3 := hp3
                simp only [e4]
                obtain ⟨d3, b3, hc3, w3⟩ := copy_after_peek_wfbo hard _ w2' n3 hp3
                split
                · simp only [hc3]
                  exact wfbo_consume_succ hard d3 w3
                · exact wfbo_peekSet _ _ w2'
            · exact wfbo_peekSet _ _ w1
        · exact w1
      · split
        · exact wfbo_peekSet _ _ w
        · exact wfbo_peekSet _ _ w
  · -- LF
    simp only
    cases hp : c.out.peek with
    | none =>
      have e2 : (c.out.peekSet).2 = none := hp
      simp only [e2]
      have : ((none : Option UInt8) == some CR) = false := rfl
      simp only [this, Bool.false_and, Bool.false_eq_true, if_false]
      exact wfbo_peekSet _ _ w
    | some n =>
      have e2 : (c.out.peekSet).2 = some n := hp
      simp only [e2]
      obtain ⟨d1, b1, hc1, w1⟩ := copy_after_peek_wfbo hard c.out w n hp
      repeat' split
      all_goals first
        | exact w1
        | exact wfbo_peekSet _ _ w
        | (rename_i h9; rw [hc1] at h9; simp only [Option.some.injEq, Prod.mk.injEq] at h9; rw [← h9.1]; exact w1)
        | (rename_i h9; rw [hc1] at h9; simp at h9)



theorem consumedOutB_resLineLoop (cfg : Cfg) (fuel : Nat) (c : Conn) (w : WFBO cfg.fieldLimitHard c.out) : ConsumedOut (resLineLoop cfg fuel c) := by
  induction fuel generalizing c with
  | zero => unfold resLineLoop; exact consumedOut_of_noData _ NoData.error
  | succ k ih =>
    unfold resLineLoop
    cases c.out.tx with
    | none => exact consumedOut_of_noData _ NoData.error
    | some uid =>
      simp only
      -- step 1: one more byte unless the stream is closed
      split
      · -- no byte
        rename_i h1
        intro _
        show c.out.len ≤ c.out.read
        split at h1
        · cases hcb : c.out.copyByte with
          | none => exact copyByte_none _ hcb
          | some p => rw [hcb] at h1; simp at h1
        · simp at h1
      · rename_i c1 h1
        have w1 : WFBO cfg.fieldLimitHard c1.out := by
          split at h1
          · cases hcb : c.out.copyByte with
            | none => rw [hcb] at h1; simp at h1
            | some p =>
              obtain ⟨d, b⟩ := p
              rw [hcb] at h1
              simp only [Option.some.injEq] at h1
              rw [← h1]
              exact copyByte_some_wfbo _ _ d b w hcb
          · simp only [Option.some.injEq] at h1; rw [← h1]; exact w
        -- step 2: a CR needs the byte after it
        split
        · -- no byte after the CR
          rename_i rc h2
          split at h2
          · simp only [Dir.peekSet] at h2
            cases hp : c1.out.peek with
            | none =>
              rw [hp] at h2
              simp only [Except.error.injEq] at h2
              intro _
              show c1.out.len ≤ c1.out.read
              exact peek_none_wfbo _ _ w1 hp
            | some b =>
              rw [hp] at h2
              simp only at h2
              split at h2 <;> simp at h2
          · simp at h2
        · -- LF follows the CR: go on scanning
          rename_i c2 h2
          have w2 : WFBO cfg.fieldLimitHard c2.out := by
            split at h2
            · simp only [Dir.peekSet] at h2
              cases hp : c1.out.peek with
              | none => rw [hp] at h2; simp at h2
              | some b =>
                rw [hp] at h2
                simp only at h2
                split at h2
                · simp only [Except.ok.injEq, Prod.mk.injEq] at h2; rw [← h2.1]; exact wfbo_nextByte _ _ _ w1
                · simp only [Except.ok.injEq, Prod.mk.injEq] at h2; simp at h2
            · simp only [Except.ok.injEq, Prod.mk.injEq] at h2; simp at h2
          exact ih _ w2
        · rename_i c2 h2
          have w2 : WFBO cfg.fieldLimitHard c2.out := by
            split at h2
            · simp only [Dir.peekSet] at h2
              cases hp : c1.out.peek with
              | none => rw [hp] at h2; simp at h2
              | some b =>
                rw [hp] at h2
                simp only at h2
                split at h2
                · simp only [Except.ok.injEq, Prod.mk.injEq] at h2; simp at h2
                · simp only [Except.ok.injEq, Prod.mk.injEq] at h2; rw [← h2.1]; exact wfbo_nextByte _ _ _ (wfbo_nextByte _ _ _ w1)
            · simp only [Except.ok.injEq, Prod.mk.injEq] at h2; rw [← h2.1]; exact w1
          split
          · exact ih _ w2
          · -- a complete line (or the end of the stream): nothing below answers DATA
            exact consumedOut_of_noData _ (noData_resLineComplete ..)



theorem consumedOutB_resHeadersLoop (cfg : Cfg) (fuel : Nat) (lfcr : Bool) (c : Conn) (w : WFBO cfg.fieldLimitHard c.out) :
    ConsumedOut (resHeadersLoop cfg fuel lfcr c) := by
  induction fuel generalizing c lfcr with
  | zero => unfold resHeadersLoop; exact consumedOut_of_noData _ NoData.error
  | succ k ih =>
    unfold resHeadersLoop
    cases c.out.tx with
    | none => exact consumedOut_of_noData _ NoData.error
    | some uid =>
      simp only
      split
      · apply consumedOut_of_noData
        apply noData_andThen
        · exact noData_resReceiverFinalizeClear _
        · intro c1
          apply noData_andThen
          · exact noData_runCallback ..
          · intro c2; exact NoData.ok
      · cases hn : c.out.copyByte with
        | none => simp only; intro _; exact copyByte_none _ hn
        | some p =>
          obtain ⟨d, b⟩ := p
          have wd := copyByte_some_wfbo _ _ d b w hn
          simp only
          split
          · exact ih _ _ wd
          · have he := eol_spec_wfbo cfg.fieldLimitHard b lfcr { c with out := d } wd
            split
            · rename_i rc heq
              rw [heq] at he
              intro _; exact he
            · rename_i heq
              rw [heq] at he
              exact ih _ _ he
            · rename_i c2 lfcr2 ecr2 heq
              rw [heq] at he
              split
              · exact consumedOut_of_noData _ NoData.error
              · rename_i d2 data hc
                have w2 := consolidate_wfbo _ _ _ _ _ he hc
                split
                · exact ih _ _ w2
                · split
                  · apply consumedOut_of_noData
                    apply noData_andThen
                    · exact noData_resFlushHeader _
                    · intro c1
                      split
                      · exact NoData.ok
                      · apply noData_andThen
                        · exact noData_resReceiverFinalizeClear _
                        · intro c2
                          apply noData_andThen
                          · exact noData_runCallback ..
                          · intro c3; exact NoData.ok
                  · have hs := resHeaderLine_spec uid (Parse.chomp data).1 { c2 with out := d2 }
                    apply consumedOut_andThen_wfbo cfg.fieldLimitHard _ _ hs.1 (wfbo_keep (keepO_resHeaderLine uid (Parse.chomp data).1 { c2 with out := d2 }) w2)
                    intro c3 w3
                    exact ih _ _ (wfbo_clearBuffer _ _ w3)


/-- every response state function, under the loop invariant: HTP_DATA / HTP_DATA_BUFFER is answered only with the chunk used up -/
theorem consumedOutB_resStateFn (cfg : Cfg) (c : Conn) (w : WFBO cfg.fieldLimitHard c.out)
    (ho1 : c.outState = ResState.bodyIdentityClKnown → 0 < c.out.bodyDataLeft)
    (ho2 : c.outState = ResState.bodyChunkedData → 0 < c.out.chunkedLength) : ConsumedOut (resStateFn cfg c) := by
  unfold resStateFn
  cases hs : c.outState with
  | idle => exact consumedOut_resIdle cfg c
  | line => exact consumedOutB_resLineLoop cfg _ c w
  | headers => exact consumedOutB_resHeadersLoop cfg _ false c w
  | bodyDetermine => exact consumedOut_of_noData _ (noData_resBodyDetermine cfg c)
  | bodyIdentityClKnown => exact consumedOut_resBodyIdentityClKnown cfg c (ho1 hs)
  | bodyIdentityStreamClose => exact consumedOut_resBodyIdentityStreamClose cfg c
  | bodyChunkedLength => exact consumedOut_resChunkedLengthLoop cfg _ c
  | bodyChunkedData => exact consumedOut_resBodyChunkedData cfg c (ho2 hs)
  | bodyChunkedDataEnd => exact consumedOut_resChunkedDataEndLoop _ c
  | finalize => exact consumedOut_resFinalize cfg c

theorem noData_resReceiverSet (h : Hook) (c : Conn) : NoData (resReceiverSet h c).2 := by
  unfold resReceiverSet
  simp only
  exact noData_resReceiverFinalizeClear c

theorem noData_resHandleStateChange (c : Conn) : NoData (resHandleStateChange c).2 := by
  unfold resHandleStateChange
  split
  · exact NoData.ok
  · simp only
    apply noData_andThen
    · repeat' split
      all_goals first | exact NoData.ok | exact NoData.error | exact noData_resReceiverSet _ _
    · intro c1; exact NoData.ok

/-- the two counted body states still owe bytes -/
def OwedPosO (c : Conn) : Prop :=
  (c.outState = ResState.bodyIdentityClKnown → 0 < c.out.bodyDataLeft) ∧ (c.outState = ResState.bodyChunkedData → 0 < c.out.chunkedLength)

theorem owedOKO_of_pos {c : Conn} (h : OwedPosO c) : OwedOKO c :=
  ⟨fun e => Int.le_of_lt (h.1 e), fun e => Int.le_of_lt (h.2 e)⟩

/-- **DATA means the whole chunk was consumed, for the whole loop of a response data call**: whenever the loop returns STREAM_DATA the read
    cursor stands at the end of the chunk - provided every pass of the call finds the counted body states still owing bytes (they are
    entered with a positive amount and left when it reaches zero) -/
theorem resDriverLoop_data_consumed (cfg : Cfg) (fuel : Nat) (c0 c : Conn) (hr : CallReachO cfg c0 c) (w : WFBO cfg.fieldLimitHard c.out)
    (ho : ∀ c', CallReachO cfg c0 c' → OwedPosO c')
    (hdata : (resDriverLoop cfg false fuel c).2 = STREAM_DATA) :
    (resDriverLoop cfg false fuel c).1.out.len ≤ (resDriverLoop cfg false fuel c).1.out.read := by
  induction fuel generalizing c with
  | zero => unfold resDriverLoop at hdata; simp only at hdata; exact absurd hdata (by decide)
  | succ k ih =>
    have hoc := ho c hr
    by_cases hd : (resStateFn cfg c).2 = Rc.ok
    · have ws := wfboOut_resStateFn cfg c w (owedOKO_of_pos hoc).1 (owedOKO_of_pos hoc).2
      unfold resDriverLoop at hdata ⊢
      simp only [Bool.false_eq_true, if_false] at hdata ⊢
      rcases hx : resStateFn cfg c with ⟨c1, rc1⟩
      have hstep := CallReachO.step c hr hd
      rw [hx] at hd ws hstep hdata
      simp only at hd ws hstep hdata ⊢
      subst hd
      simp only [beq_self_eq_true, if_true] at hdata ⊢
      by_cases ht : (c1.out.status == STREAM_TUNNEL) = true
      · simp only [ht, if_true, beq_self_eq_true] at hdata
        exact absurd hdata (by decide)
      · have ht' : (c1.out.status == STREAM_TUNNEL) = false := by simpa using ht
        simp only [ht', Bool.false_eq_true, if_false] at hdata ⊢
        have wh := wfboOut_resHandleStateChange cfg.fieldLimitHard c1 ws
        have hn := noData_resHandleStateChange c1
        have hstep2 := hstep ht'
        rcases hy : resHandleStateChange c1 with ⟨c2, rc2⟩
        rw [hy] at wh hstep2 hdata hn
        simp only at wh hstep2 hdata hn ⊢
        cases rc2 with
        | ok =>
          simp only [beq_self_eq_true, if_true] at hdata ⊢
          split at hdata
          · simp only at hdata; exact absurd hdata (by decide)
          · rename_i htt
            simp only [htt, if_false]
            exact ih c2 (hstep2 rfl) wh hdata
        | data => exact absurd rfl hn.1
        | dataBuffer => exact absurd rfl hn.2
        | dataOther =>
          simp only [show (Rc.dataOther == Rc.ok) = false by decide, show (Rc.dataOther == Rc.data || Rc.dataOther == Rc.dataBuffer) = false by decide, show (Rc.dataOther == Rc.stop) = false by decide, show (Rc.dataOther == Rc.dataOther) = true by decide, Bool.false_eq_true, if_false, if_true] at hdata ⊢
          split at hdata
          · rename_i hge
            simp only [hge, if_true]
          · simp only at hdata; exact absurd hdata (by decide)
        | error =>
          simp only [show (Rc.error == Rc.ok) = false by decide, show (Rc.error == Rc.data || Rc.error == Rc.dataBuffer) = false by decide, show (Rc.error == Rc.stop) = false by decide, show (Rc.error == Rc.dataOther) = false by decide, Bool.false_eq_true, if_false] at hdata
          exact absurd hdata (by decide)
        | stop =>
          simp only [show (Rc.stop == Rc.ok) = false by decide, show (Rc.stop == Rc.data || Rc.stop == Rc.dataBuffer) = false by decide, show (Rc.stop == Rc.stop) = true by decide, show (Rc.stop == Rc.dataOther) = false by decide, Bool.false_eq_true, if_false, if_true] at hdata
          exact absurd hdata (by decide)
        | declined =>
          simp only [show (Rc.declined == Rc.ok) = false by decide, show (Rc.declined == Rc.data || Rc.declined == Rc.dataBuffer) = false by decide, show (Rc.declined == Rc.stop) = false by decide, show (Rc.declined == Rc.dataOther) = false by decide, Bool.false_eq_true, if_false] at hdata
          exact absurd hdata (by decide)
    · by_cases hdd : (resStateFn cfg c).2 = Rc.data ∨ (resStateFn cfg c).2 = Rc.dataBuffer
      · obtain ⟨_, h2, h3⟩ := resDriverLoop_data_step cfg k c hdd
        rw [h2, h3]
        exact consumedOutB_resStateFn cfg c w hoc.1 hoc.2 hdd
      · unfold resDriverLoop at hdata ⊢
        simp only [Bool.false_eq_true, if_false] at hdata ⊢
        rcases hx : resStateFn cfg c with ⟨c1, rc1⟩
        rw [hx] at hd hdd hdata
        simp only at hd hdd hdata ⊢
        cases rc1 with
        | ok => exact absurd rfl hd
        | data => exact absurd (Or.inl rfl) hdd
        | dataBuffer => exact absurd (Or.inr rfl) hdd
        | dataOther =>
          simp only [show (Rc.dataOther == Rc.ok) = false by decide, show (Rc.dataOther == Rc.data || Rc.dataOther == Rc.dataBuffer) = false by decide, show (Rc.dataOther == Rc.stop) = false by decide, show (Rc.dataOther == Rc.dataOther) = true by decide, Bool.false_eq_true, if_false, if_true] at hdata ⊢
          split at hdata
          · rename_i hge
            simp only [hge, if_true]
          · simp only at hdata; exact absurd hdata (by decide)
        | error =>
          simp only [show (Rc.error == Rc.ok) = false by decide, show (Rc.error == Rc.data || Rc.error == Rc.dataBuffer) = false by decide, show (Rc.error == Rc.stop) = false by decide, show (Rc.error == Rc.dataOther) = false by decide, Bool.false_eq_true, if_false] at hdata
          exact absurd hdata (by decide)
        | stop =>
          simp only [show (Rc.stop == Rc.ok) = false by decide, show (Rc.stop == Rc.data || Rc.stop == Rc.dataBuffer) = false by decide, show (Rc.stop == Rc.stop) = true by decide, show (Rc.stop == Rc.dataOther) = false by decide, Bool.false_eq_true, if_false, if_true] at hdata
          exact absurd hdata (by decide)
        | declined =>
          simp only [show (Rc.declined == Rc.ok) = false by decide, show (Rc.declined == Rc.data || Rc.declined == Rc.dataBuffer) = false by decide, show (Rc.declined == Rc.stop) = false by decide, show (Rc.declined == Rc.dataOther) = false by decide, Bool.false_eq_true, if_false] at hdata
          exact absurd hdata (by decide)

/-- **DATA means the whole chunk was consumed, for a whole response data call**: htp_connp_res_data on any state and any chunk of data that
    returns HTP_STREAM_DATA leaves the read cursor exactly at the end of the chunk - provided the line buffer was within the limit (the
    invariant carried from call to call) and every pass of the call finds the counted body states still owing bytes -/
theorem resData_data_consumed (cfg : Cfg) (d : Bytes) (c : Conn) (hs : (d.length : Int) < 18446744073709551616)
    (hb : outBufLen c ≤ cfg.fieldLimitHard)
    (ho : ∀ c', CallReachO cfg (resStoreChunk (some d) d.length c) c' → OwedPosO c')
    (hdata : (resData cfg (some d) d.length c).2 = STREAM_DATA) :
    (resData cfg (some d) d.length c).1.out.read = (resData cfg (some d) d.length c).1.out.len := by
  unfold resData at hdata ⊢
  simp only at hdata ⊢
  unfold resDataCore at hdata ⊢
  have wst := wfbo_resStoreChunk cfg.fieldLimitHard d c hs hb
  split at hdata
  · simp only at hdata; exact absurd hdata (by decide)
  split at hdata
  · simp only at hdata; exact absurd hdata (by decide)
  split at hdata
  · simp only at hdata; exact absurd hdata (by decide)
  split at hdata
  · simp only at hdata; exact absurd hdata (by decide)
  simp only at hdata
  split at hdata
  · simp only at hdata; exact absurd hdata (by decide)
  · rename_i h1 h2 h3 h4 h5
    simp only [h1, h2, h3, h4, h5, if_false]
    have hc := resDriverLoop_data_consumed cfg _ _ _ CallReachO.start wst ho hdata
    have hw := (resDriverLoop_wfbo cfg (8 * d.length + 64) _ _ CallReachO.start wst (fun c' h => owedOKO_of_pos (ho c' h))).1.rl
    exact Int.le_antisymm hw hc


end Htp.Conn
