/- C04 (responses are paired with their requests, in order) over whole histories: `out_next_tx_index` and HTP_CONN_PIPELINED.

   `idxView c` = (out_next_tx_index, length of the transaction list, CONN_PIPELINED set). `KeepIdx c c'`: the index is the same, the
   list is not shorter, PIPELINED is not cleared - every function of the request side (transaction creation included) and every
   function of the response side except RES_IDLE / its unmatched path and their callers. `OkIdx c c'`: `index ≤ length` is kept and
   PIPELINED is not cleared - RES_IDLE (+1, and the slot exists or a transaction is appended), htp_connp_tx_freed (index and length
   both go down by the number of dropped slots), and the calls above them. The lower bound `0 ≤ index` is NOT kept by
   htp_connp_tx_freed from an arbitrary state (witness at the end of the file). -/
import HtpModel.Lemmas.TxCountOut
import HtpModel.Lemmas.Flags
namespace Htp.Conn
open Htp Htp.Gen

/-- what this file looks at: out_next_tx_index, the length of the transaction list, and whether HTP_CONN_PIPELINED is set -/
@[reducible] def idxView (c : Conn) : Int × Nat × Bool := (c.outNextTxIndex, c.txs.length, hasFlag c.connFlags CONN_PIPELINED)

/-- **the invariant**: the response side does not point beyond the transaction list -/
def IdxInv (c : Conn) : Prop := c.outNextTxIndex ≤ (c.txs.length : Int)

@[reducible] def Kv (v v' : Int × Nat × Bool) : Prop := v'.1 = v.1 ∧ v.2.1 ≤ v'.2.1 ∧ (v.2.2 = true → v'.2.2 = true)
@[reducible] def Gv (v v' : Int × Nat × Bool) : Prop := (v.1 ≤ (v.2.1 : Int) → v'.1 ≤ (v'.2.1 : Int)) ∧ (v.2.2 = true → v'.2.2 = true)
theorem Kv.refl (v : Int × Nat × Bool) : Kv v v := ⟨rfl, Nat.le_refl _, id⟩
theorem Gv.refl (v : Int × Nat × Bool) : Gv v v := ⟨id, id⟩

/-- the index is not written, the list is not shorter, PIPELINED is not cleared -/
structure KeepIdx (c c' : Conn) : Prop where
  le : Kv (idxView c) (idxView c')

/-- `index ≤ length` is kept, PIPELINED is not cleared -/
structure OkIdx (c c' : Conn) : Prop where
  le : Gv (idxView c) (idxView c')

theorem KeepIdx.refl (c : Conn) : KeepIdx c c := ⟨Kv.refl _⟩
theorem KeepIdx.trans {a b c : Conn} (h1 : KeepIdx a b) (h2 : KeepIdx b c) : KeepIdx a c := by
  obtain ⟨a1, a2, a3⟩ := h1.le
  obtain ⟨b1, b2, b3⟩ := h2.le
  exact ⟨⟨b1.trans a1, Nat.le_trans a2 b2, fun h => b3 (a3 h)⟩⟩
theorem OkIdx.refl (c : Conn) : OkIdx c c := ⟨Gv.refl _⟩
theorem OkIdx.trans {a b c : Conn} (h1 : OkIdx a b) (h2 : OkIdx b c) : OkIdx a c :=
  ⟨⟨fun h => h2.le.1 (h1.le.1 h), fun h => h2.le.2 (h1.le.2 h)⟩⟩
theorem KeepIdx.grow {c c' : Conn} (h : KeepIdx c c') : OkIdx c c' := by
  obtain ⟨a1, a2, a3⟩ := h.le
  refine ⟨⟨?_, a3⟩⟩
  intro hi
  simp only at a1 a2 hi ⊢
  omega
theorem keepIdx_of_view {c c' : Conn} (h : idxView c' = idxView c) : KeepIdx c c' := ⟨by rw [h]; exact Kv.refl _⟩

/-! ### the writers of the list -/

theorem keepIdx_modTx (u : Nat) (f : Tx → Tx) (c : Conn) : KeepIdx c (c.modTx u f) :=
  ⟨⟨rfl, Nat.le_of_eq (modTx_length u f c).symm, id⟩⟩

theorem keepIdx_modIn (f : Tx → Tx) (c : Conn) : KeepIdx c (c.modIn f) := by
  unfold Conn.modIn
  split
  · exact keepIdx_modTx _ f c
  · exact KeepIdx.refl c

theorem keepIdx_modOut (f : Tx → Tx) (c : Conn) : KeepIdx c (c.modOut f) := by
  unfold Conn.modOut
  split
  · exact keepIdx_modTx _ f c
  · exact KeepIdx.refl c

theorem keepIdx_setTx (t : Tx) (c : Conn) : KeepIdx c (c.setTx t) :=
  ⟨⟨rfl, Nat.le_of_eq (setTx_length t c).symm, id⟩⟩

theorem keepIdx_destroyTx (u : Nat) (c : Conn) : KeepIdx c (destroyTx u c) :=
  ⟨⟨rfl, Nat.le_of_eq (destroyTx_length u c).symm, id⟩⟩

/-- **transaction creation** does not write the index, appends at most, and only ever sets PIPELINED -/
theorem keepIdx_txCreate (cfg : Cfg) (c : Conn) : KeepIdx c (txCreate cfg c).1 := by
  have hp : hasFlag c.connFlags CONN_PIPELINED = true →
      hasFlag (if (c.txs.length : Int) > c.outNextTxIndex then setFlag c.connFlags CONN_PIPELINED else c.connFlags) CONN_PIPELINED = true := by
    intro h
    split
    · exact hasFlag_or_left _ _ _ h
    · exact h
  unfold txCreate
  simp only
  split
  · exact ⟨⟨rfl, Nat.le_refl _, hp⟩⟩
  · refine ⟨⟨rfl, ?_, hp⟩⟩
    simp only [List.length_append, List.length_cons, List.length_nil]
    exact Nat.le_succ _

/-- a successful creation appends exactly one entry -/
theorem txCreate_len_some (cfg : Cfg) (c : Conn) (uid : Nat) (h : (txCreate cfg c).2 = some uid) :
    (txCreate cfg c).1.txs.length = c.txs.length + 1 := by
  unfold txCreate at h ⊢
  simp only at h ⊢
  cases hm : (decide (cfg.maxTx > 0) && decide (c.txs.length > cfg.maxTx))
  · simp only [hm, Bool.false_eq_true, if_false] at h ⊢
    simp
  · simp [hm] at h

theorem eol_view (b : UInt8) (lfcr : Bool) (c : Conn) :
    ∀ c2 l e a, resHeadersEol b lfcr c = .ok (c2, l, e, a) → idxView c2 = idxView c := by
  intro c2 l e a h
  unfold resHeadersEol at h
  simp only [] at h
  repeat' split at h
  all_goals first
    | (simp only [Except.ok.injEq, Prod.mk.injEq] at h; rw [← h.1])
    | (simp at h)

/-- sequencing with `>>?` -/
theorem keepIdx_andThen (c0 : Conn) (r : R) (f : Conn → R) (h1 : KeepIdx c0 r.1) (h2 : ∀ c, KeepIdx c (f c).1) :
    KeepIdx c0 (r >>? f).1 := by
  unfold R.andThen
  split
  · exact h1.trans (h2 r.1)
  · exact h1


/-! ### callbacks, body handlers, decompression -/

theorem keepIdx_runCallback (h : Hook) (uid : Option Nat) (data : Option Bytes) (isLast : Bool) (c : Conn) (g : Nat) (s : Bool) :
    KeepIdx c (runCallback h uid data isLast c g s).1 := by
  unfold runCallback
  simp only
  cases lookupAction c.policy c.cbCount with
  | ok => exact ⟨Kv.refl _⟩
  | declined => exact ⟨Kv.refl _⟩
  | stop => exact ⟨Kv.refl _⟩
  | error => exact ⟨Kv.refl _⟩
  | destroyTx =>
    simp only
    cases uid.bind c.findTx with
    | none => exact ⟨Kv.refl _⟩
    | some t =>
      simp only
      split
      · exact KeepIdx.trans (b := { c with cbCount := c.cbCount + 1, events := _ :: c.events }) ⟨Kv.refl _⟩ (keepIdx_destroyTx _ _)
      · exact ⟨Kv.refl _⟩
  | regTxHooks =>
    simp only
    cases uid with
    | none => exact ⟨Kv.refl _⟩
    | some u => exact KeepIdx.trans (b := { c with cbCount := c.cbCount + 1, events := _ :: c.events }) ⟨Kv.refl _⟩ (keepIdx_modTx _ _ _)

theorem keepIdx_runCallbackN (n : Nat) (h : Hook) (uid : Option Nat) (data : Option Bytes) (isLast : Bool) (g : Nat) (c : Conn) :
    KeepIdx c (runCallbackN n h uid data isLast g c).1 := by
  induction n generalizing c with
  | zero => exact KeepIdx.refl c
  | succ k ih =>
    unfold runCallbackN
    exact keepIdx_andThen c _ _ (keepIdx_runCallback ..) (fun c' => ih c')

theorem keepIdx_urlencBodyCallback (cfg : Cfg) (uid : Nat) (data : Option Bytes) (c : Conn) :
    KeepIdx c (urlencBodyCallback cfg uid data c).1 := by
  unfold urlencBodyCallback
  cases c.findTx uid with
  | none => exact KeepIdx.refl c
  | some t =>
    simp only
    cases t.urlenBody with
    | none => exact KeepIdx.refl c
    | some u =>
      simp only
      split
      · exact KeepIdx.refl c
      · cases data with
        | some d => exact keepIdx_setTx _ c
        | none => exact keepIdx_setTx _ c

theorem keepIdx_mpartFileEvents (uid : Nat) (evs : List (Nat × Option Bytes)) (c : Conn) :
    KeepIdx c (mpartFileEvents uid evs c) := by
  induction evs generalizing c with
  | nil => exact KeepIdx.refl c
  | cons e rest ih =>
    obtain ⟨i, d⟩ := e
    unfold mpartFileEvents
    exact (keepIdx_runCallback ..).trans (ih _)

theorem keepIdx_mpartBodyCallback (uid : Nat) (data : Option Bytes) (c : Conn) :
    KeepIdx c (mpartBodyCallback uid data c).1 := by
  unfold mpartBodyCallback
  cases c.findTx uid with
  | none => exact KeepIdx.refl c
  | some t =>
    simp only
    cases t.mpart with
    | none => exact KeepIdx.refl c
    | some mp =>
      simp only
      split
      · exact KeepIdx.refl c
      · cases data with
        | some d => exact (keepIdx_setTx _ c).trans (keepIdx_mpartFileEvents _ _ _)
        | none => exact (keepIdx_setTx _ c).trans (keepIdx_mpartFileEvents _ _ _)

theorem keepIdx_runTxReqBodyHooks (cfg : Cfg) (uid : Nat) (data : Option Bytes) (isLast : Bool) (g : Nat) (hs : List TxHook) (c : Conn) :
    KeepIdx c (runTxReqBodyHooks cfg uid data isLast g hs c).1 := by
  induction hs generalizing c with
  | nil => exact KeepIdx.refl c
  | cons h rest ih =>
    unfold runTxReqBodyHooks
    apply keepIdx_andThen
    · cases h with
      | user => exact keepIdx_runCallback ..
      | urlenc => exact keepIdx_urlencBodyCallback ..
      | mpart => exact keepIdx_mpartBodyCallback ..
    · intro c'
      exact ih c'

theorem keepIdx_reqRunHookBodyDataL (cfg : Cfg) (data : Option Bytes) (g : Nat) (l : Bool) (c : Conn) :
    KeepIdx c (reqRunHookBodyDataL cfg data g l c).1 := by
  unfold reqRunHookBodyDataL
  split
  · exact KeepIdx.refl c
  · cases c.inn.tx with
    | none => exact KeepIdx.refl c
    | some uid =>
      simp only
      apply keepIdx_andThen
      · exact keepIdx_runTxReqBodyHooks ..
      · intro c2
        apply keepIdx_andThen
        · exact keepIdx_runCallback ..
        · intro c3
          split
          · exact keepIdx_runCallback ..
          · exact KeepIdx.refl c3

theorem keepIdx_reqRunHookBodyData (cfg : Cfg) (data : Option Bytes) (g : Nat) (c : Conn) :
    KeepIdx c (reqRunHookBodyData cfg data g c).1 := by
  unfold reqRunHookBodyData; exact keepIdx_reqRunHookBodyDataL ..

theorem keepIdx_unsupported (c : Conn) : KeepIdx c { c with unsupported := true } := ⟨Kv.refl _⟩
theorem keepIdx_zoracle (c : Conn) (zs : List ZRes) : KeepIdx c { c with zoracle := zs } := ⟨Kv.refl _⟩

theorem keepIdx_resRunHookBodyData (data : Option Bytes) (c : Conn) : KeepIdx c (resRunHookBodyData data c).1 := by
  unfold resRunHookBodyData
  split
  · exact KeepIdx.refl c
  · cases c.out.tx with
    | none => exact KeepIdx.refl c
    | some uid =>
      simp only
      apply keepIdx_andThen
      · exact keepIdx_runCallbackN ..
      · intro c2; exact keepIdx_runCallback ..

theorem keepIdx_decFinalCallback (cfg : Cfg) (req : Bool) (uid : Nat) (l : Bool) (data : Option Bytes) (c : Conn) :
    KeepIdx c (decFinalCallback cfg req uid l data c).1 := by
  unfold decFinalCallback
  simp only
  cases req with
  | true =>
    simp only [if_true]
    have h := keepIdx_reqRunHookBodyDataL cfg data 0 l (c.modTx uid fun t => { t with reqEntityLen := t.reqEntityLen + (data.map (·.length)).getD 0 })
    have h0 := (keepIdx_modTx uid (fun t => { t with reqEntityLen := t.reqEntityLen + (data.map (·.length)).getD 0 }) c).trans h
    split
    · exact h0
    · split <;> exact h0
  | false =>
    simp only [Bool.false_eq_true, if_false]
    have h := keepIdx_resRunHookBodyData data (c.modTx uid fun t => { t with resEntityLen := t.resEntityLen + (data.map (·.length)).getD 0 })
    have h0 := (keepIdx_modTx uid (fun t => { t with resEntityLen := t.resEntityLen + (data.map (·.length)).getD 0 }) c).trans h
    split
    · exact h0
    · split <;> exact h0

/-- the functions of the decompression driver do not lengthen the list -/
theorem keepIdx_dec (cfg : Cfg) (req : Bool) (uid : Nat) : ∀ fuel : Nat,
    (∀ l useNext rest data c, KeepIdx c (decSend cfg req uid l fuel useNext rest data c).2.1) ∧
    (∀ d drec rest inp c, KeepIdx c (decLoop cfg req uid d fuel drec rest inp c).2.1) ∧
    (∀ d drec rest inp c, KeepIdx c (decStep cfg req uid d fuel drec rest inp c).2.1) ∧
    (∀ ds data c, KeepIdx c (decompress cfg req uid fuel ds data c).2.1) := by
  intro fuel
  induction fuel with
  | zero =>
    refine ⟨?_, ?_, ?_, ?_⟩
    · intro l useNext rest data c; unfold decSend; exact keepIdx_unsupported c
    · intro d drec rest inp c; unfold decLoop; exact keepIdx_unsupported c
    · intro d drec rest inp c; unfold decStep; exact keepIdx_unsupported c
    · intro ds data c; unfold decompress; exact keepIdx_unsupported c
  | succ k ih =>
    obtain ⟨ihS, ihL, ihT, ihD⟩ := ih
    refine ⟨?_, ?_, ?_, ?_⟩
    · intro l useNext rest data c
      unfold decSend
      split
      · exact ihD ..
      · exact keepIdx_decFinalCallback ..
    · intro d drec rest inp c
      unfold decLoop
      split
      · exact KeepIdx.refl c
      · by_cases hfull : (drec.buf.length == GZIP_BUF_SIZE) = true
        · simp only [hfull, if_true]
          rcases hx : decSend cfg req uid false k (drec.kind != 0) rest (some drec.buf) c with ⟨rest1, c1, rc1⟩
          have f1 : KeepIdx c c1 := by have := ihS false (drec.kind != 0) rest (some drec.buf) c; rw [hx] at this; exact this
          simp only
          by_cases hrc : (rc1 != Rc.ok) = true
          · simp only [hrc, if_true]; exact f1
          · simp only [hrc, Bool.false_eq_true, if_false]
            exact f1.trans (ihT ..)
        · simp only [hfull, Bool.false_eq_true, if_false]
          exact ihT ..
    · intro d drec rest inp c
      unfold decStep
      split
      · exact keepIdx_unsupported c
      split
      · exact KeepIdx.refl c
      split
      · exact keepIdx_unsupported c
      · rename_i z zs hz
        simp only
        generalize (if ((drec.buf ++ z.produced).length > 0 && z.rc == Z_DATA_ERROR) = true then Z_STREAM_END else z.rc) = rcv
        split
        · -- stream end: the buffer goes out
          rcases hx : decSend cfg req uid false k (drec.kind != 0) rest (some (drec.buf ++ z.produced)) { c with zoracle := zs } with ⟨rest1, c1, rc1⟩
          have f1 : KeepIdx c c1 := by
            have := ihS false (drec.kind != 0) rest (some (drec.buf ++ z.produced)) { c with zoracle := zs }
            rw [hx] at this; exact (keepIdx_zoracle c zs).trans this
          simp only
          split <;> exact f1
        · split
          · split
            · split
              · exact keepIdx_zoracle c zs
              · exact (keepIdx_zoracle c zs).trans (ihL ..)
            · rcases hx : decFinalCallback cfg req uid false (some d) { c with zoracle := zs } with ⟨c1, rc1⟩
              have f1 : KeepIdx c c1 := by
                have := keepIdx_decFinalCallback cfg req uid false (some d) { c with zoracle := zs }
                rw [hx] at this; exact (keepIdx_zoracle c zs).trans this
              simp only
              split <;> exact f1
          · exact (keepIdx_zoracle c zs).trans (ihL ..)
    · intro ds data c
      unfold decompress
      cases ds with
      | nil => exact KeepIdx.refl c
      | cons drec rest =>
        simp only
        split
        · rcases hx : decFinalCallback cfg req uid data.isNone data c with ⟨c1, rc1⟩
          have f1 : KeepIdx c c1 := by have := keepIdx_decFinalCallback cfg req uid data.isNone data c; rw [hx] at this; exact this
          exact f1
        · cases data with
          | none =>
            simp only
            rcases hx : decSend cfg req uid true k (drec.kind != 0) rest (if drec.buf.length > 0 then some drec.buf else none) c with ⟨rest1, c1, rc1⟩
            have f1 : KeepIdx c c1 := by
              have := ihS true (drec.kind != 0) rest (if drec.buf.length > 0 then some drec.buf else none) c; rw [hx] at this; exact this
            simp only
            split <;> exact f1
          | some d => exact ihL ..


/-- body processing does not lengthen the list - with or without the request decompressor in the way -/
theorem keepIdx_reqProcessBodyData (cfg : Cfg) (data : Option Bytes) (g : Nat) (c : Conn) :
    KeepIdx c (reqProcessBodyData cfg data g c).1 := by
  unfold reqProcessBodyData
  cases c.inn.tx with
  | none => exact KeepIdx.refl c
  | some uid =>
    simp only
    split
    · split
      · exact KeepIdx.refl c
      · split
        · exact keepIdx_unsupported c
        split
        · exact keepIdx_unsupported c
        · rcases hx : decompress cfg true uid (8 * (data.map (·.length)).getD g + 128) c.inDecs data c with ⟨ds, c1, rc1⟩
          have f1 : KeepIdx c c1 := by
            have := (keepIdx_dec cfg true uid (8 * (data.map (·.length)).getD g + 128)).2.2.2 c.inDecs data c
            rw [hx] at this; exact this
          simp only
          exact f1.trans ⟨Kv.refl _⟩
    · have h := keepIdx_reqRunHookBodyData cfg data g
        (c.modTx uid fun t => { t with reqEntityLen := t.reqEntityLen + (data.map (·.length)).getD g })
      split <;> exact (keepIdx_modTx _ _ c).trans h


/-! ### receivers and the transaction state functions of the request side -/

theorem keepIdx_reqReceiverSend (l : Bool) (c : Conn) : KeepIdx c (reqReceiverSend l c).1 := by
  unfold reqReceiverSend
  cases c.inn.receiverHook with
  | none => exact KeepIdx.refl c
  | some h =>
    simp only
    apply keepIdx_andThen
    · exact keepIdx_runCallback ..
    · intro c2; exact ⟨Kv.refl _⟩

theorem keepIdx_reqReceiverFinalizeClear (c : Conn) : KeepIdx c (reqReceiverFinalizeClear c).1 := by
  unfold reqReceiverFinalizeClear
  cases c.inn.receiverHook with
  | none => exact KeepIdx.refl c
  | some h =>
    simp only
    exact (keepIdx_reqReceiverSend true c).trans ⟨Kv.refl _⟩

theorem keepIdx_reqReceiverSet (h : Hook) (c : Conn) : KeepIdx c (reqReceiverSet h c).1 := by
  unfold reqReceiverSet
  simp only
  exact (keepIdx_reqReceiverFinalizeClear c).trans ⟨Kv.refl _⟩

theorem keepIdx_txFinalize (cfg : Cfg) (uid : Nat) (c : Conn) : KeepIdx c (txFinalize cfg uid c).1 := by
  unfold txFinalize
  cases c.findTx uid with
  | none => exact KeepIdx.refl c
  | some t =>
    simp only
    split
    · exact KeepIdx.refl c
    · apply keepIdx_andThen
      · exact keepIdx_runCallback ..
      · intro c1
        split
        · split
          · exact keepIdx_destroyTx ..
          · exact KeepIdx.refl _
        · exact KeepIdx.refl _

theorem keepIdx_txStateRequestCompletePartial (cfg : Cfg) (uid : Nat) (c : Conn) :
    KeepIdx c (txStateRequestCompletePartial cfg uid c).1 := by
  unfold txStateRequestCompletePartial
  simp only
  apply keepIdx_andThen
  · split
    · exact keepIdx_reqProcessBodyData ..
    · exact KeepIdx.refl c
  · intro c1
    apply keepIdx_andThen
    · exact (keepIdx_modTx _ _ c1).trans (keepIdx_runCallback ..)
    · intro c2
      apply keepIdx_andThen
      · exact keepIdx_reqReceiverFinalizeClear c2
      · intro c3; exact ⟨Kv.refl _⟩

theorem keepIdx_txStateRequestComplete (cfg : Cfg) (uid : Nat) (c : Conn) : KeepIdx c (txStateRequestComplete cfg uid c).1 := by
  unfold txStateRequestComplete
  simp only
  apply keepIdx_andThen
  · split
    · exact keepIdx_txStateRequestCompletePartial ..
    · exact KeepIdx.refl c
  · intro c1
    have kf := keepIdx_txFinalize cfg uid { c1 with inState := if ((c1.findTx uid).map (·.is09)).getD ((c.findTx uid).getD { uid := uid }).is09 then .ignoreDataAfter09 else .idle }
    rcases hx : txFinalize cfg uid { c1 with inState := if ((c1.findTx uid).map (·.is09)).getD ((c.findTx uid).getD { uid := uid }).is09 then .ignoreDataAfter09 else .idle } with ⟨c2, rc2⟩
    rw [hx] at kf
    exact ⟨kf.le⟩

theorem keepIdx_txStateRequestStart (uid : Nat) (c : Conn) : KeepIdx c (txStateRequestStart uid c).1 := by
  unfold txStateRequestStart
  apply keepIdx_andThen
  · exact keepIdx_runCallback ..
  · intro c1
    exact ⟨(keepIdx_modIn _ { c1 with inState := .line }).le⟩

theorem keepIdx_processRequestHeader (data : Bytes) (c : Conn) : KeepIdx c (processRequestHeader data c).1 := by
  unfold processRequestHeader
  simp only
  exact (keepIdx_modIn _ c).trans (keepIdx_modIn _ _)

theorem keepIdx_reqFlushHeader (c : Conn) : KeepIdx c (reqFlushHeader c).1 := by
  unfold reqFlushHeader
  cases c.inn.header with
  | none => exact KeepIdx.refl c
  | some h =>
    simp only
    have := keepIdx_processRequestHeader h c
    split
    · exact this
    · exact this.trans ⟨Kv.refl _⟩

theorem keepIdx_installUrlenc (cfg : Cfg) (uid : Nat) (t : Tx) (c : Conn) : KeepIdx c (installUrlenc cfg uid t c) := by
  unfold installUrlenc
  simp only []
  repeat' split
  all_goals first | exact KeepIdx.refl c | exact keepIdx_setTx _ c

theorem keepIdx_installMpart (cfg : Cfg) (uid : Nat) (t : Tx) (c : Conn) : KeepIdx c (installMpart cfg uid t c) := by
  unfold installMpart
  simp only []
  repeat' split
  all_goals first | exact KeepIdx.refl c | exact keepIdx_setTx _ c

theorem keepIdx_txProcessRequestHeadersTail (cfg : Cfg) (uid : Nat) (t : Tx) (ae : Bool) (c : Conn) :
    KeepIdx c (txProcessRequestHeadersTail cfg uid t ae c).1 := by
  unfold txProcessRequestHeadersTail
  split
  · exact KeepIdx.refl c
  · apply keepIdx_andThen
    · exact keepIdx_reqReceiverFinalizeClear c
    · intro c1
      exact ((keepIdx_installUrlenc cfg uid t c1).trans (keepIdx_installMpart cfg uid t _)).trans (keepIdx_runCallback ..)

/-- htp_tx_process_request_headers: it stores the transaction record back with `setTx` -/
theorem keepIdx_txProcessRequestHeaders (cfg : Cfg) (uid : Nat) (c : Conn) : KeepIdx c (txProcessRequestHeaders cfg uid c).1 := by
  unfold txProcessRequestHeaders
  extract_lets t0 ce enc c2 t1 c1 fr t2 hasBody c0 un
  have k2 : KeepIdx c c2 := keepIdx_modTx ..
  have k1 : KeepIdx c2 c1 := by
    simp only [c1]
    split
    · exact ⟨Kv.refl _⟩
    · exact KeepIdx.refl _
  have k0 : KeepIdx c1 c0 := by
    simp only [c0]
    split
    · exact ⟨Kv.refl _⟩
    · exact KeepIdx.refl _
  have hc0 : KeepIdx c c0 := (k2.trans k1).trans k0
  clear_value c0
  split
  extract_lets t3 t4 t5
  clear_value t5
  split
  rename_i T ae heq
  exact hc0.trans ((keepIdx_setTx T c0).trans (keepIdx_txProcessRequestHeadersTail ..))

theorem keepIdx_urlencQueryCallback (cfg : Cfg) (uid : Nat) (c : Conn) : KeepIdx c (urlencQueryCallback cfg uid c) := by
  unfold urlencQueryCallback
  cases c.findTx uid with
  | none => exact KeepIdx.refl c
  | some t =>
    simp only []
    repeat' split
    all_goals first | exact KeepIdx.refl c | exact keepIdx_setTx _ c

theorem keepIdx_txStateRequestLine (cfg : Cfg) (uid : Nat) (c : Conn) : KeepIdx c (txStateRequestLine cfg uid c).1 := by
  unfold txStateRequestLine
  extract_lets t0 hp fl1 fl2 src t1 t2 t3 c1
  split
  · exact KeepIdx.refl c
  · have hc1 : KeepIdx c c1 := keepIdx_setTx t3 c
    clear_value c1
    refine hc1.trans (keepIdx_andThen c1 _ _ (keepIdx_runCallback ..) ?_)
    intro c2
    have k3 : KeepIdx c2 (if cfg.urlencParsers then urlencQueryCallback cfg uid c2 else c2) := by
      split
      · exact keepIdx_urlencQueryCallback ..
      · exact KeepIdx.refl _
    apply keepIdx_andThen
    · exact k3.trans (keepIdx_runCallback ..)
    · intro c3; exact ⟨Kv.refl _⟩

theorem keepIdx_txStateRequestHeaders (cfg : Cfg) (uid : Nat) (c : Conn) : KeepIdx c (txStateRequestHeaders cfg uid c).1 := by
  unfold txStateRequestHeaders
  simp only
  split
  · apply keepIdx_andThen
    · exact keepIdx_runCallback ..
    · intro c1
      apply keepIdx_andThen
      · exact keepIdx_reqReceiverFinalizeClear c1
      · intro c2; exact ⟨Kv.refl _⟩
  · split
    · have k0 : KeepIdx c (if c.inChunkCount != c.inChunkRequestIndex then c.modTx uid (fun t => { t with flags := t.flags ||| MULTI_PACKET_HEAD }) else c) := by
        split
        · exact keepIdx_modTx ..
        · exact KeepIdx.refl c
      apply keepIdx_andThen
      · exact k0.trans (keepIdx_txProcessRequestHeaders ..)
      · intro c1; exact ⟨Kv.refl _⟩
    · exact KeepIdx.refl c

/-! ### the fourteen request state functions -/

theorem keepIdx_inn (c : Conn) (d : Dir) : KeepIdx c { c with inn := d } := ⟨Kv.refl _⟩

/-- REQ_IDLE is the one request state that creates a transaction -/
theorem keepIdx_reqIdle (cfg : Cfg) (c : Conn) : KeepIdx c (reqIdle cfg c).1 := by
  unfold reqIdle
  split
  · exact KeepIdx.refl c
  · have k := keepIdx_txCreate cfg c
    rcases hx : txCreate cfg c with ⟨c1, u⟩
    rw [hx] at k
    simp only at k ⊢
    cases u with
    | none => exact k.trans ⟨Kv.refl _⟩
    | some uid =>
      simp only
      have k2 := keepIdx_txStateRequestStart uid c1
      rcases hy : txStateRequestStart uid c1 with ⟨c2, rc2⟩
      rw [hy] at k2
      exact k.trans (k2)

theorem keepIdx_reqLineComplete (cfg : Cfg) (c : Conn) : KeepIdx c (reqLineComplete cfg c).1 := by
  unfold reqLineComplete
  cases hc : c.inn.consolidate cfg.fieldLimitHard true with
  | none => exact KeepIdx.refl c
  | some p =>
    obtain ⟨d, data⟩ := p
    simp -zeta only
    extract_lets c0 ci line rl c1
    have ki : KeepIdx c ci := (keepIdx_inn c d).trans (keepIdx_modIn _ c0)
    have k1 : KeepIdx c c1 := (keepIdx_inn c d).trans (keepIdx_modIn _ c0)
    clear_value ci c1
    split
    · exact ⟨Kv.refl _⟩
    · split
      · exact ki.trans ⟨Kv.refl _⟩
      · cases c1.inn.tx with
        | none => exact k1
        | some uid =>
          simp only
          have k2 := keepIdx_txStateRequestLine cfg uid c1
          rcases hy : txStateRequestLine cfg uid c1 with ⟨c2, rc2⟩
          rw [hy] at k2
          simp only at k2 ⊢
          split
          · exact k1.trans k2
          · exact (k1.trans k2).trans ⟨Kv.refl _⟩

theorem keepIdx_reqLineLoop (cfg : Cfg) (fuel : Nat) (c : Conn) : KeepIdx c (reqLineLoop cfg fuel c).1 := by
  induction fuel generalizing c with
  | zero => unfold reqLineLoop; exact KeepIdx.refl c
  | succ k ih =>
    unfold reqLineLoop
    simp only
    split
    · exact (keepIdx_inn c _).trans (keepIdx_reqLineComplete cfg _)
    · cases hn : (c.inn.peekSet).1.copyByte with
      | none => exact ⟨Kv.refl _⟩
      | some p =>
        obtain ⟨d, b⟩ := p
        simp only
        split
        · exact (keepIdx_inn c _).trans (keepIdx_reqLineComplete cfg _)
        · exact (keepIdx_inn c _).trans (ih _)

theorem keepIdx_reqProtocol (c : Conn) : KeepIdx c (reqProtocol c).1 := by
  have k1 : KeepIdx c ({ c with inState := .headers }.modIn (fun t => { t with reqProgress := 2 })) :=
    ⟨(keepIdx_modIn _ { c with inState := .headers }).le⟩
  unfold reqProtocol
  simp only []
  repeat' split
  all_goals first
    | exact ⟨Kv.refl _⟩
    | exact k1
    | exact k1.trans (keepIdx_modIn _ _)

theorem keepIdx_reqHeadersLoop (cfg : Cfg) (fuel : Nat) (c : Conn) : KeepIdx c (reqHeadersLoop cfg fuel c).1 := by
  induction fuel generalizing c with
  | zero => unfold reqHeadersLoop; exact KeepIdx.refl c
  | succ k ih =>
    unfold reqHeadersLoop
    cases c.inn.tx with
    | none => exact KeepIdx.refl c
    | some uid =>
      simp only
      split
      · apply keepIdx_andThen
        · exact keepIdx_reqFlushHeader c
        · intro c1
          exact (keepIdx_inn c1 c1.inn.clearBuffer).trans ((keepIdx_modIn _ _).trans (keepIdx_txStateRequestHeaders ..))
      · cases hn : c.inn.copyByte with
        | none => exact KeepIdx.refl c
        | some p =>
          obtain ⟨d, b⟩ := p
          simp only
          split
          · exact (keepIdx_inn c d).trans (ih _)
          · cases hc : d.consolidate cfg.fieldLimitHard true with
            | none => exact ⟨Kv.refl _⟩
            | some q =>
              obtain ⟨d2, data⟩ := q
              simp only
              split
              · apply keepIdx_andThen
                · exact (keepIdx_inn c d2).trans (keepIdx_reqFlushHeader _)
                · intro c1
                  exact (keepIdx_inn c1 _).trans (keepIdx_txStateRequestHeaders ..)
              · apply keepIdx_andThen
                · split
                  · apply keepIdx_andThen
                    · exact (keepIdx_inn c d2).trans (keepIdx_reqFlushHeader _)
                    · intro c1
                      split
                      · split
                        · have kk := keepIdx_processRequestHeader (Parse.chomp data).1 { c1 with inn := (c1.inn.peekSet).1 }
                          split
                          · exact (keepIdx_inn c1 _).trans kk
                          · exact (keepIdx_inn c1 _).trans kk
                        · exact ⟨Kv.refl _⟩
                      · exact ⟨Kv.refl _⟩
                  · split
                    · exact ((keepIdx_inn c d2).trans (keepIdx_modIn _ _)).trans ⟨Kv.refl _⟩
                    · split
                      · exact ⟨Kv.refl _⟩
                      · exact ⟨Kv.refl _⟩
                · intro c1
                  exact (keepIdx_inn c1 _).trans (ih _)

theorem keepIdx_reqConnectCheck (c : Conn) : KeepIdx c (reqConnectCheck c).1 := by
  unfold reqConnectCheck
  split <;> exact ⟨Kv.refl _⟩

theorem keepIdx_reqConnectWaitResponse (c : Conn) : KeepIdx c (reqConnectWaitResponse c).1 := by
  unfold reqConnectWaitResponse
  simp only []
  repeat' split
  all_goals exact ⟨Kv.refl _⟩

theorem keepIdx_reqConnectProbeLoop (cfg : Cfg) (fuel : Nat) (c : Conn) : KeepIdx c (reqConnectProbeLoop cfg fuel c).1 := by
  induction fuel generalizing c with
  | zero => unfold reqConnectProbeLoop; exact KeepIdx.refl c
  | succ k ih =>
    unfold reqConnectProbeLoop
    simp only
    split
    · cases hc : (c.inn.peekSet).1.consolidate cfg.fieldLimitHard true with
      | none => exact ⟨Kv.refl _⟩
      | some q =>
        obtain ⟨d2, data⟩ := q
        simp only
        split
        · split
          · rename_i uid _
            exact (keepIdx_inn c d2).trans (keepIdx_txStateRequestComplete cfg uid _)
          · exact ⟨Kv.refl _⟩
        · exact ⟨Kv.refl _⟩
    · cases hn : (c.inn.peekSet).1.copyByte with
      | none => exact ⟨Kv.refl _⟩
      | some p =>
        obtain ⟨d, b⟩ := p
        exact (keepIdx_inn c d).trans (ih _)

theorem keepIdx_reqBodyDetermine (c : Conn) : KeepIdx c (reqBodyDetermine c).1 := by
  unfold reqBodyDetermine
  simp only []
  repeat' split
  all_goals first
    | exact ⟨Kv.refl _⟩
    | exact ⟨(keepIdx_modIn _ { c with inState := .bodyChunkedLength }).le⟩
    | exact ⟨(keepIdx_modIn _ { c with inn := { c.inn with contentLength := c.inTx.reqContentLength, bodyDataLeft := c.inTx.reqContentLength }, inState := ReqState.bodyIdentity }).le⟩

theorem keepIdx_reqBodyIdentity (cfg : Cfg) (c : Conn) : KeepIdx c (reqBodyIdentity cfg c).1 := by
  unfold reqBodyIdentity
  extract_lets avail n data
  clear_value n data
  split
  · exact KeepIdx.refl c
  · have k := keepIdx_reqProcessBodyData cfg data (if c.inn.curNull then n.toNat else 0) c
    rcases hx : reqProcessBodyData cfg data (if c.inn.curNull then n.toNat else 0) c with ⟨c1, rc1⟩
    rw [hx] at k
    simp only at k ⊢
    have k2 : KeepIdx c ({ c1 with inn := { c1.inn.advance n with bodyDataLeft := c1.inn.bodyDataLeft - n } }.modIn
        (fun t => { t with reqMessageLen := t.reqMessageLen + n.toNat })) :=
      k.trans ⟨(keepIdx_modIn _ { c1 with inn := { c1.inn.advance n with bodyDataLeft := c1.inn.bodyDataLeft - n } }).le⟩
    split
    · exact k
    · split
      · exact k2.trans ⟨Kv.refl _⟩
      · exact k2

theorem keepIdx_reqChunkedDataEndLoop (fuel : Nat) (c : Conn) : KeepIdx c (reqChunkedDataEndLoop fuel c).1 := by
  induction fuel generalizing c with
  | zero => unfold reqChunkedDataEndLoop; exact KeepIdx.refl c
  | succ k ih =>
    unfold reqChunkedDataEndLoop
    cases hn : c.inn.nextByteConsume with
    | none => exact KeepIdx.refl c
    | some p =>
      obtain ⟨d, b⟩ := p
      simp only
      have k1 : KeepIdx c ({ c with inn := d }.modIn (fun t => { t with reqMessageLen := t.reqMessageLen + 1 })) :=
        (keepIdx_inn c d).trans (keepIdx_modIn _ _)
      split
      · exact k1.trans ⟨Kv.refl _⟩
      · exact k1.trans (ih _)

theorem keepIdx_reqBodyChunkedData (cfg : Cfg) (c : Conn) : KeepIdx c (reqBodyChunkedData cfg c).1 := by
  unfold reqBodyChunkedData
  extract_lets avail n data
  clear_value n data
  split
  · exact KeepIdx.refl c
  · have k := keepIdx_reqProcessBodyData cfg (some data) 0 c
    rcases hx : reqProcessBodyData cfg (some data) 0 c with ⟨c1, rc1⟩
    rw [hx] at k
    simp only at k ⊢
    have k2 : KeepIdx c ({ c1 with inn := { c1.inn.advance n with chunkedLength := c1.inn.chunkedLength - n } }.modIn
        (fun t => { t with reqMessageLen := t.reqMessageLen + n.toNat })) :=
      k.trans ⟨(keepIdx_modIn _ { c1 with inn := { c1.inn.advance n with chunkedLength := c1.inn.chunkedLength - n } }).le⟩
    split
    · exact k
    · split
      · exact k2.trans ⟨Kv.refl _⟩
      · exact k2

theorem keepIdx_reqChunkedLengthLoop (cfg : Cfg) (fuel : Nat) (c : Conn) : KeepIdx c (reqChunkedLengthLoop cfg fuel c).1 := by
  induction fuel generalizing c with
  | zero => unfold reqChunkedLengthLoop; exact KeepIdx.refl c
  | succ k ih =>
    unfold reqChunkedLengthLoop
    cases hn : c.inn.copyByte with
    | none => exact KeepIdx.refl c
    | some p =>
      obtain ⟨d, b⟩ := p
      simp -zeta only
      extract_lets c0
      have h0 : KeepIdx c c0 := keepIdx_inn c d
      split
      · exact h0.trans (ih _)
      · cases hc : c0.inn.consolidate cfg.fieldLimitHard true with
        | none => exact h0
        | some q =>
          obtain ⟨d2, data⟩ := q
          simp -zeta only
          extract_lets c1 line src c2
          have h1 : KeepIdx c c1 := (h0.trans (keepIdx_inn c0 d2)).trans (keepIdx_modIn _ _)
          have h2 : KeepIdx c c2 := h1.trans ⟨Kv.refl _⟩
          clear_value c2 c1
          split
          · exact h2.trans ⟨Kv.refl _⟩
          · split
            · exact h2.trans ⟨(keepIdx_modIn _ { c2 with inState := .headers }).le⟩
            · exact h2

theorem keepIdx_reqIgnore (c : Conn) : KeepIdx c (reqIgnoreDataAfter09 c).1 := by
  unfold reqIgnoreDataAfter09
  simp only []
  split
  · exact ⟨⟨rfl, Nat.le_refl _, fun h => hasFlag_or_left _ _ _ h⟩⟩
  · exact ⟨Kv.refl _⟩

theorem keepIdx_reqFinalize (cfg : Cfg) (c : Conn) : KeepIdx c (reqFinalize cfg c).1 := by
  unfold reqFinalize
  cases c.inn.tx with
  | none => exact KeepIdx.refl c
  | some uid =>
    simp -zeta only
    extract_lets cp pre
    have hp : ∀ c' b, pre = some (c', b) → idxView c' = idxView c := by
      intro c' b hpre
      simp only [pre] at hpre
      split at hpre
      · split at hpre
        · simp only [Option.some.injEq, Prod.mk.injEq] at hpre; rw [← hpre.1]
        · split at hpre
          · split at hpre
            · simp at hpre
            · simp only [Option.some.injEq, Prod.mk.injEq] at hpre
              rw [← hpre.1]
          · simp only [Option.some.injEq, Prod.mk.injEq] at hpre; rw [← hpre.1]
      · simp only [Option.some.injEq, Prod.mk.injEq] at hpre; rw [← hpre.1]
    clear_value pre
    have viaComplete : ∀ c' : Conn, idxView c' = idxView c →
        KeepIdx c (txStateRequestComplete cfg uid c').1 :=
      fun c' h' => (keepIdx_of_view h').trans (keepIdx_txStateRequestComplete ..)
    split
    · exact ⟨Kv.refl _⟩
    · rename_i _ c1
      exact viaComplete c1 (hp _ _ rfl)
    · rename_i _ c1
      have h1 := hp _ _ rfl
      clear hp
      cases hc : c1.inn.consolidate cfg.fieldLimitHard true with
      | none => exact keepIdx_of_view h1
      | some q =>
        obtain ⟨d2, data⟩ := q
        simp -zeta only
        extract_lets c2
        have h2 : idxView c2 = idxView c := h1
        clear_value c2
        split
        · exact viaComplete c2 h2
        · rename_i src go _
          have hgo : ∀ c', go = some c' → idxView c' = idxView c := by
            intro c' hg
            simp only [go] at hg
            split at hg
            · split at hg
              · simp at hg
              · simp only [Option.some.injEq] at hg
                rw [← hg]
                split
                · exact h2
                · exact h2
            · simp only [Option.some.injEq] at hg; rw [← hg]; exact h2
          clear_value go
          split
          · exact viaComplete _ h2
          · rename_i c3
            have h3 := hgo _ rfl
            clear hgo
            extract_lets r
            have hr : ∀ c' dd, r = some (c', dd) → idxView c' = idxView c := by
              intro c' dd hh
              simp only [r] at hh
              split at hh
              · cases hcb : c3.inn.copyByte with
                | none => rw [hcb] at hh; simp at hh
                | some p =>
                  obtain ⟨d4, b4⟩ := p
                  rw [hcb] at hh
                  simp only at hh
                  cases hc4 : d4.consolidate cfg.fieldLimitHard true with
                  | none =>
                    rw [hc4] at hh
                    simp only [Option.some.injEq, Prod.mk.injEq] at hh
                    rw [← hh.1]; exact h3
                  | some q4 =>
                    obtain ⟨d5, data5⟩ := q4
                    rw [hc4] at hh
                    simp only [Option.some.injEq, Prod.mk.injEq] at hh
                    rw [← hh.1]; exact h3
              · simp only [Option.some.injEq, Prod.mk.injEq] at hh; rw [← hh.1]; exact h3
            clear_value r
            split
            · exact keepIdx_of_view h3
            · rename_i c6 data6
              have h6 := hr _ _ rfl
              have k := keepIdx_reqProcessBodyData cfg (some data6) 0 c6
              rcases hx : reqProcessBodyData cfg (some data6) 0 c6 with ⟨c7, rc7⟩
              rw [hx] at k
              simp only at k ⊢
              exact ((keepIdx_of_view h6).trans k).trans ⟨Kv.refl _⟩

theorem keepIdx_reqHandleStateChange (c : Conn) : KeepIdx c (reqHandleStateChange c).1 := by
  unfold reqHandleStateChange
  split
  · exact KeepIdx.refl c
  · simp only
    apply keepIdx_andThen
    · repeat' split
      all_goals first | exact KeepIdx.refl c | exact keepIdx_reqReceiverSet _ c
    · intro c1; exact ⟨Kv.refl _⟩

theorem keepIdx_reqStateFn (cfg : Cfg) (c : Conn) : KeepIdx c (reqStateFn cfg c).1 := by
  unfold reqStateFn
  cases c.inState with
  | idle => exact keepIdx_reqIdle cfg c
  | line => exact (keepIdx_reqLineLoop cfg _ c)
  | protocol => exact (keepIdx_reqProtocol c)
  | headers => exact (keepIdx_reqHeadersLoop cfg _ c)
  | connectCheck => exact (keepIdx_reqConnectCheck c)
  | connectWaitResponse => exact (keepIdx_reqConnectWaitResponse c)
  | connectProbeData => exact (keepIdx_reqConnectProbeLoop cfg _ c)
  | bodyDetermine => exact (keepIdx_reqBodyDetermine c)
  | bodyIdentity => exact (keepIdx_reqBodyIdentity cfg c)
  | bodyChunkedLength => exact (keepIdx_reqChunkedLengthLoop cfg _ c)
  | bodyChunkedData => exact (keepIdx_reqBodyChunkedData cfg c)
  | bodyChunkedDataEnd => exact (keepIdx_reqChunkedDataEndLoop _ c)
  | finalize => exact (keepIdx_reqFinalize cfg c)
  | ignoreDataAfter09 => exact (keepIdx_reqIgnore c)

theorem keepIdx_reqStoreChunk (data : Option Bytes) (len : Nat) (c : Conn) : KeepIdx c (reqStoreChunk data len c) := ⟨Kv.refl _⟩

theorem keepIdx_reqWakeOther (c : Conn) : KeepIdx c (reqWakeOther c) := by
  unfold reqWakeOther
  split <;> exact ⟨Kv.refl _⟩

/-- the for(;;) of htp_connp_req_data - data, gap or close, any fuel -/
theorem keepIdx_reqDriverLoop (cfg : Cfg) (gap : Bool) (fuel : Nat) (c : Conn) : KeepIdx c (reqDriverLoop cfg gap fuel c).1 := by
  induction fuel generalizing c with
  | zero => unfold reqDriverLoop; exact ⟨Kv.refl _⟩
  | succ k ih =>
    unfold reqDriverLoop
    simp only
    -- what happens with the answer of one pass
    have tail : ∀ (c1 : Conn) (rc1 : Rc), KeepIdx c c1 → KeepIdx c
        (match (if (rc1 == Rc.ok) = true then
                  if (c1.inn.status == STREAM_TUNNEL) = true then (c1, Rc.ok) else reqHandleStateChange c1
                else (c1, rc1) : R) with
         | (c, rc) =>
          if (rc == Rc.ok) = true then
            if (c.inn.status == STREAM_TUNNEL) = true then (c, STREAM_TUNNEL) else reqDriverLoop cfg gap k c
          else if (rc == Rc.data || rc == Rc.dataBuffer) = true then
            (match reqReceiverSend false c with
             | (c, _) =>
               if (rc == Rc.dataBuffer) = true then
                 (match c.inn.buffer cfg.fieldLimitHard true with
                  | none => (({ c with inn := { c.inn with status := STREAM_ERROR } }, STREAM_ERROR) : Conn × Nat)
                  | some d => ({ c with inn := { d with status := STREAM_DATA } }, STREAM_DATA))
               else ({ c with inn := { c.inn with status := STREAM_DATA } }, STREAM_DATA))
          else if (rc == Rc.dataOther) = true then
            (if c.inn.read ≥ c.inn.len then ({ c with inn := { c.inn with status := STREAM_DATA } }, STREAM_DATA)
             else ({ c with inn := { c.inn with status := STREAM_DATA_OTHER } }, STREAM_DATA_OTHER))
          else if (rc == Rc.stop) = true then ({ c with inn := { c.inn with status := STREAM_STOP } }, STREAM_STOP)
          else ({ c with inn := { c.inn with status := STREAM_ERROR } }, STREAM_ERROR)).1 := by
      intro c1 rc1 k1
      have k2 : KeepIdx c (if (rc1 == Rc.ok) = true then
                  if (c1.inn.status == STREAM_TUNNEL) = true then (c1, Rc.ok) else reqHandleStateChange c1
                else (c1, rc1) : R).1 := by
        split
        · split
          · exact k1
          · exact k1.trans ((keepIdx_reqHandleStateChange c1))
        · exact k1
      generalize (if (rc1 == Rc.ok) = true then
                  if (c1.inn.status == STREAM_TUNNEL) = true then (c1, Rc.ok) else reqHandleStateChange c1
                else (c1, rc1) : R) = r2 at k2 ⊢
      obtain ⟨c2, rc2⟩ := r2
      simp only at k2 ⊢
      split
      · split
        · exact k2
        · exact k2.trans (ih c2)
      · split
        · have kk := (keepIdx_reqReceiverSend false c2)
          rcases hz : reqReceiverSend false c2 with ⟨c3, rc3⟩
          rw [hz] at kk
          simp only at kk ⊢
          split
          · cases hb : c3.inn.buffer cfg.fieldLimitHard true with
            | none => exact (k2.trans kk).trans ⟨Kv.refl _⟩
            | some d => exact (k2.trans kk).trans ⟨Kv.refl _⟩
          · exact (k2.trans kk).trans ⟨Kv.refl _⟩
        · repeat' split
          all_goals exact k2.trans ⟨Kv.refl _⟩
    split
    · exact KeepIdx.refl c
    · rename_i c1 rc1 hstep
      have k1 : KeepIdx c c1 := by
        split at hstep
        · split at hstep
          · simp only [Option.some.injEq] at hstep
            have := keepIdx_reqStateFn cfg c
            rw [hstep] at this; exact this
          · split at hstep
            · split at hstep
              · rename_i uid _
                simp only [Option.some.injEq] at hstep
                have := (keepIdx_txStateRequestComplete cfg uid c)
                rw [hstep] at this; exact this
              · simp only [Option.some.injEq, Prod.mk.injEq] at hstep
                rw [← hstep.1]; exact KeepIdx.refl c
            · simp at hstep
        · simp only [Option.some.injEq] at hstep
          have := keepIdx_reqStateFn cfg c
          rw [hstep] at this; exact this
      exact tail c1 rc1 k1



/-- **htp_connp_req_data**: any data (a chunk, a stream gap, the NULL chunk of a close), any length -/
theorem keepIdx_reqData (cfg : Cfg) (data : Option Bytes) (len : Nat) (c : Conn) :
    KeepIdx c (reqData cfg data len c).1 := by
  unfold reqData
  simp only
  have key : KeepIdx c (reqDataCore cfg data len c).1 := by
    unfold reqDataCore
    split
    · exact ⟨Kv.refl _⟩
    split
    · exact ⟨Kv.refl _⟩
    split
    · exact ⟨Kv.refl _⟩
    split
    · exact ⟨Kv.refl _⟩
    simp only
    split
    · exact ⟨Kv.refl _⟩
    · exact (((keepIdx_reqStoreChunk data len c).trans (keepIdx_reqWakeOther _))).trans (keepIdx_reqDriverLoop cfg _ _ _)
  exact ⟨key.le⟩

/-- the request side as a whole, in the weaker form -/
theorem okIdx_reqData (cfg : Cfg) (data : Option Bytes) (len : Nat) (c : Conn) : OkIdx c (reqData cfg data len c).1 :=
  (keepIdx_reqData cfg data len c).grow

/-! ## the response side -/

theorem keepIdx_out (c : Conn) (d : Dir) : KeepIdx c { c with out := d } := ⟨Kv.refl _⟩

/-! ### receivers, body data, transaction state functions of the response side -/

theorem keepIdx_resReceiverSend (l : Bool) (c : Conn) : KeepIdx c (resReceiverSend l c).1 := by
  unfold resReceiverSend
  cases c.out.receiverHook with
  | none => exact KeepIdx.refl c
  | some h =>
    simp only
    apply keepIdx_andThen
    · exact keepIdx_runCallback ..
    · intro c2; exact ⟨Kv.refl _⟩

theorem keepIdx_resReceiverFinalizeClear (c : Conn) : KeepIdx c (resReceiverFinalizeClear c).1 := by
  unfold resReceiverFinalizeClear
  cases c.out.receiverHook with
  | none => exact KeepIdx.refl c
  | some h =>
    simp only
    exact (keepIdx_resReceiverSend true c).trans ⟨Kv.refl _⟩

theorem keepIdx_resReceiverSet (h : Hook) (c : Conn) : KeepIdx c (resReceiverSet h c).1 := by
  unfold resReceiverSet
  simp only
  exact (keepIdx_resReceiverFinalizeClear c).trans ⟨Kv.refl _⟩

theorem keepIdx_resProcessBodyData (cfg : Cfg) (data : Option Bytes) (c : Conn) : KeepIdx c (resProcessBodyData cfg data c).1 := by
  unfold resProcessBodyData
  cases c.out.tx with
  | none => exact KeepIdx.refl c
  | some uid =>
    simp only
    have f0 : KeepIdx c (c.modTx uid fun t => { t with resMessageLen := t.resMessageLen + (data.map (·.length)).getD 0 }) := keepIdx_modTx ..
    split
    · split
      · exact f0
      · split
        · exact f0.trans (keepIdx_unsupported _)
        · rcases hx : decompress cfg false uid (8 * (data.map (·.length)).getD 0 + 128)
            (c.modTx uid fun t => { t with resMessageLen := t.resMessageLen + (data.map (·.length)).getD 0 }).outDecs data
            (c.modTx uid fun t => { t with resMessageLen := t.resMessageLen + (data.map (·.length)).getD 0 }) with ⟨ds, c1, rc1⟩
          have f1 := (keepIdx_dec cfg false uid (8 * (data.map (·.length)).getD 0 + 128)).2.2.2
            (c.modTx uid fun t => { t with resMessageLen := t.resMessageLen + (data.map (·.length)).getD 0 }).outDecs data
            (c.modTx uid fun t => { t with resMessageLen := t.resMessageLen + (data.map (·.length)).getD 0 })
          rw [hx] at f1
          simp only at f1 ⊢
          exact (f0.trans f1).trans ⟨Kv.refl _⟩
    · split
      · have h := keepIdx_resRunHookBodyData data
          ((c.modTx uid fun t => { t with resMessageLen := t.resMessageLen + (data.map (·.length)).getD 0 }).modTx uid
            fun t => { t with resEntityLen := t.resEntityLen + (data.map (·.length)).getD 0 })
        have f2 := (f0.trans (keepIdx_modTx uid (fun t => { t with resEntityLen := t.resEntityLen + (data.map (·.length)).getD 0 }) _)).trans h
        split <;> exact f2
      · exact f0

theorem keepIdx_resProcessBodyDataGap (cfg : Cfg) (data : Option Bytes) (g : Nat) (c : Conn) :
    KeepIdx c (resBodyIdentityClKnown.resProcessBodyDataGap cfg data g c).1 := by
  unfold resBodyIdentityClKnown.resProcessBodyDataGap
  split
  · exact keepIdx_resProcessBodyData ..
  · cases c.out.tx with
    | none => exact KeepIdx.refl c
    | some uid =>
      simp only
      have f0 : KeepIdx c (c.modTx uid fun t => { t with resMessageLen := t.resMessageLen + g }) := keepIdx_modTx ..
      split
      · have f1 := f0.trans (keepIdx_modTx uid (fun t => { t with resEntityLen := t.resEntityLen + g }) _)
        split
        · refine f1.trans ?_
          apply keepIdx_andThen
          · exact keepIdx_runCallbackN ..
          · intro c2; exact keepIdx_runCallback ..
        · refine f1.trans ?_
          apply keepIdx_andThen
          · exact keepIdx_runCallbackN ..
          · intro c2; exact keepIdx_runCallback ..
      · exact f0.trans (keepIdx_unsupported _)

theorem keepIdx_processResponseHeader (d : Bytes) (c : Conn) : KeepIdx c (processResponseHeader d c).1 := by
  unfold processResponseHeader
  simp only
  exact (keepIdx_modOut _ c).trans (keepIdx_modOut _ _)

theorem keepIdx_resFlushHeader (c : Conn) : KeepIdx c (resFlushHeader c).1 := by
  unfold resFlushHeader
  cases c.out.header with
  | none => exact KeepIdx.refl c
  | some h =>
    simp only
    have := keepIdx_processResponseHeader h c
    split
    · exact this
    · exact this.trans ⟨Kv.refl _⟩

theorem keepIdx_txStateResponseLine (uid : Nat) (c : Conn) : KeepIdx c (txStateResponseLine uid c).1 := by
  unfold txStateResponseLine
  simp only
  refine KeepIdx.trans ?_ (keepIdx_runCallback ..)
  split
  · exact keepIdx_modTx ..
  · exact KeepIdx.refl c

theorem keepIdx_txStateResponseHeaders (cfg : Cfg) (uid : Nat) (c : Conn) : KeepIdx c (txStateResponseHeaders cfg uid c).1 := by
  unfold txStateResponseHeaders
  rcases responseNeedsDecompressor cfg ((c.findTx uid).getD { uid := uid }) with ⟨enc, needs⟩
  simp only
  apply keepIdx_andThen
  · exact (keepIdx_modTx uid _ c).trans (keepIdx_resReceiverFinalizeClear _)
  · intro c1
    apply keepIdx_andThen
    · exact keepIdx_runCallback ..
    · intro c2
      split
      · split
        · exact ⟨Kv.refl _⟩
        · cases ceChain cfg ((getHeaderC ((c.findTx uid).getD { uid := uid }).resHeaders (b!"content-encoding")).map (·.value) |>.getD []) with
          | nil => exact ⟨Kv.refl _⟩
          | cons ty rest =>
            exact ⟨(keepIdx_modTx uid _ { c2 with outDecs := (ty :: rest).map (decCreate cfg), outDecompressor := true }).le⟩
      · exact KeepIdx.refl _

theorem keepIdx_txStateResponseStart (uid : Nat) (c : Conn) : KeepIdx c (txStateResponseStart uid c).1 := by
  unfold txStateResponseStart
  simp only
  apply keepIdx_andThen
  · exact (keepIdx_out c _).trans (keepIdx_runCallback ..)
  · intro c1
    split
    · exact (keepIdx_modTx uid _ c1).trans ⟨Kv.refl _⟩
    · exact (keepIdx_modTx uid _ c1).trans ⟨Kv.refl _⟩

theorem keepIdx_txStateResponseCompleteEx (cfg : Cfg) (uid : Nat) (c : Conn) : KeepIdx c (txStateResponseCompleteEx cfg uid c).1 := by
  unfold txStateResponseCompleteEx
  simp only
  apply keepIdx_andThen
  · split
    · apply keepIdx_andThen
      · refine KeepIdx.trans ?_ (keepIdx_runCallback ..)
        split
        · exact (keepIdx_modTx uid _ c).trans (keepIdx_resProcessBodyData ..)
        · exact keepIdx_modTx ..
      · intro c1; exact keepIdx_resReceiverFinalizeClear _
    · exact KeepIdx.refl c
  · intro c1
    split
    · exact KeepIdx.refl _
    · split
      · exact ⟨Kv.refl _⟩
      · apply keepIdx_andThen
        · exact keepIdx_txFinalize ..
        · intro c2; exact ⟨Kv.refl _⟩

/-! ### the ten response state functions -/

/-- the unmatched-response path of RES_IDLE: a transaction is appended and the index goes up by one, or (creation refused) neither -/
theorem okIdx_resIdleUnmatched (cfg : Cfg) (c : Conn) : OkIdx c (resIdleUnmatched cfg c).1 := by
  unfold resIdleUnmatched
  have k := keepIdx_txCreate cfg c
  have kl := txCreate_len_some cfg c
  rcases hx : txCreate cfg c with ⟨c2, u⟩
  rw [hx] at k kl
  simp only at k kl ⊢
  cases u with
  | none => exact k.grow.trans ⟨Gv.refl _⟩
  | some uid =>
    simp only
    have hl := kl uid rfl
    have key : ∀ cm : Conn, cm.outNextTxIndex = c2.outNextTxIndex + 1 → cm.txs.length = c2.txs.length →
        cm.connFlags = c2.connFlags → OkIdx c (txStateResponseStart uid cm).1 := by
      intro cm h1 h2 h3
      obtain ⟨a1, a2, a3⟩ := (keepIdx_txStateResponseStart uid cm).le
      obtain ⟨b1, b2, b3⟩ := k.le
      refine ⟨⟨?_, ?_⟩⟩
      · intro hi
        simp only at a1 a2 b1 b2 hi ⊢
        omega
      · intro hp
        apply a3
        simp only at b3 hp ⊢
        rw [h3]; exact b3 hp
    apply key
    · rfl
    · exact modTx_length _ _ _
    · rfl

/-- **RES_IDLE**: the index goes up by one and the slot it pointed to exists, or the unmatched path is taken -/
theorem okIdx_resIdle (cfg : Cfg) (c : Conn) : OkIdx c (resIdle cfg c).1 := by
  unfold resIdle
  split
  · exact OkIdx.refl c
  · simp only []
    split
    · have hk : KeepIdx c (if c.inState == .finalize then (match c.inn.tx with | some uid => (txStateRequestComplete cfg uid c).1 | none => c) else c) := by
        split
        · split
          · exact keepIdx_txStateRequestComplete ..
          · exact KeepIdx.refl c
        · exact KeepIdx.refl c
      exact (hk.grow).trans (okIdx_resIdleUnmatched cfg _)
    · rename_i t hslot
      have hlt : c.outNextTxIndex + 1 ≤ (c.txs.length : Int) := by
        split at hslot
        · cases hslot
        · rename_i hn
          by_cases hl : c.outNextTxIndex.toNat < c.txs.length
          · omega
          · rw [List.getElem?_eq_none (Nat.le_of_not_lt hl)] at hslot
            simp at hslot
      obtain ⟨a1, a2, a3⟩ := (keepIdx_txStateResponseStart t.uid
        { c with outNextTxIndex := c.outNextTxIndex + 1, out := { c.out with tx := some t.uid, contentLength := -1, bodyDataLeft := -1 } }).le
      refine ⟨⟨?_, a3⟩⟩
      intro _
      simp only at a1 a2 ⊢
      omega

theorem keepIdx_resLineAsBody (cfg : Cfg) (uid : Nat) (dn : Bool) (data line : Bytes) (cr : Nat) (c : Conn) :
    KeepIdx c (resLineAsBody cfg uid dn data line cr c).1 := by
  unfold resLineAsBody
  extract_lets nextIsH rd1 ln1 c1 c2 src c3
  have k1 : KeepIdx c c1 := keepIdx_modTx ..
  have k3 : KeepIdx c c3 := (keepIdx_modTx uid _ c).trans ⟨Kv.refl _⟩
  clear_value c1 c3
  split
  · exact k1.trans ⟨Kv.refl _⟩
  · have k := keepIdx_resProcessBodyData cfg (if dn then none else some (data.take (line.length + cr))) c3
    rcases hx : resProcessBodyData cfg (if dn then none else some (data.take (line.length + cr))) c3 with ⟨c4, rc4⟩
    rw [hx] at k
    simp only at k ⊢
    split
    · exact (k3.trans k).trans ⟨Kv.refl _⟩
    · split
      · exact (k3.trans k).trans ((keepIdx_out c4 _).trans ((keepIdx_modTx uid _ _).trans ⟨Kv.refl _⟩))
      · exact (k3.trans k).trans ⟨Kv.refl _⟩

theorem keepIdx_resLineComplete (cfg : Cfg) (uid : Nat) (closed : Bool) (c : Conn) : KeepIdx c (resLineComplete cfg uid closed c).1 := by
  unfold resLineComplete
  cases hc : c.out.consolidate cfg.fieldLimitHard false with
  | none => exact KeepIdx.refl c
  | some q =>
    obtain ⟨d2, data⟩ := q
    simp -zeta only
    extract_lets dataNull c0 c1 c2 c3 rl c4
    have h0 : KeepIdx c c0 := keepIdx_out c d2
    have h1 : KeepIdx c c1 := by
      simp only [c1]
      split
      · exact h0.trans ⟨Kv.refl _⟩
      · exact h0
    have h2 : KeepIdx c c2 := h1.trans (keepIdx_modTx ..)
    have h3 : KeepIdx c c3 := h0.trans (keepIdx_modTx ..)
    have h4 : KeepIdx c c4 := h3.trans (keepIdx_modTx ..)
    clear_value c0 c1 c2 c3 c4 dataNull
    split
    · exact h2.trans ⟨Kv.refl _⟩
    · split
      · exact h3.trans (keepIdx_resLineAsBody ..)
      · refine h4.trans ?_
        apply keepIdx_andThen
        · exact keepIdx_txStateResponseLine uid c4
        · intro c5
          exact ⟨(keepIdx_modTx uid _ { c5 with out := c5.out.clearBuffer, outState := .headers }).le⟩

theorem keepIdx_resLineLoop (cfg : Cfg) (fuel : Nat) (c : Conn) : KeepIdx c (resLineLoop cfg fuel c).1 := by
  induction fuel generalizing c with
  | zero => unfold resLineLoop; exact KeepIdx.refl c
  | succ k ih =>
    unfold resLineLoop
    cases c.out.tx with
    | none => exact KeepIdx.refl c
    | some uid =>
      simp only
      split
      · exact KeepIdx.refl c
      · rename_i c1 h1
        have e1 : idxView c1 = idxView c := by
          split at h1
          · cases hcb : c.out.copyByte with
            | none => rw [hcb] at h1; simp at h1
            | some p =>
              obtain ⟨d, b⟩ := p
              rw [hcb] at h1
              simp only [Option.some.injEq] at h1
              rw [← h1]
          · simp only [Option.some.injEq] at h1; rw [← h1]
        split
        · exact (keepIdx_of_view e1).trans ⟨Kv.refl _⟩
        · rename_i c2 h2
          have e2 : idxView c2 = idxView c := by
            split at h2
            · simp only [Dir.peekSet] at h2
              cases hp : c1.out.peek with
              | none => rw [hp] at h2; simp at h2
              | some b =>
                rw [hp] at h2
                simp only at h2
                split at h2
                · simp only [Except.ok.injEq, Prod.mk.injEq] at h2; rw [← h2.1]; exact e1
                · simp only [Except.ok.injEq, Prod.mk.injEq] at h2; simp at h2
            · simp only [Except.ok.injEq, Prod.mk.injEq] at h2; simp at h2
          exact (keepIdx_of_view e2).trans (ih c2)
        · rename_i c2 h2
          have e2 : idxView c2 = idxView c := by
            split at h2
            · simp only [Dir.peekSet] at h2
              cases hp : c1.out.peek with
              | none => rw [hp] at h2; simp at h2
              | some b =>
                rw [hp] at h2
                simp only at h2
                split at h2
                · simp only [Except.ok.injEq, Prod.mk.injEq] at h2; simp at h2
                · simp only [Except.ok.injEq, Prod.mk.injEq] at h2; rw [← h2.1]; exact e1
            · simp only [Except.ok.injEq, Prod.mk.injEq] at h2; rw [← h2.1]; exact e1
          split
          · exact (keepIdx_of_view e2).trans (ih c2)
          · exact (keepIdx_of_view e2).trans (keepIdx_resLineComplete ..)

theorem keepIdx_resHeaderLine (uid : Nat) (line : Bytes) (c : Conn) : KeepIdx c (resHeaderLine uid line c).1 := by
  unfold resHeaderLine
  split
  · apply keepIdx_andThen
    · exact keepIdx_resFlushHeader c
    · intro c1
      simp only [Dir.peekSet]
      obtain hp | ⟨b, hp⟩ : c1.out.peek = none ∨ ∃ b, c1.out.peek = some b := by cases c1.out.peek <;> simp
      · simp only [hp, Bool.not_true, Bool.false_eq_true, if_false]
        exact ⟨Kv.refl _⟩
      · simp only [hp]
        by_cases hf : isFoldingChar b = true
        · simp only [hf, Bool.not_true, Bool.false_eq_true, if_false]
          exact ⟨Kv.refl _⟩
        · simp only [hf, Bool.not_false, if_true]
          have e := keepIdx_processResponseHeader line { c1 with out := { c1.out with nextByte := (b.toNat : Int) } }
          rcases hy : processResponseHeader line { c1 with out := { c1.out with nextByte := (b.toNat : Int) } } with ⟨c2, rc2⟩
          rw [hy] at e
          simp only at e ⊢
          split
          · exact (keepIdx_out c1 _).trans e
          · exact (keepIdx_out c1 _).trans e
  · cases c.out.header with
    | none => exact (keepIdx_modTx uid _ c).trans ⟨Kv.refl _⟩
    | some h =>
      simp only
      split
      · have e := keepIdx_processResponseHeader h (c.modTx uid fun t => { t with flags := t.flags ||| INVALID_FOLDING })
        rcases hy : processResponseHeader h (c.modTx uid fun t => { t with flags := t.flags ||| INVALID_FOLDING }) with ⟨c2, rc2⟩
        rw [hy] at e
        simp only at e ⊢
        split
        · exact (keepIdx_modTx uid _ c).trans e
        · exact ((keepIdx_modTx uid _ c).trans e).trans ⟨Kv.refl _⟩
      · split
        · exact ⟨Kv.refl _⟩
        · exact KeepIdx.refl c

theorem keepIdx_resHeadersLoop (cfg : Cfg) (fuel : Nat) (lfcr : Bool) (c : Conn) : KeepIdx c (resHeadersLoop cfg fuel lfcr c).1 := by
  induction fuel generalizing c lfcr with
  | zero => unfold resHeadersLoop; exact KeepIdx.refl c
  | succ k ih =>
    unfold resHeadersLoop
    cases c.out.tx with
    | none => exact KeepIdx.refl c
    | some uid =>
      simp only
      have trailer : ∀ (c0 : Conn),
          KeepIdx c0 (resReceiverFinalizeClear c0 >>? fun c => runCallback .responseTrailer (some uid) none false c >>? fun c => ({ c with outState := .finalize }, Rc.ok)).1 := by
        intro c0
        apply keepIdx_andThen
        · exact keepIdx_resReceiverFinalizeClear c0
        · intro c1
          apply keepIdx_andThen
          · exact keepIdx_runCallback ..
          · intro c2; exact ⟨Kv.refl _⟩
      split
      · exact trailer c
      · cases hn : c.out.copyByte with
        | none => exact KeepIdx.refl c
        | some p =>
          obtain ⟨d, b⟩ := p
          simp only
          split
          · exact (keepIdx_out c d).trans (ih _ _)
          · have he := eol_view b lfcr { c with out := d }
            split
            · exact ⟨Kv.refl _⟩
            · rename_i heq
              have e2 := he _ _ _ _ heq
              exact ((keepIdx_out c d).trans (keepIdx_of_view e2)).trans (ih _ _)
            · rename_i c2 lfcr2 ecr2 heq
              have e2 : idxView c2 = idxView c := he _ _ _ _ heq
              have k2 : KeepIdx c c2 := keepIdx_of_view e2
              cases hc : c2.out.consolidate cfg.fieldLimitHard false with
              | none => exact k2
              | some q =>
                obtain ⟨d2, data⟩ := q
                simp only
                split
                · exact (k2.trans (keepIdx_out c2 d2)).trans (ih lfcr2 _)
                · split
                  · refine (k2.trans (keepIdx_out c2 d2)).trans ?_
                    apply keepIdx_andThen
                    · exact keepIdx_resFlushHeader _
                    · intro c3
                      split
                      · exact ⟨Kv.refl _⟩
                      · exact (keepIdx_out c3 _).trans (trailer _)
                  · refine (k2.trans (keepIdx_out c2 d2)).trans ?_
                    apply keepIdx_andThen
                    · exact keepIdx_resHeaderLine ..
                    · intro c3
                      exact (keepIdx_out c3 _).trans (ih lfcr2 _)

theorem keepIdx_resCl (cl ct : Option Parse.Header) (uid : Nat) (c : Conn) : KeepIdx c (resCl cl ct uid c).1 := by
  unfold resCl
  cases cl with
  | some clh =>
    simp -zeta only
    extract_lets c1 n c2 src c3
    have h1 : KeepIdx c c1 := keepIdx_modTx ..
    have h2 : KeepIdx c c2 := h1.trans (keepIdx_modTx ..)
    have h3 : KeepIdx c c3 := h2.trans ⟨Kv.refl _⟩
    clear_value c1 c2 c3
    split
    · exact h2
    · split
      · exact h3.trans ⟨(keepIdx_modTx uid _ { c3 with outState := .bodyIdentityClKnown }).le⟩
      · exact h3.trans ⟨Kv.refl _⟩
  | none =>
    simp only
    repeat' split
    all_goals first
      | exact KeepIdx.refl c
      | exact (keepIdx_modTx uid _ c).trans ⟨Kv.refl _⟩

theorem keepIdx_resFraming (te cl ct : Option Parse.Header) (uid : Nat) (c : Conn) : KeepIdx c (resFraming te cl ct uid c).1 := by
  unfold resFraming
  cases te with
  | some te' =>
    simp only
    split
    · exact (keepIdx_modTx uid _ c).trans ⟨Kv.refl _⟩
    · exact keepIdx_resCl ..
  | none => exact keepIdx_resCl ..

theorem keepIdx_resRefusedConnect (t : Tx) (c : Conn) : KeepIdx c (resRefusedConnect t c) := by
  unfold resRefusedConnect
  simp only []
  repeat' split
  all_goals exact ⟨Kv.refl _⟩

theorem keepIdx_resSwitchTunnel (c : Conn) : KeepIdx c (resSwitchTunnel c) := by
  unfold resSwitchTunnel
  simp only []
  repeat' split
  all_goals exact ⟨Kv.refl _⟩

theorem keepIdx_resExpectShortcut (t : Tx) (c : Conn) : KeepIdx c (resExpectShortcut t c) := by
  unfold resExpectShortcut
  repeat' split
  all_goals exact ⟨Kv.refl _⟩

theorem keepIdx_resNoBody (uid : Nat) (t : Tx) (te cl : Option Parse.Header) (c : Conn) : KeepIdx c (resNoBody uid t te cl c) := by
  unfold resNoBody
  repeat' split
  all_goals first
    | exact KeepIdx.refl c
    | exact ⟨(keepIdx_modTx uid _ { c with outState := .finalize }).le⟩

theorem keepIdx_resFramingStep (uid : Nat) (t : Tx) (te cl : Option Parse.Header) (c : Conn) :
    KeepIdx c (resFramingStep uid t te cl c).1 := by
  unfold resFramingStep
  split
  · simp only
    refine KeepIdx.trans ?_ (keepIdx_resFraming ..)
    split
    · exact keepIdx_modTx ..
    · exact KeepIdx.refl c
  · exact KeepIdx.refl c

theorem keepIdx_resBodyDetermineRest (cfg : Cfg) (uid : Nat) (t : Tx) (c : Conn) : KeepIdx c (resBodyDetermineRest cfg uid t c).1 := by
  unfold resBodyDetermineRest
  extract_lets c1 cl te is100
  have k0 : KeepIdx c c1 := keepIdx_resRefusedConnect t c
  clear_value c1 is100
  split
  · exact (k0.trans (keepIdx_resSwitchTunnel _)).trans (keepIdx_txStateResponseHeaders ..)
  · split
    · exact (k0.trans (keepIdx_modTx uid _ _)).trans ⟨Kv.refl _⟩
    · apply keepIdx_andThen
      · exact ((k0.trans (keepIdx_resExpectShortcut t _)).trans (keepIdx_resNoBody ..)).trans (keepIdx_resFramingStep ..)
      · intro c1; exact keepIdx_txStateResponseHeaders ..

theorem keepIdx_resBodyDetermine (cfg : Cfg) (c : Conn) : KeepIdx c (resBodyDetermine cfg c).1 := by
  unfold resBodyDetermine
  cases c.out.tx with
  | none => exact KeepIdx.refl c
  | some uid =>
    simp only
    split
    · exact KeepIdx.trans (b := { c with outState := .finalize }) ⟨Kv.refl _⟩ (keepIdx_txStateResponseHeaders ..)
    · exact keepIdx_resBodyDetermineRest ..

theorem keepIdx_resBodyIdentityClKnown (cfg : Cfg) (c : Conn) : KeepIdx c (resBodyIdentityClKnown cfg c).1 := by
  unfold resBodyIdentityClKnown
  extract_lets avail n cfin data
  clear_value n data
  split
  · exact KeepIdx.trans (b := cfin) ⟨Kv.refl _⟩ (keepIdx_resProcessBodyData ..)
  · split
    · exact KeepIdx.refl c
    · have k := keepIdx_resProcessBodyDataGap cfg data (if c.out.curNull then n.toNat else 0) c
      rcases hx : resBodyIdentityClKnown.resProcessBodyDataGap cfg data (if c.out.curNull then n.toNat else 0) c with ⟨c1, rc1⟩
      rw [hx] at k
      simp only at k ⊢
      split
      · exact k
      · split
        · exact k.trans (KeepIdx.trans (b := { { c1 with out := { c1.out.advance n with bodyDataLeft := c1.out.bodyDataLeft - n } } with outState := .finalize }) ⟨Kv.refl _⟩ (keepIdx_resProcessBodyData ..))
        · exact k.trans ⟨Kv.refl _⟩

theorem keepIdx_resBodyIdentityStreamClose (cfg : Cfg) (c : Conn) : KeepIdx c (resBodyIdentityStreamClose cfg c).1 := by
  unfold resBodyIdentityStreamClose
  extract_lets n data r
  have hr : KeepIdx c r.1 := by
    simp only [r]
    split
    · have k := keepIdx_resProcessBodyDataGap cfg data (if c.out.curNull then n.toNat else 0) c
      rcases hx : resBodyIdentityClKnown.resProcessBodyDataGap cfg data (if c.out.curNull then n.toNat else 0) c with ⟨c1, rc1⟩
      rw [hx] at k
      simp only at k ⊢
      split
      · exact k
      · exact k.trans ⟨Kv.refl _⟩
    · exact KeepIdx.refl c
  clear_value r
  apply keepIdx_andThen
  · exact hr
  · intro c1
    split
    · exact ⟨Kv.refl _⟩
    · exact KeepIdx.refl c1

theorem keepIdx_resChunkedDataEndLoop (fuel : Nat) (c : Conn) : KeepIdx c (resChunkedDataEndLoop fuel c).1 := by
  induction fuel generalizing c with
  | zero => unfold resChunkedDataEndLoop; exact KeepIdx.refl c
  | succ k ih =>
    unfold resChunkedDataEndLoop
    cases hn : c.out.nextByteConsume with
    | none => exact KeepIdx.refl c
    | some p =>
      obtain ⟨d, b⟩ := p
      simp only
      have k1 : KeepIdx c ({ c with out := d }.modOut (fun t => { t with resMessageLen := t.resMessageLen + 1 })) :=
        (keepIdx_out c d).trans (keepIdx_modOut _ _)
      split
      · exact k1.trans ⟨Kv.refl _⟩
      · exact k1.trans (ih _)

theorem keepIdx_resBodyChunkedData (cfg : Cfg) (c : Conn) : KeepIdx c (resBodyChunkedData cfg c).1 := by
  unfold resBodyChunkedData
  extract_lets avail n data
  clear_value n data
  split
  · exact KeepIdx.refl c
  · have k := keepIdx_resProcessBodyData cfg (some data) c
    rcases hx : resProcessBodyData cfg (some data) c with ⟨c1, rc1⟩
    rw [hx] at k
    simp only at k ⊢
    split
    · exact k
    · split
      · exact k.trans ⟨Kv.refl _⟩
      · exact k.trans ⟨Kv.refl _⟩

theorem keepIdx_resChunkedLengthLoop (cfg : Cfg) (fuel : Nat) (c : Conn) : KeepIdx c (resChunkedLengthLoop cfg fuel c).1 := by
  induction fuel generalizing c with
  | zero => unfold resChunkedLengthLoop; exact KeepIdx.refl c
  | succ k ih =>
    unfold resChunkedLengthLoop
    cases hn : c.out.copyByte with
    | none => exact KeepIdx.refl c
    | some p =>
      obtain ⟨d, b⟩ := p
      simp -zeta only
      extract_lets c0
      have h0 : KeepIdx c c0 := keepIdx_out c d
      clear_value c0
      split
      · exact h0.trans (ih _)
      · cases hc : c0.out.consolidate cfg.fieldLimitHard false with
        | none => exact h0
        | some q =>
          obtain ⟨d2, data⟩ := q
          simp -zeta only
          extract_lets c1 s1 c2 s2 rd c3 c4
          have h1 : KeepIdx c c1 := (h0.trans (keepIdx_out c0 d2)).trans (keepIdx_modOut _ _)
          have h2 : KeepIdx c c2 := h1.trans ⟨Kv.refl _⟩
          have h4 : KeepIdx c c4 := h2.trans ⟨Kv.refl _⟩
          have h3 : KeepIdx c c3 := h2.trans ⟨Kv.refl _⟩
          clear_value c1 c2 c3 c4
          split
          · exact h2.trans (KeepIdx.trans (b := { c2 with out := { c2.out with consume := c2.out.read } }) ⟨Kv.refl _⟩ (ih _))
          · split
            · exact h3.trans (keepIdx_modOut _ c3)
            · split
              · exact h4.trans ⟨Kv.refl _⟩
              · exact h4.trans ⟨(keepIdx_modOut _ { c4 with outState := .headers }).le⟩

theorem keepIdx_resFinalize (cfg : Cfg) (c : Conn) : KeepIdx c (resFinalize cfg c).1 := by
  unfold resFinalize
  cases c.out.tx with
  | none => exact KeepIdx.refl c
  | some uid =>
    simp -zeta only
    extract_lets cp pre
    have hp : ∀ c' b, pre = some (c', b) → idxView c' = idxView c := by
      intro c' b hpre
      simp only [pre] at hpre
      split at hpre
      · split at hpre
        · simp only [Option.some.injEq, Prod.mk.injEq] at hpre; rw [← hpre.1]
        · split at hpre
          · split at hpre
            · simp at hpre
            · simp only [Option.some.injEq, Prod.mk.injEq] at hpre
              rw [← hpre.1]
          · simp only [Option.some.injEq, Prod.mk.injEq] at hpre; rw [← hpre.1]
      · simp only [Option.some.injEq, Prod.mk.injEq] at hpre; rw [← hpre.1]
    clear_value pre
    have viaComplete : ∀ c' : Conn, idxView c' = idxView c → KeepIdx c (txStateResponseCompleteEx cfg uid c').1 :=
      fun c' h' => (keepIdx_of_view h').trans (keepIdx_txStateResponseCompleteEx ..)
    split
    · exact ⟨Kv.refl _⟩
    · rename_i _ c1
      exact viaComplete c1 (hp _ _ rfl)
    · rename_i _ c1
      have h1 := hp _ _ rfl
      clear hp
      cases hc : c1.out.consolidate cfg.fieldLimitHard false with
      | none => exact keepIdx_of_view h1
      | some q =>
        obtain ⟨d2, data⟩ := q
        simp -zeta only
        extract_lets dataNull c2 rd keep buf cs
        have h2 : idxView c2 = idxView c := h1
        clear_value c2 dataNull
        split
        · exact viaComplete c2 h2
        · split
          · have k := keepIdx_resProcessBodyData cfg (some data) c2
            rcases hx : resProcessBodyData cfg (some data) c2 with ⟨c3, rc3⟩
            rw [hx] at k
            simp only at k ⊢
            exact ((keepIdx_of_view h2).trans k).trans ⟨Kv.refl _⟩
          · exact viaComplete _ h2

theorem okIdx_resStateFn (cfg : Cfg) (c : Conn) : OkIdx c (resStateFn cfg c).1 := by
  unfold resStateFn
  cases c.outState with
  | idle => exact okIdx_resIdle cfg c
  | line => exact (keepIdx_resLineLoop cfg _ c).grow
  | headers => exact (keepIdx_resHeadersLoop cfg _ _ c).grow
  | bodyDetermine => exact (keepIdx_resBodyDetermine cfg c).grow
  | bodyIdentityClKnown => exact (keepIdx_resBodyIdentityClKnown cfg c).grow
  | bodyIdentityStreamClose => exact (keepIdx_resBodyIdentityStreamClose cfg c).grow
  | bodyChunkedLength => exact (keepIdx_resChunkedLengthLoop cfg _ c).grow
  | bodyChunkedData => exact (keepIdx_resBodyChunkedData cfg c).grow
  | bodyChunkedDataEnd => exact (keepIdx_resChunkedDataEndLoop _ c).grow
  | finalize => exact (keepIdx_resFinalize cfg c).grow

theorem keepIdx_resHandleStateChange (c : Conn) : KeepIdx c (resHandleStateChange c).1 := by
  unfold resHandleStateChange
  split
  · exact KeepIdx.refl c
  · simp only
    apply keepIdx_andThen
    · repeat' split
      all_goals first | exact KeepIdx.refl c | exact keepIdx_resReceiverSet _ c
    · intro c1; exact ⟨Kv.refl _⟩

/-! ### whole calls -/

/-- the for(;;) of htp_connp_res_data - data, gap or close, any fuel -/
theorem okIdx_resDriverLoop (cfg : Cfg) (gap : Bool) (fuel : Nat) (c : Conn) : OkIdx c (resDriverLoop cfg gap fuel c).1 := by
  induction fuel generalizing c with
  | zero => unfold resDriverLoop; exact ⟨Gv.refl _⟩
  | succ k ih =>
    unfold resDriverLoop
    simp only
    have tail : ∀ (c1 : Conn) (rc1 : Rc), OkIdx c c1 → OkIdx c
        (match (if (rc1 == Rc.ok) = true then
                  if (c1.out.status == STREAM_TUNNEL) = true then (c1, Rc.ok) else resHandleStateChange c1
                else (c1, rc1) : R) with
         | (c, rc) =>
          if (rc == Rc.ok) = true then
            if (c.out.status == STREAM_TUNNEL) = true then (c, STREAM_TUNNEL) else resDriverLoop cfg gap k c
          else if (rc == Rc.data || rc == Rc.dataBuffer) = true then
            (match resReceiverSend false c with
             | (c, _) =>
               if (rc == Rc.dataBuffer) = true then
                 (match c.out.buffer cfg.fieldLimitHard false with
                  | none => (({ c with out := { c.out with status := STREAM_ERROR } }, STREAM_ERROR) : Conn × Nat)
                  | some d => ({ c with out := { d with status := STREAM_DATA } }, STREAM_DATA))
               else ({ c with out := { c.out with status := STREAM_DATA } }, STREAM_DATA))
          else if (rc == Rc.stop) = true then ({ c with out := { c.out with status := STREAM_STOP } }, STREAM_STOP)
          else if (rc == Rc.dataOther) = true then
            (if c.out.read ≥ c.out.len then ({ c with out := { c.out with status := STREAM_DATA } }, STREAM_DATA)
             else ({ c with out := { c.out with status := STREAM_DATA_OTHER } }, STREAM_DATA_OTHER))
          else ({ c with out := { c.out with status := STREAM_ERROR } }, STREAM_ERROR)).1 := by
      intro c1 rc1 k1
      have k2 : OkIdx c (if (rc1 == Rc.ok) = true then
                  if (c1.out.status == STREAM_TUNNEL) = true then (c1, Rc.ok) else resHandleStateChange c1
                else (c1, rc1) : R).1 := by
        split
        · split
          · exact k1
          · exact k1.trans ((keepIdx_resHandleStateChange c1).grow)
        · exact k1
      generalize (if (rc1 == Rc.ok) = true then
                  if (c1.out.status == STREAM_TUNNEL) = true then (c1, Rc.ok) else resHandleStateChange c1
                else (c1, rc1) : R) = r2 at k2 ⊢
      obtain ⟨c2, rc2⟩ := r2
      simp only at k2 ⊢
      split
      · split
        · exact k2
        · exact k2.trans (ih c2)
      · split
        · have kk := (keepIdx_resReceiverSend false c2).grow
          rcases hz : resReceiverSend false c2 with ⟨c3, rc3⟩
          rw [hz] at kk
          simp only at kk ⊢
          split
          · cases hb : c3.out.buffer cfg.fieldLimitHard false with
            | none => exact (k2.trans kk).trans ⟨Gv.refl _⟩
            | some d => exact (k2.trans kk).trans ⟨Gv.refl _⟩
          · exact (k2.trans kk).trans ⟨Gv.refl _⟩
        · repeat' split
          all_goals exact k2.trans ⟨Gv.refl _⟩
    split
    · exact OkIdx.refl c
    · rename_i c1 rc1 hstep
      have k1 : OkIdx c c1 := by
        split at hstep
        · split at hstep
          · simp only [Option.some.injEq] at hstep
            have := okIdx_resStateFn cfg c
            rw [hstep] at this; exact this
          · split at hstep
            · split at hstep
              · rename_i uid _
                simp only [Option.some.injEq] at hstep
                have := (keepIdx_txStateResponseCompleteEx cfg uid c).grow
                rw [hstep] at this; exact this
              · simp only [Option.some.injEq, Prod.mk.injEq] at hstep
                rw [← hstep.1]; exact OkIdx.refl c
            · simp at hstep
        · simp only [Option.some.injEq] at hstep
          have := okIdx_resStateFn cfg c
          rw [hstep] at this; exact this
      exact tail c1 rc1 k1

theorem keepIdx_resStoreChunk (data : Option Bytes) (len : Nat) (c : Conn) : KeepIdx c (resStoreChunk data len c) := ⟨Kv.refl _⟩

/-- **htp_connp_res_data**: any data (a chunk, a stream gap, the NULL chunk of a close), any length -/
theorem okIdx_resData (cfg : Cfg) (data : Option Bytes) (len : Nat) (c : Conn) :
    OkIdx c (resData cfg data len c).1 := by
  unfold resData
  simp only
  have key : OkIdx c (resDataCore cfg data len c).1 := by
    unfold resDataCore
    split
    · exact ⟨Gv.refl _⟩
    split
    · exact ⟨Gv.refl _⟩
    split
    · exact ⟨Gv.refl _⟩
    split
    · exact ⟨Gv.refl _⟩
    simp only
    split
    · exact ⟨Gv.refl _⟩
    · exact ((keepIdx_resStoreChunk data len c).grow).trans (okIdx_resDriverLoop cfg _ _ _)
  exact ⟨key.le⟩

/-- htp_connp_open does not touch the list -/
theorem keepIdx_connOpen (c : Conn) : KeepIdx c (connOpen c) := by
  unfold connOpen
  split
  · exact KeepIdx.refl c
  · exact ⟨Kv.refl _⟩

theorem keepIdx_markClosedIn (c : Conn) : KeepIdx c (markClosedIn c) := by
  unfold markClosedIn
  split
  · exact ⟨Kv.refl _⟩
  · exact KeepIdx.refl c

theorem keepIdx_markClosedOut (c : Conn) : KeepIdx c (markClosedOut c) := by
  unfold markClosedOut
  split
  · exact ⟨Kv.refl _⟩
  · exact KeepIdx.refl c

/-- htp_connp_req_close -/
theorem okIdx_reqClose (cfg : Cfg) (c : Conn) : OkIdx c (reqClose cfg c).1 := by
  rw [reqClose_eq]
  exact ((keepIdx_markClosedIn c).grow).trans (okIdx_reqData cfg none 0 _)

/-- htp_connp_close -/
theorem okIdx_connClose (cfg : Cfg) (c : Conn) : OkIdx c (connClose cfg c).1 := by
  rw [connClose_fst]
  exact ((((keepIdx_markClosedIn c).trans (keepIdx_markClosedOut _)).grow).trans (okIdx_reqData cfg none 0 _)).trans
    (okIdx_resData cfg none 0 _)

/-- htp_connp_tx_freed drops leading empty slots and takes the index down by one for each -/
theorem okIdx_txFreedLoop (fuel : Nat) (c : Conn) (r : Nat) : OkIdx c (txFreedLoop fuel c r).1 := by
  induction fuel generalizing c r with
  | zero => unfold txFreedLoop; exact OkIdx.refl c
  | succ k ih =>
    unfold txFreedLoop
    split
    · rename_i rest heq
      have h1 : OkIdx c { c with txs := rest, outNextTxIndex := c.outNextTxIndex - 1 } := by
        refine ⟨⟨?_, id⟩⟩
        intro hi
        have hlen : c.txs.length = rest.length + 1 := by rw [heq]; rfl
        simp only at hi ⊢
        omega
      exact h1.trans (ih _ _)
    · exact OkIdx.refl c

theorem okIdx_txFreed (c : Conn) : OkIdx c (txFreed c).1 := okIdx_txFreedLoop _ c 0

/-- the exact step of htp_connp_tx_freed: `r` more slots dropped, the index down by the same number -/
theorem txFreedLoop_exact (fuel : Nat) (c : Conn) (r : Nat) :
    (txFreedLoop fuel c r).1.outNextTxIndex = c.outNextTxIndex - (((txFreedLoop fuel c r).2 - r : Nat) : Int) ∧
    (txFreedLoop fuel c r).1.txs.length + ((txFreedLoop fuel c r).2 - r) = c.txs.length ∧ r ≤ (txFreedLoop fuel c r).2 ∧
    (txFreedLoop fuel c r).1.connFlags = c.connFlags := by
  induction fuel generalizing c r with
  | zero => unfold txFreedLoop; simp
  | succ k ih =>
    unfold txFreedLoop
    split
    · rename_i rest heq
      obtain ⟨i1, i2, i3, i4⟩ := ih { c with txs := rest, outNextTxIndex := c.outNextTxIndex - 1 } (r + 1)
      have hlen : c.txs.length = rest.length + 1 := by rw [heq]; rfl
      simp only at i1 i2 i4
      refine ⟨?_, ?_, ?_, i4⟩
      · rw [i1]; omega
      · omega
      · omega
    · simp

/-- **htp_connp_tx_freed, exactly**: the index goes down by exactly the number of slots dropped (the returned count) -/
theorem txFreed_exact (c : Conn) :
    (txFreed c).1.outNextTxIndex = c.outNextTxIndex - ((txFreed c).2 : Int) ∧ (txFreed c).1.txs.length + (txFreed c).2 = c.txs.length := by
  have h := txFreedLoop_exact c.txs.length c 0
  unfold txFreed
  simp only [Nat.sub_zero] at h
  exact ⟨h.1, h.2.1⟩

/-! ### whole histories -/

theorem okIdx_runCall (cfg : Cfg) (c : Conn) (call : Call) : OkIdx c (runCall cfg c call) := by
  cases call with
  | req d => exact okIdx_reqData cfg _ _ c
  | res d => exact okIdx_resData cfg _ _ c
  | close => exact okIdx_connClose cfg c
  | reqClose => exact okIdx_reqClose cfg c
  | «open» => exact (keepIdx_connOpen c).grow
  | txFreed => exact okIdx_txFreed c

theorem okIdx_runCalls (cfg : Cfg) (c : Conn) (calls : List Call) : OkIdx c (runCalls cfg c calls) := by
  induction calls generalizing c with
  | nil => exact OkIdx.refl c
  | cons call rest ih => rw [runCalls_cons]; exact (okIdx_runCall cfg c call).trans (ih _)

theorem idxInv_fresh : IdxInv ({} : Conn) := by show (0 : Int) ≤ ((0 : Nat) : Int); decide

/-- **C04 (index), whole histories**: after any history of calls the response side does not point beyond the transaction list -/
theorem history_out_index_inv (cfg : Cfg) (c0 : Conn) (calls : List Call) (h : IdxInv c0) : IdxInv (runCalls cfg c0 calls) :=
  (okIdx_runCalls cfg c0 calls).le.1 h

theorem history_out_index_inv_prefix (cfg : Cfg) (c0 : Conn) (calls pre : List Call) (_hp : pre <+: calls) (h : IdxInv c0) :
    IdxInv (runCalls cfg c0 pre) := history_out_index_inv cfg c0 pre h

theorem history_out_index_inv_fresh (cfg : Cfg) (calls : List Call) : IdxInv (runCalls cfg {} calls) :=
  history_out_index_inv cfg {} calls idxInv_fresh

theorem history_out_index_inv_fresh_prefix (cfg : Cfg) (calls pre : List Call) (_hp : pre <+: calls) :
    IdxInv (runCalls cfg {} pre) := history_out_index_inv_fresh cfg pre

/-- **C04 (PIPELINED is sticky), whole histories** -/
theorem history_pipelined_sticky (cfg : Cfg) (c0 : Conn) (calls : List Call) (h : hasFlag c0.connFlags CONN_PIPELINED = true) :
    hasFlag (runCalls cfg c0 calls).connFlags CONN_PIPELINED = true :=
  (okIdx_runCalls cfg c0 calls).le.2 h

/-- set after a prefix of the history, set at its end -/
theorem history_pipelined_sticky_prefix (cfg : Cfg) (c0 : Conn) (calls pre : List Call) (hp : pre <+: calls)
    (h : hasFlag (runCalls cfg c0 pre).connFlags CONN_PIPELINED = true) :
    hasFlag (runCalls cfg c0 calls).connFlags CONN_PIPELINED = true := by
  obtain ⟨suf, rfl⟩ := hp
  rw [runCalls_append]
  exact history_pipelined_sticky cfg _ suf h

/-- the request data call does not write the index at all -/
theorem reqData_index (cfg : Cfg) (data : Option Bytes) (len : Nat) (c : Conn) :
    (reqData cfg data len c).1.outNextTxIndex = c.outNextTxIndex := (keepIdx_reqData cfg data len c).le.1

/-! ### the exact step of RES_IDLE -/

theorem resIdleUnmatched_index_step (cfg : Cfg) (c : Conn) :
    (resIdleUnmatched cfg c).1.outNextTxIndex = c.outNextTxIndex ∨ (resIdleUnmatched cfg c).1.outNextTxIndex = c.outNextTxIndex + 1 := by
  unfold resIdleUnmatched
  have k := keepIdx_txCreate cfg c
  rcases hx : txCreate cfg c with ⟨c2, u⟩
  rw [hx] at k
  simp only at k ⊢
  cases u with
  | none => exact Or.inl k.le.1
  | some uid =>
    simp only
    right
    have key : ∀ cm : Conn, cm.outNextTxIndex = c2.outNextTxIndex + 1 →
        (txStateResponseStart uid cm).1.outNextTxIndex = c.outNextTxIndex + 1 := by
      intro cm h1
      have a1 := (keepIdx_txStateResponseStart uid cm).le.1
      have b1 := k.le.1
      simp only at a1 b1
      rw [a1, h1, b1]
    exact key _ rfl

/-- **RES_IDLE moves the index by exactly one step, or not at all** (no data; creation refused) -/
theorem resIdle_index_step (cfg : Cfg) (c : Conn) :
    (resIdle cfg c).1.outNextTxIndex = c.outNextTxIndex ∨ (resIdle cfg c).1.outNextTxIndex = c.outNextTxIndex + 1 := by
  unfold resIdle
  split
  · exact Or.inl rfl
  · simp only []
    split
    · have hk : KeepIdx c (if c.inState == .finalize then (match c.inn.tx with | some uid => (txStateRequestComplete cfg uid c).1 | none => c) else c) := by
        split
        · split
          · exact keepIdx_txStateRequestComplete ..
          · exact KeepIdx.refl c
        · exact KeepIdx.refl c
      generalize (if c.inState == .finalize then (match c.inn.tx with | some uid => (txStateRequestComplete cfg uid c).1 | none => c) else c) = cm at hk ⊢
      have e := hk.le.1
      simp only at e
      rcases resIdleUnmatched_index_step cfg cm with h | h
      · left; rw [h, e]
      · right; rw [h, e]
    · rename_i t _
      right
      exact (keepIdx_txStateResponseStart t.uid
        { c with outNextTxIndex := c.outNextTxIndex + 1, out := { c.out with tx := some t.uid, contentLength := -1, bodyDataLeft := -1 } }).le.1

/-! ### non-vacuity, and the lower bound -/

/-- two pipelined requests in one chunk, then their two responses in one chunk: PIPELINED is raised by the second creation (the list
    holds 1 > index 0), the two responses attach in arrival order, the index ends at 2 = list length, PIPELINED is still set -/
example :
    let rq : Bytes := b!"GET / HTTP/1.1\r\nHost: h\r\n\r\n"
    let rs : Bytes := b!"HTTP/1.1 200 OK\r\nContent-Length: 0\r\n\r\n"
    let c1 := runCalls {} {} [.open, .req rq]
    let c2 := runCalls {} {} [.open, .req (rq ++ rq)]
    let c3 := runCalls {} {} [.open, .req (rq ++ rq), .res (rs ++ rs)]
    hasFlag c1.connFlags CONN_PIPELINED = false ∧
    c2.outNextTxIndex = 0 ∧ c2.txs.length = 2 ∧ hasFlag c2.connFlags CONN_PIPELINED = true ∧
    c3.outNextTxIndex = 2 ∧ c3.txs.length = 2 ∧ hasFlag c3.connFlags CONN_PIPELINED = true := by decide

/-- **the lower bound `0 ≤ out_next_tx_index` is not kept by htp_connp_tx_freed from an arbitrary state**: a list whose first slot is
    empty while the index is still 0 (`0 ≤ index ≤ length` holds) - htp_connp_tx_freed drops the slot and the index becomes -1. The
    model (like the C code) decrements without looking at the index. So `0 ≤ index` needs a stronger invariant (no empty slot at or
    after the index), which is not proved here; the upper bound `IdxInv` is inductive on its own. -/
example :
    let c0 : Conn := { txs := [none] }
    (0 ≤ c0.outNextTxIndex ∧ c0.outNextTxIndex ≤ (c0.txs.length : Int)) ∧
    (txFreed c0).1.outNextTxIndex = -1 ∧ (txFreed c0).1.txs.length = 0 ∧ (txFreed c0).2 = 1 := by decide

end Htp.Conn
